//go:build verif

package xprotocol

// C09 (upstream connection pools), units "xproto-keepalive" and "xproto-keepalive-schedules":
// the three xprotocol pools with KEEP-ALIVE HEARTBEATS in the alphabet (c09.Heartbeats, see
// mosn.io/mosn/pkg/verifrt/c09/engine.go for the events hb / hback / hbto and the model).
//
// How the pools install the keep-alive (read from the code):
//
//   - all three (connpool_pingpong.go newActiveClient, connpool_multiplex.go newActiveClient,
//     connpool_binding.go newActiveClient): if the codec's api.XProtocol implements api.Heartbeater
//     and Trigger(ctx, 0) != nil, NewKeepAliveWithConfig(codecClient, proto, cluster keep-alive
//     config) is created per connection and a keepAliveListener{keepAlive} is registered as a
//     connection event listener: api.OnReadTimeout (pkg/network's read loop: a read timed out, also
//     while a request waits for its answer) -> SendKeepAlive -> sendKeepAlive: the heartbeat is a
//     client stream created DIRECTLY on the codec client (kp.Codec.NewStream(ctx, kp)), not through
//     the pool: no lease, no upstream_request_active / Requests accounting, the pool does not listen
//     to it; it is registered in streamConn.clientStreams, which is what
//     codecClient.ActiveRequestsNum() = streamConn.ActiveStreamsNum() counts.
//   - the answer (handleResponse) removes the stream from clientStreams and runs
//     kp.OnReceive -> HandleSuccess (fail count 0); the timeout (utils.NewTimer(kp.Timeout)) runs
//     HandleTimeout: fail count +1, at FailCountToClose consecutive failures kp.Codec.Close().
//     A timed-out heartbeat is NOT removed from clientStreams (only a late answer or the close of
//     the connection removes it).
//   - Shutdown stops the keep-alive of the clients it can see (ping-pong: the idle ones).
//
// Codecs: "vboltpphb" / "vboltbindhb" = the real bolt api.XProtocol as a ping-pong / binding
// protocol WITH its heartbeats (Trigger / Reply are bolt's); the multiplex pool runs the real
// "bolt" codec as in the unit xproto-multiplex - there the keep-alive always existed but never
// saw a read timeout. The units without heartbeats (vboltpp, vboltbind) are unchanged.
//
// Time is virtual: the driver stops a heartbeat's utils.Timer as soon as it was armed
// (DisarmTimeout) and runs the keep-alive's timeout callback HandleTimeout(id) - all the timer's
// callback keepAliveTimeout.onTimeout does - when the event hbto is applied (FireTimeout).
// FailCountToClose is set to 2 for these tests (RefreshKeepaliveConfig, the exported knob; default
// 6) so that the keep-alive's own close is within the depth bound. The connection idle-free
// (idlefree.go, off unless SetIdleTimeout was called) is not in the alphabet.

import (
	"context"
	"fmt"
	"reflect"
	"runtime"
	"sync"
	"testing"
	"time"
	"unsafe"

	"mosn.io/api"
	xproto "mosn.io/mosn/pkg/protocol/xprotocol"
	"mosn.io/mosn/pkg/protocol/xprotocol/bolt"
	"mosn.io/mosn/pkg/types"
	"mosn.io/mosn/pkg/verifrt/c09"
	"mosn.io/mosn/pkg/verifrt/vfake"
	"mosn.io/pkg/buffer"
)

// ---------------------------------------------------------------------------
// codecs with heartbeats

const (
	c09PPHBName   api.ProtocolName = "vboltpphb"
	c09BindHBName api.ProtocolName = "vboltbindhb"
)

type c09PPHBProto struct{ api.XProtocol }

func (p c09PPHBProto) Name() api.ProtocolName { return c09PPHBName }
func (p c09PPHBProto) PoolMode() api.PoolMode { return api.PingPong }
func (p c09PPHBProto) EnableWorkerPool() bool { return true }

type c09BindHBProto struct{ api.XProtocol }

func (p c09BindHBProto) Name() api.ProtocolName { return c09BindHBName }
func (p c09BindHBProto) PoolMode() api.PoolMode { return api.TCP }
func (p c09BindHBProto) EnableWorkerPool() bool { return true }

type c09HBCodec struct {
	name api.ProtocolName
	wrap func(api.XProtocol) api.XProtocol
}

func (c *c09HBCodec) ProtocolName() api.ProtocolName { return c.name }
func (c *c09HBCodec) NewXProtocol(ctx context.Context) api.XProtocol {
	return c.wrap(c09bolt.NewXProtocol(ctx))
}
func (c *c09HBCodec) ProtocolMatch() api.ProtocolMatch { return c09bolt.ProtocolMatch() }
func (c *c09HBCodec) HTTPMapping() api.HTTPMapping     { return c09bolt.HTTPMapping() }

var (
	c09pphb   = &c09HBCodec{c09PPHBName, func(p api.XProtocol) api.XProtocol { return c09PPHBProto{p} }}
	c09bindhb = &c09HBCodec{c09BindHBName, func(p api.XProtocol) api.XProtocol { return c09BindHBProto{p} }}
	c09KAOnce sync.Once
)

func c09KAInit() {
	c09Init()
	c09KAOnce.Do(func() {
		for _, c := range []api.XProtocolCodec{c09pphb, c09bindhb} {
			if err := xproto.RegisterXProtocolCodec(c); err != nil {
				panic(err)
			}
		}
	})
}

// c09KATune sets the keep-alive's fail count to close to 2 for the duration of a test.
func c09KATune() func() {
	c := DefaultKeepaliveConfig
	c.FailCountToClose = 2
	RefreshKeepaliveConfig(c)
	return func() { RefreshKeepaliveConfig(DefaultKeepaliveConfig) }
}

// ---------------------------------------------------------------------------
// c09.Heartbeats, shared by the three drivers

type c09KA struct{}

// c09KeepAliveOf finds the keep-alive the pool installed on a fake connection: the pool registers a
// keepAliveListener (and the keep-alive registers itself) with AddConnectionEventListener; the
// fake keeps its listeners in an unexported field.
func c09KeepAliveOf(fc *vfake.Conn) *xprotocolKeepAlive {
	f := reflect.ValueOf(fc).Elem().FieldByName("listeners")
	if !f.IsValid() {
		panic("vfake.Conn has no field listeners")
	}
	ls := *(*[]api.ConnectionEventListener)(unsafe.Pointer(f.UnsafeAddr()))
	for _, l := range ls {
		if kl, ok := l.(*keepAliveListener); ok {
			if kp, ok := kl.keepAlive.(*xprotocolKeepAlive); ok {
				return kp
			}
		}
	}
	return nil
}

func c09DecodeHeartbeat(b []byte) (api.XFrame, error) {
	buf := buffer.NewIoBufferBytes(append([]byte(nil), b...))
	f, err := c09bolt.NewXProtocol(context.Background()).Decode(context.Background(), buf)
	if err != nil {
		return nil, err
	}
	req, ok := f.(*bolt.Request)
	if !ok || !req.IsHeartbeatFrame() || req.GetStreamType() != api.Request {
		return nil, fmt.Errorf("the bytes decode to %T, not to a heartbeat request", f)
	}
	if buf.Len() != 0 {
		return nil, fmt.Errorf("%d bytes follow the heartbeat request", buf.Len())
	}
	return req, nil
}

func (c09KA) HeartbeatID(b []byte) (uint64, bool) {
	f, err := c09DecodeHeartbeat(b)
	if err != nil {
		return 0, false
	}
	return f.GetRequestId(), true
}

func (c09KA) HeartbeatAck(hb []byte) ([]byte, error) {
	f, err := c09DecodeHeartbeat(hb)
	if err != nil {
		return nil, err
	}
	// what a bolt server answers (streamConn.handleRequest: protocol.Reply)
	return c09Encode(c09bolt.NewXProtocol(context.Background()).Reply(context.Background(), f)), nil
}

func (c09KA) Watch(fc *vfake.Conn, cb func(timeout bool)) error {
	kp := c09KeepAliveOf(fc)
	if kp == nil {
		return fmt.Errorf("connection has no keep-alive")
	}
	kp.AddCallback(func(s types.KeepAliveStatus) { cb(s == types.KeepAliveTimeout) })
	return nil
}

func (c09KA) DisarmTimeout(fc *vfake.Conn, id uint64) error {
	kp := c09KeepAliveOf(fc)
	if kp == nil {
		return fmt.Errorf("connection has no keep-alive")
	}
	kp.mutex.Lock()
	t := kp.requests[id]
	kp.mutex.Unlock()
	if t != nil {
		t.timer.Stop()
	}
	return nil
}

func (c09KA) FireTimeout(fc *vfake.Conn, id uint64) error {
	kp := c09KeepAliveOf(fc)
	if kp == nil {
		return fmt.Errorf("connection has no keep-alive")
	}
	kp.HandleTimeout(id) // = keepAliveTimeout.onTimeout
	return nil
}

func (c09KA) KeepAliveState(fc *vfake.Conn) string {
	kp := c09KeepAliveOf(fc)
	if kp == nil {
		return "ka=none"
	}
	stopped := false
	select {
	case <-kp.stop:
		stopped = true
	default:
	}
	kp.mutex.Lock()
	n := len(kp.requests)
	kp.mutex.Unlock()
	return fmt.Sprintf("ka{fail=%d prev=%v tick=%d stop=%v wait=%d reg=%d}", kp.heartbeatFailCount.Load(), kp.previousIsSucc.Load(), kp.tickCount.Load(), stopped, n, kp.Codec.ActiveRequestsNum())
}

func (c09KA) FailCountToClose() int {
	return int(xprotoKeepaliveConfig.Load().(KeepaliveConfig).FailCountToClose)
}

func (c09KA) MaxStale() int { return 2 }

// ---------------------------------------------------------------------------
// drivers

type c09PingPongHB struct {
	c09PingPong
	c09KA
}

func (c09PingPongHB) Name() string { return "xproto-pingpong-hb" }

// (the runtime threshold changes are enumerated by the unit xproto-pingpong, not again with heartbeats)
func (c09PingPongHB) LimitEvents() (int, []uint32) { return 0, nil }
func (c09PingPongHB) NewPool(ctx context.Context, host types.Host) types.ConnectionPool {
	c09KAInit()
	p := NewConnPool(ctx, c09pphb, host)
	if _, ok := p.(*poolPingPong); !ok {
		panic(fmt.Sprintf("vboltpphb did not select the ping-pong pool: %T", p))
	}
	return p
}

type c09MultiplexHB struct {
	c09Multiplex
	c09KA
}

func (c09MultiplexHB) Name() string { return "xproto-multiplex-hb" }

// Quiesce: poolMultiplex.Shutdown runs on its own goroutine, which first sets p.shutdown and then
// stops the keep-alives of the clients in the slots: also wait for the second half (the pool
// creates no client after p.shutdown was set, so the wait ends; a timeout is a HARNESS error).
func (d c09MultiplexHB) Quiesce(pool types.ConnectionPool, shutdownRequested bool) error {
	if err := d.c09Multiplex.Quiesce(pool, shutdownRequested); err != nil {
		return err
	}
	p := pool.(*poolMultiplex)
	deadline := time.Now().Add(20 * time.Second)
	for n := 0; ; n++ {
		p.clientMux.Lock()
		sd := p.shutdown
		p.clientMux.Unlock()
		if !sd {
			return nil
		}
		running := false
		for i := range p.activeClients {
			p.activeClients[i].Range(func(k, v interface{}) bool {
				if ac := v.(*activeClientMultiplex); ac.keepAlive != nil {
					if kp, ok := ac.keepAlive.keepAlive.(*xprotocolKeepAlive); ok {
						select {
						case <-kp.stop:
						default:
							running = true
						}
					}
				}
				return true
			})
		}
		if !running {
			return nil
		}
		if time.Now().After(deadline) {
			return fmt.Errorf("multiplex pool: 20s after Shutdown a keep-alive of a client in a slot is still running")
		}
		if n < 200 {
			runtime.Gosched()
		} else {
			time.Sleep(50 * time.Microsecond)
		}
	}
}

type c09BindingHB struct {
	*c09Binding
	c09KA
}

func (d c09BindingHB) Name() string { return "xproto-binding-hb" }
func (d c09BindingHB) NewPool(ctx context.Context, host types.Host) types.ConnectionPool {
	c09KAInit()
	d.down = nil
	d.bound = map[*vfake.Conn]*vfake.Conn{}
	p := NewConnPool(ctx, c09bindhb, host)
	if _, ok := p.(*poolBinding); !ok {
		panic(fmt.Sprintf("vboltbindhb did not select the binding pool: %T", p))
	}
	return p
}

// The test names must not match the run patterns of the C09 units without heartbeats nor those of
// the C10 pool units (^TestVerifC10Pool...), which compile this file in ("also": ["C09"]).

func TestVerifC09KAPingPong(t *testing.T) {
	defer c09KATune()()
	c09.Main(t, c09PingPongHB{}, 6, 9)
}

func TestVerifC09KAMultiplex(t *testing.T) {
	defer c09KATune()()
	c09.Main(t, c09MultiplexHB{}, 6, 9)
}

func TestVerifC09KABinding(t *testing.T) {
	defer c09KATune()()
	c09.Main(t, c09BindingHB{c09Binding: &c09Binding{}}, 6, 9)
}

// Built with the "proxy" rewrite set like TestVerifC09PingPongSchedules.
func TestVerifC09KAPingPongSchedules(t *testing.T) {
	defer c09KATune()()
	c09.MainSchedules(t, c09PingPongHB{}, c09.KeepAliveScenarios(), 2, 3, 3)
}
