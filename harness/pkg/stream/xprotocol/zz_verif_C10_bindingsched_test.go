//go:build verif

package xprotocol

// C10 (circuit-breaker and active-gauge accounting is conserved), unit "pool-binding-schedules":
// the concurrent (E1) accounting part for the xprotocol BINDING pool (connpool_binding.go), which so
// far had the sequential accounting BFS only (unit pool-xproto).
//
// Scenarios, world and execution are those of the C09 unit xproto-binding-schedules
// (zz_verif_C09_bindingsched_test.go, compiled into this unit with "also": ["C09"]); here only the
// statement of C10 is judged:
//
//   - a monitor at EVERY scheduling step between the start of the threads and quiescence
//     (vrt.Options.Monitor) reads Requests.Cur, Connections.Cur and the host / cluster gauges
//     upstream_request_active and upstream_connection_active: never negative;
//   - at exact quiescence, after every remaining stream was answered, after the capacity probe and
//     after every downstream connection was closed: Requests.Cur == in-flight streams (max_requests=8:
//     the resource counts and never trips), both upstream_request_active gauges == in-flight streams,
//     both upstream_connection_active gauges == open connections, Connections.Cur in {0, open
//     connections}; after the teardown everything is closed, so every Increase was matched by exactly
//     one Decrease and every counter is back at its idle value.
//
// Thresholds tripping at their values (max_requests) is judged sequentially by the BFS unit
// pool-xproto; the CanCreate()/Increase() check-then-act under concurrency is the recorded finding
// P1 of findings/C10-pools.md for every pool and is not repeated here.
//
// Built with the rewrite set "proxy".

import "testing"

func TestVerifC10PoolBindingSchedules(t *testing.T) {
	c09BSMain(t, "C10", "xproto-binding-accounting-schedules", 2, 3)
}
