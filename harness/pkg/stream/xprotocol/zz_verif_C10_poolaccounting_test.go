//go:build verif

package xprotocol

// C10 (circuit-breaker and active-gauge accounting is conserved), pool-level units for the
// xprotocol pools the proxy unit ("accounting", bolt multiplex only) does not reach:
//
//   - xproto-pingpong (connpool_pingpong.go): BFS + schedule part, through the C09 driver
//     c09PingPong (zz_verif_C09_pools_test.go, compiled into these units with "also": ["C09"]):
//     the real bolt codec registered as ping-pong protocol "vboltpp".
//   - xproto-binding (connpool_binding.go): BFS, driver c10Binding below.
//
// Search, reference model and oracle A1-A4 are in mosn.io/mosn/pkg/verifrt/c09/accounting.go.

import (
	"context"
	"fmt"
	"os"
	"sort"
	"sync"
	"sync/atomic"
	"testing"

	"mosn.io/api"
	xproto "mosn.io/mosn/pkg/protocol/xprotocol"
	"mosn.io/mosn/pkg/types"
	"mosn.io/mosn/pkg/verifrt/c09"
	"mosn.io/mosn/pkg/verifrt/vfake"
	"mosn.io/pkg/variable"
)

func TestVerifC10PoolPingPong(t *testing.T) {
	c09.MainAccounting(t, c09PingPong{}, c09.AccSpec{ConnPerStream: true}, 7, 11)
}

// Built with the "proxy" rewrite set (pkg/stream, pkg/stream/xprotocol, pkg/upstream/cluster instrumented).
func TestVerifC10PoolPingPongSchedules(t *testing.T) {
	c09.MainAccountingSchedules(t, c09PingPong{}, c09.AccSpec{ConnPerStream: true}, c09.AccScenarios(), 2, 3, 2)
}

// ---------------------------------------------------------------------------
// binding pool (connpool_binding.go)
//
// Selected by a codec whose PoolMode() is neither Multiplex nor PingPong: "vboltbind" = the real
// bolt api.XProtocol with PoolMode() api.TCP and heartbeats off. The pool binds one upstream
// client to each DOWNSTREAM connection (types.VariableConnectionID / VariableConnection of the
// request context) and multiplexes that connection's requests over it; when either side closes,
// the pool closes the other. The driver keeps ONE downstream connection (a vfake server-side
// connection) per world and replaces it by a fresh one once it was closed (a closed downstream
// connection sends no more requests; the next request comes from a new client connection). Every
// client the pool hands out is bound to the current downstream connection (addDownConnListenerOnce
// runs in every NewStream) and closing it closes all of them, so the canonical state (open
// connections, slots) still determines the futures.
//
// Extra event dclose: the downstream connection closes (the statement's "downstream disconnect").
//
// Not applied: pool Close and Shutdown. Both hold poolBinding.clientMux while they call into
// code that locks it again (Close: connpool_binding.go:130-137 -> synchronous close event ->
// activeClientBinding.OnEvent -> removeFromPool :243-250; Shutdown :139-150 -> OnGoAway :350-351
// -> removeFromPool): with one client in the pool the caller waits for itself. That is a
// defect of the C09 kind (the same one was repaired in the ping-pong and HTTP/1 pools by commit
// 76f1d5986), not a statement about counters: the events are left out of this pool's alphabet
// and the defect is mentioned in findings/C10-pools.md.

const c10BindName api.ProtocolName = "vboltbind"

type c10BindProto struct{ api.XProtocol }

func (p c10BindProto) Name() api.ProtocolName { return c10BindName }
func (p c10BindProto) PoolMode() api.PoolMode { return api.TCP }
func (p c10BindProto) EnableWorkerPool() bool { return true }
func (p c10BindProto) Trigger(ctx context.Context, requestId uint64) api.XFrame {
	return nil // heartbeats disabled: the pool creates no keep-alive for this codec
}

type c10BindCodec struct{}

func (c *c10BindCodec) ProtocolName() api.ProtocolName { return c10BindName }
func (c *c10BindCodec) NewXProtocol(ctx context.Context) api.XProtocol {
	return c10BindProto{c09bolt.NewXProtocol(ctx)}
}
func (c *c10BindCodec) ProtocolMatch() api.ProtocolMatch { return c09bolt.ProtocolMatch() }
func (c *c10BindCodec) HTTPMapping() api.HTTPMapping     { return c09bolt.HTTPMapping() }

var c10Once sync.Once
var c10bind = &c10BindCodec{}

type c10Binding struct {
	c09Common
	down *vfake.Conn
}

func (*c10Binding) Name() string   { return "xproto-binding" }
func (*c10Binding) Kind() c09.Kind { return c09.Multiplex }
func (*c10Binding) Guarded() bool  { return true }

func (d *c10Binding) NewPool(ctx context.Context, host types.Host) types.ConnectionPool {
	c09Init()
	c10Once.Do(func() {
		if err := xproto.RegisterXProtocolCodec(c10bind); err != nil {
			panic(err)
		}
	})
	d.down = nil
	p := NewConnPool(ctx, c10bind, host)
	if _, ok := p.(*poolBinding); !ok {
		panic(fmt.Sprintf("vboltbind did not select the binding pool: %T", p))
	}
	return p
}

func (d *c10Binding) NewCtx() context.Context {
	if d.down == nil || d.down.IsClosed() {
		d.down = vfake.NewServerSide("down")
	}
	ctx := d.c09Common.NewCtx()
	if err := variable.Set(ctx, types.VariableConnectionID, d.down.ID()); err != nil {
		panic(err)
	}
	if err := variable.Set(ctx, types.VariableConnection, api.Connection(d.down)); err != nil {
		panic(err)
	}
	return ctx
}

func (*c10Binding) Prepare(pool types.ConnectionPool, ctx context.Context) (bool, error) {
	return pool.CheckAndInit(ctx), nil
}
func (*c10Binding) Quiesce(pool types.ConnectionPool, shutdownRequested bool) error { return nil }
func (*c10Binding) PredictDeadlock(pool types.ConnectionPool, ev string, conn *vfake.Conn) (string, string) {
	return "", ""
}

func (*c10Binding) Books(pool types.ConnectionPool) c09.Books {
	p := pool.(*poolBinding)
	p.clientMux.Lock()
	defer p.clientMux.Unlock()
	ids := make([]uint64, 0, len(p.idleClients))
	for id := range p.idleClients {
		ids = append(ids, id)
	}
	sort.Slice(ids, func(i, j int) bool { return ids[i] < ids[j] })
	b := c09.Books{}
	for _, id := range ids {
		ac := p.idleClients[id]
		st := "Connected"
		if atomic.LoadUint32(&ac.goaway) == GoAway {
			st = "GoAway"
		}
		b.Slots = append(b.Slots, c09.SlotBook{Present: true, State: st, Conn: c09Fake(ac.host.Connection)})
	}
	return b
}

func (d *c10Binding) ExtraEnabled(pool types.ConnectionPool) []string {
	if d.down != nil && !d.down.IsClosed() {
		return []string{"dclose"}
	}
	return nil
}

func (d *c10Binding) ApplyExtra(pool types.ConnectionPool, ev string) string {
	d.down.Close(api.NoFlush, api.RemoteClose)
	return "closed"
}

func TestVerifC10PoolBinding(t *testing.T) {
	spec := c09.AccSpec{
		SkipEvents: map[string]bool{"close": true, "shutdown": true},
		Why:        "poolBinding.Close and Shutdown self-deadlock on clientMux as soon as the pool holds a client (connpool_binding.go:130-150 -> removeFromPool :243-250): a liveness defect outside the accounting statement",
	}
	if v := os.Getenv("VERIF_C10_BINDING_CLOSE"); v != "" {
		// development switch: apply Close and/or Shutdown all the same (=close, =shutdown, anything
		// else: both) to re-check the claim above, or after the pool was repaired; a self-deadlock
		// shows as a harness timeout with the stack of the blocked goroutine
		switch v {
		case "close", "shutdown":
			delete(spec.SkipEvents, v)
		default:
			spec.SkipEvents = nil
		}
	}
	c09.MainAccounting(t, &c10Binding{}, spec, 7, 11)
}
