//go:build verif

package xprotocol

// C10 (circuit-breaker and active-gauge accounting is conserved), pool-level units for the
// xprotocol pools the proxy unit ("accounting", bolt multiplex only) does not reach:
//
//   - xproto-pingpong (connpool_pingpong.go): BFS + schedule part, through the C09 driver
//     c09PingPong (zz_verif_C09_pools_test.go, compiled into these units with "also": ["C09"]):
//     the real bolt codec registered as ping-pong protocol "vboltpp".
//   - xproto-binding (connpool_binding.go): BFS, driver c10Binding below.
//
// Search, reference model and oracle A1-A4 are in mosn.io/mosn/pkg/verifrt/c09/accounting.go.

import (
	"testing"

	"mosn.io/mosn/pkg/verifrt/c09"
)

func TestVerifC10PoolPingPong(t *testing.T) {
	c09.MainAccounting(t, c09PingPong{}, c09.AccSpec{ConnPerStream: true}, 6, 9)
}

// Built with the "proxy" rewrite set (pkg/stream, pkg/stream/xprotocol, pkg/upstream/cluster instrumented).
func TestVerifC10PoolPingPongSchedules(t *testing.T) {
	c09.MainAccountingSchedules(t, c09PingPong{}, c09.AccSpec{ConnPerStream: true}, c09.AccScenarios(), 2, 3, 2)
}
