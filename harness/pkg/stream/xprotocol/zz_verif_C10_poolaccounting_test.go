//go:build verif

package xprotocol

// C10 (circuit-breaker and active-gauge accounting is conserved), pool-level units for the
// xprotocol pools the proxy unit ("accounting", bolt multiplex only) does not reach:
//
//   - xproto-pingpong (connpool_pingpong.go): BFS + schedule part, through the C09 driver
//     c09PingPong (zz_verif_C09_pools_test.go, compiled into these units with "also": ["C09"]):
//     the real bolt codec registered as ping-pong protocol "vboltpp".
//   - xproto-binding (connpool_binding.go): BFS, driver c09Binding (zz_verif_C09_binding_test.go,
//     compiled in the same way): the real bolt codec as protocol "vboltbind" with PoolMode() TCP;
//     extra event dclose (the downstream connection closes). Pool Close and Shutdown are not
//     applied here: they self-deadlock on the unchanged tree (C09 finding F8, findings/C09.md).
//
// Search, reference model and oracle A1-A4 are in mosn.io/mosn/pkg/verifrt/c09/accounting.go.

import (
	"os"
	"testing"

	"mosn.io/mosn/pkg/verifrt/c09"
)

func TestVerifC10PoolPingPong(t *testing.T) {
	c09.MainAccounting(t, c09PingPong{}, c09.AccSpec{ConnPerStream: true}, 7, 11)
}

// Built with the "proxy" rewrite set (pkg/stream, pkg/stream/xprotocol, pkg/upstream/cluster instrumented).
func TestVerifC10PoolPingPongSchedules(t *testing.T) {
	c09.MainAccountingSchedules(t, c09PingPong{}, c09.AccSpec{ConnPerStream: true}, c09.AccScenarios(), 2, 3, 2)
}

func TestVerifC10PoolBinding(t *testing.T) {
	spec := c09.AccSpec{
		SkipEvents: map[string]bool{"close": true, "shutdown": true},
		Why:        "poolBinding.Close and Shutdown self-deadlock on clientMux as soon as the pool holds a client (connpool_binding.go:130-150 -> removeFromPool :243-250): a liveness defect outside the accounting statement",
	}
	if v := os.Getenv("VERIF_C10_BINDING_CLOSE"); v != "" {
		// development switch: apply Close and/or Shutdown all the same (=close, =shutdown, anything
		// else: both) to re-check the claim above, or after the pool was repaired; a self-deadlock
		// shows as a harness timeout with the stack of the blocked goroutine
		switch v {
		case "close", "shutdown":
			delete(spec.SkipEvents, v)
		default:
			spec.SkipEvents = nil
		}
	}
	c09.MainAccounting(t, &c09Binding{}, spec, 7, 11)
}
