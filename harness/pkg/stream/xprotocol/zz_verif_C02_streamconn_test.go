//go:build verif

package xprotocol

// C02 (part A): one real client stream connection (bolt) over a fake
// connection; 2-3 concurrent senders, one reader delivering a scripted reply
// list (every permutation, plus duplicate / unknown-id / late replies), local
// resets, request-id counter wrap-around. Every reply delivered to a receiver
// must carry that receiver's own token, at most once, never after its reset.

import (
	"context"
	"fmt"
	"reflect"
	"strings"
	"sync"
	"testing"
	"time"

	"mosn.io/api"
	xproto "mosn.io/mosn/pkg/protocol/xprotocol"
	"mosn.io/mosn/pkg/protocol/xprotocol/bolt"
	"mosn.io/mosn/pkg/protocol/xprotocol/boltv2"
	"mosn.io/mosn/pkg/stream"
	"mosn.io/mosn/pkg/types"
	"mosn.io/mosn/pkg/verifrt/vfake"
	"mosn.io/mosn/pkg/verifrt/vreport"
	"mosn.io/mosn/pkg/verifrt/vrt"
	"mosn.io/pkg/buffer"
	"mosn.io/pkg/variable"
)

type c02aCase struct {
	Name    string   `json:"name"`
	Senders int      `json:"senders"`
	Replies []string `json:"replies"` // tokens in delivery order; "dup:<t>", "unknown", "late:<t>" (after t's reset)
	Resets  []int    `json:"resets"`  // senders whose stream is reset locally (as a timeout does) after the request was written
	Base    uint64   `json:"base"`    // preset of the connection's request-id counter
	Bound   int      `json:"bound"`
	Choices []int    `json:"choices,omitempty"`
}

var c02aOnce sync.Once

func c02aInit() {
	c02aOnce.Do(func() {
		xproto.RegisterXProtocolAction(NewConnPool, NewStreamFactory, func(codec api.XProtocolCodec) {})
		_ = xproto.RegisterXProtocolCodec(&bolt.XCodec{})
		_ = xproto.RegisterXProtocolCodec(&boltv2.XCodec{})
	})
}

type c02aHdr map[string]string

func (h c02aHdr) Get(k string) (string, bool) { v, ok := h[k]; return v, ok }
func (h c02aHdr) Set(k, v string)             { h[k] = v }
func (h c02aHdr) Add(k, v string)             { h[k] = v }
func (h c02aHdr) Del(k string)                { delete(h, k) }
func (h c02aHdr) Range(f func(k, v string) bool) {
	for k, v := range h {
		if !f(k, v) {
			return
		}
	}
}
func (h c02aHdr) Clone() api.HeaderMap { c := c02aHdr{}; for k, v := range h { c[k] = v }; return c }
func (h c02aHdr) ByteSize() uint64     { return 0 }

type c02aRecv struct {
	idx      int
	got      []string // "hdrToken/bodyToken"
	resetAt  int      // len(got) when the local reset was issued (-1: never)
	decodeEr int
}

func (r *c02aRecv) OnReceive(ctx context.Context, headers api.HeaderMap, data buffer.IoBuffer, trailers api.HeaderMap) {
	t, _ := headers.Get("token")
	b := ""
	if data != nil {
		b = strings.TrimPrefix(data.String(), "resp-of-")
	}
	r.got = append(r.got, t+"/"+b)
}
func (r *c02aRecv) OnDecodeError(ctx context.Context, err error, headers api.HeaderMap) { r.decodeEr++ }

type c02aObs struct {
	recv   []*c02aRecv
	frames int
}

func c02aEncode(frame interface{}) []byte {
	proto := (&bolt.XCodec{}).NewXProtocol(context.Background())
	b, err := proto.Encode(context.Background(), frame)
	if err != nil {
		panic(err)
	}
	return append([]byte(nil), b.Bytes()...)
}

func c02aBody(c *c02aCase, obs *c02aObs) {
	c02aInit()
	vfake.Reset()
	conn := vfake.NewClientSide("up", nil)
	ctx := variable.NewVariableContext(context.Background())
	cl := stream.NewStreamClient(ctx, bolt.ProtocolName, conn, nil)
	if err := cl.Connect(); err != nil {
		panic(err)
	}
	// the stream connection inside the client (exported field of an unexported type)
	sc := reflect.ValueOf(cl).Elem().FieldByName("ClientStreamConnection").Interface().(*streamConn)
	sc.clientStreamIDBase = c.Base
	obs.recv = nil
	senders := make([]types.StreamSender, c.Senders)
	sent := make([]bool, c.Senders)
	for i := 0; i < c.Senders; i++ {
		obs.recv = append(obs.recv, &c02aRecv{idx: i, resetAt: -1})
	}
	// token -> request id, learnt from the bytes written on the wire
	ids := map[string]uint32{}
	parsed := 0
	learn := func() {
		w := conn.Written()
		proto := (&bolt.XCodec{}).NewXProtocol(context.Background())
		buf := buffer.NewIoBufferBytes(append([]byte(nil), w[parsed:]...))
		for buf.Len() > 0 {
			before := buf.Len()
			f, err := proto.Decode(context.Background(), buf)
			if err != nil || f == nil {
				break
			}
			parsed += before - buf.Len()
			if rq, ok := f.(*bolt.Request); ok {
				t, _ := rq.Get("token")
				ids[t] = rq.RequestId
				obs.frames++
			}
		}
	}
	for i := 0; i < c.Senders; i++ {
		i := i
		vrt.GoNamed(fmt.Sprintf("sender%d", i), func() {
			sctx := buffer.NewBufferPoolContext(variable.NewVariableContext(context.Background()))
			s := cl.NewStream(sctx, obs.recv[i])
			senders[i] = s
			tok := fmt.Sprintf("t%d", i)
			req := bolt.NewRpcRequest(0, c02aHdr{"token": tok}, buffer.NewIoBufferString("body-of-"+tok))
			req.Timeout = 0
			s.AppendHeaders(sctx, req, true)
			sent[i] = true
		})
	}
	for _, j := range c.Resets {
		j := j
		vrt.GoNamed(fmt.Sprintf("env:resetter%d", j), func() {
			vrt.WaitUntil("request written", func() bool { return sent[j] })
			senders[j].GetStream().ResetStream(types.StreamLocalReset)
			// from here on the stream is reset: nothing may be delivered any more
			obs.recv[j].resetAt = len(obs.recv[j].got)
		})
	}
	vrt.GoNamed("env:reader", func() {
		for _, r := range c.Replies {
			kind, tok := "reply", r
			if strings.HasPrefix(r, "dup:") {
				kind, tok = "dup", r[4:]
			} else if strings.HasPrefix(r, "late:") {
				kind, tok = "late", r[5:]
			} else if r == "unknown" {
				kind, tok = "unknown", ""
			}
			var idx int
			fmt.Sscanf(tok, "t%d", &idx)
			switch kind {
			case "unknown":
				conn.InjectRead(c02aEncode(bolt.NewRpcResponse(0x7fff0000, bolt.ResponseStatusSuccess, c02aHdr{"token": "nobody"}, buffer.NewIoBufferString("resp-of-nobody"))))
				continue
			case "late":
				vrt.WaitUntil("stream was reset", func() bool { return obs.recv[idx].resetAt >= 0 })
			}
			vrt.WaitUntil("request on the wire", func() bool { learn(); _, ok := ids[tok]; return ok })
			conn.InjectRead(c02aEncode(bolt.NewRpcResponse(ids[tok], bolt.ResponseStatusSuccess, c02aHdr{"token": tok}, buffer.NewIoBufferString("resp-of-"+tok))))
		}
	})
	vrt.Quiesce()
	learn()
}

func c02aCases() []c02aCase {
	var out []c02aCase
	perms := func(n int) [][]string {
		var res [][]string
		var rec func(cur []string, used []bool)
		rec = func(cur []string, used []bool) {
			if len(cur) == n {
				res = append(res, append([]string(nil), cur...))
				return
			}
			for i := 0; i < n; i++ {
				if !used[i] {
					used[i] = true
					rec(append(cur, fmt.Sprintf("t%d", i)), used)
					used[i] = false
				}
			}
		}
		rec(nil, make([]bool, n))
		return res
	}
	bases := []uint64{0, 1<<32 - 2, 1<<31 - 2}
	for _, n := range []int{2, 3} {
		for _, base := range bases {
			if n == 3 && base == 1<<31-2 && !vreport.Thorough() {
				continue
			}
			for _, p := range perms(n) {
				out = append(out, c02aCase{Senders: n, Replies: p, Base: base})
				if n == 2 || vreport.Thorough() {
					out = append(out, c02aCase{Senders: n, Replies: append([]string{"unknown"}, p...), Base: base})
					out = append(out, c02aCase{Senders: n, Replies: append(append([]string{}, p...), "dup:"+p[0]), Base: base})
					out = append(out, c02aCase{Senders: n, Replies: append([]string{p[0], "dup:" + p[0]}, p[1:]...), Base: base})
				}
			}
			// sender 0 is reset locally (timeout); its reply arrives late
			rest := []string{}
			for i := 1; i < n; i++ {
				rest = append(rest, fmt.Sprintf("t%d", i))
			}
			out = append(out, c02aCase{Senders: n, Resets: []int{0}, Replies: append([]string{"late:t0"}, rest...), Base: base})
			out = append(out, c02aCase{Senders: n, Resets: []int{0}, Replies: append(append([]string{}, rest...), "late:t0"), Base: base})
		}
	}
	for i := range out {
		out[i].Name = fmt.Sprintf("senders=%d base=%d resets=%v replies=%s", out[i].Senders, out[i].Base, out[i].Resets, strings.Join(out[i].Replies, ","))
	}
	return out
}

func c02aRun(p *vreport.Part, c c02aCase, replay bool) bool {
	obs := &c02aObs{}
	opts := vrt.Options{Bound: c.Bound, Delay: true, MaxSteps: 100000, MaxExecs: vreport.Pick(20000, 200000), Deadline: time.Now().Add(20 * time.Minute)}
	if replay {
		opts.Replay = true
		opts.Prefix = c.Choices
	}
	st := vrt.Explore(opts, func() {
		*obs = c02aObs{}
		c02aBody(&c, obs)
	}, func(r *vrt.Result) {
		p.Eval()
		cc := c
		cc.Choices = r.Choices
		report := func(kind, detail string) {
			p.Violation(kind, "case "+c.Name+": "+detail+fmt.Sprintf(" | schedule=%v", r.Choices), cc)
		}
		if r.Diverged != "" || r.StepLimit || r.Deadlock {
			report("HARNESS execution did not complete normally", r.String())
			return
		}
		for _, pn := range r.Panics {
			first := strings.SplitN(pn, "\n", 2)[0]
			if strings.Contains(first, "(env:") || strings.Contains(first, "(main)") {
				report("HARNESS panic in harness thread", pn)
			} else {
				report("uncaught panic in a stream goroutine", pn)
			}
			return
		}
		var sum []string
		for _, rc := range obs.recv {
			sum = append(sum, strings.Join(rc.got, "+"))
		}
		p.Distinct(c.Name + "|" + strings.Join(sum, ";"))
		p.Outcome(strings.Join(sum, ";"))
		if p.WantSample() {
			p.Sample(map[string]interface{}{"case": c.Name, "schedule": r.Choices, "delivered": sum})
		}
		if obs.frames != c.Senders {
			report("not every request was written exactly once", fmt.Sprintf("%d request frames for %d senders", obs.frames, c.Senders))
		}
		for i, rc := range obs.recv {
			want := fmt.Sprintf("t%d/t%d", i, i)
			for k, g := range rc.got {
				if g != want {
					report("a receiver got a reply that was not produced for its request (or header and body of different exchanges)", fmt.Sprintf("receiver %d got %q", i, g))
				}
				if rc.resetAt >= 0 && k >= rc.resetAt {
					report("a reply was delivered after the stream had been reset", fmt.Sprintf("receiver %d got %q after its reset", i, g))
				}
			}
			if len(rc.got) > 1 {
				report("the same request was answered more than once", fmt.Sprintf("receiver %d got %v", i, rc.got))
			}
			if rc.resetAt < 0 && len(rc.got) != 1 {
				report("a request whose reply arrived was never answered", fmt.Sprintf("receiver %d got %v", i, rc.got))
			}
		}
	})
	p.AddTraces(st.Executions)
	return st.Complete
}

func TestVerifC02StreamConn(t *testing.T) {
	const part = "stream-connection-correlation"
	p := vreport.Begin("C02", part, time.Hour)
	var rc c02aCase
	if vreport.Replaying() {
		if vreport.ReplayFor("C02", part, &rc) {
			c02aRun(p, rc, true)
			p.End(true, "replay", "replay of one recorded schedule")
		}
		return
	}
	si, sn := vreport.Shard()
	complete := true
	n := 0
	bound := vreport.Pick(2, 3)
	for i, c := range c02aCases() {
		if i%sn != si {
			continue
		}
		c.Bound = bound
		if !c02aRun(p, c, false) {
			complete = false
			p.Count("cases_cut_by_execution_cap", 1)
		}
		n++
	}
	p.Note("cases", n)
	p.End(complete, fmt.Sprintf("%d cases (this shard): 2-3 concurrent senders on one real bolt client stream connection, every reply permutation, duplicate / unknown-id / late replies, local reset, id counter preset to 0, 2^32-2, 2^31-2; all schedules with <=%d deviations", n, bound),
		"senders, reader and resetters are threads of the controlled scheduler; tokens in header and body; distinct = distinct (case, deliveries per receiver)")
}
