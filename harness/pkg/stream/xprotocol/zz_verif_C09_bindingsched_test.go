//go:build verif

package xprotocol

// C09 (upstream connection pools), unit "xproto-binding-schedules": the concurrent (E1) part for
// the BINDING pool (connpool_binding.go: one upstream connection bound to one downstream
// connection id), which so far was checked sequentially only (units xproto-binding,
// xproto-keepalive). The same body serves the C10 unit pool-binding-schedules
// (zz_verif_C10_bindingsched_test.go, built with "also": ["C09"]) with the accounting oracle and a
// monitor at every scheduling step.
//
// Why not c09.MainSchedules: its lease bookkeeping reads the upstream connection id the pool
// records in the request context, which the binding pool only does when it CREATES a client, and
// its requests all come from one downstream connection. This harness is self-contained: named
// downstream connections (A, B, ...: vfake server-side connections carried by the request context
// as types.VariableConnection / VariableConnectionID), the stream's connection is read from the
// stream itself (in-package: xStream.sc.netConn), the creator of every upstream connection is the
// downstream connection of the NewStream that was running on the creating thread (vfake.OnCreate +
// vrt.Cur()).
//
// One execution (thread 0 of the controlled scheduler): fresh host / ClusterInfo / resource manager
// / pool over fake connections; sequential prefix (vrt.Quiesce after every event); 2-3 threads of
// one or two pool operations each (forced collision); wait for the threads; vrt.Quiesce (exact, no
// clocks); ORACLE Q (below) on the quiescent state; drain (every remaining stream is answered) and
// oracle again; capacity probe (one more NewStream per open downstream connection and one of a fresh
// downstream connection must be admitted, each is answered); teardown (every downstream connection
// closes) and oracle a last time: everything closed, every counter back.
//
// Events: new:<D> (NewStream + request of downstream connection D), dclose:<D> (downstream
// connection D closes: the downstreamCloseListener), rclose:<k> / lclose:<k> (peer / idle close of
// upstream connection k, numbered in creation order), rclose:last (the newest upstream connection,
// whatever its number: the close of a connection that is just being created), goaway:<k> (go-away
// frame read on k), reply:<s>, lreset:<s> (stream s answered / reset by its caller), shutdown, close
// (pool Shutdown / Close). An event whose object is gone when its thread gets to it is skipped.
//
// ORACLE Q - the statement of C09 at a quiescent point, nothing more:
//
//	Q1 every connection the pool ever created is in exactly one of {leased, idle(bound) in the pool,
//	   closed}: an open connection is referenced by exactly one pool entry, or it announced go-away /
//	   was told to go away by Shutdown and still carries in-flight streams (draining = leased); an open
//	   connection in no book without streams is a leak, with streams it is lost to its downstream
//	   connection; a go-away connection whose streams are gone is closed; no closed or go-away
//	   connection is in the pool.
//	Q2 a bound connection serves only its downstream id: every stream travels on a connection
//	   created for the stream's own downstream connection; at most one open connection that did not
//	   announce go-away exists per downstream connection (first-creation race: the loser is closed,
//	   not leaked); no lease on a connection whose go-away / close had been delivered completely
//	   before the NewStream started.
//	Q3 the lease is released with the downstream connection: an upstream connection whose downstream
//	   connection is closed is closed - at once if it carries no stream, after its streams ended
//	   otherwise (task reading: "closed and not in the pool, or leased to exactly the stream that won").
//	Q4 the pool closes a connection only for a reason the statement knows: the peer / the idle timer
//	   closed it, its downstream connection closed, it announced go-away, pool Shutdown / Close ran.
//	Q5 counters equal the true numbers: host and cluster upstream_connection_active == open
//	   connections, host and cluster upstream_request_active == in-flight streams, Requests.Cur ==
//	   in-flight streams (max_requests is 8 in every scenario so that the resource counts, and is never
//	   reached); OnDestroyStream fires at most once per stream and never for a stream in flight.
//	Q6 no deadlock (the scheduler reports blocked threads), capacity is reusable (the probe).
//
// "In flight" = from the NewStream that returned the stream until its thread started to answer /
// reset it or its connection closed (read from the fake connection). A stream that the closing
// connection reset INSIDE NewStream, before the pool listened to it, is told apart by its state when
// NewStream returned (BaseStream.state != reset): counter surpluses explained by such streams get
// the qualified finding key of the recorded NewStream-vs-connection-reset window (C09 F7 / C10 P3),
// every other surplus the plain key.
//
// Not compared (statement silent): which side closes first when both close; whether the pool closes
// the DOWNSTREAM connection when the upstream connection dies (the pool's own contract, not C09's);
// what Shutdown / Close do to a client that is being created concurrently (it may survive as a
// normal pool entry); Total / Close / Overflow counters.
//
// Determinism: at most one request stream is registered on a connection whenever it is closed
// (streamConn.Reset ranges over the stream map; the rewrite set "proxy" does not make that order a
// choice point) and Shutdown / Close scenarios have one pool entry (clients() ranges over the pool map).

import (
	"context"
	"fmt"
	"os"
	"reflect"
	"sort"
	"strconv"
	"strings"
	"sync"
	"sync/atomic"
	"testing"
	"time"

	"mosn.io/api"
	v2 "mosn.io/mosn/pkg/config/v2"
	mlog "mosn.io/mosn/pkg/log"
	xproto "mosn.io/mosn/pkg/protocol/xprotocol"
	"mosn.io/mosn/pkg/protocol/xprotocol/bolt"
	"mosn.io/mosn/pkg/types"
	"mosn.io/mosn/pkg/upstream/cluster"
	"mosn.io/mosn/pkg/verifrt/vfake"
	"mosn.io/mosn/pkg/verifrt/vreport"
	"mosn.io/mosn/pkg/verifrt/vrt"
	"mosn.io/pkg/buffer"
	plog "mosn.io/pkg/log"
	"mosn.io/pkg/variable"
)

const c09BSPool = "xproto-binding"

// c09BSScenario is one scenario; c09BSCase the replayable case.
type c09BSScenario struct {
	Name    string     `json:"name"`
	MaxReq  uint32     `json:"max_requests"`
	Prefix  []string   `json:"prefix"`
	Threads [][]string `json:"threads"`
}

type c09BSCase struct {
	Unit     string        `json:"unit"`
	Scenario c09BSScenario `json:"scenario"`
	Bound    int           `json:"bound"`
	Choices  []int         `json:"choices,omitempty"`
}

func (sc c09BSScenario) class() string {
	var t []string
	for _, p := range sc.Threads {
		var k []string
		for _, ev := range p {
			if i := strings.IndexByte(ev, ':'); i >= 0 {
				ev = ev[:i]
			}
			k = append(k, ev)
		}
		t = append(t, strings.Join(k, ";"))
	}
	sort.Strings(t)
	return strings.Join(t, " || ")
}

func c09BSScenarios() []c09BSScenario {
	const r = 8
	return []c09BSScenario{
		// first creation race: exactly one upstream connection for the downstream connection
		{Name: "two first leases of one downstream connection", MaxReq: r, Threads: [][]string{{"new:A"}, {"new:A"}}},
		// two downstream connections never share an upstream connection
		{Name: "first leases of two downstream connections", MaxReq: r, Threads: [][]string{{"new:A"}, {"new:B"}}},
		// the downstreamCloseListener races the lease that installs it / that uses the bound connection
		{Name: "first lease vs close of its downstream connection", MaxReq: r, Threads: [][]string{{"new:A"}, {"dclose:A"}}},
		{Name: "lease on the bound connection vs close of its downstream connection", MaxReq: r, Prefix: []string{"new:A", "reply:0"}, Threads: [][]string{{"new:A"}, {"dclose:A"}}},
		// remote close of the bound upstream connection
		{Name: "lease vs remote close of the bound upstream connection", MaxReq: r, Prefix: []string{"new:A", "reply:0"}, Threads: [][]string{{"new:A"}, {"rclose:0"}}},
		{Name: "first lease vs remote close of the connection it creates", MaxReq: r, Threads: [][]string{{"new:A"}, {"rclose:last"}}},
		// go-away
		{Name: "lease vs go-away of the idle bound connection", MaxReq: r, Prefix: []string{"new:A", "reply:0"}, Threads: [][]string{{"new:A"}, {"goaway:0"}}},
		{Name: "lease vs go-away of the bound connection with a stream in flight", MaxReq: r, Prefix: []string{"new:A"}, Threads: [][]string{{"new:A"}, {"goaway:0"}}},
		{Name: "stream end on a go-away connection vs new lease", MaxReq: r, Prefix: []string{"new:A", "goaway:0"}, Threads: [][]string{{"reply:0"}, {"new:A"}}},
		{Name: "close of the drained go-away predecessor vs lease on its successor", MaxReq: r, Prefix: []string{"new:A", "goaway:0", "new:A"}, Threads: [][]string{{"reply:0"}, {"new:A"}}},
		{Name: "two stream ends on a go-away connection", MaxReq: r, Prefix: []string{"new:A", "new:A", "goaway:0"}, Threads: [][]string{{"reply:0"}, {"reply:1"}}},
		{Name: "local reset vs go-away", MaxReq: r, Prefix: []string{"new:A"}, Threads: [][]string{{"lreset:0"}, {"goaway:0"}}},
		// pool Shutdown / Close
		{Name: "pool Shutdown vs lease on the bound connection", MaxReq: r, Prefix: []string{"new:A", "reply:0"}, Threads: [][]string{{"shutdown"}, {"new:A"}}},
		{Name: "pool Close vs lease on the bound connection", MaxReq: r, Prefix: []string{"new:A", "reply:0"}, Threads: [][]string{{"close"}, {"new:A"}}},
		{Name: "pool Shutdown vs stream end", MaxReq: r, Prefix: []string{"new:A"}, Threads: [][]string{{"shutdown"}, {"reply:0"}}},
		// the two closers of one lease
		{Name: "stream end vs close of the downstream connection", MaxReq: r, Prefix: []string{"new:A"}, Threads: [][]string{{"reply:0"}, {"dclose:A"}}},
		{Name: "remote close vs close of the downstream connection", MaxReq: r, Prefix: []string{"new:A"}, Threads: [][]string{{"rclose:0"}, {"dclose:A"}}},
		{Name: "local reset vs remote close of its connection", MaxReq: r, Prefix: []string{"new:A"}, Threads: [][]string{{"lreset:0"}, {"rclose:0"}}},
		{Name: "local reset vs close of the downstream connection", MaxReq: r, Prefix: []string{"new:A"}, Threads: [][]string{{"lreset:0"}, {"dclose:A"}}},
		{Name: "lease of B vs close of downstream connection A", MaxReq: r, Prefix: []string{"new:A"}, Threads: [][]string{{"new:B"}, {"dclose:A"}}},
		// three threads (one preemption less)
		// (not here: two leases of ONE downstream connection vs its close - the close would reset two
		// registered streams, whose order in streamConn.Reset's map range is not a choice point: executions
		// with a preemption inside that loop are not reproducible)
		{Name: "first leases of two downstream connections vs close of one", MaxReq: r, Threads: [][]string{{"new:A"}, {"new:B"}, {"dclose:A"}}},
		{Name: "two downstream connections: leases vs close of one", MaxReq: r, Prefix: []string{"new:A", "reply:0"}, Threads: [][]string{{"new:A"}, {"new:B"}, {"dclose:A"}}},
		{Name: "lease vs go-away vs stream end", MaxReq: r, Prefix: []string{"new:A"}, Threads: [][]string{{"new:A"}, {"goaway:0"}, {"reply:0"}}},
	}
}

// ---------------------------------------------------------------------------
// world

type c09BSDown struct {
	name string
	fc   *vfake.Conn
}

// c09BSDownMon is the harness' own listener on a downstream connection, registered when the
// connection is made and therefore told of the close BEFORE the pool's downstreamCloseListener(s):
// it notes, for every upstream connection bound to the downstream connection, whether its client
// had installed its close listener at that moment (activeClientBinding.downstreamConn is set in the
// same sync.Once body, with no scheduling point in between).
type c09BSDownMon struct {
	w *c09BSWorld
	d *c09BSDown
}

func (m c09BSDownMon) OnEvent(ev api.ConnectionEvent) {
	if !ev.IsClose() {
		return
	}
	w := m.w
	acOf := map[*vfake.Conn]*activeClientBinding{}
	for _, ac := range w.pool.idleClients { // (threads of the scheduler run one at a time and park at scheduling points only)
		acOf[c09Fake(ac.host.Connection)] = ac
	}
	for _, c := range w.conns {
		if c.forDown != m.d.name {
			continue
		}
		switch ac := acOf[c.fc]; {
		case ac != nil && ac.downstreamConn != nil:
			c.atDownClose = "listener-installed"
		case ac != nil, !c.creatorDone:
			// in the pool without listener, or still inside the NewStream that creates it (the listener is
			// installed after GetActiveClient stored the client)
			c.atDownClose = "no-listener"
		default:
			c.atDownClose = "unknown"
		}
	}
}

type c09BSConn struct {
	fc              *vfake.Conn
	idx             int
	forDown         string // the downstream connection whose NewStream created it ("?" unknown)
	envClosed       bool   // the environment (peer / idle timer) closed it
	goAwayStarted   bool
	goAwayDelivered bool
	closeDelivered  bool // a close by the environment had returned
	creatorDone     bool // the NewStream that created it has returned
	// atDownClose: what the harness' monitor saw when the downstream connection closed: "" = the
	// connection did not exist yet (created for a downstream connection that was already closed),
	// "no-listener" = its client had not installed the downstream close listener yet,
	// "listener-installed", "unknown"
	atDownClose string
}

func (c *c09BSConn) open() bool { return c.fc.Connected() && !c.fc.IsClosed() }

type c09BSStream struct {
	ord         int
	down        string
	c           *c09BSConn
	xs          *xStream
	sender      types.StreamSender
	ended       bool // its thread started to answer / reset it
	cause       string
	deadAtLease bool // already reset / destroyed when NewStream returned
	resets      []string
	destroys    int32
	received    int32
}

func (s *c09BSStream) OnReceive(ctx context.Context, headers api.HeaderMap, data buffer.IoBuffer, trailers api.HeaderMap) {
	atomic.AddInt32(&s.received, 1)
}
func (s *c09BSStream) OnDecodeError(ctx context.Context, err error, headers api.HeaderMap) {}
func (s *c09BSStream) OnResetStream(reason types.StreamResetReason) {
	s.resets = append(s.resets, string(reason))
}
func (s *c09BSStream) OnDestroyStream() { atomic.AddInt32(&s.destroys, 1) }

type c09BSFinding struct{ prop, key, detail string }

type c09BSWorld struct {
	sc         c09BSScenario
	host       types.Host
	rm         types.ResourceManager
	pool       *poolBinding
	base       [4]int64
	downs      map[string]*c09BSDown
	downOrder  []string
	conns      []*c09BSConn
	streams    []*c09BSStream
	shutdown   bool
	poolClosed bool
	opDown     map[int]string // scheduler thread id -> downstream connection of the NewStream it is running
	lease      []c09BSFinding
	herr       string
	// C10 monitor (every scheduling step)
	monOn   bool
	monMin  [6]int64
	monFrom [6]int64
	monN    int
}

var c09BSOnce sync.Once
var c09BSCur *c09BSWorld // the world the scheduler's monitor hook samples

func (w *c09BSWorld) harness(f string, a ...interface{}) {
	if w.herr == "" {
		w.herr = fmt.Sprintf(f, a...)
	}
}

func (w *c09BSWorld) statsNow() [4]int64 {
	return [4]int64{
		w.host.HostStats().UpstreamRequestActive.Count(),
		w.host.ClusterInfo().Stats().UpstreamRequestActive.Count(),
		w.host.HostStats().UpstreamConnectionActive.Count(),
		w.host.ClusterInfo().Stats().UpstreamConnectionActive.Count(),
	}
}

var c09BSNames = [6]string{"resource requests", "resource connections", "host gauge upstream_request_active", "cluster gauge upstream_request_active",
	"host gauge upstream_connection_active", "cluster gauge upstream_connection_active"}

func (w *c09BSWorld) values() [6]int64 {
	now := w.statsNow()
	return [6]int64{w.rm.Requests().Cur(), w.rm.Connections().Cur(), now[0] - w.base[0], now[1] - w.base[1], now[2] - w.base[2], now[3] - w.base[3]}
}

func (w *c09BSWorld) monitor() {
	if !w.monOn {
		return
	}
	v := w.values()
	w.monN++
	for i := range v {
		if v[i] < w.monMin[i] {
			w.monMin[i] = v[i]
		}
	}
}

func c09BSNewWorld(sc c09BSScenario) *c09BSWorld {
	c09BSOnce.Do(func() {
		vfake.Install()
		for _, l := range []interface {
			SetLogLevel(plog.Level)
			Toggle(bool)
		}{mlog.DefaultLogger, mlog.Proxy, mlog.StartLogger} {
			l.SetLogLevel(plog.FATAL)
			l.Toggle(true)
		}
		c09Init()
		c09BindOnce.Do(func() {
			if err := xproto.RegisterXProtocolCodec(c09bind); err != nil {
				panic(err)
			}
		})
	})
	vfake.Reset()
	w := &c09BSWorld{sc: sc, downs: map[string]*c09BSDown{}, opDown: map[int]string{}}
	cc := v2.Cluster{Name: "c09bscluster", ClusterType: v2.SIMPLE_CLUSTER, LbType: v2.LB_ROUNDROBIN}
	cc.CirBreThresholds = v2.CircuitBreakers{Thresholds: []v2.Thresholds{{MaxRequests: sc.MaxReq}}}
	info := cluster.NewClusterInfo(cc)
	w.host = cluster.NewSimpleHost(v2.Host{HostConfig: v2.HostConfig{Address: "127.0.0.1:21919", Weight: 1}}, info)
	w.rm = info.ResourceManager()
	w.base = w.statsNow() // the stats registry is process-global: compare deltas
	p, ok := NewConnPool(context.Background(), c09bind, w.host).(*poolBinding)
	if !ok {
		panic("vboltbind did not select the binding pool")
	}
	w.pool = p
	vfake.OnCreate = func(fc *vfake.Conn) {
		c := &c09BSConn{fc: fc, idx: len(w.conns), forDown: "?"}
		if t := vrt.Cur(); t != nil {
			if d, ok := w.opDown[t.ID]; ok {
				c.forDown = d
			}
		}
		w.conns = append(w.conns, c)
	}
	return w
}

func (w *c09BSWorld) down(name string) *c09BSDown {
	d := w.downs[name]
	if d == nil {
		d = &c09BSDown{name: name, fc: vfake.NewServerSide("down-" + name)}
		d.fc.AddConnectionEventListener(c09BSDownMon{w, d})
		w.downs[name] = d
		w.downOrder = append(w.downOrder, name)
	}
	return d
}

func (w *c09BSWorld) connOf(fc *vfake.Conn) *c09BSConn {
	for _, c := range w.conns {
		if c.fc == fc {
			return c
		}
	}
	return nil
}

func (w *c09BSWorld) inflightOf(s *c09BSStream) bool { return !s.ended && s.c.open() }

func (w *c09BSWorld) inflightOn(c *c09BSConn) []*c09BSStream {
	var out []*c09BSStream
	for _, s := range w.streams {
		if s.c == c && w.inflightOf(s) {
			out = append(out, s)
		}
	}
	return out
}

func (w *c09BSWorld) inflight() []*c09BSStream {
	var out []*c09BSStream
	for _, s := range w.streams {
		if w.inflightOf(s) {
			out = append(out, s)
		}
	}
	return out
}

func (w *c09BSWorld) tid() int {
	if t := vrt.Cur(); t != nil {
		return t.ID
	}
	return -1
}

func (w *c09BSWorld) newStream(name string) string {
	d := w.down(name)
	// what had been delivered completely before this NewStream started
	goAwayKnown, closeKnown := map[*c09BSConn]bool{}, map[*c09BSConn]bool{}
	for _, c := range w.conns {
		goAwayKnown[c], closeKnown[c] = c.goAwayDelivered, c.closeDelivered
	}
	ctx := buffer.NewBufferPoolContext(variable.NewVariableContext(context.Background()))
	if err := variable.Set(ctx, types.VariableConnectionID, d.fc.ID()); err != nil {
		panic(err)
	}
	if err := variable.Set(ctx, types.VariableConnection, api.Connection(d.fc)); err != nil {
		panic(err)
	}
	tid := w.tid()
	w.opDown[tid] = name
	nBefore := len(w.conns)
	defer func() {
		delete(w.opDown, tid)
		for _, c := range w.conns[nBefore:] {
			if c.forDown == name {
				c.creatorDone = true // (two creators of one downstream connection at once: both are marked by the first to return - only makes the qualifier below rarer)
			}
		}
	}()
	if !w.pool.CheckAndInit(ctx) {
		return "no-healthy-host"
	}
	s := &c09BSStream{down: name}
	_, sender, reason := w.pool.NewStream(ctx, s)
	if reason != "" || sender == nil {
		if reason == "" {
			reason = "nil-sender"
		}
		return string(reason)
	}
	xs, ok := sender.(*xStream)
	if !ok || xs.sc == nil {
		w.harness("NewStream returned a %T", sender)
		return "bad"
	}
	fc, _ := xs.sc.netConn.(*vfake.Conn)
	s.c = w.connOf(fc)
	if s.c == nil {
		w.harness("NewStream returned a stream on a connection the factory never made")
		return "bad"
	}
	s.xs, s.sender = xs, sender
	s.deadAtLease = c09BSStreamState(xs) != 0
	s.ord = len(w.streams)
	w.streams = append(w.streams, s)
	pn := "pool=" + c09BSPool
	if s.c.forDown != name {
		w.lease = append(w.lease, c09BSFinding{"C09", pn + " I1 stream placed on the upstream connection of another downstream connection",
			fmt.Sprintf("NewStream of downstream connection %s put stream %d on upstream connection %d, which was created for downstream connection %s", name, s.ord, s.c.idx, s.c.forDown)})
	}
	if goAwayKnown[s.c] && !w.shutdown {
		w.lease = append(w.lease, c09BSFinding{"C09", pn + " I2 connection leased again after go-away",
			fmt.Sprintf("NewStream put stream %d on connection %d, whose go-away had been delivered completely before the NewStream started", s.ord, s.c.idx)})
	}
	if closeKnown[s.c] {
		w.lease = append(w.lease, c09BSFinding{"C09", pn + " I3 NewStream leased a closed connection",
			fmt.Sprintf("NewStream put stream %d on connection %d, whose close had been delivered completely before the NewStream started", s.ord, s.c.idx)})
	}
	// as upstreamRequest does: listen to the stream, then send the request
	sender.GetStream().AddEventListener(s)
	sender.AppendHeaders(ctx, c09Common{}.RequestHeaders(ctx), true)
	if !s.c.open() {
		return "ok-but-connection-closed"
	}
	return "ok"
}

// c09BSStreamState reads stream.BaseStream.state (unexported in pkg/stream; 0 = neither reset nor
// destroyed). Threads of the controlled scheduler run one at a time: a plain read is exact.
func c09BSStreamState(xs *xStream) uint64 {
	f := reflect.ValueOf(&xs.BaseStream).Elem().FieldByName("state")
	if !f.IsValid() || f.Kind() != reflect.Uint32 {
		panic("stream.BaseStream has no uint32 field state any more")
	}
	return f.Uint()
}

// apply applies one event; "skipped" if its object is gone.
func (w *c09BSWorld) apply(ev string) string {
	name, arg := ev, ""
	if i := strings.IndexByte(ev, ':'); i >= 0 {
		name, arg = ev[:i], ev[i+1:]
	}
	num := func() int {
		n, err := strconv.Atoi(arg)
		if err != nil {
			w.harness("bad event %q", ev)
			return -1
		}
		return n
	}
	getC := func() *c09BSConn {
		if arg == "last" {
			if len(w.conns) == 0 {
				return nil
			}
			return w.conns[len(w.conns)-1]
		}
		if n := num(); n >= 0 && n < len(w.conns) {
			return w.conns[n]
		}
		return nil
	}
	switch name {
	case "new":
		return w.newStream(arg)
	case "dclose":
		d := w.down(arg)
		if d.fc.IsClosed() {
			return "skipped"
		}
		d.fc.Close(api.NoFlush, api.RemoteClose)
		return "closed"
	case "rclose", "lclose":
		c := getC()
		if c == nil || !c.open() {
			return "skipped"
		}
		c.envClosed = true
		if name == "rclose" {
			c.fc.RemoteClose()
		} else {
			c.fc.Close(api.NoFlush, api.LocalClose)
		}
		c.closeDelivered = true
		return "closed"
	case "goaway":
		c := getC()
		if c == nil || !c.open() {
			return "skipped"
		}
		c.goAwayStarted = true
		c.fc.InjectRead(c09Common{}.GoAwayBytes())
		c.goAwayDelivered = true
		return "announced"
	case "reply", "lreset":
		n := num()
		if n < 0 || n >= len(w.streams) || !w.inflightOf(w.streams[n]) {
			return "skipped"
		}
		s := w.streams[n]
		s.ended, s.cause = true, name
		if name == "lreset" {
			s.sender.GetStream().ResetStream(types.StreamLocalReset)
			return "reset"
		}
		resp := bolt.NewRpcResponse(uint32(s.xs.id), bolt.ResponseStatusSuccess, nil, buffer.NewIoBufferString("ok"))
		s.c.fc.InjectRead(c09Encode(resp))
		return "delivered"
	case "shutdown":
		w.shutdown = true
		w.pool.Shutdown()
		return "done"
	case "close":
		w.poolClosed = true
		w.pool.Close()
		return "done"
	}
	w.harness("unknown event %q", ev)
	return "bad"
}

// ---------------------------------------------------------------------------
// oracle Q on a quiescent state

func c09BSRel(v, want int64, what string) string {
	switch {
	case v < 0:
		return "negative"
	case v > want:
		return "above " + what
	}
	return "below " + what
}

// check returns the violations keyed "<key>#<object>" (so that the caller can tell which ones are new).
func (w *c09BSWorld) check(drained bool) map[string]c09BSFinding {
	out := map[string]c09BSFinding{}
	add := func(prop, obj, key, detail string) { out[prop+key+"#"+obj] = c09BSFinding{prop, key, detail} }
	pn := "pool=" + c09BSPool
	// the pool's books
	w.pool.clientMux.Lock()
	refs := map[*vfake.Conn]int{}
	ids := make([]uint64, 0, len(w.pool.idleClients))
	for id := range w.pool.idleClients {
		ids = append(ids, id)
	}
	sort.Slice(ids, func(i, j int) bool { return ids[i] < ids[j] })
	type entry struct {
		id     uint64
		fc     *vfake.Conn
		goaway bool
		own    uint64
	}
	var entries []entry
	for _, id := range ids {
		ac := w.pool.idleClients[id]
		fc := c09Fake(ac.host.Connection)
		refs[fc]++
		entries = append(entries, entry{id, fc, atomic.LoadUint32(&ac.goaway) == GoAway, ac.downstreamConnID})
	}
	w.pool.clientMux.Unlock()
	downByID := map[uint64]*c09BSDown{}
	for _, d := range w.downs {
		downByID[d.fc.ID()] = d
	}
	for _, e := range entries {
		c := w.connOf(e.fc)
		obj := "entry?"
		if c != nil {
			obj = fmt.Sprintf("c%d", c.idx)
		}
		dn := "?"
		if d := downByID[e.id]; d != nil {
			dn = d.name
		}
		if c == nil || !c.open() {
			add("C09", obj, pn+" I3 closed connection in the pool", fmt.Sprintf("the pool entry of downstream connection %s refers to a connection that is not open", dn))
			continue
		}
		if e.goaway && !w.shutdown {
			add("C09", obj, pn+" I2 go-away connection still in the pool", fmt.Sprintf("connection %d announced go-away and is still the pool entry of downstream connection %s: the next NewStream leases it", c.idx, dn))
		}
		if e.own != e.id || (c.forDown != "?" && c.forDown != dn) {
			add("C09", obj, pn+" I1 pool entry of one downstream connection refers to the upstream connection of another", fmt.Sprintf("the entry of downstream connection %s holds connection %d, created for downstream connection %s", dn, c.idx, c.forDown))
		}
	}
	nOpen := 0
	usable := map[string][]int{}
	for _, c := range w.conns {
		obj := fmt.Sprintf("c%d", c.idx)
		in := w.inflightOn(c)
		d := w.downs[c.forDown]
		if !c.open() {
			if c.fc.Connected() && !c.envClosed && !c.goAwayStarted && !w.shutdown && !w.poolClosed && !(d != nil && d.fc.IsClosed()) {
				add("C09", obj, pn+" I2 the pool closed a healthy connection", fmt.Sprintf("connection %d (downstream connection %s) is closed although neither the peer nor its downstream connection closed, it announced no go-away and the pool was not shut down or closed", c.idx, c.forDown))
			}
			continue
		}
		nOpen++
		goaway := c.goAwayStarted
		if !goaway {
			usable[c.forDown] = append(usable[c.forDown], c.idx)
		}
		if refs[c.fc] > 1 {
			add("C09", obj, pn+" I3 connection referenced by more than one pool entry", fmt.Sprintf("connection %d is in %d pool entries", c.idx, refs[c.fc]))
		}
		if refs[c.fc] == 0 {
			switch {
			case (goaway || w.shutdown) && len(in) == 0:
				add("C09", obj, pn+" I2 go-away connection still open although its streams are gone", fmt.Sprintf("connection %d was told to go away (frame=%v, Shutdown=%v), carries no stream, is in no pool entry and is still open", c.idx, goaway, w.shutdown))
			case goaway || w.shutdown:
				// draining = leased
			case len(in) == 0:
				add("C09", obj, pn+" I3 open connection neither in the pool nor draining (leaked)", fmt.Sprintf("connection %d (created for downstream connection %s) is open, carries no stream and no pool entry refers to it", c.idx, c.forDown))
			default:
				add("C09", obj, pn+" I3 open connection with in-flight streams is not referenced by the pool", fmt.Sprintf("connection %d (created for downstream connection %s) is open, carries %d stream(s), did not announce go-away and no pool entry refers to it", c.idx, c.forDown, len(in)))
			}
		}
		if d != nil && d.fc.IsClosed() && (len(in) == 0 || drained) {
			q := ""
			if c.atDownClose == "" || c.atDownClose == "no-listener" {
				q = " (the downstream connection closed before the client installed its close listener)"
			}
			add("C09", obj, pn+" I3 upstream connection still open after its downstream connection closed (lease not released)"+q,
				fmt.Sprintf("connection %d is open (%d in-flight streams, %d pool entries) although downstream connection %s, which it is bound to, is closed: nothing will ever close or lease it (when the downstream connection closed: %q; empty = the upstream connection was created later)", c.idx, len(in), refs[c.fc], c.forDown, c.atDownClose))
		}
	}
	if !w.shutdown {
		for dn, l := range usable {
			if len(l) > 1 {
				add("C09", "down"+dn, pn+" I1 second upstream connection for one downstream connection", fmt.Sprintf("connections %v are open, were created for downstream connection %s and none announced go-away", l, dn))
			}
		}
	}
	// counters
	v := w.values()
	S := int64(len(w.inflight()))
	K := int64(nOpen)
	dead := int64(0) // streams the closing connection reset inside NewStream
	for _, s := range w.streams {
		if s.deadAtLease {
			dead++
		}
	}
	qual := func(g, want int64) string {
		if g > want && g-want <= dead {
			return " (surplus = streams reset by their closing connection inside NewStream before the pool listened)"
		}
		return ""
	}
	idle := ""
	if S == 0 && K == 0 {
		idle = " - the model is IDLE (no stream, no open connection): the counter did not return to zero"
	}
	for i, what := range []string{"host", "cluster"} {
		if g := v[2+i]; g != S {
			add("C09", what+"ra", pn+" I5 "+what+" stat upstream_request_active differs from the in-flight streams"+qual(g, S), fmt.Sprintf("%s upstream_request_active moved by %d, in-flight streams=%d (%d stream(s) were dead when NewStream returned them)", what, g, S, dead))
			add("C10", what+"ra", pn+" accounting: "+what+" gauge upstream_request_active "+c09BSRel(g, S, "the in-flight streams")+qual(g, S), fmt.Sprintf("%s upstream_request_active moved by %d since the pool was built, in-flight streams=%d (%d stream(s) were dead when NewStream returned them)%s", what, g, S, dead, idle))
		}
		if g := v[4+i]; g != K {
			add("C09", what+"ca", pn+" I3 "+what+" stat upstream_connection_active differs from the open connections", fmt.Sprintf("%s upstream_connection_active moved by %d, open connections=%d", what, g, K))
			add("C10", what+"ca", pn+" accounting: "+what+" gauge upstream_connection_active "+c09BSRel(g, K, "the open connections"), fmt.Sprintf("%s upstream_connection_active moved by %d since the pool was built, open connections=%d%s", what, g, K, idle))
		}
	}
	want := int64(0)
	if w.sc.MaxReq > 0 {
		want = S
	}
	if cur := v[0]; cur != want {
		add("C09", "cur", pn+" I5 Requests resource "+c09BSRel(cur, want, "the in-flight streams")+qual(cur, want), fmt.Sprintf("Requests.Cur=%d, in-flight streams=%d", cur, S))
		add("C10", "cur", pn+" accounting: resource requests "+c09BSRel(cur, want, "the in-flight streams")+qual(cur, want), fmt.Sprintf("Requests.Cur=%d, in-flight streams=%d, max_requests=%d%s", cur, S, w.sc.MaxReq, idle))
	}
	if cc := v[1]; cc != 0 && cc != K {
		add("C10", "conn", pn+" accounting: resource connections "+c09BSRel(cc, K, "the open connections"), fmt.Sprintf("Connections.Cur=%d, open connections=%d (accepted: 0 = not counted by this pool, or the number of open connections)", cc, K))
	}
	for _, s := range w.streams {
		obj := fmt.Sprintf("s%d", s.ord)
		ds := atomic.LoadInt32(&s.destroys)
		switch {
		case ds > 1:
			add("C09", obj, pn+" I5 OnDestroyStream fired more than once for a stream", fmt.Sprintf("stream %d: listeners were told %d times that it is destroyed (end cause %q, resets %v)", s.ord, ds, s.cause, s.resets))
		case w.inflightOf(s) && ds > 0:
			add("C09", obj, pn+" I5 stream destroyed while still in flight", fmt.Sprintf("stream %d is in flight (nobody answered or reset it, its connection %d is open), yet OnDestroyStream fired (resets %v)", s.ord, s.c.idx, s.resets))
		}
	}
	return out
}

func (w *c09BSWorld) canon() string {
	var sb strings.Builder
	w.pool.clientMux.Lock()
	in := map[*vfake.Conn]bool{}
	for _, ac := range w.pool.idleClients {
		in[c09Fake(ac.host.Connection)] = true
	}
	n := len(w.pool.idleClients)
	w.pool.clientMux.Unlock()
	for _, c := range w.conns {
		fmt.Fprintf(&sb, "c%d{%s open=%v pool=%v goaway=%v s=%d}", c.idx, c.forDown, c.open(), in[c.fc], c.goAwayStarted, len(w.inflightOn(c)))
	}
	for _, dn := range w.downOrder {
		fmt.Fprintf(&sb, "|%s closed=%v", dn, w.downs[dn].fc.IsClosed())
	}
	fmt.Fprintf(&sb, "|entries=%d|v=%v|shutdown=%v", n, w.values(), w.shutdown)
	return sb.String()
}

// ---------------------------------------------------------------------------
// one execution

type c09BSObs struct {
	findings []c09BSFinding
	outcomes []string
	herr     string
	canon    string
	samples  int
}

func c09BSBody(sc c09BSScenario, obs *c09BSObs) {
	*obs = c09BSObs{}
	c09BSCur = nil
	w := c09BSNewWorld(sc)
	for _, ev := range sc.Prefix {
		if out := w.apply(ev); w.herr == "" && (out == "skipped" || (strings.HasPrefix(ev, "new") && out != "ok")) {
			w.harness("outcome %q", out)
		}
		vrt.Quiesce()
		if w.herr != "" {
			obs.herr = "prefix event " + ev + ": " + w.herr
			return
		}
	}
	pre := w.check(false)
	w.lease = nil
	v := w.values()
	w.monMin, w.monFrom, w.monN, w.monOn = v, v, 0, true
	c09BSCur = w
	done := 0
	outs := make([][]string, len(sc.Threads))
	for i := range sc.Threads {
		i := i
		vrt.GoNamed(fmt.Sprintf("T%d", i), func() {
			for _, ev := range sc.Threads[i] {
				outs[i] = append(outs[i], ev[:strings.IndexByte(ev+":", ':')]+"->"+w.apply(ev))
			}
			done++
		})
	}
	vrt.WaitUntil("scenario threads done", func() bool { return done == len(sc.Threads) })
	vrt.Quiesce()
	w.monOn = false
	c09BSCur = nil
	obs.samples = w.monN
	if w.herr != "" {
		obs.herr = w.herr
		return
	}
	for _, o := range outs {
		obs.outcomes = append(obs.outcomes, strings.Join(o, ";"))
	}
	cls := " [concurrent " + sc.class() + "]"
	dead := false
	for _, s := range w.streams {
		dead = dead || s.deadAtLease
	}
	for i, m := range w.monMin {
		if m < 0 && m < w.monFrom[i] {
			q := ""
			if dead && (i == 0 || i == 2 || i == 3) { // the request counters only
				q = " (a stream was reset by its closing connection inside NewStream)"
			}
			obs.findings = append(obs.findings, c09BSFinding{"C10", "pool=" + c09BSPool + " accounting: " + c09BSNames[i] + " negative at a step" + q + cls,
				fmt.Sprintf("%s was %d at a scheduling step (relative to the moment the pool was built)", c09BSNames[i], m)})
		}
	}
	for _, f := range w.lease {
		obs.findings = append(obs.findings, c09BSFinding{f.prop, f.key + cls, f.detail})
	}
	w.lease = nil
	seen := map[string]bool{}
	for k := range pre {
		seen[k] = true
	}
	report := func(now map[string]c09BSFinding, cls string) {
		keys := make([]string, 0, len(now))
		for k := range now {
			keys = append(keys, k)
		}
		sort.Strings(keys)
		for _, k := range keys {
			if !seen[k] {
				seen[k] = true
				obs.findings = append(obs.findings, c09BSFinding{now[k].prop, now[k].key + cls, now[k].detail})
			}
		}
	}
	report(w.check(false), cls)
	obs.canon = w.canon()
	// drain: every remaining stream is answered (sequentially)
	for _, s := range w.inflight() {
		w.apply(fmt.Sprintf("reply:%d", s.ord))
		vrt.Quiesce()
	}
	if w.herr != "" {
		obs.herr = "drain: " + w.herr
		return
	}
	report(w.check(true), " [concurrent "+sc.class()+", after the remaining streams were answered]")
	// capacity probe (Q6): not after Shutdown (statement silent on what a pool that was shut down admits)
	if !w.shutdown {
		probe := []string{}
		for _, dn := range w.downOrder {
			if !w.downs[dn].fc.IsClosed() {
				probe = append(probe, dn)
			}
		}
		probe = append(probe, "Z")
		for _, dn := range probe {
			out := w.apply("new:" + dn)
			vrt.Quiesce()
			if out != "ok" {
				obs.findings = append(obs.findings, c09BSFinding{"C09", "pool=" + c09BSPool + " I4 capacity not available again: NewStream refused or unusable after the schedule" + cls,
					fmt.Sprintf("after the schedule and after every remaining stream was answered, a NewStream of downstream connection %s (open) returned %q", dn, out)})
				continue
			}
			w.apply(fmt.Sprintf("reply:%d", len(w.streams)-1))
			vrt.Quiesce()
		}
		for _, f := range w.lease {
			obs.findings = append(obs.findings, c09BSFinding{f.prop, f.key + " [capacity probe after concurrent " + sc.class() + "]", f.detail})
		}
		report(w.check(true), " [concurrent "+sc.class()+", after the capacity probe]")
	}
	// teardown: every downstream connection closes; everything must be released
	for _, dn := range w.downOrder {
		w.apply("dclose:" + dn)
		vrt.Quiesce()
	}
	if w.herr != "" {
		obs.herr = "teardown: " + w.herr
		return
	}
	report(w.check(true), " [concurrent "+sc.class()+", after every downstream connection was closed]")
}

// c09BSMain is the body of both units (prop C09: oracle Q; prop C10: the accounting subset plus the monitor).
func c09BSMain(t *testing.T, prop, part string, quickBound, thoroughBound int) {
	p := vreport.Begin(prop, part, time.Duration(vreport.Pick(3, 20))*time.Minute)
	obs := &c09BSObs{}
	samples := 0
	run := func(c c09BSCase, replay bool) bool {
		opts := vrt.Options{Bound: c.Bound, MaxSteps: 200000}
		if prop == "C10" {
			opts.Monitor = func() {
				if w := c09BSCur; w != nil {
					w.monitor()
				}
			}
		}
		if !replay {
			opts.Deadline = time.Now().Add(time.Duration(vreport.Pick(40, 400)) * time.Second)
		} else {
			opts.Replay, opts.Prefix = true, c.Choices
			opts.Trace = os.Getenv("VERIF_DEBUG") != ""
		}
		st := vrt.Explore(opts, func() { c09BSBody(c.Scenario, obs) }, func(r *vrt.Result) {
			p.Eval()
			if opts.Trace {
				fmt.Println(strings.Join(r.Trace, "\n"))
			}
			cc := c
			cc.Choices = append([]int(nil), r.Choices...)
			if r.Deadlock || len(r.Panics) > 0 || r.StepLimit || r.Diverged != "" {
				key := "pool=" + c09BSPool + " execution does not complete [concurrent " + c.Scenario.class() + "]"
				if prop == "C10" {
					key = "pool=" + c09BSPool + " accounting: execution does not complete, its counters are never settled [concurrent " + c.Scenario.class() + "]"
				}
				p.Violation(key, fmt.Sprintf("scenario %q schedule %v: %s panics=%v", c.Scenario.Name, r.Choices, r.String(), r.Panics), cc)
				return
			}
			if obs.herr != "" {
				vreport.HarnessError(prop, part, fmt.Sprintf("scenario %q schedule %v: %s", c.Scenario.Name, r.Choices, obs.herr))
				return
			}
			samples += obs.samples
			if opts.Trace {
				fmt.Printf("end state: %s\noutcomes: %v\n", obs.canon, obs.outcomes)
				for _, f := range obs.findings {
					fmt.Printf("finding (%s): %s: %s\n", f.prop, f.key, f.detail)
				}
			}
			p.Distinct(c.Scenario.Name + "|" + obs.canon)
			p.Outcome(c.Scenario.Name + "|" + strings.Join(obs.outcomes, " || "))
			if p.WantSample() {
				p.Sample(map[string]interface{}{"scenario": c.Scenario.Name, "schedule_len": len(r.Choices), "outcomes": obs.outcomes, "state": obs.canon})
			}
			for _, f := range obs.findings {
				if f.prop != prop {
					continue
				}
				p.Violation(f.key, fmt.Sprintf("scenario %q (max_requests=%d, prefix %v, threads %v), schedule %v, thread outcomes %v: %s",
					c.Scenario.Name, c.Scenario.MaxReq, c.Scenario.Prefix, c.Scenario.Threads, r.Choices, obs.outcomes, f.detail), cc)
			}
		})
		p.AddTraces(st.Executions)
		if os.Getenv("VERIF_DEBUG") != "" {
			fmt.Printf("scenario %q: execs=%d maxdepth=%d complete=%v\n", c.Scenario.Name, st.Executions, st.MaxDepth, st.Complete)
		}
		p.Count("executions:"+c.Scenario.Name, st.Executions)
		return st.Complete
	}
	if vreport.Replaying() {
		var rc c09BSCase
		if vreport.ReplayFor(prop, part, &rc) {
			run(rc, true)
			p.End(true, "replay", "replay of one recorded schedule")
		}
		return
	}
	bound := vreport.Pick(quickBound, thoroughBound)
	if v, err := strconv.Atoi(os.Getenv("VERIF_BINDSCHED_BOUND")); err == nil && v > 0 {
		bound = v // development switch
	}
	complete := true
	ran, reduced := 0, 0
	for _, sc := range c09BSScenarios() {
		ran++
		b := bound
		if len(sc.Threads) > 2 {
			b = bound - 1
			reduced++
		}
		c := c09BSCase{Unit: part, Scenario: sc, Bound: b}
		// determinism self-check: the default schedule twice
		var canon [2]string
		var n [2]int
		for i := 0; i < 2; i++ {
			vrt.Explore(vrt.Options{Replay: true, MaxSteps: 200000}, func() { c09BSBody(sc, obs) }, func(r *vrt.Result) {
				canon[i], n[i] = obs.canon+"|"+strings.Join(obs.outcomes, "||")+"|"+obs.herr, len(r.Choices)
			})
		}
		if canon[0] != canon[1] || n[0] != n[1] {
			vreport.HarnessError(prop, part, fmt.Sprintf("scenario %q: the default schedule is not reproducible: %d vs %d choice points\n%s\n%s", sc.Name, n[0], n[1], canon[0], canon[1]))
			t.Fatal("harness nondeterminism")
		}
		if !run(c, false) {
			complete = false
		}
		if p.Expired() {
			complete = false
			break
		}
	}
	if prop == "C10" {
		p.Note("monitor_samples_at_scheduling_steps", samples)
	}
	what := "oracle Q1-Q6 (books, bindings, lease release with the downstream connection, closes only for a stated reason, counters, capacity probe)"
	if prop == "C10" {
		what = "accounting oracle: monitor at every scheduling step between the start of the threads and quiescence (Requests.Cur, Connections.Cur, host / cluster upstream_request_active and upstream_connection_active never negative); at exact quiescence, after the remaining streams were answered, after the capacity probe and after every downstream connection was closed the counters equal the in-flight streams / open connections (every Increase matched by exactly one Decrease; all zero at the end)"
	}
	p.End(complete,
		fmt.Sprintf("binding pool: %d scenarios (2-3 threads of NewStream(downstream connection) / downstream close / remote close / go-away / reply / local reset / pool Shutdown / pool Close after a sequential prefix, 1-2 downstream connections, max_requests=8), every interleaving with <= %d preemptions (%d scenarios with 3 threads: <= %d)", ran, bound, reduced, bound-1),
		"stateless DFS over the scheduling choices of the instrumented pool, stream and resource code (rewrite set proxy) and of Write / Close / Connect of the fake connections; one evaluation = one complete execution; "+what+"; violations already present after the prefix are not reported; distinct = distinct (scenario, canonical end state); outcome = per-thread event outcomes")
}

func TestVerifC09BindingSchedules(t *testing.T) {
	c09BSMain(t, "C09", "xproto-binding-schedules", 2, 3)
}
