//go:build verif

package xprotocol

// C09 (upstream connection pools), unit "xproto-binding": the binding pool
// (connpool_binding.go) under the explicit-state BFS of mosn.io/mosn/pkg/verifrt/c09 with the
// model options ModelOptions{Binding, ShutdownMayBlock} (engine.go). The same driver serves the
// C10 unit pool-xproto (zz_verif_C10_poolaccounting_test.go, built with "also": ["C09"]).

import (
	"context"
	"fmt"
	"sort"
	"strings"
	"sync"
	"sync/atomic"
	"testing"

	"mosn.io/api"
	xproto "mosn.io/mosn/pkg/protocol/xprotocol"
	"mosn.io/mosn/pkg/types"
	"mosn.io/mosn/pkg/verifrt/c09"
	"mosn.io/mosn/pkg/verifrt/vfake"
	"mosn.io/pkg/variable"
)

// ---------------------------------------------------------------------------
// binding pool (connpool_binding.go)
//
// Selected by a codec whose PoolMode() is neither Multiplex nor PingPong: "vboltbind" = the real
// bolt api.XProtocol with PoolMode() api.TCP and heartbeats off. The pool binds one upstream
// client to each DOWNSTREAM connection (types.VariableConnectionID / VariableConnection of the
// request context) and multiplexes that connection's requests over it; when either side closes,
// the pool closes the other. The driver keeps ONE downstream connection (a vfake server-side
// connection) per world and replaces it by a fresh one once it was closed (a closed downstream
// connection sends no more requests; the next request comes from a new client connection). Every
// client the pool hands out is bound to the current downstream connection (addDownConnListenerOnce
// runs in every NewStream) and closing it closes all of them, so the canonical state (open
// connections, slots) still determines the futures.
//
// Extra event dclose: the downstream connection closes (the statement's "downstream disconnect").
//
// Pool Close and Shutdown: both hold poolBinding.clientMux while they call into code that locks
// it again (Close: connpool_binding.go:130-137 -> synchronous close event ->
// activeClientBinding.OnEvent :291 -> removeFromPool :246; Shutdown :139-150 -> OnGoAway :351 ->
// removeFromPool :246): with one client in the pool the caller waits for itself (finding F8,
// findings/C09.md - the defect commit 76f1d5986 repaired in the ping-pong and HTTP/1 pools).
// SelfDeadlock proves it from the blocked goroutine's frames, PredictDeadlock states the
// precondition (a client in the pool). The C10 unit leaves the two events out of its alphabet.

const c09BindName api.ProtocolName = "vboltbind"

type c09BindProto struct{ api.XProtocol }

func (p c09BindProto) Name() api.ProtocolName { return c09BindName }
func (p c09BindProto) PoolMode() api.PoolMode { return api.TCP }
func (p c09BindProto) EnableWorkerPool() bool { return true }
func (p c09BindProto) Trigger(ctx context.Context, requestId uint64) api.XFrame {
	return nil // heartbeats disabled: the pool creates no keep-alive for this codec
}

type c09BindCodec struct{}

func (c *c09BindCodec) ProtocolName() api.ProtocolName { return c09BindName }
func (c *c09BindCodec) NewXProtocol(ctx context.Context) api.XProtocol {
	return c09BindProto{c09bolt.NewXProtocol(ctx)}
}
func (c *c09BindCodec) ProtocolMatch() api.ProtocolMatch { return c09bolt.ProtocolMatch() }
func (c *c09BindCodec) HTTPMapping() api.HTTPMapping     { return c09bolt.HTTPMapping() }

var c09BindOnce sync.Once
var c09bind = &c09BindCodec{}

type c09Binding struct {
	c09Common
	down  *vfake.Conn                 // the downstream connection of the next request context
	bound map[*vfake.Conn]*vfake.Conn // upstream connection -> downstream connection
}

func (*c09Binding) Model() c09.ModelOptions {
	return c09.ModelOptions{Binding: true, ShutdownMayBlock: true}
}

// c09.BindingModel
func (d *c09Binding) Bind(up *vfake.Conn)                     { d.bound[up] = d.down }
func (d *c09Binding) DownstreamOf(up *vfake.Conn) *vfake.Conn { return d.bound[up] }
func (d *c09Binding) CurrentDownstream() *vfake.Conn {
	if d.down != nil && d.down.IsClosed() {
		return nil
	}
	return d.down
}

func (*c09Binding) Name() string   { return "xproto-binding" }
func (*c09Binding) Kind() c09.Kind { return c09.Multiplex }
func (*c09Binding) Guarded() bool  { return true }

func (d *c09Binding) NewPool(ctx context.Context, host types.Host) types.ConnectionPool {
	c09Init()
	c09BindOnce.Do(func() {
		if err := xproto.RegisterXProtocolCodec(c09bind); err != nil {
			panic(err)
		}
	})
	d.down = nil
	d.bound = map[*vfake.Conn]*vfake.Conn{}
	p := NewConnPool(ctx, c09bind, host)
	if _, ok := p.(*poolBinding); !ok {
		panic(fmt.Sprintf("vboltbind did not select the binding pool: %T", p))
	}
	return p
}

func (d *c09Binding) NewCtx() context.Context {
	if d.down == nil || d.down.IsClosed() {
		d.down = vfake.NewServerSide("down")
	}
	ctx := d.c09Common.NewCtx()
	if err := variable.Set(ctx, types.VariableConnectionID, d.down.ID()); err != nil {
		panic(err)
	}
	if err := variable.Set(ctx, types.VariableConnection, api.Connection(d.down)); err != nil {
		panic(err)
	}
	return ctx
}

func (*c09Binding) Prepare(pool types.ConnectionPool, ctx context.Context) (bool, error) {
	return pool.CheckAndInit(ctx), nil
}
func (*c09Binding) Quiesce(pool types.ConnectionPool, shutdownRequested bool) error { return nil }

const (
	c09DLBindCloseClass     = "I3 self-deadlock in pool Close with a client in the pool (its connection never leaves the books)"
	c09DLBindCloseDetail    = "poolBinding.Close holds clientMux while closing the clients' connections; the synchronous close event runs activeClientBinding.OnEvent -> removeFromPool, which locks clientMux again: the caller of Close waits for itself while holding the pool mutex, every later NewStream on this pool blocks too"
	c09DLBindShutdownClass  = "I3 self-deadlock in pool Shutdown with a client in the pool (the pool mutex is never released)"
	c09DLBindShutdownDetail = "poolBinding.Shutdown holds clientMux while it calls OnGoAway of every client, whose first statement is removeFromPool, which locks clientMux again: the caller of Shutdown waits for itself while holding the pool mutex, every later NewStream on this pool blocks too"
)

func (*c09Binding) SelfDeadlock(stack string) (class, detail string) {
	a := strings.Index(stack, "(*activeClientBinding).removeFromPool")
	if a < 0 {
		return "", ""
	}
	if b := strings.Index(stack, "(*poolBinding).Close("); b > a {
		return c09DLBindCloseClass, c09DLBindCloseDetail
	}
	if b := strings.Index(stack, "(*poolBinding).Shutdown("); b > a {
		return c09DLBindShutdownClass, c09DLBindShutdownDetail
	}
	return "", ""
}

func (*c09Binding) PredictDeadlock(pool types.ConnectionPool, ev string, conn *vfake.Conn) (string, string) {
	p := pool.(*poolBinding)
	p.clientMux.Lock()
	n := len(p.idleClients)
	p.clientMux.Unlock()
	if n == 0 {
		return "", ""
	}
	switch ev {
	case "close":
		return c09DLBindCloseClass, c09DLBindCloseDetail
	case "shutdown":
		return c09DLBindShutdownClass, c09DLBindShutdownDetail
	}
	return "", ""
}

func (*c09Binding) Books(pool types.ConnectionPool) c09.Books {
	p := pool.(*poolBinding)
	p.clientMux.Lock()
	defer p.clientMux.Unlock()
	ids := make([]uint64, 0, len(p.idleClients))
	for id := range p.idleClients {
		ids = append(ids, id)
	}
	sort.Slice(ids, func(i, j int) bool { return ids[i] < ids[j] })
	b := c09.Books{}
	for _, id := range ids {
		ac := p.idleClients[id]
		st := "Connected"
		if atomic.LoadUint32(&ac.goaway) == GoAway {
			st = "GoAway"
		}
		b.Slots = append(b.Slots, c09.SlotBook{Present: true, State: st, Conn: c09Fake(ac.host.Connection)})
	}
	return b
}

func TestVerifC09Binding(t *testing.T) {
	c09.Main(t, &c09Binding{}, 7, 10)
}

func (d *c09Binding) ExtraEnabled(pool types.ConnectionPool) []string {
	if d.down != nil && !d.down.IsClosed() {
		return []string{"dclose"}
	}
	return nil
}

func (d *c09Binding) ApplyExtra(pool types.ConnectionPool, ev string) string {
	d.down.Close(api.NoFlush, api.RemoteClose)
	return "closed"
}

// ApplyExtraKind (c09.ExtraKinds): the downstream connection closes with the given close kind
// (reset by the client: OnReadErrClose; a response write ran into the write deadline:
// OnWriteTimeout; closed by the proxy: LocalClose; ...) or is told of something that is no close
// (OnReadTimeout: idle read timeout of the read loop; OnShutdown: activeListener.OnShutdown tells
// every connection of a listener that is being stopped gracefully) - then the lease must stay.
func (d *c09Binding) ApplyExtraKind(pool types.ConnectionPool, ev string, kind api.ConnectionEvent) string {
	switch kind {
	case api.OnReadTimeout, api.OnShutdown:
		d.down.OnConnectionEvent(kind)
		return "delivered"
	}
	d.down.Close(api.NoFlush, kind)
	return "closed"
}
