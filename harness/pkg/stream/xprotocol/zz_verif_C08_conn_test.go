//go:build verif

package xprotocol

// C08 unit "streamconn": connection-level containment at the xprotocol stream
// layer. Two REAL server stream connections (NewStreamFactory(codec).CreateServerStream)
// of the same protocol live in one process: connection B receives a valid
// request and answers it; connection A receives one malformed input; then B
// receives the same valid request again. B must decode and answer exactly as it
// did before any garbage arrived (same headers, body, reply bytes), whatever
// happened on A.
//
// The receiver is scripted the way pkg/proxy's downStream behaves: OnReceive of a
// request answers with a hijack reply of status 200 (VarHeaderStatus +
// AppendHeaders(request headers, endStream)), OnDecodeError answers with the
// codec-exception hijack reply (downStream.OnDecodeError -> sendHijackReply).
// Assumed (not under test here): pkg/network's read loop runs Dispatch under
// GoWithRecover and closes the connection on panic - a panic escaping A's
// Dispatch is therefore recorded as "A: recovered by the read loop" here; that
// the decoders must not panic at all is the business of unit "xcodecs".

import (
	"context"
	"fmt"
	"net"
	"sort"
	"strconv"
	"strings"
	"sync"
	"testing"
	"time"

	"mosn.io/api"
	"mosn.io/pkg/buffer"
	"mosn.io/pkg/variable"

	xproto "mosn.io/mosn/pkg/protocol/xprotocol"
	"mosn.io/mosn/pkg/protocol/xprotocol/bolt"
	"mosn.io/mosn/pkg/protocol/xprotocol/boltv2"
	"mosn.io/mosn/pkg/protocol/xprotocol/dubbo"
	"mosn.io/mosn/pkg/protocol/xprotocol/dubbothrift"
	"mosn.io/mosn/pkg/protocol/xprotocol/tars"
	"mosn.io/mosn/pkg/types"
	"mosn.io/mosn/pkg/verifrt/c08"
	"mosn.io/mosn/pkg/verifrt/vreport"
)

// c08Conn is the part of api.Connection the stream layer uses; anything else is a nil-interface call (a
// harness problem that shows up as a panic in the harness, never silently).
type c08Conn struct {
	api.Connection
	id     uint64
	writes []string
	closed []string
}

func (c *c08Conn) ID() uint64                                             { return c.id }
func (c *c08Conn) RemoteAddr() net.Addr                                   { return &net.TCPAddr{IP: net.IPv4(10, 0, 0, 1), Port: 1000} }
func (c *c08Conn) LocalAddr() net.Addr                                    { return &net.TCPAddr{IP: net.IPv4(10, 0, 0, 2), Port: 2000} }
func (c *c08Conn) SetTransferEventListener(func() bool)                   {}
func (c *c08Conn) AddConnectionEventListener(api.ConnectionEventListener) {}
func (c *c08Conn) State() api.ConnState {
	if len(c.closed) > 0 {
		return api.ConnClosed
	}
	return api.ConnActive
}
func (c *c08Conn) Write(bufs ...buffer.IoBuffer) error {
	if len(c.closed) > 0 {
		return types.ErrConnectionHasClosed
	}
	for _, b := range bufs {
		c.writes = append(c.writes, fmt.Sprintf("%x", b.Bytes()))
	}
	return nil
}
func (c *c08Conn) Close(ccType api.ConnectionCloseType, ev api.ConnectionEvent) error {
	c.closed = append(c.closed, fmt.Sprintf("%v/%v", ccType, ev))
	return nil
}

type c08Receiver struct {
	cb     *c08Callbacks
	sender types.StreamSender
}

type c08Callbacks struct {
	log    []string
	budget int // streams one Dispatch call may still hand up
}

// c08Livelock is thrown out of Dispatch by the harness when one Dispatch call on n input bytes has handed
// up more than n+8 frames: every frame consumes at least one byte, so the loop is not consuming its input
// and would never end (in the proxy: the connection's read goroutine spins, creating streams forever).
type c08Livelock struct{}

// c08Buf counts the Len() calls on the read buffer: Dispatch asks at least once per loop iteration, a codec's
// Decode a handful of times per frame. More than 32*(n+8) calls for n input bytes mean the loop is spinning
// on unconsumed input without even handing frames up (e.g. responses nobody waits for).
type c08Buf struct {
	buffer.IoBuffer
	calls *int
	limit int
}

func (b c08Buf) Len() int {
	*b.calls++
	if *b.calls > b.limit {
		panic(c08Livelock{})
	}
	return b.IoBuffer.Len()
}

func (cb *c08Callbacks) OnGoAway() {}
func (cb *c08Callbacks) NewStreamDetect(ctx context.Context, sender types.StreamSender, span api.Span) types.StreamReceiveListener {
	cb.budget--
	if cb.budget < 0 {
		panic(c08Livelock{})
	}
	return &c08Receiver{cb: cb, sender: sender}
}

func c08Headers(h api.HeaderMap) string {
	var kvs []string
	if h != nil {
		h.Range(func(k, v string) bool { kvs = append(kvs, fmt.Sprintf("%q=%q", k, v)); return true })
	}
	sort.Strings(kvs)
	return strings.Join(kvs, ",")
}

func (r *c08Receiver) OnReceive(ctx context.Context, headers api.HeaderMap, data buffer.IoBuffer, trailers api.HeaderMap) {
	d := "nil"
	if data != nil {
		d = fmt.Sprintf("%x", data.Bytes())
	}
	r.cb.log = append(r.cb.log, fmt.Sprintf("recv[%s] data=%s sender=%v", c08Headers(headers), d, r.sender != nil))
	if r.sender != nil {
		// answer like the proxy's direct response: status 200 hijack reply built by the codec
		_ = variable.SetString(ctx, types.VarHeaderStatus, "200")
		if err := r.sender.AppendHeaders(ctx, headers, true); err != nil {
			r.cb.log = append(r.cb.log, "reply-error:"+err.Error())
		}
	}
}

func (r *c08Receiver) OnDecodeError(ctx context.Context, err error, headers api.HeaderMap) {
	r.cb.log = append(r.cb.log, "decode-error")
	if r.sender != nil {
		// downStream.OnDecodeError -> sendHijackReply(api.UnknownCode, headers)
		_ = variable.SetString(ctx, types.VarHeaderStatus, strconv.Itoa(api.UnknownCode))
		if e := r.sender.AppendHeaders(ctx, headers, true); e != nil {
			r.cb.log = append(r.cb.log, "reply-error")
		}
	}
}

type c08Peer struct {
	conn *c08Conn
	cb   *c08Callbacks
	sc   types.ServerStreamConnection
}

var c08ConnID uint64 = 1000

func c08NewPeer(proto string) *c08Peer {
	cd := c08Codecs[proto]
	c08ConnID++
	p := &c08Peer{conn: &c08Conn{id: c08ConnID}, cb: &c08Callbacks{}}
	p.sc = NewStreamFactory(cd).CreateServerStream(context.Background(), p.conn, p.cb)
	return p
}

// dispatch feeds bytes the way the proxy's read filter does (one buffer, Dispatch) and returns what the
// outside sees: frames handed up, bytes written, close events.
func (p *c08Peer) dispatch(b []byte) (out string) {
	p.cb.log, p.conn.writes = nil, nil
	p.cb.budget = len(b) + 8
	calls := 0
	nclosed := len(p.conn.closed)
	defer func() {
		if r := recover(); r != nil {
			if _, ok := r.(c08Livelock); ok {
				first := "none handed up"
				if len(p.cb.log) > 0 {
					first = p.cb.log[0]
				}
				out = fmt.Sprintf("LIVELOCK Dispatch still looping after %d frames handed up / %d buffer polls for %d input bytes; first frame: %s", len(p.cb.log), calls, len(b), first)
				return
			}
			// the read loop's GoWithRecover closes the connection
			p.conn.closed = append(p.conn.closed, "read-loop-recover")
			out = "panic-recovered-by-read-loop"
		}
	}()
	io := buffer.NewIoBufferBytes(b)
	p.sc.Dispatch(c08Buf{IoBuffer: io, calls: &calls, limit: 32 * (len(b) + 8)})
	return fmt.Sprintf("up=%v writes=%v closed=%v rest=%d", p.cb.log, p.conn.writes, p.conn.closed[nclosed:], io.Len())
}

var c08Codecs = map[string]api.XProtocolCodec{}

func init() {
	// registration as the mosn binary does it (the existing tests of this package, which are removed from
	// this build, do the same in their init)
	xproto.RegisterXProtocolAction(NewConnPool, NewStreamFactory, func(codec api.XProtocolCodec) {})
	for _, c := range []api.XProtocolCodec{&bolt.XCodec{}, &boltv2.XCodec{}, &dubbo.XCodec{}, &dubbothrift.XCodec{}, &tars.XCodec{}} {
		_ = xproto.RegisterXProtocolCodec(c)
		c08Codecs[string(c.ProtocolName())] = c
	}
}

type c08Proto struct {
	name   string
	frames []c08.Frame
	req    int // index of B's valid request in frames
}

func c08Protos() []c08Proto {
	return []c08Proto{
		{"bolt", c08.BoltFrames(false), 1}, {"boltv2", c08.BoltFrames(true), 1}, {"dubbo", c08.DubboFrames(), 1},
		{"tars", c08.TarsFrames()[:5], 1} /* the non-canonical vector encodings are exercised by xcodecs only: each costs seconds of CPU and GiBs on the unfixed tree */, {"dubbo-thrift", c08.ThriftFrames(), 1},
	}
}

// per process: B connections and their reference observation (taken before any garbage)
var (
	c08Mu   sync.Mutex
	c08B    = map[string]*c08Peer{}
	c08BRef = map[string]string{}
	c08BReq = map[string][]byte{}
)

func c08ExecConn(cc c08.Case, buf []byte) string {
	c08Mu.Lock()
	defer c08Mu.Unlock()
	c := cc
	c.Target = strings.TrimPrefix(cc.Target, "streamconn/")
	b := c08B[c.Target]
	if b == nil {
		for _, pr := range c08Protos() {
			if pr.name == c.Target {
				c08BReq[c.Target] = pr.frames[pr.req].Bytes
			}
		}
		b = c08NewPeer(c.Target)
		c08B[c.Target] = b
		c08BRef[c.Target] = b.dispatch(append([]byte(nil), c08BReq[c.Target]...))
	}
	if c.Target == "tars" && c08.TarsAbsurdMapCount(buf) {
		// findings/C08.md F5: sizes up to 2^24 are executed under the cost oracle, larger ones are not
		return "not-run (announced map size > 2^24) B-same"
	}
	a := c08NewPeer(c.Target) // a fresh connection A for every input
	aout := a.dispatch(buf)
	bout := b.dispatch(append([]byte(nil), c08BReq[c.Target]...))
	kind := "waits"
	switch {
	case strings.HasPrefix(aout, "LIVELOCK"):
		kind = "livelock"
	case strings.HasPrefix(aout, "panic"):
		kind = "closed-by-recover"
	case strings.Contains(aout, "closed=[") && !strings.Contains(aout, "closed=[]"):
		kind = "closed"
	case strings.Contains(aout, "decode-error"):
		kind = "error-reply"
	case strings.Contains(aout, "recv["):
		kind = "served"
	case strings.Contains(aout, "writes=[") && !strings.Contains(aout, "writes=[]"):
		kind = "answered"
	}
	same := "B-same"
	if bout != c08BRef[c.Target] {
		same = "B-CHANGED ref={" + c08BRef[c.Target] + "} now={" + bout + "}"
	}
	return fmt.Sprintf("%s A{%s} %s", kind, aout, same)
}

func c08ConnGen() func(yield func(c08.Case) bool) {
	return func(yield func(c08.Case) bool) {
		for _, pr := range c08Protos() {
			for _, f := range pr.frames {
				if !c08.Mutations("streamconn/"+pr.name, f, yield) {
					return
				}
			}
			// constructed header blocks (validator and parser walk the same bytes) through Dispatch
			if pr.name == "bolt" || pr.name == "boltv2" {
				if !c08.BoltHeaderGrid("streamconn/"+pr.name, pr.name == "boltv2", vreport.Pick(3, 4), vreport.Thorough(), yield) {
					return
				}
			}
		}
	}
}

func TestVerifC08StreamConn(t *testing.T) {
	c08.Main(t, c08.Spec{Prop: "C08", Part: "streamconn", Budget: time.Duration(vreport.Pick(4, 20)) * time.Minute,
		Gen: c08ConnGen(), Exec: c08ExecConn,
		Judge: func(c c08.Case, out string) (string, string) {
			if strings.HasPrefix(out, "livelock") {
				return fmt.Sprintf("%s class=%s Dispatch never returns: it keeps decoding the same frame without consuming the input", c.Target, c.Class),
					fmt.Sprintf("frame %q, %s; input=%s; %s", c.Frame, c.Desc, c.Hex, out)
			}
			if i := strings.Index(out, "B-CHANGED"); i >= 0 {
				return fmt.Sprintf("%s class=%s garbage on connection A changes how connection B's valid request is served", c.Target, c.Class),
					fmt.Sprintf("frame %q, %s; %s", c.Frame, c.Desc, out)
			}
			if c.Class == "hdrgrid" {
				// a request handed up to the receiver must carry exactly the pairs of the reference parse
				if i := strings.Index(out, "up=[recv["); i >= 0 {
					if j := strings.Index(out[i:], "] data="); j >= 0 {
						got := out[i+len("up=[recv[") : i+j]
						if ref, accept, ok := c08.BoltHeaderRef(c.Input()); ok {
							sort.Strings(ref)
							if want := strings.Join(ref, ","); !accept || got != want {
								return fmt.Sprintf("%s class=%s request handed up with other key/value pairs than an independent reference parse of its header block", c.Target, c.Class),
									fmt.Sprintf("receiver got headers [%s]; reference parse: accept=%v [%s]; %s; input=%s", got, accept, want, c.Desc, c.Hex)
							}
						}
					}
				}
			}
			if ref := c08BRef[strings.TrimPrefix(c.Target, "streamconn/")]; !strings.Contains(ref, "recv[") {
				return "harness: connection B's reference request is not served", ref
			}
			return "", ""
		},
		Bound: "protocols bolt, boltv2, dubbo, dubbo-thrift, tars; connection A (fresh per input) receives every corruption of every frame of the codec alphabet (every truncation, length-field value, byte set {0x00,0xFF,^b} (thorough: all 256 values), dangling/trailing bytes - the xcodecs alphabet without the short strings); connection B (one per protocol per process, so state accumulates over all inputs) receives the valid 'request with headers/body' before the first and after every input; bolt/boltv2 additionally the constructed header-block grid of xcodecs (sequences of <= 3 strings, right header length; thorough: <= 4 strings, header length right/-1/+1)",
		Rule:  "real server streamConn.Dispatch on fake connections; scripted receiver answering like the proxy (hijack reply 200 on receive, unknown-code reply on decode error); oracle: B's observation (frame handed up: headers + body; bytes written; close events; unconsumed bytes) after A's garbage equals B's observation before any garbage; outcome = what happened on A (waits|served|error-reply|closed|closed-by-recover|livelock); one Dispatch call handing up more than len(input)+8 frames, or polling the buffer length more than 32*(len(input)+8) times, is cut off by the harness and reported as never returning; a panic on A is counted as recovered by the read loop (assumed mechanism), not reported here; allocation and poison oracles as in xcodecs; header-block grid: a request handed up must carry exactly the key/value pairs of an independent reference parse of its header block; thread CPU time of one Dispatch round on an input <= 1 KiB <= 100 ms as in xcodecs; tars inputs announcing a map size > 2^24 in a 4-byte INT are not executed (kind not-run; findings/C08.md F5)"})
}
