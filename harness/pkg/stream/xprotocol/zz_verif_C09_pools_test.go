//go:build verif

package xprotocol

// C09 (upstream connection pools: exclusive leases, no leaks, no dirty reuse),
// units "xproto-pingpong" and "xproto-multiplex": the pool-specific drivers of
// the explicit-state BFS in mosn.io/mosn/pkg/verifrt/c09 (read its package
// comment for the search, the reference model and the oracle).
//
//   - ping-pong: no built-in codec selects api.PingPong, so the harness registers
//     the codec "vboltpp": the real bolt api.XProtocol with Name() "vboltpp",
//     PoolMode() PingPong and heartbeats disabled (Trigger returns nil, so the
//     pool creates no keep-alive). NewConnPool(ctx, codec, host) then returns the
//     real poolPingPong.
//   - multiplex: the real "bolt" codec. Its keep-alive object is created but is
//     inert (cluster keep-alive interval 0, no read-timeout events from the fake
//     connection). The pool connects asynchronously (utils.GoWithRecover in
//     init); Prepare polls CheckAndInit like clusterManager.ConnPoolForCluster
//     and, between polls, waits until no slot is in state Connecting any more
//     (the init goroutine holds clientMux for its whole life and ends by storing a
//     Connected client or deleting the slot entry) - a timeout of that wait is a
//     HARNESS error.
//
// Both are in-package to read the books: poolPingPong.idleClients /
// totalClientCount / client flags; poolMultiplex.activeClients (per slot: state,
// connection), currentCheckAndInitIdx, shutdown.

import (
	"context"
	"fmt"
	"runtime"
	"strings"
	"sync"
	"sync/atomic"
	"testing"
	"time"

	"mosn.io/api"
	xproto "mosn.io/mosn/pkg/protocol/xprotocol"
	"mosn.io/mosn/pkg/protocol/xprotocol/bolt"
	"mosn.io/mosn/pkg/protocol/xprotocol/boltv2"
	"mosn.io/mosn/pkg/types"
	"mosn.io/mosn/pkg/verifrt/c09"
	"mosn.io/mosn/pkg/verifrt/vfake"
	"mosn.io/mosn/pkg/verifrt/vreport"
	"mosn.io/pkg/buffer"
	"mosn.io/pkg/variable"
)

// ---------------------------------------------------------------------------
// the ping-pong codec

const c09PPName api.ProtocolName = "vboltpp"

type c09PPProto struct{ api.XProtocol }

func (p c09PPProto) Name() api.ProtocolName { return c09PPName }
func (p c09PPProto) PoolMode() api.PoolMode { return api.PingPong }
func (p c09PPProto) EnableWorkerPool() bool { return true }
func (p c09PPProto) Trigger(ctx context.Context, requestId uint64) api.XFrame {
	return nil // heartbeats disabled: the pool creates no keep-alive for this codec
}

type c09PPCodec struct{ inner bolt.XCodec }

func (c *c09PPCodec) ProtocolName() api.ProtocolName { return c09PPName }
func (c *c09PPCodec) NewXProtocol(ctx context.Context) api.XProtocol {
	return c09PPProto{c.inner.NewXProtocol(ctx)}
}
func (c *c09PPCodec) ProtocolMatch() api.ProtocolMatch { return c.inner.ProtocolMatch() }
func (c *c09PPCodec) HTTPMapping() api.HTTPMapping     { return c.inner.HTTPMapping() }

var c09Once sync.Once
var c09pp = &c09PPCodec{}
var c09bolt = &bolt.XCodec{}

func c09Init() {
	c09Once.Do(func() {
		xproto.RegisterXProtocolAction(NewConnPool, NewStreamFactory, nil)
		for _, c := range []api.XProtocolCodec{c09bolt, &boltv2.XCodec{}, c09pp} {
			if err := xproto.RegisterXProtocolCodec(c); err != nil {
				panic(err)
			}
		}
	})
}

// ---------------------------------------------------------------------------
// bolt wire helpers (shared by both drivers)

type c09Header map[string]string

func c09Encode(frame interface{}) []byte {
	b, err := c09bolt.NewXProtocol(context.Background()).Encode(context.Background(), frame)
	if err != nil {
		panic(err)
	}
	return append([]byte(nil), b.Bytes()...)
}

type c09Common struct{}

func (c09Common) Async() bool { return false }

func (c09Common) AfterSend(sender types.StreamSender) error { return nil }

// SelfDeadlock recognises, from the frames of one blocked goroutine, the chain
// streamConn.Reset (holds sc.clientMutex.Lock for its whole body) -> xStream.ResetStream ->
// BaseStream.DestroyStream -> listener.OnDestroyStream -> client.ActiveRequestsNum ->
// streamConn.ActiveStreamsNum (sc.clientMutex.RLock of the SAME streamConn: the stream's listener
// is the active client of the connection being reset): the goroutine waits for itself.
const (
	c09DLGoAwayClass  = "I5 self-deadlock when a go-away connection that still carries streams is closed (streams never destroyed)"
	c09DLGoAwayDetail = "streamConn.Reset holds sc.clientMutex while it resets the streams; activeClientMultiplex.OnDestroyStream, seeing state GoAway, calls codecClient.ActiveRequestsNum -> streamConn.ActiveStreamsNum, which read-locks the same mutex: the closing goroutine waits for itself, no stream of the connection is ever destroyed, Requests / upstream_request_active are never released"
	c09DLCloseClass   = "I3 self-deadlock in pool Close with an idle connection (idle connections never leave the books)"
	c09DLCloseDetail  = "poolPingPong.Close holds clientMux while closing the idle connections; the synchronous close event runs activeClientPingPong.OnEvent -> removeFromPool, which locks clientMux again: the caller of Close waits for itself while holding the pool mutex, every later NewStream on this pool blocks too"
)

func (c09Common) SelfDeadlock(stack string) (class, detail string) {
	i := strings.Index(stack, "(*streamConn).ActiveStreamsNum")
	j := strings.Index(stack, "(*streamConn).Reset(")
	k := strings.Index(stack, "OnDestroyStream")
	if i >= 0 && j > i && k > i && k < j {
		return c09DLGoAwayClass, c09DLGoAwayDetail
	}
	// poolPingPong.Close holds p.clientMux while it closes the idle connections; the close event
	// reaches activeClientPingPong.OnEvent -> removeFromPool, which locks p.clientMux again
	if a, b := strings.Index(stack, "(*activeClientPingPong).removeFromPool"), strings.Index(stack, "(*poolPingPong).Close("); a >= 0 && b > a {
		return c09DLCloseClass, c09DLCloseDetail
	}
	return "", ""
}

func (c09Common) NewCtx() context.Context {
	return buffer.NewBufferPoolContext(variable.NewVariableContext(context.Background()))
}

func (c09Common) RequestHeaders(ctx context.Context) api.HeaderMap {
	req := bolt.NewRpcRequest(0, nil, nil)
	req.Set("service", "svc")
	req.Timeout = 0
	return req
}

func (c09Common) ReplyBytes(reqBytes []byte, goAway bool) ([]byte, error) {
	f, err := c09bolt.NewXProtocol(context.Background()).Decode(context.Background(), buffer.NewIoBufferBytes(append([]byte(nil), reqBytes...)))
	if err != nil {
		return nil, err
	}
	req, ok := f.(*bolt.Request)
	if !ok {
		return nil, fmt.Errorf("request bytes decode to %T", f)
	}
	resp := bolt.NewRpcResponse(req.RequestId, bolt.ResponseStatusSuccess, nil, buffer.NewIoBufferString("ok"))
	return c09Encode(resp), nil
}

func (c09Common) GoAwayBytes() []byte {
	// the frame a bolt server with enable_bolt_goaway sends (boltProtocol.GoAway)
	return c09Encode(&bolt.Request{RequestHeader: bolt.RequestHeader{Protocol: bolt.ProtocolCode, CmdType: bolt.CmdTypeRequest,
		CmdCode: bolt.CmdCodeGoAway, Version: bolt.ProtocolVersion, RequestId: 4242, Codec: bolt.Hessian2Serialize}})
}

// garbage is not in the xprotocol alphabets: an undecodable frame makes the stream layer close the
// connection locally, which is the event lclose(c).
func (c09Common) GarbageBytes() []byte { return nil }

func c09Fake(c api.Connection) *vfake.Conn {
	if c == nil {
		return nil
	}
	fc, _ := c.(*vfake.Conn)
	return fc
}

// ---------------------------------------------------------------------------
// ping-pong driver

type c09PingPong struct{ c09Common }

func (c09PingPong) Name() string   { return "xproto-pingpong" }
func (c09PingPong) Kind() c09.Kind { return c09.PingPong }
func (c09PingPong) NewPool(ctx context.Context, host types.Host) types.ConnectionPool {
	c09Init()
	p := NewConnPool(ctx, c09pp, host)
	if _, ok := p.(*poolPingPong); !ok {
		panic(fmt.Sprintf("vboltpp did not select the ping-pong pool: %T", p))
	}
	return p
}
func (c09PingPong) Prepare(pool types.ConnectionPool, ctx context.Context) (bool, error) {
	return pool.CheckAndInit(ctx), nil
}
func (c09PingPong) Guarded() bool { return true }
func (c09PingPong) PredictDeadlock(pool types.ConnectionPool, ev string, conn *vfake.Conn) (string, string) {
	p := pool.(*poolPingPong)
	if ev != "close" {
		return "", ""
	}
	p.clientMux.Lock()
	n := len(p.idleClients)
	p.clientMux.Unlock()
	if n > 0 {
		return c09DLCloseClass, c09DLCloseDetail
	}
	return "", ""
}
func (c09PingPong) Quiesce(pool types.ConnectionPool, shutdownRequested bool) error { return nil }
func (c09PingPong) Books(pool types.ConnectionPool) c09.Books {
	p := pool.(*poolPingPong)
	p.clientMux.Lock()
	defer p.clientMux.Unlock()
	b := c09.Books{HasTotal: true, Total: int64(p.totalClientCount.Load())}
	for _, c := range p.idleClients {
		b.Idle = append(b.Idle, c09.ClientBook{Conn: c09Fake(c.host.Connection), Flags: fmt.Sprintf("closed=%v,shouldClose=%v", c.closed, c.shouldCloseConn)})
	}
	return b
}

// LimitEvents (c09.RuntimeLimits): max_connections of the cluster's live resource manager is changed at
// runtime by a cluster update, anywhere in a history: quick <= 2 changes per history to 1 or 2,
// thorough <= 3 changes to 0 (unlimited), 1 or 2.
func (c09PingPong) LimitEvents() (int, []uint32) {
	if vreport.Thorough() {
		return 3, []uint32{0, 1, 2}
	}
	return 2, []uint32{1, 2}
}

func TestVerifC09PingPong(t *testing.T) {
	c09.Main(t, c09PingPong{}, 7, 10)
}

// ---------------------------------------------------------------------------
// multiplex driver

type c09Multiplex struct{ c09Common }

func (c09Multiplex) Name() string   { return "xproto-multiplex" }
func (c09Multiplex) Kind() c09.Kind { return c09.Multiplex }
func (c09Multiplex) Guarded() bool  { return true }
func (c09Multiplex) NewPool(ctx context.Context, host types.Host) types.ConnectionPool {
	c09Init()
	p := NewConnPool(ctx, c09bolt, host)
	if _, ok := p.(*poolMultiplex); !ok {
		panic(fmt.Sprintf("bolt did not select the multiplex pool: %T", p))
	}
	return p
}

// PredictDeadlock: closing (either side, or through pool Close, which closes the clients in the slots)
// a connection whose client is in state GoAway while streams are registered on its stream connection.
func (c09Multiplex) PredictDeadlock(pool types.ConnectionPool, ev string, conn *vfake.Conn) (string, string) {
	p := pool.(*poolMultiplex)
	hit := false
	for i := range p.activeClients {
		p.activeClients[i].Range(func(k, v interface{}) bool {
			ac := v.(*activeClientMultiplex)
			if ac.codecClient == nil || ac.host.Connection == nil {
				return true
			}
			if conn != nil && c09Fake(ac.host.Connection) != conn {
				return true
			}
			if atomic.LoadUint32(&ac.state) == GoAway && ac.codecClient.ActiveRequestsNum() > 0 && ac.host.Connection.State() != api.ConnClosed {
				hit = true
			}
			return true
		})
	}
	if hit {
		return c09DLGoAwayClass, c09DLGoAwayDetail
	}
	return "", ""
}

var c09StateName = map[uint32]string{Init: "Init", Connecting: "Connecting", Connected: "Connected", GoAway: "GoAway"}

func (c09Multiplex) Books(pool types.ConnectionPool) c09.Books {
	p := pool.(*poolMultiplex)
	p.clientMux.Lock()
	defer p.clientMux.Unlock()
	b := c09.Books{}
	for i := range p.activeClients {
		sb := c09.SlotBook{}
		p.activeClients[i].Range(func(k, v interface{}) bool {
			ac := v.(*activeClientMultiplex)
			sb.Present = true
			sb.State = c09StateName[atomic.LoadUint32(&ac.state)]
			sb.Conn = c09Fake(ac.host.Connection)
			return true
		})
		b.Slots = append(b.Slots, sb)
	}
	b.Extra = fmt.Sprintf("cursor=%d,shutdown=%v", atomic.LoadInt64(&p.currentCheckAndInitIdx)%int64(len(p.activeClients)), p.shutdown)
	return b
}

// Quiesce waits until the goroutines started by init / Shutdown have done their work.
func (c09Multiplex) Quiesce(pool types.ConnectionPool, shutdownRequested bool) error {
	p := pool.(*poolMultiplex)
	deadline := time.Now().Add(20 * time.Second)
	for n := 0; ; n++ {
		p.clientMux.Lock()
		sd := p.shutdown
		connecting := false
		if !sd {
			for i := range p.activeClients {
				p.activeClients[i].Range(func(k, v interface{}) bool {
					if atomic.LoadUint32(&v.(*activeClientMultiplex).state) == Connecting {
						connecting = true
					}
					return true
				})
			}
		}
		p.clientMux.Unlock()
		// after Shutdown an init goroutine returns without touching anything: nothing to wait for
		if (!shutdownRequested || sd) && !connecting {
			return nil
		}
		if time.Now().After(deadline) {
			return fmt.Errorf("multiplex pool did not quiesce within 20s (shutdown requested=%v seen=%v, a slot still Connecting=%v)", shutdownRequested, sd, connecting)
		}
		if n < 200 {
			runtime.Gosched()
		} else {
			time.Sleep(50 * time.Microsecond)
		}
	}
}

func (d c09Multiplex) Prepare(pool types.ConnectionPool, ctx context.Context) (bool, error) {
	p := pool.(*poolMultiplex)
	// every poll that returns false may have started an init goroutine: wait for it before the
	// next poll (and before returning), so that exactly one connection attempt is in progress at any time
	for try := 0; try < 4; try++ {
		if pool.CheckAndInit(ctx) {
			return true, nil
		}
		p.clientMux.Lock()
		sd := p.shutdown
		p.clientMux.Unlock()
		if err := d.Quiesce(pool, sd); err != nil {
			return false, err
		}
	}
	return false, nil
}

func TestVerifC09Multiplex(t *testing.T) {
	c09.Main(t, c09Multiplex{}, 7, 11)
}

// TestVerifC09PingPongSchedules is the concurrent (E1) part for the ping-pong pool: see
// mosn.io/mosn/pkg/verifrt/c09/sched.go. Built with the "proxy" rewrite set (pkg/stream,
// pkg/stream/xprotocol, pkg/upstream/cluster instrumented).
func TestVerifC09PingPongSchedules(t *testing.T) {
	c09.MainSchedules(t, c09PingPong{}, append(c09.DefaultScenarios(), c09.DoomedScenarios(false)...), 2, 3, 3)
}
