//go:build verif

package xprotocol

import (
	"mosn.io/mosn/pkg/protocol/xprotocol"
	"mosn.io/mosn/pkg/protocol/xprotocol/bolt"
	"mosn.io/mosn/pkg/protocol/xprotocol/boltv2"
	"mosn.io/mosn/pkg/protocol/xprotocol/dubbo"
	"mosn.io/mosn/pkg/protocol/xprotocol/dubbothrift"
	"mosn.io/mosn/pkg/protocol/xprotocol/tars"
	_ "mosn.io/mosn/pkg/stream/http"
	_ "mosn.io/mosn/pkg/stream/http2"
)

func init() {
	// the same registration cmd/mosn/main/control.go performs (Http1/Http2 register in their own init)
	xprotocol.RegisterXProtocolAction(NewConnPool, NewStreamFactory, nil)
	_ = xprotocol.RegisterXProtocolCodec(&bolt.XCodec{})
	_ = xprotocol.RegisterXProtocolCodec(&boltv2.XCodec{})
	_ = xprotocol.RegisterXProtocolCodec(&dubbo.XCodec{})
	_ = xprotocol.RegisterXProtocolCodec(&dubbothrift.XCodec{})
	_ = xprotocol.RegisterXProtocolCodec(&tars.XCodec{})
}
