//go:build verif

package xprotocol

// C07 part 1: message extraction of the real xprotocol stream connection is
// independent of how the byte stream is cut into reads.
//
// Seam: the real streamConn (CreateServerStream / CreateClientStream of the
// registered stream factory) with its Dispatch(buf) fed from ONE persistent
// read buffer that is filled exactly like network.connection.doRead does it:
// buffer.GetIoBuffer(DefaultReadBufferSize) + IoBuffer.ReadOnce(reader) per
// read, Dispatch after every read, unconsumed bytes stay in the buffer.
// Observation: a recording wrapper around sc.protocol sees every Decode call
// and result (pure delegation), a scripted ServerStreamConnectionEventListener
// / StreamReceiveListener records what is handed up, the fake connection
// records Write (heartbeat acks) and Close.
//
// Oracle (per read): the frames decoded so far are exactly the input frames
// whose last byte has arrived, in order, each once, with the input's bytes and
// the same (type, id, heartbeat, headers, data) view as when the frame is fed
// alone; the unconsumed buffer is exactly the rest of the fed bytes; a Decode
// that returns no frame consumes nothing. At the end of the stream every frame
// handed up earlier still reads the same and re-encodes to the input bytes.

import (
	"context"
	"encoding/hex"
	"fmt"
	"net"
	"reflect"
	"sort"
	"strings"
	"testing"
	"time"

	"mosn.io/api"
	"mosn.io/mosn/pkg/network"
	"mosn.io/mosn/pkg/protocol"
	"mosn.io/mosn/pkg/types"
	"mosn.io/mosn/pkg/verifrt/c07frames"
	"mosn.io/mosn/pkg/verifrt/vreport"
	"mosn.io/pkg/buffer"
	"mosn.io/pkg/variable"
)

// ---------------------------------------------------------------- fakes

// c07Conn is the minimal connection the stream connection needs. The embedded
// nil interface makes every method the harness did not foresee panic loudly
// (reported as a harness problem, never as a violation).
type c07Conn struct {
	types.ClientConnection
	writes [][]byte
	closed []string
}

var c07Addr = &net.TCPAddr{IP: net.IPv4(127, 0, 0, 1), Port: 1107}

func (c *c07Conn) ID() uint64                                             { return 7 }
func (c *c07Conn) LocalAddr() net.Addr                                    { return c07Addr }
func (c *c07Conn) RemoteAddr() net.Addr                                   { return c07Addr }
func (c *c07Conn) SetTransferEventListener(func() bool)                   {}
func (c *c07Conn) AddConnectionEventListener(api.ConnectionEventListener) {}
func (c *c07Conn) Write(bufs ...buffer.IoBuffer) error {
	var b []byte
	for _, x := range bufs {
		if x != nil {
			b = append(b, x.Bytes()...)
		}
	}
	c.writes = append(c.writes, b)
	return nil
}
func (c *c07Conn) Close(t api.ConnectionCloseType, e api.ConnectionEvent) error {
	c.closed = append(c.closed, string(e))
	return nil
}

type c07Handed struct {
	Hdr    string
	Data   string
	OneWay bool
	Err    string
}

type c07Receiver struct {
	out    *[]c07Handed
	oneway bool
}

func (r *c07Receiver) OnReceive(ctx context.Context, headers api.HeaderMap, data buffer.IoBuffer, trailers api.HeaderMap) {
	*r.out = append(*r.out, c07Handed{Hdr: c07HdrString(headers), Data: c07BufHex(data), OneWay: r.oneway})
}
func (r *c07Receiver) OnDecodeError(ctx context.Context, err error, headers api.HeaderMap) {
	*r.out = append(*r.out, c07Handed{Err: "OnDecodeError: " + err.Error()})
}

type c07Listener struct{ handed []c07Handed }

func (l *c07Listener) NewStreamDetect(ctx context.Context, sender types.StreamSender, span api.Span) types.StreamReceiveListener {
	return &c07Receiver{out: &l.handed, oneway: sender == nil || reflect.ValueOf(sender).IsNil()}
}
func (l *c07Listener) OnGoAway() {}

type c07ClientCallbacks struct{ goaway int }

func (c *c07ClientCallbacks) OnGoAway() { c.goaway++ }

// ---------------------------------------------------------------- observation

type c07Sig struct {
	Type string `json:"type"`
	ID   uint64 `json:"id"`
	HB   bool   `json:"hb"`
	Hdr  string `json:"hdr"`
	Data string `json:"data"`
	Raw  string `json:"raw"`
}

func c07HdrString(h api.HeaderMap) string {
	if h == nil {
		return "<nil>"
	}
	var kv []string
	h.Range(func(k, v string) bool {
		kv = append(kv, k+"="+v)
		return true
	})
	sort.Strings(kv)
	return strings.Join(kv, "&")
}

func c07BufHex(b buffer.IoBuffer) string {
	if b == nil || reflect.ValueOf(b).IsNil() {
		return "<nil>"
	}
	return hex.EncodeToString(b.Bytes())
}

// c07SigOf only reads.
func c07SigOf(ctx context.Context, f api.XFrame) c07Sig {
	s := c07Sig{Type: string(f.GetStreamType()), ID: f.GetRequestId(), HB: f.IsHeartbeatFrame(),
		Hdr: c07HdrString(f.GetHeader()), Data: c07BufHex(f.GetData())}
	name := types.VarRequestRawData
	if f.GetStreamType() == api.Response {
		name = types.VarResponseRawData
	}
	if v, err := variable.Get(ctx, name); err == nil {
		if raw, ok := v.([]byte); ok {
			s.Raw = hex.EncodeToString(raw)
		}
	}
	return s
}

type c07Decoded struct {
	frame api.XFrame
	ctx   context.Context
	sig   c07Sig
}

type c07Fail struct{ key, detail string }

type c07Abort struct{}

// what the codec says about each alphabet frame fed alone (filled by c07Validate)
type c07ExpKey struct {
	proto api.ProtocolName
	idx   int
}

var c07Exp = map[c07ExpKey]*c07Sig{}

type c07Rec struct {
	alpha      *c07frames.Alphabet
	frames     []int
	ends       []int // end offset of frame i in the stream
	fed        int
	decoded    []c07Decoded
	budget     int
	fail       *c07Fail
	validating bool
}

func (r *c07Rec) failf(what, format string, args ...interface{}) {
	if r.fail == nil {
		r.fail = &c07Fail{key: fmt.Sprintf("xprotocol/%s: %s", r.alpha.Proto, what), detail: fmt.Sprintf(format, args...)}
	}
}

type c07RecProto struct {
	api.XProtocol
	rec *c07Rec
}

func (p *c07RecProto) Decode(ctx context.Context, data api.IoBuffer) (interface{}, error) {
	r := p.rec
	r.budget--
	if r.budget < 0 {
		r.failf("Dispatch keeps decoding without consuming the buffer (livelock)",
			"after %d bytes fed Dispatch called Decode more often than there are frames; buffer len %d", r.fed, data.Len())
		panic(c07Abort{})
	}
	before := data.Len()
	f, err := p.XProtocol.Decode(ctx, data)
	after := data.Len()
	k := len(r.decoded)
	complete := k < len(r.ends) && r.ends[k] <= r.fed
	fname := "<none>"
	if k < len(r.frames) {
		fname = r.alpha.Frames[r.frames[k]].Name
	}
	switch {
	case err != nil:
		msg := strings.SplitN(err.Error(), "\n", 2)[0]
		if complete {
			r.failf("decode error on a complete valid frame", "frame #%d (%s), %d bytes fed: %s", k, fname, r.fed, msg)
		} else {
			r.failf("decode error on the prefix of a valid frame", "frame #%d (%s) has %d of its bytes in the buffer (capacity left %d), %d bytes fed: %s",
				k, fname, before, cap(data.Bytes())-before, r.fed, msg)
		}
		panic(c07Abort{})
	case f == nil:
		if after != before {
			r.failf("Decode returned no frame but consumed bytes", "frame #%d (%s): buffer %d -> %d", k, fname, before, after)
			panic(c07Abort{})
		}
		if complete {
			r.failf("complete frame in the buffer is not extracted", "frame #%d (%s) ends at offset %d, %d bytes fed, %d bytes buffered, Decode asks for more data", k, fname, r.ends[k], r.fed, before)
			panic(c07Abort{})
		}
		return nil, nil
	}
	xf, ok := f.(api.XFrame)
	if !ok {
		r.failf("Decode returned a non-XFrame", "%T", f)
		panic(c07Abort{})
	}
	if !complete {
		if k >= len(r.ends) {
			r.failf("a frame is extracted that was never sent", "after all %d frames: %+v", len(r.ends), c07SigOf(ctx, xf))
		} else {
			r.failf("frame handed up before all its bytes arrived (partial frame decoded)",
				"frame #%d (%s) ends at stream offset %d but only %d bytes were fed (%d in the buffer); got %+v", k, fname, r.ends[k], r.fed, before, c07SigOf(ctx, xf))
		}
		panic(c07Abort{})
	}
	sig := c07SigOf(ctx, xf)
	fr := &r.alpha.Frames[r.frames[k]]
	if before-after != len(fr.Bytes) {
		r.failf("Decode consumed a different number of bytes than the frame has", "frame #%d (%s) has %d bytes, consumed %d", k, fname, len(fr.Bytes), before-after)
		panic(c07Abort{})
	}
	if sig.Raw != hex.EncodeToString(fr.Bytes) {
		r.failf("extracted frame bytes differ from the frame sent", "frame #%d (%s): sent %x got %s", k, fname, fr.Bytes, sig.Raw)
		panic(c07Abort{})
	}
	if exp := c07Exp[c07ExpKey{r.alpha.Proto, r.frames[k]}]; !r.validating && exp != nil && sig != *exp {
		r.failf("extracted frame differs from the same frame delivered alone", "frame #%d (%s): alone %+v, here %+v", k, fname, *exp, sig)
		panic(c07Abort{})
	}
	r.decoded = append(r.decoded, c07Decoded{frame: xf, ctx: ctx, sig: sig})
	return f, nil
}

// ---------------------------------------------------------------- one case

type c07Case struct {
	Proto  string   `json:"proto"`
	Mode   string   `json:"mode"`   // "server" (downstream connection) or "client" (upstream connection)
	Frames []int    `json:"frames"` // indices into the protocol's alphabet
	Names  []string `json:"names,omitempty"`
	Feed   string   `json:"feed"` // "readonce": like connection.doRead; "write": the whole stream is the connection's initial buffer (NewServerConnection with buffered bytes)
	Cuts   []int    `json:"cuts"` // stream offsets at which a new read starts
	Len    int      `json:"len"`
}

type c07Reader struct{ rest []byte }

func (r *c07Reader) Read(p []byte) (int, error) {
	n := copy(p, r.rest)
	r.rest = r.rest[n:]
	return n, nil
}

// c07FillSpare overwrites the unused capacity behind the buffer's content with a
// fixed pattern. Those bytes are not part of the stream (in a running mosn they
// hold whatever the pooled slice held before); fixing them makes a decoder that
// wrongly reads them behave deterministically.
func c07FillSpare(buf buffer.IoBuffer) {
	b := buf.Bytes()
	spare := b[len(b):cap(b)]
	for i := range spare {
		spare[i] = 0xA5
	}
}

type c07Result struct {
	fail    *c07Fail
	harness string
	perFeed []int // number of frames extracted after each read
	decoded []c07Decoded
}

func c07Exec(a *c07frames.Alphabet, c c07Case, validating bool) (res c07Result) {
	stream, ends := c07frames.Stream(a, c.Frames)
	rec := &c07Rec{alpha: a, frames: c.Frames, ends: ends, validating: validating}
	conn := &c07Conn{}
	ctx := c07frames.Ctx()
	factory, ok := protocol.GetProtocolStreamFactory(a.Proto)
	if !ok {
		res.harness = "no stream factory registered for " + string(a.Proto)
		return
	}
	lis := &c07Listener{}
	var delivered []c07Handed
	var sc *streamConn
	if c.Mode == "server" {
		sc = factory.CreateServerStream(ctx, conn, lis).(*streamConn)
	} else {
		sc = factory.CreateClientStream(ctx, conn, &c07ClientCallbacks{}, nil).(*streamConn)
		// three open upstream requests, ids 1..3 as generated by the protocol
		for i := 0; i < 3; i++ {
			sctx := variable.NewVariableContext(buffer.NewBufferPoolContext(ctx))
			sc.NewStream(sctx, &c07Receiver{out: &delivered})
		}
		for id := uint64(1); id <= 3; id++ {
			if _, ok := sc.clientStreams[id]; !ok {
				res.harness = fmt.Sprintf("client stream id %d not generated by %s", id, a.Proto)
				return
			}
		}
	}
	sc.protocol = &c07RecProto{XProtocol: sc.protocol, rec: rec}

	var buf buffer.IoBuffer
	rd := &c07Reader{}
	checkAfterRead := func() bool {
		// run Dispatch as filterManager.onContinueReading -> proxy.OnData does (only if there is data)
		func() {
			defer func() {
				if x := recover(); x != nil {
					if _, ok := x.(c07Abort); ok {
						return
					}
					rec.failf("panic while dispatching a valid stream", "%d bytes fed: %v", rec.fed, x)
				}
			}()
			if buf.Len() > 0 {
				rec.budget = len(ends) - len(rec.decoded) + 2
				sc.Dispatch(buf)
			}
		}()
		res.perFeed = append(res.perFeed, len(rec.decoded))
		if rec.fail != nil {
			return false
		}
		f := 0
		for f < len(ends) && ends[f] <= rec.fed {
			f++
		}
		if len(rec.decoded) != f {
			rec.failf("complete frame in the buffer is not extracted", "%d bytes fed = %d complete frames, %d extracted", rec.fed, f, len(rec.decoded))
			return false
		}
		start := 0
		if f > 0 {
			start = ends[f-1]
		}
		if got, want := buf.Bytes(), stream[start:rec.fed]; string(got) != string(want) {
			rec.failf("unconsumed buffer is not the unparsed rest of the stream", "%d bytes fed, %d frames extracted: buffer holds %x, want %x", rec.fed, f, got, want)
			return false
		}
		if len(conn.closed) > 0 {
			rec.failf("connection closed on a valid stream", "%d bytes fed: %v", rec.fed, conn.closed)
			return false
		}
		// what was handed up / answered must follow from the extracted frames
		var wantHanded, wantDelivered []c07Handed
		var wantWrites int
		open := map[uint64]bool{1: true, 2: true, 3: true}
		for i, d := range rec.decoded {
			fr := &a.Frames[c.Frames[i]]
			switch {
			case d.sig.Type != string(api.Response) && d.sig.HB:
				wantWrites++
			case d.sig.Type != string(api.Response):
				wantHanded = append(wantHanded, c07Handed{Hdr: d.sig.Hdr, Data: d.sig.Data, OneWay: fr.Kind == c07frames.OneWay})
			case c.Mode == "client" && open[d.sig.ID]:
				delete(open, d.sig.ID)
				wantDelivered = append(wantDelivered, c07Handed{Hdr: d.sig.Hdr, Data: d.sig.Data})
			}
		}
		if !reflect.DeepEqual(lis.handed, wantHanded) {
			rec.failf("requests handed to the stream listener differ from the extracted request frames", "handed %+v, extracted %+v", lis.handed, wantHanded)
			return false
		}
		if !reflect.DeepEqual(delivered, wantDelivered) {
			rec.failf("responses handed to the receivers differ from the extracted response frames", "delivered %+v, extracted %+v", delivered, wantDelivered)
			return false
		}
		if len(conn.writes) != wantWrites {
			rec.failf("heartbeat acknowledgements differ from the extracted heartbeats", "%d heartbeats extracted, %d writes", wantWrites, len(conn.writes))
			return false
		}
		return true
	}

	if c.Feed == "write" {
		// network.NewServerConnection with already-read bytes: GetIoBuffer(len) + Write
		buf = buffer.GetIoBuffer(len(stream))
		buf.Write(stream)
		rec.fed = len(stream)
		c07FillSpare(buf)
		checkAfterRead()
	} else {
		buf = buffer.GetIoBuffer(network.DefaultReadBufferSize)
		prev := 0
		cuts := append(append([]int(nil), c.Cuts...), len(stream))
	feed:
		for _, cut := range cuts {
			if cut <= prev || cut > len(stream) {
				res.harness = fmt.Sprintf("bad cut list %v for stream of %d bytes", c.Cuts, len(stream))
				return
			}
			rd.rest = stream[prev:cut]
			prev = cut
			for len(rd.rest) > 0 {
				n, err := buf.ReadOnce(rd)
				if err != nil || n == 0 {
					res.harness = fmt.Sprintf("ReadOnce: n=%d err=%v", n, err)
					return
				}
				rec.fed += int(n)
				c07FillSpare(buf)
				if !checkAfterRead() {
					break feed
				}
			}
		}
	}
	if rec.fail == nil {
		// stability: what was handed up earlier must still read the same now
		for i, d := range rec.decoded {
			if now := c07SigOf(d.ctx, d.frame); now != d.sig {
				rec.failf("frame content changed after it was handed up (frame aliases the connection read buffer)",
					"frame #%d (%s): at hand-up %+v, after the rest of the stream was read %+v", i, a.Frames[c.Frames[i]].Name, d.sig, now)
				break
			}
		}
	}
	if rec.fail == nil {
		for i, d := range rec.decoded {
			enc, err := sc.protocol.Encode(d.ctx, d.frame)
			if err != nil {
				rec.failf("extracted frame cannot be re-encoded", "frame #%d: %v", i, err)
				break
			}
			if want := a.Frames[c.Frames[i]].Bytes; string(enc.Bytes()) != string(want) {
				rec.failf("re-encoded frame differs from the frame sent", "frame #%d (%s): sent %x, re-encoded %x", i, a.Frames[c.Frames[i]].Name, want, enc.Bytes())
				break
			}
		}
	}
	res.fail = rec.fail
	res.decoded = rec.decoded
	return
}

// ---------------------------------------------------------------- alphabet validation

var c07Validated bool

// c07ValFail: an alphabet frame that is not extracted correctly even when it is
// delivered alone and whole. On the unchanged tree there is none (the alphabet
// only contains frames the codecs handle); after a change of the tree it is a
// violation like any other (whole delivery is one of the segmentations), reported
// by the segmentation part with the single-frame case as replayable case.
type c07ValFail struct {
	key, detail string
	c           c07Case
}

var c07ValFails []c07ValFail

func c07Validate(t *testing.T) {
	if c07Validated {
		return
	}
	bad := func(msg string) {
		vreport.HarnessError("C07", "alphabet", msg)
		t.Fatal(msg)
	}
	for _, a := range c07frames.Alphabets() {
		inServer := map[int]bool{}
		for _, i := range a.Server {
			inServer[i] = true
		}
		for i := range a.Frames {
			fr := &a.Frames[i]
			mode := "client"
			if inServer[i] || fr.Kind == c07frames.Req || fr.Kind == c07frames.OneWay {
				mode = "server"
			}
			for _, feed := range []string{"write", "readonce"} {
				c := c07Case{Proto: string(a.Proto), Mode: mode, Frames: []int{i}, Names: []string{fr.Name}, Feed: feed, Len: len(fr.Bytes)}
				res := c07Exec(a, c, true)
				if res.harness != "" {
					bad(fmt.Sprintf("alphabet frame %s/%s: %s", a.Proto, fr.Name, res.harness))
				}
				if res.fail != nil {
					c07ValFails = append(c07ValFails, c07ValFail{key: res.fail.key, detail: "frame delivered alone: " + res.fail.detail, c: c})
					delete(c07Exp, c07ExpKey{a.Proto, i})
					break
				}
				if len(res.decoded) != 1 {
					bad(fmt.Sprintf("alphabet frame %s/%s: %d frames decoded without a recorded deviation", a.Proto, fr.Name, len(res.decoded)))
				}
				sig := res.decoded[0].sig
				ek := c07ExpKey{a.Proto, i}
				if c07Exp[ek] == nil {
					c07Exp[ek] = &sig
				} else if *c07Exp[ek] != sig {
					bad(fmt.Sprintf("alphabet frame %s/%s decodes differently alone via write and via readonce: %+v vs %+v", a.Proto, fr.Name, *c07Exp[ek], sig))
				}
				wantType := map[string]api.StreamType{c07frames.Req: api.Request, c07frames.OneWay: api.RequestOneWay, c07frames.HB: api.Request,
					c07frames.Resp: api.Response, c07frames.HBResp: api.Response}[fr.Kind]
				if sig.Type != string(wantType) || sig.ID != fr.ID || sig.HB != (fr.Kind == c07frames.HB || fr.Kind == c07frames.HBResp) {
					bad(fmt.Sprintf("alphabet frame %s/%s: constructed as %s id %d but the codec sees %+v (the harness alphabet no longer fits the codec)", a.Proto, fr.Name, fr.Kind, fr.ID, sig))
				}
			}
		}
	}
	c07Validated = true
}

// ---------------------------------------------------------------- enumeration

type c07Bound struct {
	maxFrames  int
	cuts       func(nframes, l int) int
	alphaExtra bool // include the other bolt version's frame on the same connection
	text       string
}

func c07TierBound() c07Bound {
	if vreport.Thorough() {
		return c07Bound{maxFrames: 3, alphaExtra: true, cuts: func(n, l int) int {
			if l <= 72 {
				return 3
			}
			return 2
		}, text: "streams of 1-3 frames over each protocol's alphabet (server side: heartbeat, small request, request with headers+body, one-way, response, plus a boltv2 frame on a bolt connection and vice versa; client side: responses, heartbeat, heartbeat ack; dubbo-thrift and tars: their smallest valid frames); every segmentation with 0,1,2 cuts (3 cuts for streams <= 72 bytes), the all-single-bytes segmentation, whole delivery as initial buffer"}
	}
	return c07Bound{maxFrames: 3, cuts: func(n, l int) int {
		if n <= 2 {
			return 2
		}
		return 1
	}, text: "streams of 1-3 frames over each protocol's alphabet (server side: heartbeat, small request, request with headers+body, one-way, response; client side: responses, heartbeat, heartbeat ack; dubbo-thrift and tars: their smallest valid frames); 1- and 2-frame streams: every segmentation with 0,1,2 cuts; 3-frame streams: every segmentation with 0,1 cuts; always the all-single-bytes segmentation and whole delivery as initial buffer"}
}

func TestVerifC07Segmentation(t *testing.T) {
	c07Validate(t)
	p := vreport.Begin("C07", "xprotocol-segmentation", 12*time.Minute)
	bound := c07TierBound()
	shardI, shardN := vreport.Shard()
	if !vreport.Replaying() {
		for _, f := range c07ValFails {
			p.Violation(f.key, f.detail, f.c)
		}
	}
	gen := func(yield func(c07Case) bool) {
		n := 0
		for _, a := range c07frames.Alphabets() {
			for _, mode := range []string{"server", "client"} {
				set := a.Server
				if mode == "client" {
					set = a.Client
				}
				if bound.alphaExtra && mode == "server" {
					set = append(append([]int(nil), set...), a.Extra...)
				}
				ok := c07frames.Sequences(set, bound.maxFrames, func(frames []int) bool {
					n++
					if n%shardN != shardI {
						return true
					}
					stream, _ := c07frames.Stream(a, frames)
					names := make([]string, len(frames))
					for i, f := range frames {
						names[i] = a.Frames[f].Name
					}
					return c07frames.Segmentations(len(stream), bound.cuts(len(frames), len(stream)), func(feed string, cuts []int) bool {
						return yield(c07Case{Proto: string(a.Proto), Mode: mode, Frames: frames, Names: names, Feed: feed, Cuts: cuts, Len: len(stream)})
					})
				})
				if !ok {
					return
				}
			}
		}
	}
	complete := vreport.Run(p, gen, func(p *vreport.Part, c c07Case) {
		a := c07frames.Of(c.Proto)
		for _, f := range c.Frames {
			if f < 0 || f >= len(a.Frames) {
				vreport.HarnessError("C07", "xprotocol-segmentation", "bad frame index in case")
				return
			}
		}
		res := c07Exec(a, c, false)
		if res.harness != "" {
			vreport.HarnessError("C07", "xprotocol-segmentation", fmt.Sprintf("%s (case %+v)", res.harness, c))
			return
		}
		_, ends := c07frames.Stream(a, c.Frames)
		var cls []string
		if len(c.Cuts) <= 3 {
			for _, cut := range c.Cuts {
				cls = append(cls, c07frames.CutClass(a, c.Frames, ends, cut))
			}
		} else {
			cls = []string{"many"}
		}
		p.Distinct(fmt.Sprintf("%s|%s|%v|%s|%v", c.Proto, c.Mode, c.Frames, c.Feed, cls))
		p.Outcome(fmt.Sprintf("%s|%s|%v|%v", c.Proto, c.Mode, c.Frames, res.perFeed))
		p.Count("frames_extracted", len(res.decoded))
		if p.WantSample() {
			p.Sample(map[string]interface{}{"case": c, "frames_after_each_read": res.perFeed})
		}
		if res.fail != nil {
			p.Violation(res.fail.key, res.fail.detail, c)
		}
	})
	p.Note("read_buffer", "buffer.GetIoBuffer(network.DefaultReadBufferSize) filled with IoBuffer.ReadOnce per read, as connection.doRead")
	p.End(complete, bound.text,
		"case = (protocol, side, frame sequence, cut list); a cut list is a set of stream offsets at which a new read starts; distinct = (protocol, side, frames, for each cut the frame it falls in and whether at the frame boundary / inside the fixed header / in the variable part); outcome = number of frames extracted after each read. tars frames >= 256 bytes and tars responses whose iRet is encoded as a 1- or 2-byte integer are not in the alphabet (they fail to decode even when delivered whole: C01/C08, not C07).")
}
