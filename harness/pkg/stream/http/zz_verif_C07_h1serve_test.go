//go:build verif

package http

// C07 for HTTP/1: the real serverStreamConnection (newServerStreamConnection,
// its serve goroutine reading through the bufChan/endRead hand-off) fed by the
// real Dispatch(buf) from one persistent read buffer filled like
// network.connection.doRead.
//
// The serve goroutine is a real goroutine, but the observation points are not
// timing dependent: serve() handles requests strictly one after the other and
// waits for each response before it reads on (the scripted listener answers
// every request at once with a 200, inside the serve goroutine, and records
// method, path, headers, body by value). The serve goroutine takes bytes from
// Dispatch only when it is back in streamConnection.Read, i.e. when it has
// completely processed everything it was given before. The read buffer is handed
// to Dispatch through a transparent delegate whose Bytes() - called by Read at
// that very hand-off, in the serve goroutine - snapshots the number of requests
// recorded so far. So "requests handed up after read k" is observed exactly,
// at the hand-off of read k+1; after the last read of the stream one more read
// delivers the single byte "G" (a client starting its next request) to obtain
// the final observation. No polling, no sleeps; the only clock is a generous
// timeout on Dispatch itself, which yields a HARNESS error, never a violation.
//
// Oracle: at every hand-off the recorded requests are exactly the requests
// whose last byte had been fed before - in order, each once, method/path/body/
// mark as sent, all headers as under whole delivery; a request is never handed
// up before its last byte was fed; the connection is not closed and no error
// response is written. Dispatch always moves the whole read buffer into the
// connection's own bufio.Reader, so "the unconsumed buffer is the unparsed
// suffix" has no meaning at this seam and is not compared.

import (
	"context"
	"encoding/hex"
	"fmt"
	"net"
	"reflect"
	"sort"
	"strings"
	"sync"
	"testing"
	"time"

	metrics "github.com/rcrowley/go-metrics"
	"github.com/valyala/fasthttp"
	"mosn.io/api"
	"mosn.io/mosn/pkg/network"
	mosnhttp "mosn.io/mosn/pkg/protocol/http"
	"mosn.io/mosn/pkg/types"
	"mosn.io/mosn/pkg/verifrt/c07frames"
	"mosn.io/mosn/pkg/verifrt/vreport"
	"mosn.io/pkg/buffer"
	"mosn.io/pkg/variable"
)

type c07H1Conn struct {
	api.Connection // nil: unforeseen calls panic (harness problem)
	mu             sync.Mutex
	writes         [][]byte
	closed         []string
}

var c07H1Addr = &net.TCPAddr{IP: net.IPv4(127, 0, 0, 1), Port: 1107}

func (c *c07H1Conn) ID() uint64                                             { return 7 }
func (c *c07H1Conn) LocalAddr() net.Addr                                    { return c07H1Addr }
func (c *c07H1Conn) RemoteAddr() net.Addr                                   { return c07H1Addr }
func (c *c07H1Conn) RawConn() net.Conn                                      { return nil }
func (c *c07H1Conn) SetTransferEventListener(func() bool)                   {}
func (c *c07H1Conn) AddConnectionEventListener(api.ConnectionEventListener) {}
func (c *c07H1Conn) SetCollector(read, write metrics.Counter)               {}
func (c *c07H1Conn) State() api.ConnState                                   { return api.ConnActive }
func (c *c07H1Conn) Write(bufs ...buffer.IoBuffer) error {
	c.mu.Lock()
	defer c.mu.Unlock()
	var b []byte
	for _, x := range bufs {
		if x != nil {
			b = append(b, x.Bytes()...)
		}
	}
	c.writes = append(c.writes, b)
	return nil
}
func (c *c07H1Conn) Close(t api.ConnectionCloseType, e api.ConnectionEvent) error {
	c.mu.Lock()
	defer c.mu.Unlock()
	c.closed = append(c.closed, string(e))
	return nil
}
func (c *c07H1Conn) closedEvents() ([]string, []byte) {
	c.mu.Lock()
	defer c.mu.Unlock()
	var last []byte
	if n := len(c.writes); n > 0 {
		last = c.writes[n-1]
	}
	return append([]string(nil), c.closed...), last
}

type c07H1Handed struct {
	Method, Path, Mark, Hdr, Body string
	FedAtHandUp                   int
}

// c07H1Obs: taken in the serve goroutine at a hand-off (streamConnection.Read just received the buffer)
type c07H1Obs struct {
	fedBefore int // bytes fed by the reads before the one being handed over
	count     int // requests recorded so far
}

type c07H1Listener struct {
	mu        sync.Mutex
	handed    []c07H1Handed
	fed       int // bytes fed so far, including the read being dispatched
	fedBefore int // bytes fed by the earlier reads
	obs       []c07H1Obs
}

type c07H1Receiver struct {
	l      *c07H1Listener
	sender types.StreamSender
}

func (r *c07H1Receiver) OnReceive(ctx context.Context, headers api.HeaderMap, data buffer.IoBuffer, trailers api.HeaderMap) {
	h := c07H1Handed{Body: "<nil>"}
	h.Method, _ = variable.GetString(ctx, types.VarMethod)
	h.Path, _ = variable.GetString(ctx, types.VarPath)
	if q, err := variable.GetString(ctx, types.VarQueryString); err == nil && q != "" {
		h.Path += "?" + q
	}
	var kv []string
	headers.Range(func(k, v string) bool {
		kv = append(kv, strings.ToLower(k)+"="+v)
		return true
	})
	sort.Strings(kv)
	h.Hdr = strings.Join(kv, "&")
	h.Mark, _ = headers.Get("X-C07")
	if data != nil && !reflect.ValueOf(data).IsNil() {
		h.Body = hex.EncodeToString(data.Bytes())
	}
	r.l.mu.Lock()
	h.FedAtHandUp = r.l.fed
	r.l.handed = append(r.l.handed, h)
	r.l.mu.Unlock()
	// answer at once so that serve() reads the next pipelined request
	resp := mosnhttp.ResponseHeader{ResponseHeader: &fasthttp.ResponseHeader{}}
	resp.SetStatusCode(200)
	r.sender.AppendHeaders(ctx, resp, true)
}
func (r *c07H1Receiver) OnDecodeError(ctx context.Context, err error, headers api.HeaderMap) {
	r.l.mu.Lock()
	r.l.handed = append(r.l.handed, c07H1Handed{Method: "OnDecodeError: " + err.Error()})
	r.l.mu.Unlock()
}
func (l *c07H1Listener) NewStreamDetect(ctx context.Context, sender types.StreamSender, span api.Span) types.StreamReceiveListener {
	return &c07H1Receiver{l: l, sender: sender}
}
func (l *c07H1Listener) OnGoAway() {}

// c07H1Buf is the read buffer as Dispatch / Read see it: a transparent delegate.
// Bytes() is what streamConnection.Read calls first after it received the buffer
// over bufChan - in the serve goroutine, which is therefore done with all earlier bytes.
type c07H1Buf struct {
	buffer.IoBuffer
	l *c07H1Listener
}

func (b *c07H1Buf) Bytes() []byte {
	b.l.mu.Lock()
	b.l.obs = append(b.l.obs, c07H1Obs{fedBefore: b.l.fedBefore, count: len(b.l.handed)})
	b.l.mu.Unlock()
	return b.IoBuffer.Bytes()
}

type c07H1Case struct {
	Script string `json:"script"`
	Feed   string `json:"feed"`
	Cuts   []int  `json:"cuts"`
	Len    int    `json:"len"`
}

type c07H1Reader struct{ rest []byte }

func (r *c07H1Reader) Read(p []byte) (int, error) {
	n := copy(p, r.rest)
	r.rest = r.rest[n:]
	return n, nil
}

type c07H1Result struct {
	key, detail, harness string
	perFeed              []int
	handed               []c07H1Handed
}

const c07H1Timeout = 30 * time.Second

// set after the first timing-related harness error: the remaining cases are not run (each would wait again)
var c07H1Dead bool

func c07H1Exec(s *c07frames.H1Script, c c07H1Case) (res c07H1Result) {
	failf := func(what, format string, args ...interface{}) {
		if res.key == "" {
			res.key = "http1 server: " + what
			res.detail = fmt.Sprintf(format, args...)
		}
	}
	conn := &c07H1Conn{}
	lis := &c07H1Listener{}
	sc := newServerStreamConnection(c07frames.Ctx(), conn, lis).(*serverStreamConnection)
	// end the serve goroutine when the case is over (connection close event, as network.connection delivers it)
	defer sc.OnEvent(api.LocalClose)
	stream := s.Bytes
	wantAt := func(fed int) int {
		w := 0
		for w < len(s.Reqs) && s.Reqs[w].End <= fed {
			w++
		}
		return w
	}
	var buf buffer.IoBuffer
	obsSeen := 0
	// dispatch hands the current content of buf to the real Dispatch and then checks the observation(s) taken at the hand-off
	dispatch := func(newFed int) bool {
		lis.mu.Lock()
		lis.fedBefore = lis.fed
		lis.fed = newFed
		fedBefore := lis.fedBefore
		lis.mu.Unlock()
		done := make(chan struct{})
		go func() {
			defer close(done)
			if buf.Len() > 0 {
				sc.Dispatch(&c07H1Buf{IoBuffer: buf, l: lis})
			}
		}()
		deadline := time.Now().Add(c07H1Timeout)
		tick := time.NewTicker(2 * time.Millisecond)
		defer tick.Stop()
	wait:
		for {
			select {
			case <-done:
				break wait
			case <-tick.C:
			}
			// serve() gives up on a stream it cannot parse: error response, close, return - then nobody takes bytes any more
			if closed, last := conn.closedEvents(); len(closed) > 0 {
				failf("connection closed on a valid stream", "%d bytes fed, Dispatch of the next read blocks: %v, last write %q", fedBefore, closed, last)
				return false
			}
			if time.Now().After(deadline) {
				res.harness = fmt.Sprintf("Dispatch did not return within %v (%d bytes fed before, %d with this read): no verdict", c07H1Timeout, fedBefore, newFed)
				return false
			}
		}
		lis.mu.Lock()
		obs := append([]c07H1Obs(nil), lis.obs[obsSeen:]...)
		obsSeen = len(lis.obs)
		got := append([]c07H1Handed(nil), lis.handed...)
		lis.mu.Unlock()
		if len(obs) == 0 {
			res.harness = "Dispatch returned without a hand-off"
			return false
		}
		// first hand-off of this read: the serve goroutine had finished with all earlier reads
		first := obs[0]
		want := wantAt(first.fedBefore)
		res.perFeed = append(res.perFeed, first.count)
		if first.count < want {
			failf("complete request is never handed up (server waits for more bytes)",
				"%d bytes fed = %d complete requests, but only %d handed up when the server took the next read: %+v", first.fedBefore, want, first.count, got)
			return false
		}
		if first.count > want {
			failf("more requests handed up than were completed", "%d bytes fed = %d complete requests, %d handed up: %+v", first.fedBefore, want, first.count, got)
			return false
		}
		for i := 0; i < first.count && i < len(got); i++ {
			h, r := got[i], s.Reqs[i]
			body := "<nil>"
			if r.Body != "" {
				body = hex.EncodeToString([]byte(r.Body))
			}
			if h.Method != r.Method || h.Path != r.Path || h.Mark != r.Mark || h.Body != body {
				failf("request handed up differs from the request sent", "request #%d: got %+v, sent %+v", i, h, r)
				return false
			}
			if h.FedAtHandUp < r.End {
				failf("request handed up before all its bytes arrived", "request #%d ends at offset %d, handed up with %d bytes fed", i, r.End, h.FedAtHandUp)
				return false
			}
		}
		return true
	}
	fed := 0
	ok := true
	if c.Feed == "write" {
		buf = buffer.GetIoBuffer(len(stream))
		buf.Write(stream)
		fed = len(stream)
		ok = dispatch(fed)
	} else {
		buf = buffer.GetIoBuffer(network.DefaultReadBufferSize)
		rd := &c07H1Reader{}
		prev := 0
		cuts := append(append([]int(nil), c.Cuts...), len(stream))
	feed:
		for _, cut := range cuts {
			if cut <= prev || cut > len(stream) {
				res.harness = fmt.Sprintf("bad cut list %v for stream of %d bytes", c.Cuts, len(stream))
				return
			}
			rd.rest = stream[prev:cut]
			prev = cut
			for len(rd.rest) > 0 {
				n, err := buf.ReadOnce(rd)
				if err != nil || n == 0 {
					res.harness = fmt.Sprintf("ReadOnce: n=%d err=%v", n, err)
					return
				}
				fed += int(n)
				if ok = dispatch(fed); !ok {
					break feed
				}
			}
		}
	}
	if ok {
		// one more read: the client starts its next request ("G"). Its hand-off gives the observation after the whole stream.
		if _, err := buf.ReadOnce(&c07H1Reader{rest: []byte("G")}); err != nil {
			res.harness = "ReadOnce(G): " + err.Error()
			return
		}
		dispatch(fed + 1)
	}
	lis.mu.Lock()
	res.handed = append([]c07H1Handed(nil), lis.handed...)
	lis.mu.Unlock()
	for i := range res.handed {
		res.handed[i].FedAtHandUp = 0
	}
	return
}

func TestVerifC07HTTP1Serve(t *testing.T) {
	p := vreport.Begin("C07", "http1-segmentation", 8*time.Minute)
	scripts := c07frames.HTTP1Scripts()
	byName := map[string]*c07frames.H1Script{}
	whole := map[string][]c07H1Handed{}
	for i := range scripts {
		s := &scripts[i]
		byName[s.Name] = s
		if !vreport.Replaying() {
			c := c07H1Case{Script: s.Name, Feed: "write", Len: len(s.Bytes)}
			res := c07H1Exec(s, c)
			if res.harness != "" {
				vreport.HarnessError("C07", "http1-segmentation", res.harness)
				t.Fatal(res.harness)
			}
			if res.key != "" {
				p.Violation(res.key, "whole delivery: "+res.detail, c)
				continue
			}
			whole[s.Name] = res.handed
		}
	}
	gen := func(yield func(c07H1Case) bool) {
		for i := range scripts {
			s := &scripts[i]
			mc := 2
			if !vreport.Thorough() && len(s.Reqs) > 2 {
				mc = 1
			}
			ok := c07frames.Segmentations(len(s.Bytes), mc, func(feed string, cuts []int) bool {
				return !c07H1Dead && yield(c07H1Case{Script: s.Name, Feed: feed, Cuts: cuts, Len: len(s.Bytes)})
			})
			if !ok {
				return
			}
		}
	}
	complete := vreport.Run(p, gen, func(p *vreport.Part, c c07H1Case) {
		if c07H1Dead {
			return
		}
		s := byName[c.Script]
		if s == nil {
			vreport.HarnessError("C07", "http1-segmentation", "unknown script "+c.Script)
			return
		}
		res := c07H1Exec(s, c)
		if res.harness != "" {
			c07H1Dead = true
			vreport.HarnessError("C07", "http1-segmentation", fmt.Sprintf("%s (case %+v)", res.harness, c))
			return
		}
		var cls []string
		if len(c.Cuts) <= 3 {
			for _, cut := range c.Cuts {
				r := 0
				for r < len(s.Reqs) && s.Reqs[r].End <= cut {
					r++
				}
				start := 0
				if r > 0 {
					start = s.Reqs[r-1].End
				}
				hdrEnd := start + strings.Index(string(s.Bytes[start:]), "\r\n\r\n") + 4
				switch {
				case cut == start:
					cls = append(cls, fmt.Sprintf("%dB", r))
				case cut < hdrEnd:
					cls = append(cls, fmt.Sprintf("%dH", r))
				default:
					cls = append(cls, fmt.Sprintf("%dV", r))
				}
			}
		} else {
			cls = []string{"many"}
		}
		p.Distinct(fmt.Sprintf("%s|%s|%v", c.Script, c.Feed, cls))
		p.Outcome(fmt.Sprintf("%s|%v", c.Script, res.perFeed))
		if p.WantSample() {
			p.Sample(map[string]interface{}{"case": c, "requests_seen_at_each_hand_off": res.perFeed})
		}
		if res.key != "" {
			p.Violation(res.key, res.detail, c)
			return
		}
		if w, ok := whole[c.Script]; ok && !reflect.DeepEqual(res.handed, w) {
			p.Violation("http1 server: requests differ from whole delivery", fmt.Sprintf("whole delivery %+v, this segmentation %+v", w, res.handed), c)
		}
	})
	if c07H1Dead {
		complete = false
	}
	p.End(complete, "5 keep-alive client streams (GET; POST with Content-Length; POST chunked with two chunks; POST then GET; chunked POST then POST), each followed by a sentinel GET, 108-254 bytes; 2-request streams: every segmentation with 0,1,2 cuts; 3-request streams: 0,1 cuts in the quick tier, 0,1,2 in the thorough tier; always the all-single-bytes segmentation and whole delivery as initial buffer",
		"case = (script, cut list); distinct = script + for each cut the request it falls in and whether at its boundary / in the header block / in the body; outcome = requests recorded at each hand-off. The serve goroutine is real; observations are taken inside streamConnection.Read at the hand-off of the next read (the server is then done with all earlier bytes), the final one at the hand-off of an extra one-byte read. The read buffer is always emptied by Dispatch (bytes move into the connection's bufio.Reader), so the buffer-suffix oracle is not applied here.")
}
