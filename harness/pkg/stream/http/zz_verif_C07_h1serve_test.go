//go:build verif

package http

// C07 for HTTP/1: the real serverStreamConnection (newServerStreamConnection,
// its serve goroutine reading through the bufChan/endRead hand-off) fed by
// Dispatch(buf) from one persistent read buffer filled like
// network.connection.doRead.
//
// The serve goroutine is a real goroutine. The result must not depend on timing:
// serve() handles requests strictly one after the other and waits for each
// response before it reads on, so the scripted listener answers every request
// at once (200, in the serve goroutine) and records (method, path, headers,
// body) by value. The harness waits after every read until the number of
// recorded requests reaches the number of requests whose last byte has been
// fed; a generous timeout there is reported as a HARNESS error, never as a
// violation (no wall-clock oracle). Every script ends with a sentinel request,
// so at the end "sentinel recorded" is a deterministic barrier: everything
// before it has been handed up.
//
// Oracle: after every read the recorded requests are exactly the requests
// whose last byte has arrived - in order, each once, method/path/body/mark as
// sent, all headers as under whole delivery; a request is never handed up
// before its last byte was fed; the connection is not closed and no error
// response is written. Dispatch always moves the whole read buffer into the
// connection's own bufio.Reader, so "the unconsumed buffer is the unparsed
// suffix" has no meaning at this seam and is not compared.

import (
	"context"
	"encoding/hex"
	"fmt"
	"net"
	"os"
	"runtime"
	"reflect"
	"sort"
	"strings"
	"sync"
	"testing"
	"time"

	metrics "github.com/rcrowley/go-metrics"
	"github.com/valyala/fasthttp"
	"mosn.io/api"
	"mosn.io/mosn/pkg/network"
	mosnhttp "mosn.io/mosn/pkg/protocol/http"
	"mosn.io/mosn/pkg/types"
	"mosn.io/mosn/pkg/verifrt/c07frames"
	"mosn.io/mosn/pkg/verifrt/vreport"
	"mosn.io/pkg/buffer"
	"mosn.io/pkg/variable"
)

type c07H1Conn struct {
	api.Connection // nil: unforeseen calls panic (harness problem)
	mu             sync.Mutex
	writes         [][]byte
	closed         []string
}

var c07H1Addr = &net.TCPAddr{IP: net.IPv4(127, 0, 0, 1), Port: 1107}

func (c *c07H1Conn) ID() uint64                                             { return 7 }
func (c *c07H1Conn) LocalAddr() net.Addr                                    { return c07H1Addr }
func (c *c07H1Conn) RemoteAddr() net.Addr                                   { return c07H1Addr }
func (c *c07H1Conn) RawConn() net.Conn                                      { return nil }
func (c *c07H1Conn) SetTransferEventListener(func() bool)                   {}
func (c *c07H1Conn) AddConnectionEventListener(api.ConnectionEventListener) {}
func (c *c07H1Conn) SetCollector(read, write metrics.Counter)               {}
func (c *c07H1Conn) State() api.ConnState                                   { return api.ConnActive }
func (c *c07H1Conn) Write(bufs ...buffer.IoBuffer) error {
	c.mu.Lock()
	defer c.mu.Unlock()
	var b []byte
	for _, x := range bufs {
		if x != nil {
			b = append(b, x.Bytes()...)
		}
	}
	c.writes = append(c.writes, b)
	return nil
}
func (c *c07H1Conn) Close(t api.ConnectionCloseType, e api.ConnectionEvent) error {
	c.mu.Lock()
	defer c.mu.Unlock()
	c.closed = append(c.closed, string(e))
	return nil
}

type c07H1Handed struct {
	Method, Path, Mark, Hdr, Body string
	FedAtHandUp                   int
}

type c07H1Listener struct {
	mu     sync.Mutex
	handed []c07H1Handed
	fed    int // bytes fed so far (written by the feeding goroutine under mu)
	signal chan struct{}
}

type c07H1Receiver struct {
	l      *c07H1Listener
	sender types.StreamSender
}

func (r *c07H1Receiver) OnReceive(ctx context.Context, headers api.HeaderMap, data buffer.IoBuffer, trailers api.HeaderMap) {
	h := c07H1Handed{Body: "<nil>"}
	h.Method, _ = variable.GetString(ctx, types.VarMethod)
	h.Path, _ = variable.GetString(ctx, types.VarPath)
	if q, err := variable.GetString(ctx, types.VarQueryString); err == nil && q != "" {
		h.Path += "?" + q
	}
	var kv []string
	headers.Range(func(k, v string) bool {
		kv = append(kv, strings.ToLower(k)+"="+v)
		return true
	})
	sort.Strings(kv)
	h.Hdr = strings.Join(kv, "&")
	h.Mark, _ = headers.Get("X-C07")
	if data != nil && !reflect.ValueOf(data).IsNil() {
		h.Body = hex.EncodeToString(data.Bytes())
	}
	r.l.mu.Lock()
	h.FedAtHandUp = r.l.fed
	r.l.handed = append(r.l.handed, h)
	r.l.mu.Unlock()
	// answer at once so that serve() reads the next pipelined request
	resp := mosnhttp.ResponseHeader{ResponseHeader: &fasthttp.ResponseHeader{}}
	resp.SetStatusCode(200)
	r.sender.AppendHeaders(ctx, resp, true)
	select {
	case r.l.signal <- struct{}{}:
	default:
	}
}
func (r *c07H1Receiver) OnDecodeError(ctx context.Context, err error, headers api.HeaderMap) {
	r.l.mu.Lock()
	r.l.handed = append(r.l.handed, c07H1Handed{Method: "OnDecodeError: " + err.Error()})
	r.l.mu.Unlock()
}
func (l *c07H1Listener) NewStreamDetect(ctx context.Context, sender types.StreamSender, span api.Span) types.StreamReceiveListener {
	return &c07H1Receiver{l: l, sender: sender}
}
func (l *c07H1Listener) OnGoAway() {}

type c07H1Case struct {
	Script string `json:"script"`
	Feed   string `json:"feed"`
	Cuts   []int  `json:"cuts"`
	Len    int    `json:"len"`
}

type c07H1Reader struct{ rest []byte }

func (r *c07H1Reader) Read(p []byte) (int, error) {
	n := copy(p, r.rest)
	r.rest = r.rest[n:]
	return n, nil
}

type c07H1Result struct {
	key, detail, harness string
	perFeed              []int
	handed               []c07H1Handed
}

const c07H1Timeout = 20 * time.Second

// set after the first timing-related harness error: the remaining cases are not run (each would wait again)
var c07H1Dead bool

func c07H1Exec(s *c07frames.H1Script, c c07H1Case) (res c07H1Result) {
	failf := func(what, format string, args ...interface{}) {
		if res.key == "" {
			res.key = "http1 server: " + what
			res.detail = fmt.Sprintf(format, args...)
		}
	}
	conn := &c07H1Conn{}
	lis := &c07H1Listener{signal: make(chan struct{}, 1)}
	sc := newServerStreamConnection(c07frames.Ctx(), conn, lis).(*serverStreamConnection)
	// end the serve goroutine when the case is over (connection close event, as network.connection delivers it)
	defer sc.OnEvent(api.LocalClose)
	stream := s.Bytes
	fed := 0
	var buf buffer.IoBuffer
	snapshot := func() []c07H1Handed {
		lis.mu.Lock()
		defer lis.mu.Unlock()
		return append([]c07H1Handed(nil), lis.handed...)
	}
	check := func() bool {
		// Dispatch blocks until the serve goroutine has taken every byte
		done := make(chan struct{})
		go func() {
			defer close(done)
			if buf.Len() > 0 {
				sc.Dispatch(buf)
			}
		}()
		dispatchDeadline := time.Now().Add(c07H1Timeout)
	waitDispatch:
		for {
			select {
			case <-done:
				break waitDispatch
			case <-time.After(time.Millisecond):
			}
			// serve() may have given up on the earlier bytes meanwhile (error response + close): then nobody reads any more
			conn.mu.Lock()
			closed := append([]string(nil), conn.closed...)
			conn.mu.Unlock()
			if len(closed) > 0 {
				failf("connection closed on a valid stream", "%d bytes fed, Dispatch blocked: %v", fed, closed)
				return false
			}
			if time.Now().After(dispatchDeadline) {
				stk := make([]byte, 1<<16)
				stk = stk[:runtime.Stack(stk, true)]
				os.WriteFile("/tmp/C07-h1-stacks.txt", stk, 0644)
				res.harness = fmt.Sprintf("Dispatch did not return within %v after %d bytes", c07H1Timeout, fed)
				return false
			}
		}
		want := 0
		for want < len(s.Reqs) && s.Reqs[want].End <= fed {
			want++
		}
		deadline := time.Now().Add(c07H1Timeout)
		var got []c07H1Handed
		for {
			got = snapshot()
			if len(got) >= want {
				break
			}
			// serve() closes the connection (after an error response) when it cannot parse the stream, and ends
			conn.mu.Lock()
			nclosed := len(conn.closed)
			conn.mu.Unlock()
			if nclosed > 0 {
				break
			}
			// Is the serve goroutine idle, i.e. blocked in Read waiting for more bytes? Only then a
			// non-blocking send on bufChan succeeds. serve() is sequential, so when it is back in Read
			// every byte handed over so far has been processed: a complete request that is still
			// missing will never come. (The empty probe buffer makes Read return 0 bytes; the case is
			// over after a successful probe, so the perturbation cannot influence a verdict.)
			probed := false
			select {
			case sc.bufChan <- buffer.NewIoBuffer(0):
				<-sc.endRead
				probed = true
			default:
			}
			if probed {
				if got = snapshot(); len(got) < want {
					failf("complete request is never handed up (server waits for more bytes)",
						"%d bytes fed = %d complete requests, %d handed up, serve goroutine is idle in Read: %+v", fed, want, len(got), got)
					return false
				}
				break
			}
			select {
			case <-lis.signal:
			case <-time.After(200 * time.Microsecond):
			}
			if time.Now().After(deadline) {
				res.harness = fmt.Sprintf("only %d of %d completed requests were handed up within %v after %d bytes and the serve goroutine is not idle (no verdict: timing)", len(got), want, c07H1Timeout, fed)
				return false
			}
		}
		res.perFeed = append(res.perFeed, len(got))
		conn.mu.Lock()
		closed := append([]string(nil), conn.closed...)
		nwrites := len(conn.writes)
		var lastWrite []byte
		if nwrites > 0 {
			lastWrite = conn.writes[nwrites-1]
		}
		conn.mu.Unlock()
		if len(closed) > 0 {
			failf("connection closed on a valid stream", "%d bytes fed: %v, last write %q", fed, closed, lastWrite)
			return false
		}
		if len(got) != want {
			failf("requests handed up differ from the requests completed", "%d bytes fed = %d complete requests, handed up %d: %+v", fed, want, len(got), got)
			return false
		}
		for i, h := range got {
			r := s.Reqs[i]
			body := "<nil>"
			if r.Body != "" {
				body = hex.EncodeToString([]byte(r.Body))
			}
			if h.Method != r.Method || h.Path != r.Path || h.Mark != r.Mark || h.Body != body {
				failf("request handed up differs from the request sent", "request #%d: got %+v, sent %+v", i, h, r)
				return false
			}
			if h.FedAtHandUp < r.End {
				failf("request handed up before all its bytes arrived", "request #%d ends at offset %d, handed up with %d bytes fed", i, r.End, h.FedAtHandUp)
				return false
			}
		}
		return true
	}
	setFed := func(n int) {
		lis.mu.Lock()
		fed = n
		lis.fed = n
		lis.mu.Unlock()
	}
	if c.Feed == "write" {
		buf = buffer.GetIoBuffer(len(stream))
		buf.Write(stream)
		setFed(len(stream))
		check()
	} else {
		buf = buffer.GetIoBuffer(network.DefaultReadBufferSize)
		rd := &c07H1Reader{}
		prev := 0
		cuts := append(append([]int(nil), c.Cuts...), len(stream))
	feed:
		for _, cut := range cuts {
			if cut <= prev || cut > len(stream) {
				res.harness = fmt.Sprintf("bad cut list %v for stream of %d bytes", c.Cuts, len(stream))
				return
			}
			rd.rest = stream[prev:cut]
			prev = cut
			for len(rd.rest) > 0 {
				n, err := buf.ReadOnce(rd)
				if err != nil || n == 0 {
					res.harness = fmt.Sprintf("ReadOnce: n=%d err=%v", n, err)
					return
				}
				setFed(fed + int(n))
				if !check() {
					break feed
				}
			}
		}
	}
	res.handed = snapshot()
	for i := range res.handed {
		res.handed[i].FedAtHandUp = 0
	}
	return
}

func TestVerifC07HTTP1Serve(t *testing.T) {
	p := vreport.Begin("C07", "http1-segmentation", 8*time.Minute)
	scripts := c07frames.HTTP1Scripts()
	byName := map[string]*c07frames.H1Script{}
	whole := map[string][]c07H1Handed{}
	for i := range scripts {
		s := &scripts[i]
		byName[s.Name] = s
		if !vreport.Replaying() {
			c := c07H1Case{Script: s.Name, Feed: "write", Len: len(s.Bytes)}
			res := c07H1Exec(s, c)
			if res.harness != "" {
				vreport.HarnessError("C07", "http1-segmentation", res.harness)
				t.Fatal(res.harness)
			}
			if res.key != "" {
				p.Violation(res.key, "whole delivery: "+res.detail, c)
				continue
			}
			whole[s.Name] = res.handed
		}
	}
	maxCuts := 2
	gen := func(yield func(c07H1Case) bool) {
		for i := range scripts {
			s := &scripts[i]
			mc := maxCuts
			if !vreport.Thorough() && len(s.Reqs) > 2 {
				mc = 1
			}
			ok := c07frames.Segmentations(len(s.Bytes), mc, func(feed string, cuts []int) bool {
				return !c07H1Dead && yield(c07H1Case{Script: s.Name, Feed: feed, Cuts: cuts, Len: len(s.Bytes)})
			})
			if !ok {
				return
			}
		}
	}
	complete := vreport.Run(p, gen, func(p *vreport.Part, c c07H1Case) {
		if c07H1Dead {
			return
		}
		s := byName[c.Script]
		if s == nil {
			vreport.HarnessError("C07", "http1-segmentation", "unknown script "+c.Script)
			return
		}
		res := c07H1Exec(s, c)
		if res.harness != "" {
			c07H1Dead = true
			vreport.HarnessError("C07", "http1-segmentation", fmt.Sprintf("%s (case %+v)", res.harness, c))
			return
		}
		var cls []string
		if len(c.Cuts) <= 3 {
			for _, cut := range c.Cuts {
				r := 0
				for r < len(s.Reqs) && s.Reqs[r].End <= cut {
					r++
				}
				start := 0
				if r > 0 {
					start = s.Reqs[r-1].End
				}
				hdrEnd := start + strings.Index(string(s.Bytes[start:]), "\r\n\r\n") + 4
				switch {
				case cut == start:
					cls = append(cls, fmt.Sprintf("%dB", r))
				case cut < hdrEnd:
					cls = append(cls, fmt.Sprintf("%dH", r))
				default:
					cls = append(cls, fmt.Sprintf("%dV", r))
				}
			}
		} else {
			cls = []string{"many"}
		}
		p.Distinct(fmt.Sprintf("%s|%s|%v", c.Script, c.Feed, cls))
		p.Outcome(fmt.Sprintf("%s|%v", c.Script, res.perFeed))
		if p.WantSample() {
			p.Sample(map[string]interface{}{"case": c, "requests_after_each_read": res.perFeed})
		}
		if res.key != "" {
			p.Violation(res.key, res.detail, c)
			return
		}
		if w, ok := whole[c.Script]; ok && !reflect.DeepEqual(res.handed, w) {
			p.Violation("http1 server: requests differ from whole delivery", fmt.Sprintf("whole delivery %+v, this segmentation %+v", w, res.handed), c)
		}
	})
	if c07H1Dead {
		complete = false
	}
	p.End(complete, "5 keep-alive client streams (GET; POST with Content-Length; POST chunked with two chunks; POST then GET; chunked POST then POST), each followed by a sentinel GET, 127-270 bytes; 2-request streams: every segmentation with 0,1,2 cuts; 3-request streams: 0,1 cuts in the quick tier, 0,1,2 in the thorough tier; always the all-single-bytes segmentation and whole delivery as initial buffer",
		"case = (script, cut list); distinct = script + for each cut the request it falls in and whether at its boundary / in the header block / in the body; outcome = requests handed up after each read. The serve goroutine is real; the harness waits (timeout = harness error, no verdict) for the requests whose last byte was fed. The read buffer is always emptied by Dispatch (bytes move into the connection's bufio.Reader), so the buffer-suffix oracle is not applied here.")
}
