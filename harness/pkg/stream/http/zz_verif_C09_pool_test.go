//go:build verif

package http

// C09 (upstream connection pools: exclusive leases, no leaks, no dirty reuse),
// unit "http1": the HTTP/1 driver of the explicit-state BFS in
// mosn.io/mosn/pkg/verifrt/c09 (read its package comment for the search, the
// reference model and the oracle). In-package to read connPool.availableClients,
// totalClientCount and the clients' closed / closeConn flags.
//
// The HTTP/1 client stream connection runs a real `serve` goroutine per
// connection (unbuffered bufChan/endRead hand-off). The engine makes every
// event wait for its completion signal, none of which depends on timing:
//   - NewStream + AppendHeaders(endStream) write the request synchronously on the
//     calling goroutine (the fake connection has recorded the bytes when
//     AppendHeaders returns); the event then waits until serve has taken the
//     requestSent token (AfterSend), after which serve can only be in or on its
//     way to the blocking response read.
//   - reply / reply+goaway / garbage: the bytes are handed to Dispatch on a helper
//     goroutine; the event is over when the stream's harness listener saw
//     OnDestroyStream (and the receiver OnReceive, for replies) - both are
//     called by the serve goroutine AFTER the pool has done its bookkeeping
//     (the pool's listener is registered first), so the books are final.
//   - local reset and connection close run the pool's bookkeeping synchronously
//     on the calling goroutine; for a close with a stream in flight the stream is
//     reset by the serve goroutine (woken by the closed channels), so the event
//     waits for the listener's OnDestroyStream as well. The order in which the
//     two goroutines take clientMux does not matter: "append unless closed" and
//     "remove and mark closed" commute to the same books.
//   - a wait that exceeds 20 s is a HARNESS error, never a violation.
// At the end of every replay all connections are closed so that no serve
// goroutine outlives its history.
//
// Known consequence of a finding: after a garbage response the serve loop
// returns (stream.go serve: `return` after a failed response read) while the
// pool puts the connection back into the idle list. A stream leased on such a
// connection is never read for, so the search does not expand states below such
// a lease (the lease itself is reported).

import (
	"context"
	"fmt"
	"runtime"
	"strings"
	"sync/atomic"
	"testing"
	"time"

	"github.com/valyala/fasthttp"
	"mosn.io/api"
	mosnhttp "mosn.io/mosn/pkg/protocol/http"
	"mosn.io/mosn/pkg/types"
	"mosn.io/mosn/pkg/verifrt/c09"
	"mosn.io/mosn/pkg/verifrt/vreport"
	"mosn.io/mosn/pkg/verifrt/vfake"
	"mosn.io/pkg/buffer"
	"mosn.io/pkg/variable"
)

type c09HTTP struct{}

func (c09HTTP) Name() string   { return "http1" }
func (c09HTTP) Kind() c09.Kind { return c09.PingPong }
func (c09HTTP) Async() bool    { return true }
func (c09HTTP) Guarded() bool  { return true }

func (c09HTTP) NewPool(ctx context.Context, host types.Host) types.ConnectionPool {
	return NewConnPool(ctx, host)
}

func (c09HTTP) NewCtx() context.Context {
	return buffer.NewBufferPoolContext(variable.NewVariableContext(context.Background()))
}

func (c09HTTP) Prepare(pool types.ConnectionPool, ctx context.Context) (bool, error) {
	return pool.CheckAndInit(ctx), nil
}

func (c09HTTP) RequestHeaders(ctx context.Context) api.HeaderMap {
	h := mosnhttp.RequestHeader{RequestHeader: &fasthttp.RequestHeader{}}
	h.Set("service", "svc")
	return h
}

func (c09HTTP) ReplyBytes(req []byte, goAway bool) ([]byte, error) {
	if !strings.HasPrefix(string(req), "GET ") || !strings.HasSuffix(string(req), "\r\n\r\n") {
		return nil, fmt.Errorf("not one complete GET request")
	}
	r := "HTTP/1.1 200 OK\r\nContent-Length: 2\r\n"
	if goAway {
		r += "Connection: close\r\n"
	}
	return []byte(r + "\r\nok"), nil
}

// AfterSend waits until the serve goroutine has taken the requestSent token, i.e. has left the
// `select { case <-requestSent: case <-connClosed: return }` at the top of its loop. Without this
// wait a connection close that follows immediately finds both cases ready and the Go runtime picks
// one at random (if it picks connClosed the stream is never reset - a schedule-dependent behaviour
// that belongs to the concurrent part of C09, not to this sequential search).
func (c09HTTP) AfterSend(sender types.StreamSender) error {
	cs, ok := sender.(*clientStream)
	if !ok {
		return fmt.Errorf("sender is %T", sender)
	}
	deadline := time.Now().Add(20 * time.Second)
	for n := 0; len(cs.connection.requestSent) != 0; n++ {
		if time.Now().After(deadline) {
			return fmt.Errorf("the serve goroutine did not take the request over within 20s")
		}
		if n < 200 {
			runtime.Gosched()
		} else {
			time.Sleep(20 * time.Microsecond)
		}
	}
	return nil
}

func (c09HTTP) GoAwayBytes() []byte  { return nil } // HTTP/1 announces go-away in a response (reply+goaway)
func (c09HTTP) GarbageBytes() []byte { return []byte("this is not an http response\r\n\r\n") }

func (c09HTTP) Quiesce(pool types.ConnectionPool, shutdownRequested bool) error { return nil }

func (c09HTTP) Books(pool types.ConnectionPool) c09.Books {
	p := pool.(*connPool)
	p.clientMux.Lock()
	defer p.clientMux.Unlock()
	b := c09.Books{HasTotal: true, Total: int64(atomic.LoadUint64(&p.totalClientCount))}
	for _, c := range p.availableClients {
		fc, _ := c.host.Connection.(*vfake.Conn)
		b.Idle = append(b.Idle, c09.ClientBook{Conn: fc, Flags: fmt.Sprintf("closed=%v,closeConn=%v", c.closed, c.closeConn)})
	}
	return b
}

// SelfDeadlock: connPool.Close holds p.clientMux while it closes the idle clients; the synchronous
// close event reaches activeClient.OnEvent -> connPool.onConnectionEvent, which locks p.clientMux again.
const (
	c09DLCloseClass  = "I3 self-deadlock in pool Close with an idle connection (idle connections never leave the books)"
	c09DLCloseDetail = "connPool.Close holds clientMux while closing the idle clients; the synchronous close event runs activeClient.OnEvent -> connPool.onConnectionEvent, which locks clientMux again: the caller of Close waits for itself while holding the pool mutex, every later NewStream on this pool blocks too"
)

func (c09HTTP) PredictDeadlock(pool types.ConnectionPool, ev string, conn *vfake.Conn) (string, string) {
	p := pool.(*connPool)
	if ev != "close" {
		return "", ""
	}
	p.clientMux.Lock()
	n := len(p.availableClients)
	p.clientMux.Unlock()
	if n > 0 {
		return c09DLCloseClass, c09DLCloseDetail
	}
	return "", ""
}

func (c09HTTP) SelfDeadlock(stack string) (class, detail string) {
	if a, b := strings.Index(stack, "(*connPool).onConnectionEvent"), strings.Index(stack, "(*connPool).Close("); a >= 0 && b > a {
		return c09DLCloseClass, c09DLCloseDetail
	}
	return "", ""
}

// LimitEvents (c09.RuntimeLimits): max_connections of the cluster's live resource manager is changed at
// runtime by a cluster update, anywhere in a history (this pool reads the limit at every lease, like
// the ping-pong pool): quick <= 2 changes per history to 1 or 2, thorough <= 3 changes to 0, 1 or 2.
func (c09HTTP) LimitEvents() (int, []uint32) {
	if vreport.Thorough() {
		return 3, []uint32{0, 1, 2}
	}
	return 2, []uint32{1, 2}
}

func TestVerifC09HTTP1(t *testing.T) {
	c09.Main(t, c09HTTP{}, 7, 10)
}

// TestVerifC09HTTP1Schedules is the concurrent (E1) part for the HTTP/1 pool: see
// mosn.io/mosn/pkg/verifrt/c09/sched.go. Built with the "c09http" rewrite set (the "proxy" set plus
// pkg/stream/http: pool mutex, atomics, the serve goroutine and its channels are scheduling points).
func TestVerifC09HTTP1Schedules(t *testing.T) {
	c09.MainSchedules(t, c09HTTP{}, append(c09.DefaultScenarios(), c09.DoomedScenarios(true)...), 1, 2, 2)
}
