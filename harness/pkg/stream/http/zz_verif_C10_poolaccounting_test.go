//go:build verif

package http

// C10 (circuit-breaker and active-gauge accounting is conserved), pool-level units for the
// HTTP/1 pool (pkg/stream/http/connpool.go), which no other C10 unit links: BFS + schedule part
// through the C09 driver c09HTTP (zz_verif_C09_pool_test.go, compiled into these units with
// "also": ["C09"]; real serve goroutines, every event waits for its completion signals).
// "remote reset" is the event garbage(s): an unreadable response, which the stream layer turns
// into ResetStream(StreamRemoteReset).
//
// Search, reference model and oracle A1-A4 are in mosn.io/mosn/pkg/verifrt/c09/accounting.go.

import (
	"testing"

	"mosn.io/mosn/pkg/verifrt/c09"
)

func TestVerifC10PoolHTTP1(t *testing.T) {
	c09.MainAccounting(t, c09HTTP{}, c09.AccSpec{ConnPerStream: true}, 7, 10)
}

// Built with the "c09http" rewrite set (the "proxy" set plus pkg/stream/http).
func TestVerifC10PoolHTTP1Schedules(t *testing.T) {
	c09.MainAccountingSchedules(t, c09HTTP{}, c09.AccSpec{ConnPerStream: true}, c09.AccScenarios(), 1, 2, 2)
}
