//go:build verif

package http

// C08 unit "http1": malformed HTTP/1 input is contained to its own connection,
// on the downstream side (the REAL serverStreamConnection created by
// newServerStreamConnection, its serve goroutine parsing requests through
// fasthttp) and on the upstream side (the REAL connPool -> stream client ->
// clientStreamConnection, its serve goroutine parsing responses), both over the
// fake connection mosn.io/mosn/pkg/verifrt/vfake (close / write semantics of
// pkg/network.connection, close events delivered synchronously).
//
// One case = one input on a FRESH connection A:
//
//	server: Dispatch(input) on A; then the peer closes A; then a valid GET on the
//	        persistent keep-alive connection B and a valid POST on a fresh
//	        connection C (both of the same process, i.e. sharing the buffer pools,
//	        the protocol registry ... with A).
//	client: request 1 through a fresh pool A, input injected as the upstream's
//	        answer; optionally a second exchange through the same pool answered by
//	        a valid response; then the peer closes A's connections; then a valid
//	        exchange through the persistent pool B.
//
// The serve loops are real goroutines. Their state is observed from the outside
// with consistent goroutine snapshots (package c08g, no clock involved): a case
// is settled when the serve goroutine of A is blocked in streamConnection.Read
// with all input handed over ("asks for more"), parked in the select at the top
// of its loop ("idle"), or gone. Verdicts (the statement's): the outcome on A is
// one of {message(s) handed up, waits for more input, error reply and/or close};
// anything else is a violation:
//
//	WEDGE     the serve goroutine is gone but the connection was not closed: nobody
//	          reads this connection any more, the next Dispatch (the connection's
//	          read loop) blocks forever
//	LIVELOCK  the serve loop handed up more streams than the input has bytes+8 or
//	          wrote more than 2*len+16 times (it keeps working on bytes it does not consume)
//	STALL     the serve goroutine is parked although a stream is neither delivered nor reset
//	SPIN      no stable state while the process burned 10 s of CPU (c08g.Settle)
//	PANIC     a panic raised in mosn.io/mosn code (recovered by GoWithRecover and
//	          recorded through utils.RegisterRecoverLogger). A panic raised inside
//	          the fasthttp dependency is recorded but judged by its consequence only
//	          (WEDGE ...), as the statement's "own decoders" clause does not cover it.
//
// plus, per case, the generic C08 oracles of c08.Main (three executions: exact /
// poisoned buffers; TotalAlloc of one execution <= 1 MiB + 32*len(input); the
// execution returns; a fatal error of the child process is the case's verdict)
// and: B and C are served exactly as before any garbage arrived.

import (
	"context"
	"fmt"
	"hash/fnv"
	"io"
	"os"
	"runtime"
	"sort"
	"strconv"
	"strings"
	"sync"
	"testing"
	"time"

	"github.com/valyala/fasthttp"
	"mosn.io/api"
	v2 "mosn.io/mosn/pkg/config/v2"
	mlog "mosn.io/mosn/pkg/log"
	"mosn.io/mosn/pkg/protocol"
	mosnhttp "mosn.io/mosn/pkg/protocol/http"
	"mosn.io/mosn/pkg/types"
	"mosn.io/mosn/pkg/upstream/cluster"
	"mosn.io/mosn/pkg/verifrt/c08"
	"mosn.io/mosn/pkg/verifrt/c08g"
	"mosn.io/mosn/pkg/verifrt/vfake"
	"mosn.io/mosn/pkg/verifrt/vreport"
	"mosn.io/pkg/buffer"
	plog "mosn.io/pkg/log"
	"mosn.io/pkg/utils"
	"mosn.io/pkg/variable"
)

// ---------------------------------------------------------------- environment

type c08H1Livelock struct{ what string }

type c08H1PanicRec struct {
	gid      int
	val      string
	where    c08.PanicSite
	livelock string
}

var (
	c08H1Once   sync.Once
	c08H1PMu    sync.Mutex
	c08H1Panics []c08H1PanicRec // what GoWithRecover recovered, not yet attributed to a connection
)

func c08H1Init() {
	c08H1Once.Do(func() {
		vfake.Install()
		mlog.DefaultLogger.SetLogLevel(plog.FATAL)
		mlog.DefaultLogger.Toggle(true)
		mlog.StartLogger.SetLogLevel(plog.FATAL)
		mlog.StartLogger.Toggle(true)
		mlog.Proxy.SetLogLevel(plog.FATAL)
		mlog.Proxy.Toggle(true)
		// every goroutine of the code under test runs under utils.GoWithRecover: record what it recovers
		utils.RegisterRecoverLogger(func(w io.Writer, r interface{}) {
			rec := c08H1PanicRec{val: fmt.Sprint(r), where: c08.Where()}
			if l, ok := r.(c08H1Livelock); ok {
				rec.livelock = l.what
			}
			rec.gid = c08g.SelfID()
			c08H1PMu.Lock()
			c08H1Panics = append(c08H1Panics, rec)
			c08H1PMu.Unlock()
		})
	})
}

func c08H1IsChild() bool { return os.Getenv("C08_CHILD") != "" }

// c08H1PanicOf takes the recovered panic of a serve goroutine: by goroutine id; for a goroutine that had ended
// before its id could be read (sv.gone) the oldest record nobody claimed - the connections of a case run one after
// the other and every one claims its record before the next starts.
func c08H1PanicOf(sv *c08H1Serve) (c08H1PanicRec, bool) {
	c08H1PMu.Lock()
	defer c08H1PMu.Unlock()
	for i, r := range c08H1Panics {
		if r.gid == sv.id || (sv.id == 0 && sv.gone) {
			c08H1Panics = append(c08H1Panics[:i], c08H1Panics[i+1:]...)
			return r, true
		}
	}
	return c08H1PanicRec{}, false
}

func c08H1Short(s string) string {
	if len(s) <= 96 {
		return s
	}
	h := fnv.New64a()
	h.Write([]byte(s))
	return fmt.Sprintf("%s...(%d bytes, fnv %x)", s[:48], len(s), h.Sum64())
}

// c08H1ServeState classifies a serve goroutine: gone | reading (blocked in streamConnection.Read: asks for more
// input) | idle (parked in the select of its loop) | busy (anything else: waited out).
func c08H1ServeState(s *c08g.Snap, gid int) (string, c08g.G) {
	g, ok := s.Find(gid)
	if !ok {
		return "gone", g
	}
	top := g.Top()
	switch {
	case g.State == "chan receive" && strings.HasSuffix(top, "(*streamConnection).Read"):
		return "reading", g
	case g.State == "select" && strings.HasSuffix(top, "StreamConnection).serve"):
		return "idle", g
	}
	return "busy", g
}

// c08H1Settle waits until the serve goroutine gid is in a stable state, given the goroutine feed that hands
// the input over (Dispatch). Verdicts: gone | reading | idle (feed done), gone+pending | idle+pending (feed
// parked in Dispatch's send on bufChan: the serve loop does not take the bytes), SPIN, TIMEOUT.
// c08H1Serve identifies a serve goroutine: by its id once known, before that as the one goroutine that goroutine
// creator started through utils.GoWithRecover (resolved in the first snapshot taken for it).
type c08H1Serve struct {
	id, creator int
	herr        string
	gone        bool // it had already ended when the first snapshot was taken (ids are never reused: gone for good)
}

func (sv *c08H1Serve) resolve(s *c08g.Snap) {
	if sv.id != 0 || sv.herr != "" || sv.gone {
		return
	}
	var ids []int
	for _, g := range s.Children(sv.creator) {
		ids = append(ids, g.ID)
	}
	switch len(ids) {
	case 0:
		// the constructor ran in a helper goroutine of the harness that did nothing else; its one child has ended
		sv.gone = true
	case 1:
		sv.id = ids[0]
	default:
		sv.herr = fmt.Sprintf("expected one goroutine created by goroutine %d, found %v", sv.creator, ids)
	}
}

// c08H1RecoverHandlerRunning: utils.GoWithRecover runs its recoverHandler in a goroutine of its own, started from
// the deferred function of the goroutine that panicked ("created by mosn.io/pkg/utils.GoWithRecover.func1.1").
func c08H1RecoverHandlerRunning(s *c08g.Snap) bool {
	found := false
	s.Each(func(g c08g.G) bool {
		if fn, _ := g.CreatedBy(); strings.Contains(fn, "utils.GoWithRecover.func") {
			found = true
		}
		return !found
	})
	return found
}

func c08H1Settle(sv *c08H1Serve, feed *c08g.Task) string {
	n := 0
	return c08g.Settle(func() string {
		n++
		done := feed == nil || feed.Done() // sampled BEFORE the snapshot: "done" then means all bytes were taken before it
		// a snapshot stops the world: while the feed is still running, look only now and then (for a parked feed)
		if !done && n%64 != 0 {
			return ""
		}
		if n == 1 {
			for i := 0; i < 4; i++ {
				runtime.Gosched() // the serve goroutine is usually parked again a few microseconds after the hand-over
			}
		}
		s := c08g.Take()
		if sv.resolve(s); sv.herr != "" {
			return "HARNESS"
		}
		st := "gone"
		if !sv.gone {
			st, _ = c08H1ServeState(s, sv.id)
		}
		if st == "gone" && c08H1RecoverHandlerRunning(s) {
			return "" // a recover handler of utils.GoWithRecover (started by the dying goroutine) is still at work
		}
		if done {
			if st == "busy" {
				return ""
			}
			return st
		}
		fg, ok := s.Find(feed.ID)
		if !ok {
			return ""
		}
		if fg.State == "chan send" && strings.HasSuffix(fg.Top(), "(*streamConnection).Dispatch") && (st == "gone" || st == "idle") {
			return st + "+pending"
		}
		return ""
	})
}

func c08H1Status(b []byte) string {
	s := string(b)
	if i := strings.Index(s, "\r\n"); i >= 0 {
		s = s[:i]
	}
	return c08H1Short(s)
}

// ---------------------------------------------------------------- downstream side

type c08H1Lis struct {
	mu         sync.Mutex
	handed     []string
	budget     int
	conn       *vfake.Conn
	afterClose int // streams handed up after the connection was closed: whether the serve loop goes on with the bytes it
	// has buffered or returns is the random choice of its select{responseDone, connClosed} - not part of the observation
}

type c08H1Recv struct {
	l      *c08H1Lis
	sender types.StreamSender
}

func (l *c08H1Lis) OnGoAway() {}
func (l *c08H1Lis) NewStreamDetect(ctx context.Context, sender types.StreamSender, span api.Span) types.StreamReceiveListener {
	l.mu.Lock()
	l.budget--
	over := l.budget < 0
	l.mu.Unlock()
	if over {
		panic(c08H1Livelock{"more streams handed up than the input has bytes"})
	}
	return &c08H1Recv{l: l, sender: sender}
}

func (r *c08H1Recv) OnReceive(ctx context.Context, headers api.HeaderMap, data buffer.IoBuffer, trailers api.HeaderMap) {
	m, _ := variable.GetString(ctx, types.VarMethod)
	p, _ := variable.GetString(ctx, types.VarPath)
	if q, err := variable.GetString(ctx, types.VarQueryString); err == nil && q != "" {
		p += "?" + q
	}
	var kv []string
	headers.Range(func(k, v string) bool {
		kv = append(kv, strings.ToLower(k)+"="+v)
		return true
	})
	sort.Strings(kv)
	body := "<nil>"
	if data != nil {
		body = fmt.Sprintf("%q", data.Bytes())
	}
	r.l.mu.Lock()
	if r.l.conn != nil && r.l.conn.IsClosed() {
		r.l.afterClose++
	} else {
		r.l.handed = append(r.l.handed, c08H1Short(fmt.Sprintf("%q %q [%s] body=%s", m, p, strings.Join(kv, "&"), body)))
	}
	r.l.mu.Unlock()
	// answer at once, the way the proxy answers with the upstream's response: headers, then data
	resp := mosnhttp.ResponseHeader{ResponseHeader: &fasthttp.ResponseHeader{}}
	resp.SetStatusCode(200)
	resp.Set("X-C08", "pong")
	r.sender.AppendHeaders(ctx, resp, false)
	r.sender.AppendData(ctx, buffer.NewIoBufferString("pong"), true)
}

func (r *c08H1Recv) OnDecodeError(ctx context.Context, err error, headers api.HeaderMap) {
	r.l.mu.Lock()
	r.l.handed = append(r.l.handed, "OnDecodeError")
	r.l.mu.Unlock()
}

type c08H1Srv struct {
	conn    *vfake.Conn
	lis     *c08H1Lis
	sc      *serverStreamConnection
	serve   *c08H1Serve
	wbudget int
}

func c08H1Ctx(cfg bool, client bool) context.Context {
	ctx := variable.NewVariableContext(context.Background())
	if cfg {
		if client {
			_ = variable.Set(ctx, types.VariableProxyGeneralConfig, map[api.ProtocolName]interface{}{
				protocol.HTTP1: map[string]interface{}{"max_header_size": float64(c08H1CfgHeader)}})
		} else {
			_ = variable.Set(ctx, types.VariableProxyGeneralConfig, map[api.ProtocolName]interface{}{
				protocol.HTTP1: StreamConfig{MaxHeaderSize: c08H1CfgHeader, MaxRequestBodySize: c08H1CfgBody}})
		}
	}
	return ctx
}

const (
	c08H1CfgHeader = 256
	c08H1CfgBody   = 64
)

func c08H1NewSrv(cfg bool) (*c08H1Srv, string) {
	p := &c08H1Srv{conn: vfake.NewServerSide("c08"), lis: &c08H1Lis{}}
	p.lis.conn = p.conn
	p.conn.PreWrite = func(c *vfake.Conn) {
		p.wbudget--
		if p.wbudget < 0 {
			panic(c08H1Livelock{"more writes than 2*len(input)+16"})
		}
	}
	t := c08g.Go(func() {
		p.sc = newServerStreamConnection(c08H1Ctx(cfg, false), p.conn, p.lis).(*serverStreamConnection)
	})
	t.Wait()
	if t.Panic != nil {
		return nil, fmt.Sprintf("newServerStreamConnection panics: %v", t.Panic)
	}
	p.serve = &c08H1Serve{creator: t.ID}
	return p, ""
}

// feed hands b to the real Dispatch and waits for a stable state. It returns the verdict of c08H1Settle.
func (p *c08H1Srv) feed(b []byte) (string, *c08g.Task) {
	p.lis.mu.Lock()
	p.lis.budget = len(b) + 8
	p.lis.mu.Unlock()
	p.wbudget = 2*len(b) + 16
	var feed *c08g.Task
	if len(b) > 0 {
		io := buffer.NewIoBufferBytes(b)
		feed = c08g.Go(func() { p.sc.Dispatch(io) })
	}
	return c08H1Settle(p.serve, feed), feed
}

// observe: what the outside saw on this connection since the last call.
func (p *c08H1Srv) observe() (handed []string, writes []string) {
	p.lis.mu.Lock()
	handed, p.lis.handed = p.lis.handed, nil
	p.lis.mu.Unlock()
	for _, w := range p.conn.Writes {
		writes = append(writes, c08H1Status(w))
	}
	p.conn.Writes = nil
	return
}

// finish: the peer closes the connection (if it is still open); the serve goroutine and a parked feed must end.
func c08H1Finish(conn *vfake.Conn, serve *c08H1Serve, feeds ...*c08g.Task) string {
	if !conn.IsClosed() {
		conn.RemoteClose()
	}
	n := 0
	return c08g.Settle(func() string {
		for _, f := range feeds {
			if f != nil && !f.Done() {
				return ""
			}
		}
		if n++; n == 1 {
			for i := 0; i < 4; i++ {
				runtime.Gosched()
			}
		}
		snap := c08g.Take()
		if serve.resolve(snap); serve.herr != "" {
			return "HARNESS"
		}
		if !serve.gone {
			if st, _ := c08H1ServeState(snap, serve.id); st != "gone" {
				return ""
			}
		}
		return "ended"
	})
}

func c08H1PanicNote(sv *c08H1Serve) (note string, viol string) {
	rec, ok := c08H1PanicOf(sv)
	if !ok {
		return "", ""
	}
	switch {
	case rec.livelock != "":
		return " livelock", "LIVELOCK " + rec.livelock
	case strings.HasPrefix(rec.where.Site, "mosn.io/mosn/"):
		return " panic@" + rec.where.Site, "PANIC@" + rec.where.Site + " " + rec.val + " stack: " + rec.where.Stack
	}
	return " dep-panic@" + rec.where.Site + "(" + c08H1Short(rec.val) + ")", ""
}

// c08H1ServerA runs the input on a fresh connection A. out = canonical observation, viol = the violation (if any).
func c08H1ServerA(cfg bool, in []byte) (kind, out, viol string) {
	a, herr := c08H1NewSrv(cfg)
	if herr != "" {
		return "harness", herr, "HARNESS " + herr
	}
	v, feed := a.feed(in)
	handed, writes := a.observe()
	closed := a.conn.IsClosed()
	note, pv := c08H1PanicNote(a.serve)
	viol = pv
	rejected := false
	for _, w := range writes {
		if strings.HasPrefix(w, "HTTP/1.1 400") {
			rejected = true
		}
	}
	switch {
	case viol != "":
		kind = strings.ToLower(strings.SplitN(viol, " ", 2)[0])
		if i := strings.IndexByte(kind, '@'); i >= 0 {
			kind = kind[:i]
		}
	case v == c08g.Spin:
		kind, viol = "spin", "SPIN no stable state of the serve goroutine while the process burned 10 s of CPU"
	case v == c08g.Timeout:
		kind, viol = "inconclusive", "HARNESS no stable state of the serve goroutine within 45 s and no CPU evidence of a spin: no verdict"
	case v == "HARNESS":
		kind, viol = "harness", "HARNESS "+a.serve.herr
	case v == "reading" && !closed:
		kind = "waits"
		if len(handed) > 0 {
			kind = "served+waits"
		}
	case v == "gone" && closed:
		kind = "closed"
		if rejected {
			kind = "rejected+closed"
		}
		if len(handed) > 0 {
			kind = "served+" + kind
		}
	case (v == "gone" || v == "gone+pending") && !closed:
		kind, viol = "wedge", "WEDGE"+note
	case v == "idle" || v == "idle+pending":
		kind, viol = "stall", "STALL the serve goroutine is parked in its select ("+v+") although every request handed up was answered at once"
	default:
		kind, viol = "harness", fmt.Sprintf("HARNESS unforeseen state: serve %s, connection closed=%v", v, closed)
	}
	if strings.HasPrefix(viol, "STALL") || strings.HasPrefix(viol, "SPIN") {
		st, g := c08H1ServeState(c08g.Take(), a.serve.id)
		viol += "; serve goroutine (" + st + "): " + g.Stack()
	}
	out = fmt.Sprintf("%s A{state=%s up=%v writes=%v closed=%v/%s%s}", kind, v, handed, writes, closed, a.conn.CloseEvent, note)
	// the peer goes away
	fin := c08H1Finish(a.conn, a.serve, feed)
	h2, w2 := a.observe()
	n2, pv2 := c08H1PanicNote(a.serve)
	out += fmt.Sprintf(" atclose{%s up=%v writes=%v%s}", fin, h2, w2, n2)
	if kind == "livelock" {
		out = "livelock A{cut off by the harness}" // (how far the loop got is not part of the canonical observation)
	}
	if viol == "" {
		switch {
		case pv2 != "":
			viol = pv2
		case fin == c08g.Spin:
			viol = "SPIN after the peer closed the connection the serve goroutine does not end while the process burned 10 s of CPU"
		case fin == c08g.Timeout:
			viol = "HARNESS after the peer closed the connection the serve goroutine did not end within 45 s (no CPU evidence of a spin): no verdict"
		}
	}
	return
}

// the valid exchanges on the other connections
const (
	c08H1BReq = "GET /b?probe=1 HTTP/1.1\r\nHost: b.example\r\nX-C08: b\r\n\r\n"
	c08H1CReq = "POST /c HTTP/1.1\r\nHost: c.example\r\nContent-Type: text/plain\r\nContent-Length: 9\r\n\r\nprobe-c-9"
)

var (
	c08H1SrvB    = map[bool]*c08H1Srv{}
	c08H1SrvBRef = map[bool]string{}
	c08H1SrvCRef = map[bool]string{}
)

func c08H1Probe(p *c08H1Srv, req string) string {
	v, _ := p.feed([]byte(req))
	handed, writes := p.observe()
	note, _ := c08H1PanicNote(p.serve)
	return fmt.Sprintf("state=%s up=%v writes=%v closed=%v%s", v, handed, writes, p.conn.IsClosed(), note)
}

func c08H1ProbeC(cfg bool) string {
	c, herr := c08H1NewSrv(cfg)
	if herr != "" {
		return "harness: " + herr
	}
	o := c08H1Probe(c, c08H1CReq)
	o += " " + c08H1Finish(c.conn, c.serve)
	return o
}

// c08H1FreshPools empties the sync.Pools (fasthttp keeps request / response body buffers there) before an execution
// of a case that announces a length: whether the announced length is allocated anew or found in a pooled buffer of
// an earlier execution of the same case would otherwise depend on the garbage collector's timing.
func c08H1FreshPools(c c08.Case) {
	if c.Class == "content-length" || c.Class == "chunk-size" {
		runtime.GC()
		runtime.GC()
	}
}

var c08H1LastCase string

// c08H1FirstExecution: c08.Main executes every case three times in a row (and up to three more times to confirm an
// allocation); the probes of the other connections run after the first execution of each case.
func c08H1FirstExecution(c c08.Case) bool {
	k := c.Target + "|" + c.Extra + "|" + c.Hex
	if k == c08H1LastCase {
		return false
	}
	c08H1LastCase = k
	return true
}

func c08H1ExecServer(c c08.Case, buf []byte) string {
	c08H1Init()
	c08H1FreshPools(c)
	cfg := strings.HasSuffix(c.Target, "-cfg")
	if c08H1SrvB[cfg] == nil {
		b, herr := c08H1NewSrv(cfg)
		if herr != "" {
			return "harness !!HARNESS " + herr + "!!"
		}
		c08H1SrvB[cfg] = b
		c08H1SrvBRef[cfg] = c08H1Probe(b, c08H1BReq)
		c08H1SrvCRef[cfg] = c08H1ProbeC(cfg)
	}
	_, out, viol := c08H1ServerA(cfg, buf)
	if !c08H1FirstExecution(c) {
		// the other connections are probed after the first of the three executions of a case (c08.Main)
		if viol != "" {
			out += " !!" + viol + "!!"
		}
		return out
	}
	if bo := c08H1Probe(c08H1SrvB[cfg], c08H1BReq); bo != c08H1SrvBRef[cfg] {
		out += " B-CHANGED"
		if viol == "" {
			viol = "OTHER keep-alive connection B: before {" + c08H1SrvBRef[cfg] + "} now {" + bo + "}"
		}
	} else {
		out += " B-same"
	}
	if co := c08H1ProbeC(cfg); co != c08H1SrvCRef[cfg] {
		out += " C-CHANGED"
		if viol == "" {
			viol = "OTHER fresh connection C: before {" + c08H1SrvCRef[cfg] + "} now {" + co + "}"
		}
	} else {
		out += " C-same"
	}
	if viol != "" {
		out += " !!" + viol + "!!"
	}
	return out
}

// ---------------------------------------------------------------- upstream side

type c08H1UpRecv struct {
	mu     sync.Mutex
	events []string
}

func (r *c08H1UpRecv) add(s string) { r.mu.Lock(); r.events = append(r.events, s); r.mu.Unlock() }
func (r *c08H1UpRecv) OnReceive(ctx context.Context, headers api.HeaderMap, data buffer.IoBuffer, trailers api.HeaderMap) {
	var kv []string
	headers.Range(func(k, v string) bool {
		kv = append(kv, strings.ToLower(k)+"="+v)
		return true
	})
	sort.Strings(kv)
	st := "?"
	if h, ok := headers.(mosnhttp.ResponseHeader); ok {
		st = fmt.Sprint(h.StatusCode())
	}
	body := "<nil>"
	if data != nil {
		body = fmt.Sprintf("%q", data.Bytes())
	}
	r.add(c08H1Short(fmt.Sprintf("received %s [%s] body=%s", st, strings.Join(kv, "&"), body)))
}
func (r *c08H1UpRecv) OnDecodeError(ctx context.Context, err error, headers api.HeaderMap) {
	r.add("decode-error")
}
func (r *c08H1UpRecv) OnResetStream(reason types.StreamResetReason) { r.add("reset:" + string(reason)) }
func (r *c08H1UpRecv) OnDestroyStream()                             { r.add("destroyed") }
func (r *c08H1UpRecv) take() []string {
	r.mu.Lock()
	defer r.mu.Unlock()
	e := r.events
	r.events = nil
	return e
}

type c08H1UpConn struct {
	fc      *vfake.Conn
	serve   *c08H1Serve
	feeds   []*c08g.Task
	nw      int // writes seen so far
	wbudget int
}

type c08H1Up struct {
	pool  types.ConnectionPool
	cfg   bool
	conns []*c08H1UpConn
	recvs []*c08H1UpRecv
}

var c08H1Hosts = map[string]types.Host{}

func c08H1NewUp(name string, cfg bool) *c08H1Up {
	h := c08H1Hosts[name]
	if h == nil {
		cc := v2.Cluster{Name: "c08h1-" + name, ClusterType: v2.SIMPLE_CLUSTER, LbType: v2.LB_ROUNDROBIN}
		info := cluster.NewClusterInfo(cc)
		h = cluster.NewSimpleHost(v2.Host{HostConfig: v2.HostConfig{Address: "127.0.0.1:21908", Weight: 1}}, info)
		c08H1Hosts[name] = h
	}
	return &c08H1Up{pool: NewConnPool(context.Background(), h), cfg: cfg}
}

// exchange sends one request through the pool and injects resp as the answer of the connection that carried it.
// It returns the canonical observation and a violation (if any).
func (u *c08H1Up) exchange(resp []byte) (kind, out, viol string) {
	recv := &c08H1UpRecv{}
	u.recvs = append(u.recvs, recv)
	ctx := buffer.NewBufferPoolContext(c08H1Ctx(u.cfg, true))
	nCreated := len(vfake.Created)
	var reason types.PoolFailureReason
	var sender types.StreamSender
	t := c08g.Go(func() {
		_, sender, reason = u.pool.NewStream(ctx, recv)
		if sender == nil {
			return
		}
		sender.GetStream().AddEventListener(recv)
		h := mosnhttp.RequestHeader{RequestHeader: &fasthttp.RequestHeader{}}
		h.Set("service", "svc")
		sender.AppendHeaders(ctx, h, true)
	})
	if v := c08g.Settle(func() string {
		if t.Done() {
			return "sent"
		}
		return ""
	}); v != "sent" {
		return "harness", "request not sent: " + v, "HARNESS sending the request through the pool did not return: " + v
	}
	if t.Panic != nil {
		return "panic", fmt.Sprintf("panic while sending: %v", t.Panic), "PANIC@" + t.Where.Site + " while sending the request: " + fmt.Sprint(t.Panic)
	}
	if sender == nil {
		return "refused", "pool refused: " + string(reason), "HARNESS the pool refused a request: " + string(reason)
	}
	// which connection carried the request
	newConn := false
	var uc *c08H1UpConn
	if len(vfake.Created) > nCreated {
		newConn = true
		uc = &c08H1UpConn{fc: vfake.Created[len(vfake.Created)-1], serve: &c08H1Serve{creator: t.ID}}
		u.conns = append(u.conns, uc)
		wc := uc
		uc.fc.PreWrite = func(c *vfake.Conn) {
			wc.wbudget--
			if wc.wbudget < -64 {
				panic(c08H1Livelock{"more than 64 writes on an upstream connection for one exchange"})
			}
		}
	} else {
		for _, c := range u.conns {
			if len(c.fc.Writes) > c.nw {
				uc = c
			}
		}
	}
	if uc == nil {
		ev := recv.take()
		return "unsent", fmt.Sprintf("unsent events=%v", ev), ""
	}
	req := ""
	if len(uc.fc.Writes) > uc.nw {
		req = c08H1Status(uc.fc.Writes[len(uc.fc.Writes)-1])
	}
	uc.nw = len(uc.fc.Writes)
	uc.wbudget = 0
	// the answer arrives (the serve loop takes the request token and reads, in whatever order the two happen)
	var feed *c08g.Task
	if len(resp) > 0 {
		feed = c08g.Go(func() { uc.fc.InjectRead(resp) })
		uc.feeds = append(uc.feeds, feed)
	}
	v := c08H1Settle(uc.serve, feed)
	ev := recv.take()
	closed := uc.fc.IsClosed()
	note, pv := c08H1PanicNote(uc.serve)
	viol = pv
	received, reset := false, false
	for _, e := range ev {
		if strings.HasPrefix(e, "received") {
			received = true
		}
		if strings.HasPrefix(e, "reset:") {
			reset = true
		}
	}
	switch {
	case viol != "":
		kind = strings.ToLower(strings.SplitN(viol, " ", 2)[0])
		if i := strings.IndexByte(kind, '@'); i >= 0 {
			kind = kind[:i]
		}
	case v == c08g.Spin:
		kind, viol = "spin", "SPIN no stable state of the client serve goroutine while the process burned 10 s of CPU"
	case v == c08g.Timeout:
		kind, viol = "inconclusive", "HARNESS no stable state of the client serve goroutine within 45 s and no CPU evidence of a spin: no verdict"
	case v == "HARNESS":
		kind, viol = "harness", "HARNESS "+uc.serve.herr
	case received && (v == "idle" || v == "idle+pending") && !closed:
		kind = "delivered"
	case received && v == "gone" && closed:
		kind = "delivered+closed"
	case reset && v == "gone" && closed:
		kind = "reset+closed"
	case !received && !reset && v == "reading" && !closed:
		kind = "waits"
	case (v == "gone" || v == "gone+pending") && !closed:
		kind, viol = "wedge", "WEDGE"+note
	case !received && !reset && (v == "idle" || v == "idle+pending"):
		kind, viol = "stall", "STALL the client serve goroutine is back in its select although the stream got neither a response nor a reset"
	default:
		kind, viol = "harness", fmt.Sprintf("HARNESS unforeseen state: serve %s, connection closed=%v, events %v", v, closed, ev)
	}
	out = fmt.Sprintf("%s {req=%q newconn=%v state=%s events=%v closed=%v/%s%s}", kind, req, newConn, v, ev, closed, uc.fc.CloseEvent, note)
	return
}

func (u *c08H1Up) finish() (out, viol string) {
	for i, c := range u.conns {
		fin := c08H1Finish(c.fc, c.serve, c.feeds...)
		note, pv := c08H1PanicNote(c.serve)
		var ev []string
		for _, r := range u.recvs {
			ev = append(ev, r.take()...)
		}
		out += fmt.Sprintf(" atclose%d{%s events=%v%s}", i, fin, ev, note)
		if viol == "" {
			switch {
			case pv != "":
				viol = pv
			case fin == c08g.Spin:
				viol = "SPIN after the peer closed the connection the client serve goroutine does not end while the process burned 10 s of CPU"
			case fin == c08g.Timeout:
				viol = "HARNESS after the peer closed the connection the client serve goroutine did not end within 45 s (no CPU evidence of a spin): no verdict"
			}
		}
	}
	return
}

const c08H1ValidResp = "HTTP/1.1 200 OK\r\nContent-Type: text/plain\r\nX-C08: up\r\nContent-Length: 8\r\n\r\nupstream"

var (
	c08H1UpB    = map[bool]*c08H1Up{}
	c08H1UpBRef = map[bool]string{}
)

func c08H1ExecClient(c c08.Case, buf []byte) string {
	if os.Getenv("C08_H1_SLOW") != "" {
		t0 := time.Now()
		defer func() {
			if d := time.Since(t0); d > 30*time.Millisecond {
				fmt.Printf("SLOW %v idx=%d %s %s %s %s\n", d, c.Idx, c.Target, c.Frame, c.Class, c.Desc)
			}
		}()
	}
	c08H1Init()
	vfake.Created = nil // the factory's registry would keep every connection of every case alive
	c08H1FreshPools(c)
	cfg := strings.HasSuffix(c.Target, "-cfg")
	if c08H1UpB[cfg] == nil {
		name := "B"
		if cfg {
			name = "Bcfg"
		}
		b := c08H1NewUp(name, cfg)
		c08H1UpB[cfg] = b
		b.exchange([]byte(c08H1ValidResp)) // creates the keep-alive connection
		_, c08H1UpBRef[cfg], _ = b.exchange([]byte(c08H1ValidResp))
	}
	a := c08H1NewUp("A", cfg)
	_, out, viol := a.exchange(buf)
	out = out[:strings.IndexByte(out, ' ')] + " A" + out[strings.IndexByte(out, ' ')+1:]
	if strings.Contains(c.Extra, "x2") {
		_, o2, v2 := a.exchange([]byte(c08H1ValidResp))
		out += " second-exchange=" + o2
		if viol == "" {
			viol = v2
		}
	}
	fo, fv := a.finish()
	out += fo
	if viol == "" {
		viol = fv
	}
	if !c08H1FirstExecution(c) {
		if viol != "" {
			out += " !!" + viol + "!!"
		}
		return out
	}
	if _, bo, _ := c08H1UpB[cfg].exchange([]byte(c08H1ValidResp)); bo != c08H1UpBRef[cfg] {
		out += " B-CHANGED"
		if viol == "" {
			viol = "OTHER keep-alive upstream connection B: before {" + c08H1UpBRef[cfg] + "} now {" + bo + "}"
		}
	} else {
		out += " B-same"
	}
	if viol != "" {
		out += " !!" + viol + "!!"
	}
	return out
}

// ---------------------------------------------------------------- judge

func c08H1Judge(c c08.Case, out string) (string, string) {
	i := strings.Index(out, " !!")
	if i < 0 {
		return "", ""
	}
	viol := strings.TrimSuffix(out[i+3:], "!!")
	word := viol
	rest := ""
	if j := strings.IndexByte(viol, ' '); j >= 0 {
		word, rest = viol[:j], viol[j+1:]
	}
	detail := fmt.Sprintf("%s; frame %q, %s%s; input(%d)=%q; observation: %s", rest, c.Frame, c.Desc, c08H1Follow(c), len(c.Hex)/2, c08H1Short(string(c.Input())), out[:i])
	pre := fmt.Sprintf("%s class=%s ", c.Target, c.Class)
	switch {
	case word == "WEDGE":
		// the serve goroutine is gone, the connection open. With the site of the panic that killed it, if there was one
		// (a panic inside the fasthttp dependency is not a violation by itself; leaving the connection behind is)
		after := ""
		if j := strings.Index(rest, "dep-panic@"); j >= 0 {
			site := rest[j+len("dep-panic@"):]
			if k := strings.IndexByte(site, '('); k >= 0 {
				site = site[:k]
			}
			after = " after a panic in " + site
		}
		return pre + "serve loop ended" + after + " without closing the connection (nobody reads it any more: the connection's next Dispatch blocks forever)", detail
	case word == "LIVELOCK":
		return pre + "serve loop does not consume its input (livelock): " + rest, detail
	case word == "STALL":
		return pre + "serve loop parked with a stream neither delivered nor reset", detail
	case word == "SPIN":
		return pre + "serve goroutine spins (no stable state while 10 s of CPU were burned)", detail
	case strings.HasPrefix(word, "PANIC@"):
		return pre + "panic@" + strings.TrimPrefix(word, "PANIC@") + " in MOSN's HTTP/1 stream layer (recovered by GoWithRecover)", detail
	case word == "OTHER":
		return pre + "garbage on connection A changes how another connection is served", detail
	}
	return "harness: " + pre + word, detail
}

func c08H1Follow(c c08.Case) string {
	if c.Extra != "" {
		return " [" + c.Extra + "]"
	}
	return ""
}

// ---------------------------------------------------------------- alphabet

type c08H1Msg struct {
	name  string
	start string
	hdrs  []string
	body  string
}

func (m c08H1Msg) bytes() []byte {
	s := m.start + "\r\n"
	for _, h := range m.hdrs {
		s += h + "\r\n"
	}
	return []byte(s + "\r\n" + m.body)
}

func (m c08H1Msg) with(i int, h ...string) c08H1Msg {
	n := m
	n.hdrs = append(append(append([]string(nil), m.hdrs[:i]...), h...), m.hdrs[i+1:]...)
	return n
}

func (m c08H1Msg) find(prefix string) int {
	for i, h := range m.hdrs {
		if strings.HasPrefix(strings.ToLower(h), strings.ToLower(prefix)) {
			return i
		}
	}
	return -1
}

const (
	c08H1Chunked = "5\r\nhello\r\n6\r\n world\r\n0\r\n\r\n"
	// the valid message that follows a corrupted one on the same connection (server side)
	c08H1Next = "GET /next HTTP/1.1\r\nHost: n.example\r\n\r\n"
)

func c08H1Requests() []c08H1Msg {
	return []c08H1Msg{
		{"GET", "GET /a?x=1 HTTP/1.1", []string{"Host: h.example", "X-C08: g"}, ""},
		{"POST-cl", "POST /p HTTP/1.1", []string{"Host: h.example", "Content-Type: text/plain", "Content-Length: 11"}, "hello world"},
		{"POST-chunked", "POST /c HTTP/1.1", []string{"Host: h.example", "Transfer-Encoding: chunked"}, c08H1Chunked},
		{"POST-expect", "POST /e HTTP/1.1", []string{"Host: h.example", "Expect: 100-continue", "Content-Length: 5"}, "hello"},
		{"HEAD", "HEAD /h HTTP/1.1", []string{"Host: h.example"}, ""},
		{"GET-close", "GET /k HTTP/1.0", []string{"Host: h.example", "Connection: close"}, ""},
	}
}

func c08H1Responses() []c08H1Msg {
	return []c08H1Msg{
		{"200-cl", "HTTP/1.1 200 OK", []string{"Content-Type: text/plain", "Content-Length: 11"}, "hello world"},
		{"200-identity", "HTTP/1.1 200 OK", []string{"Content-Type: text/plain"}, "hello world"},
		{"200-chunked", "HTTP/1.1 200 OK", []string{"Transfer-Encoding: chunked"}, c08H1Chunked},
		{"100+200", "HTTP/1.1 100 Continue\r\n\r\nHTTP/1.1 200 OK", []string{"Content-Length: 2"}, "ok"},
		{"204", "HTTP/1.1 204 No Content", []string{"X-C08: n"}, ""},
		{"304", "HTTP/1.1 304 Not Modified", []string{"Content-Length: 11", "ETag: \"x\""}, ""},
		{"200-close", "HTTP/1.1 200 OK", []string{"Connection: close", "Content-Length: 2"}, "ok"},
	}
}

type c08H1Mut struct {
	frame, class, desc string
	b                  []byte
}

// c08H1ContentLengths: the declared values of a corrupted Content-Length whose true value is tv.
func c08H1ContentLengths(tv int) [][2]string {
	return [][2]string{
		{"missing", ""},
		{"0", "Content-Length: 0"},
		{"true-1", fmt.Sprintf("Content-Length: %d", tv-1)},
		{"true+1", fmt.Sprintf("Content-Length: %d", tv+1)},
		{"2^24", "Content-Length: 16777216"},
		{"2^32+16", "Content-Length: 4294967312"},
		{"2^63-1", "Content-Length: 9223372036854775807"},
		{"2^64", "Content-Length: 18446744073709551616"},
		{"negative", "Content-Length: -1"},
		{"negative true", fmt.Sprintf("Content-Length: -%d", tv)},
		{"plus sign", fmt.Sprintf("Content-Length: +%d", tv)},
		{"non-numeric", "Content-Length: abc"},
		{"digits then letter", fmt.Sprintf("Content-Length: %dx", tv)},
		{"empty", "Content-Length: "},
		{"hex", "Content-Length: 0xb"},
		{"duplicated, different values", fmt.Sprintf("Content-Length: %d\r\nContent-Length: %d", tv, tv+5)},
		{"duplicated, second 2^24", fmt.Sprintf("Content-Length: %d\r\nContent-Length: 16777216", tv)},
		{"with Transfer-Encoding: chunked", fmt.Sprintf("Content-Length: %d\r\nTransfer-Encoding: chunked", tv)},
	}
}

// c08H1ChunkLines: corrupted first chunk-size lines for the body "5\r\nhello\r\n6\r\n world\r\n0\r\n\r\n".
func c08H1ChunkBodies() [][2]string {
	rest := "6\r\n world\r\n0\r\n\r\n"
	return [][2]string{
		{"first chunk size 0", "0\r\nhello\r\n" + rest},
		{"first chunk size true-1", "4\r\nhello\r\n" + rest},
		{"first chunk size true+1", "6\r\nhello\r\n" + rest},
		{"first chunk size 2^24", "1000000\r\nhello\r\n" + rest},
		{"first chunk size 2^32+16", "100000010\r\nhello\r\n" + rest},
		{"first chunk size 2^60-1 (the most hex digits fasthttp accepts)", "fffffffffffffff\r\nhello\r\n" + rest},
		{"first chunk size 2^63-1", "7fffffffffffffff\r\nhello\r\n" + rest},
		{"first chunk size 2^64", "10000000000000000\r\nhello\r\n" + rest},
		{"first chunk size non-hex", "zz\r\nhello\r\n" + rest},
		{"first chunk size negative", "-5\r\nhello\r\n" + rest},
		{"first chunk size empty", "\r\nhello\r\n" + rest},
		{"first chunk size with extension", "5;ext=1\r\nhello\r\n" + rest},
		{"chunk size line without CRLF", "5hello\r\n" + rest},
		{"chunk size line with LF only", "5\nhello\r\n" + rest},
		{"chunk size line with CR only", "5\rhello\r\n" + rest},
		{"chunk data without CRLF", "5\r\nhello" + rest},
		{"last chunk missing", "5\r\nhello\r\n6\r\n world\r\n"},
		{"last chunk without final CRLF", "5\r\nhello\r\n6\r\n world\r\n0\r\n"},
		{"last chunk size 2^24", "5\r\nhello\r\n1000000\r\n"},
		{"trailer after last chunk", "5\r\nhello\r\n0\r\nX-T: 1\r\n\r\n"},
		{"trailer line without colon", "5\r\nhello\r\n0\r\nbroken\r\n\r\n"},
	}
}

func c08H1StartLines(request bool) [][2]string {
	if request {
		long := func(n int) string { return "GET /" + strings.Repeat("a", n) + " HTTP/1.1" }
		return [][2]string{
			{"no method", " /a HTTP/1.1"},
			{"no target", "GET  HTTP/1.1"},
			{"no version", "GET /a"},
			{"no version, trailing space", "GET /a "},
			{"version HTTP/9.9", "GET /a HTTP/9.9"},
			{"version HTTP/1.0", "GET /a HTTP/1.0"},
			{"version HTTP/0.9", "GET /a HTTP/0.9"},
			{"version garbage", "GET /a XTTP/1.1"},
			{"lowercase method", "get /a HTTP/1.1"},
			{"unknown method", "BREW /a HTTP/1.1"},
			{"method with NUL", "G\x00T /a HTTP/1.1"},
			{"target with NUL", "GET /a\x00b HTTP/1.1"},
			{"target with high bytes", "GET /\xff\xfe\x80 HTTP/1.1"},
			{"target with space", "GET /a b HTTP/1.1"},
			{"target without slash", "GET a HTTP/1.1"},
			{"absolute target", "GET http://h.example/a HTTP/1.1"},
			{"asterisk target", "OPTIONS * HTTP/1.1"},
			{"empty line", ""},
			{"only spaces", "   "},
			{"tabs for spaces", "GET\t/a\tHTTP/1.1"},
			{"bad percent escape", "GET /%zz%1 HTTP/1.1"},
			{"target 1000 bytes", long(1000)},
		}
	}
	return [][2]string{
		{"no version", "200 OK"},
		{"version HTTP/9.9", "HTTP/9.9 200 OK"},
		{"version HTTP/1.0", "HTTP/1.0 200 OK"},
		{"version garbage", "XTTP/1.1 200 OK"},
		{"no status", "HTTP/1.1"},
		{"no status, trailing space", "HTTP/1.1 "},
		{"status non-numeric", "HTTP/1.1 abc OK"},
		{"status negative", "HTTP/1.1 -200 OK"},
		{"status 0", "HTTP/1.1 0 OK"},
		{"status 99", "HTTP/1.1 99 OK"},
		{"status 1000", "HTTP/1.1 1000 OK"},
		{"status 2^31", "HTTP/1.1 2147483648 OK"},
		{"status 20 digits", "HTTP/1.1 99999999999999999999 OK"},
		{"status without reason", "HTTP/1.1 200"},
		{"status with NUL", "HTTP/1.1 2\x0000 OK"},
		{"reason with high bytes", "HTTP/1.1 200 \xff\xfe"},
		{"status 100 only", "HTTP/1.1 100 Continue"},
		{"status 101", "HTTP/1.1 101 Switching Protocols"},
		{"empty line", ""},
		{"request line instead", "GET / HTTP/1.1"},
	}
}

func c08H1HeaderLines() [][2]string {
	return [][2]string{
		{"header line without colon", "X-Broken"},
		{"header line with empty name", ": v"},
		{"header name with space", "X Broken: v"},
		{"space before colon", "X-Broken : v"},
		{"header name with NUL", "X-Br\x00ken: v"},
		{"header value with NUL", "X-Broken: v\x00w"},
		{"header value with high bytes", "X-Broken: \xff\xfe\x80"},
		{"header value with bare CR", "X-Broken: v\rw"},
		{"header value with bare LF", "X-Broken: v\nw: x"},
		{"obs-fold continuation line", "X-Broken: v\r\n folded"},
		{"empty header value", "X-Broken:"},
		{"only a colon", ":"},
		{"Connection: garbage", "Connection: \x00"},
		{"Transfer-Encoding: unknown", "Transfer-Encoding: gzip"},
		{"Transfer-Encoding: chunked twice", "Transfer-Encoding: chunked, chunked"},
		{"Expect: unknown", "Expect: 200-ok"},
		{"100 headers", strings.TrimSuffix(strings.Repeat("X-R: v\r\n", 100), "\r\n")},
	}
}

var c08H1Prefixes = [][2]string{
	{"CRLF", "\r\n"}, {"3 CRLF", "\r\n\r\n\r\n"}, {"LF", "\n"}, {"space", " "}, {"NUL", "\x00"}, {"16 NUL", strings.Repeat("\x00", 16)},
	{"high bytes", "\xff\xfe"}, {"16 x 0xFF", strings.Repeat("\xff", 16)}, {"garbage line", "GARBAGE\r\n"}, {"garbage block", "GARBAGE\r\n\r\n"},
	{"TLS ClientHello head", "\x16\x03\x01\x02\x00\x01\x00\x01\xfc\x03\x03"}, {"HTTP/2 preface", "PRI * HTTP/2.0\r\n\r\nSM\r\n\r\n"},
	{"bolt magic", "\x01\x01\x00\x01"}, {"dubbo magic", "\xda\xbb\xc2\x00"},
}

// c08H1Mutations yields every corruption of the declared list for one side.
func c08H1Mutations(request bool, hdrMax int, quickOnly bool, yield func(m c08H1Mut) bool) bool {
	msgs := c08H1Responses()
	if request {
		msgs = c08H1Requests()
	}
	for _, m := range msgs {
		b := m.bytes()
		if !yield(c08H1Mut{m.name, "valid", "", b}) {
			return false
		}
		if quickOnly {
			continue
		}
		for n := 0; n < len(b); n++ {
			if !yield(c08H1Mut{m.name, "truncation", fmt.Sprintf("first %d of %d bytes", n, len(b)), b[:n]}) {
				return false
			}
		}
		for i := 0; i < len(b); i++ {
			o := b[i]
			vals := []byte{0x00, 0xFF, ^o}
			if vreport.Thorough() {
				vals = vals[:0]
				for v := 0; v < 256; v++ {
					vals = append(vals, byte(v))
				}
			}
			for _, v := range vals {
				if v == o {
					continue
				}
				x := append([]byte(nil), b...)
				x[i] = v
				if !yield(c08H1Mut{m.name, "byte-set", fmt.Sprintf("byte %d: %#02x -> %#02x", i, o, v), x}) {
					return false
				}
			}
		}
		for _, p := range c08H1Prefixes {
			if !yield(c08H1Mut{m.name, "garbage-prefix", p[0] + " before the message", append([]byte(p[1]), b...)}) {
				return false
			}
		}
	}
	base := msgs[1]
	if !request {
		base = msgs[0]
	}
	// Content-Length
	for _, m := range msgs {
		i := m.find("Content-Length:")
		if i < 0 {
			continue
		}
		tv, _ := strconv.Atoi(strings.TrimSpace(m.hdrs[i][len("Content-Length:"):]))
		for _, cl := range c08H1ContentLengths(tv) {
			if quickOnly && !strings.HasPrefix(cl[0], "2^") && !strings.HasPrefix(cl[0], "true") {
				continue
			}
			// 2^63-1 passes fasthttp's number parser and makes it allocate 2 GiB (round2 caps at MaxInt32) before it
			// fails (findings/C08-http1.md): executed only where a configured body limit rejects it first (server-cfg);
			// 2^32+16 takes the same path with a 16-byte allocation
			if cl[0] == "2^63-1" && !(quickOnly && request) {
				continue
			}
			var x c08H1Msg
			if cl[1] == "" {
				x = m.with(i)
			} else {
				x = m.with(i, cl[1])
			}
			if !yield(c08H1Mut{m.name, "content-length", "Content-Length " + cl[0], x.bytes()}) {
				return false
			}
		}
	}
	// a Content-Length on a message that has none
	for _, m := range msgs {
		if m.find("Content-Length:") >= 0 || quickOnly {
			continue
		}
		for _, cl := range []string{"Content-Length: 5", "Content-Length: 16777216", "Content-Length: 4294967312"} {
			x := m
			x.hdrs = append(append([]string(nil), m.hdrs...), cl)
			if !yield(c08H1Mut{m.name, "content-length", "added " + cl, x.bytes()}) {
				return false
			}
		}
	}
	// chunk sizes
	for _, m := range msgs {
		if m.find("Transfer-Encoding:") < 0 {
			continue
		}
		for _, cb := range c08H1ChunkBodies() {
			if quickOnly && !strings.Contains(cb[0], "2^") {
				continue
			}
			x := m
			x.body = cb[1]
			if !yield(c08H1Mut{m.name, "chunk-size", cb[0], x.bytes()}) {
				return false
			}
		}
	}
	// start line
	if !quickOnly {
		for _, sl := range c08H1StartLines(request) {
			x := base
			x.start = sl[1]
			if !yield(c08H1Mut{base.name, "start-line", sl[0], x.bytes()}) {
				return false
			}
		}
		for _, hl := range c08H1HeaderLines() {
			for _, pos := range []int{0, len(base.hdrs)} {
				x := base
				x.hdrs = append(append(append([]string(nil), base.hdrs[:pos]...), hl[1]), base.hdrs[pos:]...)
				if !yield(c08H1Mut{base.name, "header-line", fmt.Sprintf("%s at header position %d", hl[0], pos), x.bytes()}) {
					return false
				}
			}
		}
	}
	// header block sizes around the limit (the bufio.Reader of the connection is as large as the maximum header size)
	hb := len(base.bytes()) - len(base.body)
	for _, total := range []int{hdrMax - 1, hdrMax, hdrMax + 1, hdrMax + 2, 2 * hdrMax, 4*hdrMax + 1} {
		// (a) one padding header (b) a long target / reason (c) many small headers
		pad := total - hb - len("X-Pad: \r\n")
		if pad > 0 {
			x := base
			x.hdrs = append(append([]string(nil), base.hdrs...), "X-Pad: "+strings.Repeat("p", pad))
			if !yield(c08H1Mut{base.name, "oversize", fmt.Sprintf("header block of %d bytes (limit %d) through one padding header", total, hdrMax), x.bytes()}) {
				return false
			}
			x = base
			if request {
				x.start = "POST /p" + strings.Repeat("t", total-hb) + " HTTP/1.1"
			} else {
				x.start = "HTTP/1.1 200 OK" + strings.Repeat("r", total-hb)
			}
			if !yield(c08H1Mut{base.name, "oversize", fmt.Sprintf("header block of %d bytes (limit %d) through a long start line", total, hdrMax), x.bytes()}) {
				return false
			}
			x = base
			x.hdrs = append([]string(nil), base.hdrs...)
			for n := hb; n+len("X-N: v\r\n") <= total; n += len("X-N: v\r\n") {
				x.hdrs = append(x.hdrs, "X-N: v")
			}
			if !yield(c08H1Mut{base.name, "oversize", fmt.Sprintf("header block of about %d bytes (limit %d) through many small headers", total, hdrMax), x.bytes()}) {
				return false
			}
		}
	}
	// a start line / header line that never ends (no CRLF at all), longer than the limit
	for _, total := range []int{hdrMax - 1, hdrMax, hdrMax + 1, 2 * hdrMax} {
		if request {
			if !yield(c08H1Mut{"-", "oversize", fmt.Sprintf("%d bytes of request line without line end", total), []byte("GET /" + strings.Repeat("x", total-5))}) {
				return false
			}
		} else {
			if !yield(c08H1Mut{"-", "oversize", fmt.Sprintf("%d bytes of status line without line end", total), []byte("HTTP/1.1 200 " + strings.Repeat("x", total-13))}) {
				return false
			}
		}
		if !yield(c08H1Mut{"-", "oversize", fmt.Sprintf("%d bytes of 0x00", total), []byte(strings.Repeat("\x00", total))}) {
			return false
		}
	}
	return true
}

// c08H1SmallByteSet: the mutation is one of the quick tier's three values per byte.
func c08H1SmallByteSet(m c08H1Mut) bool {
	var i int
	var o, v int
	if _, err := fmt.Sscanf(m.desc, "byte %d: 0x%x -> 0x%x", &i, &o, &v); err != nil {
		return true
	}
	return v == 0x00 || v == 0xff || byte(v) == ^byte(o)
}

func c08H1Gen(side string) func(yield func(c08.Case) bool) {
	request := side == "server"
	return func(yield func(c08.Case) bool) {
		for _, cfg := range []bool{false, true} {
			target, hdrMax := "http1/"+side, defaultMaxHeaderSize
			if cfg {
				target, hdrMax = target+"-cfg", c08H1CfgHeader
			}
			ok := c08H1Mutations(request, hdrMax, cfg, func(m c08H1Mut) bool {
				for _, follow := range []bool{false, true} {
					if follow && m.class == "byte-set" && !c08H1SmallByteSet(m) {
						continue // thorough tier: the values beyond {0x00,0xFF,^b} run alone only
					}
					cs := c08.Case{Target: target, Frame: m.frame, Class: m.class, Desc: m.desc}
					b := m.b
					if follow {
						if request {
							b = append(append([]byte(nil), m.b...), c08H1Next...)
							cs.Extra = "followed by a valid GET on the same connection"
						} else {
							cs.Extra = "x2: followed by a second exchange through the same pool, answered by a valid response"
						}
					}
					cs.Hex = fmt.Sprintf("%x", b)
					if !yield(cs) {
						return false
					}
				}
				return true
			})
			if !ok {
				return
			}
		}
	}
}

const c08H1Bound = "valid messages: requests {GET; POST with Content-Length; POST chunked (2 chunks); POST with Expect: 100-continue; HEAD; HTTP/1.0 GET with Connection: close}, responses {200 with Content-Length; 200 with identity body (ends at close); 200 chunked; 100 Continue + 200; 204; 304 with Content-Length; 200 with Connection: close}; per message: every truncation (every byte offset), every byte x {0x00,0xFF,^b} (thorough: all 256 values, the additional ones without follow-up), 14 garbage prefixes (CR/LF, NULs, high bytes, garbage lines, TLS / HTTP/2 / bolt / dubbo heads); Content-Length x {missing, 0, true-1, true+1, 2^24, 2^32+16, 2^63-1 (only under the configured request body limit: elsewhere fasthttp allocates 2 GiB for it, see findings/C08-http1.md), 2^64, -1, -true, +true, abc, <true>x, empty, 0xb, duplicated with different values, duplicated with 2^24, together with Transfer-Encoding: chunked} and added to the messages that have none; chunked bodies x 21 corruptions of chunk-size lines / chunk ends / last chunk / trailer (sizes 0, true-1, true+1, 2^24, 2^32+16, 2^60-1, 2^63-1, 2^64, non-hex, negative, empty, extension, missing CRLF / CR / LF); 22 request lines / 20 status lines (no method, no target, no version, HTTP/9.9, HTTP/0.9, NUL, high bytes, spaces, ...); 17 header lines (no colon, empty name, NUL, bare CR/LF, obs-fold, unknown Transfer-Encoding / Expect, 100 headers) at the first and last header position; header blocks of max-1, max, max+1, max+2, 2*max, 4*max+1 bytes (max = 8192 default, 256 configured) through one padding header, a long start line, many small headers; start lines / NUL runs without any line end of max-1, max, max+1, 2*max bytes; each input alone and followed by a valid message on the same connection (server: appended GET; client: a second exchange through the same pool); the configured targets (-cfg: max_header_size 256, server max_request_body_size 64) run the valid messages, the size classes and the large lengths only"

const c08H1Rule = "case = (side, configuration, input, follow-up); each case is executed three times on fresh connections (c08.Main: exact buffer, two poison fillings; allocation of one execution <= 1 MiB + 32*len(input); fatal errors / non-returning executions contained in a child process). Outcome kind = waits | served+waits | rejected+closed | closed | served+... (server), delivered | delivered+closed | reset+closed | waits (client); anything else is a violation (see the file comment: WEDGE, LIVELOCK, STALL, SPIN, PANIC in mosn.io/mosn code). Which of the allowed outcomes an input gets is NOT compared (fasthttp decides what it tolerates). After every case the peer closes A's connections and the serve goroutines must end; then the persistent keep-alive connection B (server: GET; client: pool B) and, on the server side, a fresh connection C (POST) must be served exactly as before the first case. Panics raised inside the fasthttp dependency are recorded (dep-panic@...) and judged by their consequence. distinct = distinct input bytes per target."

func TestVerifC08HTTP1Server(t *testing.T) {
	t.Parallel()
	c08.Main(t, c08.Spec{Prop: "C08", Part: "http1-server", Budget: time.Duration(vreport.Pick(4, 25)) * time.Minute,
		Gen: c08H1Gen("server"), Exec: c08H1ExecServer, Judge: c08H1Judge, MaxWedges: 40,
		Bound: c08H1Bound, Rule: c08H1Rule})
}

func TestVerifC08HTTP1Client(t *testing.T) {
	t.Parallel()
	c08.Main(t, c08.Spec{Prop: "C08", Part: "http1-client", Budget: time.Duration(vreport.Pick(4, 25)) * time.Minute,
		Gen: c08H1Gen("client"), Exec: c08H1ExecClient, Judge: c08H1Judge, MaxWedges: 40,
		Bound: c08H1Bound, Rule: c08H1Rule})
}

// Vacuity guard: every valid message of the alphabet is handed up / delivered by the real stream connection.
func TestVerifC08HTTP1Alphabet(t *testing.T) {
	if vreport.Replaying() || c08H1IsChild() {
		return
	}
	p := vreport.Begin("C08", "http1-alphabet-valid", time.Minute)
	c08H1Init()
	for _, m := range c08H1Requests() {
		p.Eval()
		kind, out, viol := c08H1ServerA(false, m.bytes())
		p.Distinct("server/" + m.name)
		p.Outcome(kind)
		if viol != "" || !strings.HasPrefix(kind, "served") {
			vreport.HarnessError("C08", "http1-alphabet-valid", fmt.Sprintf("valid request %q is not handed up: %s %s", m.name, out, viol))
		}
		if p.WantSample() {
			p.Sample(map[string]string{"side": "server", "message": m.name, "bytes": string(m.bytes()), "observation": out})
		}
	}
	for _, m := range c08H1Responses() {
		p.Eval()
		a := c08H1NewUp("A", false)
		kind, out, viol := a.exchange(m.bytes())
		fo, fv := a.finish()
		p.Distinct("client/" + m.name)
		p.Outcome(kind)
		ok := strings.HasPrefix(kind, "delivered") || (m.name == "200-identity" && kind == "waits")
		if viol != "" || fv != "" || !ok {
			vreport.HarnessError("C08", "http1-alphabet-valid", fmt.Sprintf("valid response %q is not delivered: %s %s %s %s", m.name, out, fo, viol, fv))
		}
		if p.WantSample() {
			p.Sample(map[string]string{"side": "client", "message": m.name, "bytes": string(m.bytes()), "observation": out + fo})
		}
	}
	p.End(true, "every valid message of the http1 alphabet, alone on a fresh connection", "sanity: the unmutated messages are handed up (server) / delivered (client; the identity-body response is complete only at close)")
}
