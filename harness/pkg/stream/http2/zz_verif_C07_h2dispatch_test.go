//go:build verif

package http2

// C07 for HTTP/2: the real serverStreamConnection (newServerStreamConnection +
// Dispatch) fed from one persistent read buffer filled like
// network.connection.doRead. The client byte streams are written with
// golang.org/x/net/http2's Framer + hpack encoder (reference peer): preface,
// SETTINGS, HEADERS (+CONTINUATION), DATA, one or two streams.
//
// Oracle after every read: the requests handed to the stream listener
// (OnReceive: method, path, headers, body) are exactly the requests whose last
// frame has arrived, in order, each once, as constructed; the unconsumed buffer
// is exactly the bytes after the last complete unit (preface / frame / HEADERS
// with all its CONTINUATIONs); the connection is not closed.
// What the server writes (SETTINGS, WINDOW_UPDATE, SETTINGS ack) is recorded but
// not compared: the statement is about extraction.

import (
	"context"
	"encoding/hex"
	"fmt"
	"net"
	"reflect"
	"sort"
	"strings"
	"testing"
	"time"

	metrics "github.com/rcrowley/go-metrics"
	"mosn.io/api"
	"mosn.io/mosn/pkg/network"
	"mosn.io/mosn/pkg/types"
	"mosn.io/mosn/pkg/verifrt/c07frames"
	"mosn.io/mosn/pkg/verifrt/vreport"
	"mosn.io/pkg/buffer"
	"mosn.io/pkg/variable"
)

type c07H2Conn struct {
	api.Connection // nil: unforeseen calls panic (harness problem)
	writes         int
	closed         []string
}

var c07H2Addr = &net.TCPAddr{IP: net.IPv4(127, 0, 0, 1), Port: 1107}

func (c *c07H2Conn) ID() uint64                                             { return 7 }
func (c *c07H2Conn) LocalAddr() net.Addr                                    { return c07H2Addr }
func (c *c07H2Conn) RemoteAddr() net.Addr                                   { return c07H2Addr }
func (c *c07H2Conn) RawConn() net.Conn                                      { return nil }
func (c *c07H2Conn) SetTransferEventListener(func() bool)                   {}
func (c *c07H2Conn) AddConnectionEventListener(api.ConnectionEventListener) {}
func (c *c07H2Conn) SetCollector(read, write metrics.Counter)               {}
func (c *c07H2Conn) State() api.ConnState                                   { return api.ConnActive }
func (c *c07H2Conn) Write(bufs ...buffer.IoBuffer) error {
	c.writes++
	return nil
}
func (c *c07H2Conn) Close(t api.ConnectionCloseType, e api.ConnectionEvent) error {
	c.closed = append(c.closed, string(e))
	return nil
}

type c07H2Handed struct {
	Method, Path, Mark, Hdr, Body, Trailers string
	// the body object itself: the stream layer hands it on to a worker goroutine, so what it holds must not
	// change when later reads re-use the connection's read buffer (seeded change C07-r6)
	data buffer.IoBuffer
}

type c07H2Listener struct{ handed []c07H2Handed }

type c07H2Receiver struct{ l *c07H2Listener }

func c07H2Hdr(h api.HeaderMap) string {
	if h == nil || reflect.ValueOf(h).IsNil() {
		return "<nil>"
	}
	var kv []string
	h.Range(func(k, v string) bool {
		kv = append(kv, strings.ToLower(k)+"="+v)
		return true
	})
	sort.Strings(kv)
	return strings.Join(kv, "&")
}

func (r *c07H2Receiver) OnReceive(ctx context.Context, headers api.HeaderMap, data buffer.IoBuffer, trailers api.HeaderMap) {
	h := c07H2Handed{Hdr: c07H2Hdr(headers), Trailers: c07H2Hdr(trailers), Body: "<nil>"}
	h.Method, _ = variable.GetString(ctx, types.VarMethod)
	h.Path, _ = variable.GetString(ctx, types.VarPath)
	if q, err := variable.GetString(ctx, types.VarQueryString); err == nil && q != "" {
		h.Path += "?" + q
	}
	if headers != nil {
		h.Mark, _ = headers.Get("x-c07")
	}
	if data != nil && !reflect.ValueOf(data).IsNil() {
		h.Body = hex.EncodeToString(data.Bytes())
		h.data = data
	}
	r.l.handed = append(r.l.handed, h)
}
func (r *c07H2Receiver) OnDecodeError(ctx context.Context, err error, headers api.HeaderMap) {
	r.l.handed = append(r.l.handed, c07H2Handed{Method: "OnDecodeError: " + err.Error()})
}
func (l *c07H2Listener) NewStreamDetect(ctx context.Context, sender types.StreamSender, span api.Span) types.StreamReceiveListener {
	return &c07H2Receiver{l: l}
}
func (l *c07H2Listener) OnGoAway() {}

type c07H2Case struct {
	Script string `json:"script"`
	Feed   string `json:"feed"`
	Cuts   []int  `json:"cuts"`
	Len    int    `json:"len"`
}

type c07H2Reader struct{ rest []byte }

func (r *c07H2Reader) Read(p []byte) (int, error) {
	n := copy(p, r.rest)
	r.rest = r.rest[n:]
	return n, nil
}

// transparent delegate that aborts a Dispatch loop that never ends
type c07H2GuardBuf struct {
	buffer.IoBuffer
	budget int
}
type c07H2Abort struct{}

func (g *c07H2GuardBuf) Len() int {
	g.budget--
	if g.budget < 0 {
		panic(c07H2Abort{})
	}
	return g.IoBuffer.Len()
}

func c07H2Fill(buf buffer.IoBuffer) {
	b := buf.Bytes()
	spare := b[len(b):cap(b)]
	for i := range spare {
		spare[i] = 0xA5
	}
}

type c07H2Result struct {
	key, detail, harness string
	perFeed              []int
	handed               []c07H2Handed
}

func c07H2Exec(s *c07frames.H2Script, c c07H2Case) (res c07H2Result) {
	failf := func(what, format string, args ...interface{}) {
		if res.key == "" {
			res.key = "http2 server: " + what
			res.detail = fmt.Sprintf(format, args...)
		}
	}
	conn := &c07H2Conn{}
	lis := &c07H2Listener{}
	sc := newServerStreamConnection(c07frames.Ctx(), conn, lis)
	stream := s.Bytes
	fed := 0
	var buf buffer.IoBuffer
	check := func() bool {
		func() {
			defer func() {
				if x := recover(); x != nil {
					if _, ok := x.(c07H2Abort); ok {
						failf("Dispatch does not return (livelock)", "%d bytes fed, %d buffered", fed, buf.Len())
						return
					}
					failf("panic while dispatching a valid stream", "%d bytes fed: %v", fed, x)
				}
			}()
			if buf.Len() > 0 {
				sc.Dispatch(&c07H2GuardBuf{IoBuffer: buf, budget: 2000})
			}
		}()
		res.perFeed = append(res.perFeed, len(lis.handed))
		if res.key != "" {
			return false
		}
		u := 0
		for u < len(s.UnitEnds) && s.UnitEnds[u] <= fed {
			u++
		}
		start := 0
		if u > 0 {
			start = s.UnitEnds[u-1]
		}
		if len(conn.closed) > 0 {
			failf("connection closed on a valid stream", "%d bytes fed: %v", fed, conn.closed)
			return false
		}
		if got, want := buf.Bytes(), stream[start:fed]; string(got) != string(want) {
			failf("unconsumed buffer is not the unparsed rest of the stream", "%d bytes fed, %d complete units: buffer holds %x, want %x", fed, u, got, want)
			return false
		}
		var want []c07H2Handed
		for _, r := range s.Reqs {
			if r.DoneUnit < u {
				body := "<nil>"
				if r.Body != "" {
					body = hex.EncodeToString([]byte(r.Body))
				}
				want = append(want, c07H2Handed{Method: r.Method, Path: r.Path, Mark: r.Mark, Body: body})
			}
		}
		if len(lis.handed) != len(want) {
			failf("requests handed up differ from the requests completed", "%d bytes fed, %d complete units: handed %+v, want %+v", fed, u, lis.handed, want)
			return false
		}
		for i, h := range lis.handed {
			if h.Method != want[i].Method || h.Path != want[i].Path || h.Mark != want[i].Mark || h.Body != want[i].Body {
				failf("request handed up differs from the request sent", "request #%d: got %+v, sent %+v", i, h, want[i])
				return false
			}
			if h.data != nil {
				if now := hex.EncodeToString(h.data.Bytes()); now != h.Body {
					failf("body of a request handed up earlier changes when later reads re-use the connection's read buffer", "request #%d (%s %s) after %d bytes fed: body object now holds %s, held %s when handed up", i, h.Method, h.Path, fed, now, h.Body)
					return false
				}
			}
		}
		return true
	}
	if c.Feed == "write" {
		buf = buffer.GetIoBuffer(len(stream))
		buf.Write(stream)
		fed = len(stream)
		c07H2Fill(buf)
		check()
	} else {
		buf = buffer.GetIoBuffer(network.DefaultReadBufferSize)
		rd := &c07H2Reader{}
		prev := 0
		cuts := append(append([]int(nil), c.Cuts...), len(stream))
	feed:
		for _, cut := range cuts {
			if cut <= prev || cut > len(stream) {
				res.harness = fmt.Sprintf("bad cut list %v for stream of %d bytes", c.Cuts, len(stream))
				return
			}
			rd.rest = stream[prev:cut]
			prev = cut
			for len(rd.rest) > 0 {
				n, err := buf.ReadOnce(rd)
				if err != nil || n == 0 {
					res.harness = fmt.Sprintf("ReadOnce: n=%d err=%v", n, err)
					return
				}
				fed += int(n)
				c07H2Fill(buf)
				if !check() {
					break feed
				}
			}
		}
	}
	res.handed = lis.handed
	return
}

func TestVerifC07HTTP2Dispatch(t *testing.T) {
	p := vreport.Begin("C07", "http2-segmentation", 8*time.Minute)
	scripts := c07frames.HTTP2Scripts()
	byName := map[string]*c07frames.H2Script{}
	// the full header view (and trailers) of each request under whole delivery: every segmentation must give the same
	whole := map[string][]c07H2Handed{}
	for i := range scripts {
		s := &scripts[i]
		byName[s.Name] = s
		if !vreport.Replaying() {
			res := c07H2Exec(s, c07H2Case{Script: s.Name, Feed: "write", Len: len(s.Bytes)})
			if res.harness != "" {
				vreport.HarnessError("C07", "http2-segmentation", res.harness)
				t.Fatal(res.harness)
			}
			if res.key != "" {
				p.Violation(res.key, "whole delivery: "+res.detail, c07H2Case{Script: s.Name, Feed: "write", Len: len(s.Bytes)})
				continue
			}
			whole[s.Name] = res.handed
		}
	}
	maxCuts := vreport.Pick(2, 3)
	gen := func(yield func(c07H2Case) bool) {
		for i := range scripts {
			s := &scripts[i]
			mc := maxCuts
			if mc == 3 && len(s.Bytes) > 110 {
				mc = 2
			}
			ok := c07frames.Segmentations(len(s.Bytes), mc, func(feed string, cuts []int) bool {
				return yield(c07H2Case{Script: s.Name, Feed: feed, Cuts: cuts, Len: len(s.Bytes)})
			})
			if !ok {
				return
			}
		}
	}
	complete := vreport.Run(p, gen, func(p *vreport.Part, c c07H2Case) {
		s := byName[c.Script]
		if s == nil {
			vreport.HarnessError("C07", "http2-segmentation", "unknown script "+c.Script)
			return
		}
		res := c07H2Exec(s, c)
		if res.harness != "" {
			vreport.HarnessError("C07", "http2-segmentation", fmt.Sprintf("%s (case %+v)", res.harness, c))
			return
		}
		var cls []string
		if len(c.Cuts) <= 3 {
			for _, cut := range c.Cuts {
				u := 0
				for u < len(s.UnitEnds) && s.UnitEnds[u] <= cut {
					u++
				}
				start := 0
				if u > 0 {
					start = s.UnitEnds[u-1]
				}
				switch {
				case cut == start:
					cls = append(cls, fmt.Sprintf("%dB", u))
				case u > 0 && cut-start < 9:
					cls = append(cls, fmt.Sprintf("%dH", u))
				default:
					cls = append(cls, fmt.Sprintf("%dV", u))
				}
			}
		} else {
			cls = []string{"many"}
		}
		p.Distinct(fmt.Sprintf("%s|%s|%v", c.Script, c.Feed, cls))
		p.Outcome(fmt.Sprintf("%s|%v", c.Script, res.perFeed))
		if p.WantSample() {
			p.Sample(map[string]interface{}{"case": c, "requests_after_each_read": res.perFeed})
		}
		if res.key != "" {
			p.Violation(res.key, res.detail, c)
			return
		}
		if w, ok := whole[c.Script]; ok && !reflect.DeepEqual(res.handed, w) {
			p.Violation("http2 server: requests differ from whole delivery", fmt.Sprintf("whole delivery %+v, this segmentation %+v", w, res.handed), c)
		}
	})
	p.End(complete, fmt.Sprintf("5 client streams written by x/net/http2 (preface+SETTINGS, then GET; POST+DATA; POST with HEADERS+CONTINUATION and 2 DATA frames; POST then GET with CONTINUATION; GET then POST), 68-170 bytes; every segmentation with 0..%d cuts (3 cuts only for streams <= 110 bytes), the all-single-bytes segmentation, whole delivery as initial buffer", maxCuts),
		"case = (script, cut list); distinct = script + for each cut the unit it falls in and whether at its boundary / in the 9-byte frame header / in the payload; outcome = requests handed up after each read. Non-streaming mode (http2_use_stream=false, the default): a request is handed up when its END_STREAM frame is consumed.")
}
