//go:build verif

package http2

// C10 (circuit-breaker and active-gauge accounting is conserved), pool-level unit "pool-http2":
// the HTTP/2 upstream pool (pkg/stream/http2/connpool.go), which no other C10 unit links, under
// the BFS of mosn.io/mosn/pkg/verifrt/c09 with the accounting oracle A1-A4 (accounting.go).
// Driver: c09H2 in zz_verif_C09_http2pool_test.go (compiled into this unit with "also": ["C09"]).
// The pool does not enforce max_connections (AccSpec.ConnPerStream=false): only max_requests is predicted.

import (
	"testing"

	"mosn.io/mosn/pkg/verifrt/c09"
)

func TestVerifC10PoolHTTP2(t *testing.T) {
	c09.MainAccounting(t, c09H2{}, c09.AccSpec{GoAwayConnNotCounted: true}, 7, 10)
}
