//go:build verif

package http2

// C10 (circuit-breaker and active-gauge accounting is conserved), unit "pool-http2-schedules":
// the concurrent (E1) accounting part for the HTTP/2 upstream pool (pkg/stream/http2/connpool.go),
// which so far had the sequential accounting BFS only (unit pool-http2).
//
// Driver: c09H2 of zz_verif_C09_http2pool_test.go (compiled into this unit with "also": ["C09"]);
// body and oracle: c09.MainAccountingSchedules (harness/pkg/verifrt/c09/accounting.go):
//
//	A2 a monitor samples Requests.Cur, Connections.Cur and the host / cluster gauges
//	   upstream_request_active, upstream_connection_active at EVERY scheduling step between the start
//	   of the threads and quiescence: nothing negative, Requests.Cur never above max_requests;
//	A1 at exact quiescence (vrt.Quiesce) and again after every remaining stream was answered the
//	   counters equal the model's in-flight streams / open connections (every Increase matched by
//	   exactly one Decrease); a go-away connection that was replaced and only drains may already
//	   have been counted out of upstream_connection_active (AccSpec.GoAwayConnNotCounted: accepted
//	   early, never missing).
//
// Scenarios: the seven / nine lease-vs-connection-event races of the C09 unit http2-schedules
// (c09H2Scenarios: the pool's books are judged there, the counters here, with the per-step
// monitor) plus the accounting races at max_requests in {1, 2}: two admissions at the limit,
// admission vs completion / local reset / remote reset (RST_STREAM) / remote close at the limit,
// a caller's late reset racing the completion of the same stream, an admission that replaces a
// go-away connection (NewStream counts it out of upstream_connection_active) racing the close of
// that connection (onConnectionEvent counts it out unless it was replaced).
//
// Built with the rewrite set "hphttp2" (proxy + pkg/module/http2 + pkg/stream/http2; the
// iteration order of the client stream map in OnEvent / Reset is a choice point).

import (
	"testing"

	"mosn.io/mosn/pkg/verifrt/c09"
)

func c10H2AccScenarios() []c09.Scenario {
	out := []c09.Scenario{
		{Name: "two admissions at max_requests=1", Cfg: c09.Cfg{MaxReq: 1}, Threads: [][]string{{"new"}, {"new"}}},
		{Name: "two admissions at max_requests=2 with one stream in flight", Cfg: c09.Cfg{MaxReq: 2}, Prefix: []string{"new"}, Threads: [][]string{{"new"}, {"new"}}},
		{Name: "admission vs completion at max_requests=1", Cfg: c09.Cfg{MaxReq: 1}, Prefix: []string{"new"}, Threads: [][]string{{"new"}, {"reply:0"}}},
		{Name: "admission vs local reset at max_requests=1", Cfg: c09.Cfg{MaxReq: 1}, Prefix: []string{"new"}, Threads: [][]string{{"new"}, {"lreset:0"}}},
		{Name: "admission vs remote reset of the stream in flight (max_requests=2)", Cfg: c09.Cfg{MaxReq: 2}, Prefix: []string{"new"}, Threads: [][]string{{"new"}, {"garbage:0"}}},
		{Name: "admission vs remote close of the idle connection (max_requests=2)", Cfg: c09.Cfg{MaxReq: 2}, Prefix: []string{"new", "reply:0"}, Threads: [][]string{{"new"}, {"rclose:0"}}},
		{Name: "admission vs remote close with a stream in flight (max_requests=2)", Cfg: c09.Cfg{MaxReq: 2}, Prefix: []string{"new"}, Threads: [][]string{{"new"}, {"rclose:0"}}},
		{Name: "local reset vs completion of the same stream (max_requests=2)", Cfg: c09.Cfg{MaxReq: 2}, Prefix: []string{"new"}, Threads: [][]string{{"reply:0"}, {"lreset!:0"}}},
		{Name: "local reset vs remote close of its connection (max_requests=2)", Cfg: c09.Cfg{MaxReq: 2}, Prefix: []string{"new"}, Threads: [][]string{{"lreset:0"}, {"rclose:0"}}},
		{Name: "admission vs go-away at max_requests=2", Cfg: c09.Cfg{MaxReq: 2}, Prefix: []string{"new"}, Threads: [][]string{{"new"}, {"goaway:0"}}},
		{Name: "admission replacing a go-away connection vs remote close of that connection (max_requests=2)", Cfg: c09.Cfg{MaxReq: 2}, Prefix: []string{"new", "goaway:0"}, Threads: [][]string{{"new"}, {"rclose:0"}}},
		{Name: "admission replacing a drained go-away connection vs its remote close (max_requests=2)", Cfg: c09.Cfg{MaxReq: 2}, Prefix: []string{"new", "goaway:0", "reply:0"}, Threads: [][]string{{"new"}, {"rclose:0"}}},
		{Name: "admission vs completion vs remote close (max_requests=1)", Cfg: c09.Cfg{MaxReq: 1}, Prefix: []string{"new"}, Threads: [][]string{{"new"}, {"reply:0"}, {"rclose:0"}}},
	}
	// the C09 scenarios with the Requests resource counting (with max_requests=0 Increase / Decrease are no-ops)
	for _, sc := range c09H2Scenarios() {
		if sc.Name == "go-away vs remote close" {
			// (the accounting body does not skip a go-away whose connection was closed by the other thread;
			// the race is judged by the C09 unit, the counters of both orders by the BFS unit pool-http2)
			continue
		}
		sc.Name += " (max_requests=4)"
		sc.Cfg = c09.Cfg{MaxReq: 4}
		out = append(out, sc)
	}
	return out
}

func TestVerifC10PoolHTTP2Schedules(t *testing.T) {
	c09.MainAccountingSchedules(t, c09H2{}, c09.AccSpec{GoAwayConnNotCounted: true}, c10H2AccScenarios(), 2, 3, 2)
}
