//go:build verif

package http2

// C09 (upstream connection pools), unit "http2": the HTTP/2 upstream pool
// (pkg/stream/http2/connpool.go) under the explicit-state BFS of mosn.io/mosn/pkg/verifrt/c09
// (engine.go: search, reference model, oracle I1-I5) with the model options
// ModelOptions{SingleConn, DrainingNotActive}: one multiplexed connection per host, a go-away
// connection drains next to its successor. In-package to read connPool.activeClient and its
// goaway flag. The same driver serves the C10 unit pool-http2 (zz_verif_C10_poolaccounting_test.go,
// built with "also": ["C09"]; oracle A1-A4 of accounting.go).
//
// The pool runs the real HTTP/2 client stream connection (pkg/stream/http2 + pkg/module/http2
// MClientConn) over a fake connection; everything is synchronous (no goroutine is started for
// header-only requests and complete single-frame responses), so every event is over when the
// call returns. Wire side of the events:
//   - NewStream + AppendHeaders(endStream): the request's HEADERS frame appears on the connection
//     (behind the client preface / SETTINGS / WINDOW_UPDATE if it is the connection's first);
//     its stream id is read from the frame header.
//   - reply(s): one HEADERS frame {:status 200} with END_HEADERS|END_STREAM on the stream.
//   - remote reset(s) (event "garbage" of the engine's alphabet): RST_STREAM(CANCEL) on the
//     stream, which the stream layer turns into ResetStream(StreamRemoteReset).
//   - go-away(c): GOAWAY(last stream id 2^31-1, NO_ERROR): every stream in flight may finish,
//     the connection takes no new stream.
//   - local reset, remote / local close, pool Close, Shutdown (a no-op in this pool), request slot
//     taken by another pool: as for the other pools.
// The pool multiplexes all streams over one connection and does not enforce max_connections.

import (
	"context"
	"encoding/binary"
	"fmt"
	"strings"
	"sync/atomic"
	"testing"

	"mosn.io/api"
	mhttp2 "mosn.io/mosn/pkg/protocol/http2"
	"mosn.io/mosn/pkg/types"
	"mosn.io/mosn/pkg/verifrt/c09"
	"mosn.io/mosn/pkg/verifrt/vfake"
	"mosn.io/pkg/buffer"
	"mosn.io/pkg/variable"

	"net/http"
)

type c09H2 struct{}

func (c09H2) Name() string   { return "http2" }
func (c09H2) Kind() c09.Kind { return c09.Multiplex }
func (c09H2) Async() bool    { return false }
func (c09H2) Guarded() bool  { return true }

func (c09H2) NewPool(ctx context.Context, host types.Host) types.ConnectionPool {
	return NewConnPool(ctx, host)
}

func (c09H2) NewCtx() context.Context {
	return buffer.NewBufferPoolContext(variable.NewVariableContext(context.Background()))
}

func (c09H2) Prepare(pool types.ConnectionPool, ctx context.Context) (bool, error) {
	return pool.CheckAndInit(ctx), nil
}

func (c09H2) RequestHeaders(ctx context.Context) api.HeaderMap {
	h := mhttp2.NewHeaderMap(http.Header{})
	h.Set("service", "svc")
	return h
}

const c09H2Preface = "PRI * HTTP/2.0\r\n\r\nSM\r\n\r\n"

func c09H2Frame(typ, flags byte, stream uint32, payload []byte) []byte {
	b := make([]byte, 9+len(payload))
	b[0], b[1], b[2] = byte(len(payload)>>16), byte(len(payload)>>8), byte(len(payload))
	b[3], b[4] = typ, flags
	binary.BigEndian.PutUint32(b[5:], stream&0x7fffffff)
	copy(b[9:], payload)
	return b
}

// c09H2StreamOf returns the stream id of the (single) HEADERS frame in the bytes a NewStream wrote.
func c09H2StreamOf(req []byte) (uint32, error) {
	if len(req) >= len(c09H2Preface) && string(req[:len(c09H2Preface)]) == c09H2Preface {
		req = req[len(c09H2Preface):]
	}
	var id uint32
	n := 0
	for len(req) >= 9 {
		l := int(req[0])<<16 | int(req[1])<<8 | int(req[2])
		if len(req) < 9+l {
			return 0, fmt.Errorf("truncated frame")
		}
		if req[3] == 0x1 { // HEADERS
			id = binary.BigEndian.Uint32(req[5:9]) & 0x7fffffff
			n++
		}
		req = req[9+l:]
	}
	if len(req) != 0 || n != 1 || id == 0 {
		return 0, fmt.Errorf("expected exactly one HEADERS frame, found %d (%d stray bytes)", n, len(req))
	}
	return id, nil
}

func (c09H2) ReplyBytes(req []byte, goAway bool) ([]byte, error) {
	id, err := c09H2StreamOf(req)
	if err != nil {
		return nil, err
	}
	// HPACK: indexed header field 8 = ":status: 200"
	return c09H2Frame(0x1, 0x4|0x1, id, []byte{0x88}), nil
}

func (c09H2) GoAwayBytes() []byte {
	p := make([]byte, 8)
	binary.BigEndian.PutUint32(p[0:], 0x7fffffff) // last stream id: every stream in flight may finish
	binary.BigEndian.PutUint32(p[4:], 0)          // NO_ERROR
	return c09H2Frame(0x7, 0, 0, p)
}

// GarbageBytes only enables the engine's per-stream "garbage" event; the bytes come from ResetBytes.
func (c09H2) GarbageBytes() []byte { return []byte{} }

// ResetBytes: RST_STREAM(CANCEL) for the stream of this request.
func (c09H2) ResetBytes(req []byte) []byte {
	id, err := c09H2StreamOf(req)
	if err != nil {
		panic(err)
	}
	p := make([]byte, 4)
	binary.BigEndian.PutUint32(p, 0x8)
	return c09H2Frame(0x3, 0, id, p)
}

func (c09H2) Quiesce(pool types.ConnectionPool, shutdownRequested bool) error { return nil }
func (c09H2) AfterSend(sender types.StreamSender) error                       { return nil }
func (c09H2) PredictDeadlock(pool types.ConnectionPool, ev string, conn *vfake.Conn) (string, string) {
	return "", ""
}

// Self-deadlock of the request write (finding F13, findings/C09-http2-write-deadline.md):
// clientStream.endStream holds clientStreamConnection.mutex while the codec writes the HEADERS
// frame; when that write runs into the write deadline the network layer closes the connection on
// the writing goroutine (connection.writeDirectly -> Close(NoFlush, OnWriteTimeout)) and the close
// event reaches clientStreamConnection.OnEvent (and, through the codec client, Reset), which lock
// the same mutex.
const (
	c09DLH2WriteClass  = "I5 self-deadlock when the write of a request runs into the write deadline (stream never destroyed, the stream connection's mutex never released)"
	c09DLH2WriteDetail = "clientStream.endStream holds clientStreamConnection.mutex across protocol.Encode, which writes the HEADERS frame; the write runs into the deadline, the network layer closes the connection with OnWriteTimeout on the writing goroutine and the synchronous close event runs clientStreamConnection.OnEvent (stream.go:674) / client.OnEvent -> Reset (stream.go:734), which lock the same mutex: the goroutine sending the request waits for itself for ever, the stream is never reset or destroyed (Requests / upstream_request_active never released) and whoever resets a stream of this connection later (the request's own timeout) blocks on the mutex too"
)

func (c09H2) SelfDeadlock(stack string) (class, detail string) {
	a := strings.Index(stack, "(*clientStreamConnection).OnEvent")
	if a < 0 {
		a = strings.Index(stack, "(*clientStreamConnection).Reset")
	}
	if b := strings.Index(stack, "(*clientStream).endStream"); a >= 0 && b > a {
		return c09DLH2WriteClass, c09DLH2WriteDetail
	}
	return "", ""
}

// PredictWriteDeadlock (c09.WriteDeadlockPredictor): a NewStream of this pool is admitted iff the
// Requests resource has room (the connection is created on demand, max_connections is not
// enforced), and the request of every admitted stream is written under the mutex.
func (c09H2) PredictWriteDeadlock(pool types.ConnectionPool) (string, string) {
	p := pool.(*connPool)
	if p.Host().ClusterInfo().ResourceManager().Requests().CanCreate() {
		return c09DLH2WriteClass, c09DLH2WriteDetail
	}
	return "", ""
}

func (c09H2) Books(pool types.ConnectionPool) c09.Books {
	p := pool.(*connPool)
	p.mux.Lock()
	defer p.mux.Unlock()
	b := c09.Books{}
	sb := c09.SlotBook{}
	if ac := p.activeClient; ac != nil {
		sb.Present = true
		sb.State = "Connected"
		if atomic.LoadUint32(&ac.goaway) == 1 {
			sb.State = "GoAway"
		}
		sb.Conn, _ = ac.host.Connection.(*vfake.Conn)
	}
	b.Slots = []c09.SlotBook{sb}
	return b
}

func (c09H2) Model() c09.ModelOptions {
	return c09.ModelOptions{SingleConn: true, DrainingNotActive: true}
}

func TestVerifC09HTTP2(t *testing.T) {
	c09.Main(t, c09H2{}, 7, 10)
}

// ReqOf (schedule part): on the shared connection the HEADERS frames of concurrent streams
// interleave in the recorded writes; the stream's own id is read from the sender.
func (c09H2) ReqOf(sender types.StreamSender, written []byte) []byte {
	cs, ok := sender.(*clientStream)
	if !ok || cs.id == 0 {
		return nil
	}
	return c09H2Frame(0x1, 0x4|0x1, cs.id, nil)
}

// c09H2Scenarios: the concurrent (E1) part for the HTTP/2 pool (sched.go). One multiplexed
// connection: the races are between leases (NewStream takes connPool.mux, creates / replaces the
// client), the connection's events (close, go-away) and the ends of streams.
func c09H2Scenarios() []c09.Scenario {
	u := c09.Cfg{}
	return []c09.Scenario{
		{Name: "two leases, empty pool", Cfg: u, Threads: [][]string{{"new"}, {"new"}}},
		{Name: "lease vs remote close of the connection", Cfg: u, Prefix: []string{"new", "reply:0"}, Threads: [][]string{{"new"}, {"rclose:0"}}},
		{Name: "lease vs go-away", Cfg: u, Prefix: []string{"new"}, Threads: [][]string{{"new"}, {"goaway:0"}}},
		{Name: "lease vs completion on a go-away connection", Cfg: u, Prefix: []string{"new", "goaway:0"}, Threads: [][]string{{"new"}, {"reply:0"}}},
		{Name: "completion vs remote close", Cfg: u, Prefix: []string{"new"}, Threads: [][]string{{"reply:0"}, {"rclose:0"}}},
		{Name: "local reset vs remote close", Cfg: u, Prefix: []string{"new", "new"}, Threads: [][]string{{"lreset:0"}, {"rclose:0"}}},
		{Name: "go-away vs remote close", Cfg: u, Prefix: []string{"new"}, Threads: [][]string{{"goaway:0"}, {"rclose:0"}}},
		{Name: "two leases vs completion", Cfg: u, Prefix: []string{"new"}, Threads: [][]string{{"new"}, {"new"}, {"reply:0"}}},
		{Name: "lease vs go-away vs completion", Cfg: u, Prefix: []string{"new"}, Threads: [][]string{{"new"}, {"goaway:0"}, {"reply:0"}}},
	}
}

// Built with the "hphttp2" rewrite set (the "proxy" set plus pkg/module/http2 and pkg/stream/http2;
// the iteration order of the stream map in clientStreamConnection.OnEvent / Reset is a choice point).
func TestVerifC09HTTP2Schedules(t *testing.T) {
	c09.MainSchedules(t, c09H2{}, c09H2Scenarios(), 2, 3, 2)
}
