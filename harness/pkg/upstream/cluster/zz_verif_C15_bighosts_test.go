//go:build verif

package cluster

// C15, part big-hostsets: host sets whose index sets need more than one machine
// word / more than one block of the pre-index builder's sparse bitmaps.
//
// The pre-index builder (subset_loadbalancer_builder.go) keeps, per selector key
// and value, the set of host indexes in a golang.org/x/tools intsets.Sparse: a
// list of 256-bit blocks of four 64-bit words. It intersects these sets, hashes
// and compares them (hostsCache: min, max, length, then Equals) and turns them
// back into host slices. With the <= 13 hosts of the other parts only word 0 of
// block 0 is ever used. Here the host sets have sizes around the word boundary
// (63/64/65) and the block boundary (255/256/257, 511/512/513; thorough also
// 127..129, 191..193, 319..321, 767..769, 1023..1025) and the host metadata follow deterministic
// patterns whose subsets straddle those boundaries:
//
//	mod     a = i mod 3, b = i mod 5, c = i mod 2 only on hosts i >= 64
//	words   a = i div 64 (one value per machine word), b = i mod 2, c = i div 256 only on odd hosts
//	edges   e = 1 on hosts {0, 62, N-1}, else 0; f = 1 on hosts {0, N-2, N-1}, else 0
//	        (e=1 and f=1 have equal min, max and size but differ in their middle member, in
//	        different words/blocks); t = 1 only on the last three hosts (absent elsewhere)
//	tail    as edges, but e = 1 on hosts {0, N-3, N-1}: e=1 and f=1 agree on every word but the last
//
// Oracle as in the other C15 parts: an independent filtering reference written
// from the statement (a selector with exactly the criteria's key set exists and
// some host carries all pairs: only such hosts, never nil, HostNum = their
// number; otherwise the fallback exactly), both builders must agree on every
// observation and on the key set of LoadBalancers().

import (
	"fmt"
	"sort"
	"strings"
	"testing"
	"time"

	"mosn.io/api"
	v2 "mosn.io/mosn/pkg/config/v2"
	"mosn.io/mosn/pkg/types"
	"mosn.io/mosn/pkg/verifrt/c15ref"
	"mosn.io/mosn/pkg/verifrt/vreport"
)

type c15bCase struct {
	N         int           `json:"n"`
	Pattern   string        `json:"pattern"`
	Selectors [][]string    `json:"selectors"`
	Policy    int           `json:"policy"`
	Default   []c15ref.Pair `json:"default"`
	LB        string        `json:"lb"`
	Only      *c15ref.Probe `json:"only,omitempty"` // replay: this probe only
}

// c15bMeta is host i's metadata under a pattern (sorted by key).
func c15bMeta(pattern string, n, i int) []c15ref.Pair {
	var m []c15ref.Pair
	switch pattern {
	case "mod":
		m = append(m, c15ref.Pair{K: "a", V: fmt.Sprint(i % 3)}, c15ref.Pair{K: "b", V: fmt.Sprint(i % 5)})
		if i >= 64 {
			m = append(m, c15ref.Pair{K: "c", V: fmt.Sprint(i % 2)})
		}
	case "words":
		m = append(m, c15ref.Pair{K: "a", V: fmt.Sprint(i / 64)}, c15ref.Pair{K: "b", V: fmt.Sprint(i % 2)})
		if i%2 == 1 {
			m = append(m, c15ref.Pair{K: "c", V: fmt.Sprint(i / 256)})
		}
	case "edges", "tail":
		e, f := "0", "0"
		mid := 62
		if pattern == "tail" {
			mid = n - 3
		}
		if i == 0 || i == mid || i == n-1 {
			e = "1"
		}
		if i == 0 || i == n-2 || i == n-1 {
			f = "1"
		}
		m = append(m, c15ref.Pair{K: "e", V: e}, c15ref.Pair{K: "f", V: f})
		if i >= n-3 {
			m = append(m, c15ref.Pair{K: "t", V: "1"})
		}
	}
	return m
}

func c15bKeys(pattern string) []string {
	if pattern == "edges" || pattern == "tail" {
		return []string{"e", "f", "t"}
	}
	return []string{"a", "b", "c"}
}

// c15bValues: the values of key k that occur among the n hosts, in order of first occurrence.
func c15bValues(pattern string, n int, k string) []string {
	var vs []string
	seen := map[string]bool{}
	for i := 0; i < n; i++ {
		for _, kv := range c15bMeta(pattern, n, i) {
			if kv.K == k && !seen[kv.V] {
				seen[kv.V] = true
				vs = append(vs, kv.V)
			}
		}
	}
	return vs
}

// c15bSelectorLists: every key set of size 1..3 of the pattern's keys as a
// configuration of its own, and all of them together.
func c15bSelectorLists(pattern string) [][][]string {
	sets := c15ref.KeySets(c15bKeys(pattern))
	var out [][][]string
	var all [][]string
	for _, s := range sets {
		if len(s) == 0 {
			continue
		}
		out = append(out, [][]string{s})
		all = append(all, s)
	}
	return append(out, all)
}

func c15bFallbacks(pattern string, n int, cross bool) []c15ref.FallbackAlt {
	ks := c15bKeys(pattern)
	v0 := c15bValues(pattern, n, ks[0])
	last := c15bValues(pattern, n, ks[2])
	if len(last) == 0 {
		last = []string{"1"} // the third key occurs on no host of this size (mod, n <= 64)
	}
	defaults := [][]c15ref.Pair{
		{},
		{{K: ks[0], V: v0[len(v0)-1]}},                                    // one pair: the value that first occurs last (highest indexes)
		{{K: ks[1], V: "1"}, {K: ks[2], V: last[len(last)-1]}},            // two pairs, the second key only on part of the hosts
		{{K: ks[1], V: c15ref.UnknownValue}},                              // no host
	}
	out := c15ref.Fallbacks(defaults, false)
	if cross {
		out = append(out, c15ref.FallbackAlt{Policy: c15ref.FallbackNone, Default: defaults[1]}, c15ref.FallbackAlt{Policy: c15ref.FallbackAny, Default: defaults[2]})
	}
	return out
}

// c15bProbes: every assignment of the pattern's keys and the unknown key z to
// {absent, every value some host has for the key, the unknown value 9}
// (z: absent or 1), in the api contract's order (sorted by name), plus a context
// without criteria and a nil context.
func c15bProbes(pattern string, n int) []c15ref.Probe {
	ks := append(append([]string{}, c15bKeys(pattern)...), "z")
	alpha := make([][]string, len(ks))
	for i, k := range ks {
		alpha[i] = []string{""}
		if k == "z" {
			alpha[i] = append(alpha[i], "1")
			continue
		}
		alpha[i] = append(append(alpha[i], c15bValues(pattern, n, k)...), c15ref.UnknownValue)
	}
	var out []c15ref.Probe
	cur := make([]string, len(ks))
	var rec func(i int)
	rec = func(i int) {
		if i == len(ks) {
			crit := []c15ref.Pair{}
			for j, v := range cur {
				if v != "" {
					crit = append(crit, c15ref.Pair{K: ks[j], V: v})
				}
			}
			out = append(out, c15ref.Probe{Kind: "criteria", Crit: crit})
			return
		}
		for _, v := range alpha[i] {
			cur[i] = v
			rec(i + 1)
		}
	}
	rec(0)
	return append(out, c15ref.Probe{Kind: "nil-criteria"}, c15ref.Probe{Kind: "nil-ctx"})
}

// ---- reference over large host sets (c15ref.Reference keeps host sets in a uint32)

type c15bExpect struct {
	class, reason string
	allowed       []bool
	n             int // number of allowed hosts
}

func c15bHas(meta, want []c15ref.Pair) bool {
	for _, w := range want {
		ok := false
		for _, m := range meta {
			if m.K == w.K && m.V == w.V {
				ok = true
				break
			}
		}
		if !ok {
			return false
		}
	}
	return true
}

func c15bSameKeySet(sel []string, crit []c15ref.Pair) bool {
	for _, k := range sel {
		ok := false
		for _, c := range crit {
			ok = ok || c.K == k
		}
		if !ok {
			return false
		}
	}
	for _, c := range crit {
		ok := false
		for _, k := range sel {
			ok = ok || c.K == k
		}
		if !ok {
			return false
		}
	}
	return true
}

// c15bReference: the statement, literally. A selector "exists for" the criteria
// when its key set equals the criteria's key set.
func c15bReference(metas [][]c15ref.Pair, c *c15bCase, crit []c15ref.Pair) c15bExpect {
	selector := false
	for _, s := range c.Selectors {
		if len(s) > 0 && c15bSameKeySet(s, crit) {
			selector = true
		}
	}
	filter := func(want []c15ref.Pair) ([]bool, int) {
		set := make([]bool, len(metas))
		k := 0
		for i, m := range metas {
			if c15bHas(m, want) {
				set[i] = true
				k++
			}
		}
		return set, k
	}
	sub, k := filter(crit)
	if selector && k > 0 {
		return c15bExpect{"subset", "selector+hosts", sub, k}
	}
	e := c15bExpect{reason: "no-selector"}
	if selector {
		e.reason = "empty-subset"
	}
	switch c.Policy {
	case c15ref.FallbackNone:
		e.class, e.allowed = "fallback-none", make([]bool, len(metas))
	case c15ref.FallbackAny:
		e.class = "fallback-any"
		e.allowed, e.n = filter(nil)
	case c15ref.FallbackDefault:
		e.class = "fallback-default"
		e.allowed, e.n = filter(c.Default)
	}
	return e
}

type c15bObs struct {
	hostNum int
	exists  bool
	chosen  []bool
	nChosen int
	foreign bool
	nils    int
	calls   int
	pan     string
}

func (o c15bObs) String() string {
	s := fmt.Sprintf("HostNum=%d IsExistsHosts=%v chosen=%s nil=%d/%d", o.hostNum, o.exists, c15bSetString(o.chosen, o.foreign), o.nils, o.calls)
	if o.pan != "" {
		s += " PANIC " + o.pan
	}
	return s
}

// c15bSetString prints an index set as ranges.
func c15bSetString(set []bool, foreign bool) string {
	var parts []string
	for i := 0; i < len(set); {
		if !set[i] {
			i++
			continue
		}
		j := i
		for j+1 < len(set) && set[j+1] {
			j++
		}
		if j > i+1 {
			parts = append(parts, fmt.Sprintf("%d-%d", i, j))
		} else if j == i+1 {
			parts = append(parts, fmt.Sprint(i), fmt.Sprint(j))
		} else {
			parts = append(parts, fmt.Sprint(i))
		}
		i = j + 1
	}
	if len(parts) > 24 {
		parts = append(parts[:24], "...")
	}
	if foreign {
		parts = append(parts, "FOREIGN")
	}
	return "{" + strings.Join(parts, ",") + "}"
}

func c15bCount(set []bool) int {
	k := 0
	for _, b := range set {
		if b {
			k++
		}
	}
	return k
}

func c15bOutside(chosen, allowed []bool) []bool {
	out := make([]bool, len(chosen))
	for i := range chosen {
		out[i] = chosen[i] && !allowed[i]
	}
	return out
}

type c15bEnv struct {
	*c15Env
	hostsOf map[string][]types.Host
	metasOf map[string][][]c15ref.Pair
	index   map[types.Host]int
	idxKey  string
	probes  map[string][]*c15Probe
}

func (e *c15bEnv) hostsFor(pattern string, n int, info types.ClusterInfo) ([]types.Host, [][]c15ref.Pair) {
	k := fmt.Sprint(pattern, "/", n)
	if h, ok := e.hostsOf[k]; ok {
		return h, e.metasOf[k]
	}
	hs := make([]types.Host, n)
	ms := make([][]c15ref.Pair, n)
	for i := 0; i < n; i++ {
		ms[i] = c15bMeta(pattern, n, i)
		md := api.Metadata{}
		for _, kv := range ms[i] {
			md[kv.K] = kv.V
		}
		hs[i] = NewSimpleHost(v2.Host{HostConfig: v2.HostConfig{Address: fmt.Sprintf("10.15.%d.%d:80", 1+i/250, 1+i%250)}, MetaData: md}, info)
	}
	e.hostsOf[k], e.metasOf[k] = hs, ms
	return hs, ms
}

func (e *c15bEnv) ask(lb types.LoadBalancer, q *c15Probe, n, picks int) (o c15bObs) {
	o.chosen = make([]bool, n)
	defer func() {
		if r := recover(); r != nil {
			o.pan = fmt.Sprint(r)
		}
	}()
	o.hostNum = lb.HostNum(q.mmc)
	o.exists = lb.IsExistsHosts(q.mmc)
	for d := 0; d < picks; d++ {
		e.src.v = int64(d) << 32
		h := lb.ChooseHost(q.ctx)
		o.calls++
		if h == nil {
			o.nils++
			continue
		}
		if i, ok := e.index[h]; ok {
			if !o.chosen[i] {
				o.chosen[i] = true
				o.nChosen++
			}
		} else {
			o.foreign = true
		}
	}
	return o
}

type c15bProblem struct{ what, detail string }

// c15bJudge mirrors c15ref.Judge. full: the probe made |allowed|+1 successive
// picks (round-robin: every member shows up; random: draws 0..|allowed|).
func c15bJudge(e c15bExpect, o c15bObs, full bool) []c15bProblem {
	if o.pan != "" {
		return []c15bProblem{{"panic", o.pan}}
	}
	var ps []c15bProblem
	if out := c15bOutside(o.chosen, e.allowed); o.foreign || c15bCount(out) > 0 {
		ps = append(ps, c15bProblem{"host outside the allowed set chosen", fmt.Sprintf("chosen outside: %s, allowed %s", c15bSetString(out, o.foreign), c15bSetString(e.allowed, false))})
	}
	if e.n != 0 && o.nils > 0 {
		ps = append(ps, c15bProblem{"no host chosen although eligible hosts exist", fmt.Sprintf("%d of %d ChooseHost calls returned nil, allowed %s", o.nils, o.calls, c15bSetString(e.allowed, false))})
	}
	if o.hostNum != e.n || o.exists != (e.n != 0) {
		ps = append(ps, c15bProblem{"HostNum / IsExistsHosts wrong", fmt.Sprintf("HostNum=%d IsExistsHosts=%v, expected %d %v", o.hostNum, o.exists, e.n, e.n != 0)})
	}
	if e.class == "fallback-any" && full && len(ps) == 0 && o.nChosen != e.n {
		ps = append(ps, c15bProblem{"some cluster host unreachable", fmt.Sprintf("%d of %d cluster hosts chosen over %d picks", o.nChosen, e.n, o.calls)})
	}
	return ps
}

// c15bDiffer lists the observable fields on which the two builders differ. The
// sets of chosen hosts are compared only after a complete walk (then they do not
// depend on where the round-robin cursors of the two balancers happen to stand).
func c15bDiffer(a, b c15bObs, full bool) []c15bProblem {
	if a.pan != b.pan {
		return []c15bProblem{{"panic", fmt.Sprintf("%q vs %q", a.pan, b.pan)}}
	}
	var ps []c15bProblem
	if a.hostNum != b.hostNum {
		ps = append(ps, c15bProblem{"HostNum", fmt.Sprintf("%d vs %d", a.hostNum, b.hostNum)})
	}
	if a.exists != b.exists {
		ps = append(ps, c15bProblem{"IsExistsHosts", fmt.Sprintf("%v vs %v", a.exists, b.exists)})
	}
	same := a.foreign == b.foreign && (a.nils > 0) == (b.nils > 0)
	for i := range a.chosen {
		same = same && (!full || a.chosen[i] == b.chosen[i])
	}
	if !same {
		ps = append(ps, c15bProblem{"chosen-host set", fmt.Sprintf("%s nil=%d vs %s nil=%d", c15bSetString(a.chosen, a.foreign), a.nils, c15bSetString(b.chosen, b.foreign), b.nils)})
	}
	return ps
}

// fallback answers come from ONE balancer object per built subset balancer; it
// is walked completely (|allowed|+1 picks) for the first c15bFullFallbackWalks
// criteria of a configuration that fall back, the later ones get 3 picks
const c15bFullFallbackWalks = 3

func c15bCheck(e *c15bEnv, p *vreport.Part, c c15bCase) {
	if c.N < 1 || c.N > 4096 {
		return
	}
	cc := c15Case{Cfg: c15ref.Config{Selectors: c.Selectors, Policy: c.Policy, Default: c.Default}, LB: c.LB}
	info := e.info(&cc)
	hosts, metas := e.hostsFor(c.Pattern, c.N, info)
	if k := fmt.Sprint(c.Pattern, "/", c.N); k != e.idxKey {
		e.idxKey = k
		e.index = make(map[types.Host]int, len(hosts))
		for i, h := range hosts {
			e.index[h] = i
		}
	}
	hs := NewHostSet(hosts)
	lbF, perrF := c15Build(func(i types.ClusterInfo, h types.HostSet) types.LoadBalancer { return NewSubsetLoadBalancer(i, h) }, info, hs)
	lbP, perrP := c15Build(NewSubsetLoadBalancerPreIndex, info, hs)
	if perrF != "" {
		p.Violation("filtering builder | panic while building", perrF, c)
	}
	if perrP != "" {
		p.Violation("pre-index builder | panic while building", perrP, c)
	}
	if perrF != "" || perrP != "" {
		return
	}
	c15Script(lbF, e.src)
	c15Script(lbP, e.src)
	if kf, kp := c15LbKeys(lbF), c15LbKeys(lbP); kf != kp {
		p.Violation("builders disagree | LoadBalancers() key set", fmt.Sprintf("n=%d pattern=%s selectors=%v: filtering: [%s] pre-index: [%s]", c.N, c.Pattern, c.Selectors, kf, kp), c)
	}
	var probes []*c15Probe
	if c.Only != nil {
		probes = []*c15Probe{c15MakeProbe(*c.Only)}
	} else {
		pk := fmt.Sprint(c.Pattern, "/", c.N)
		probes = e.probes[pk]
		if probes == nil {
			for _, pr := range c15bProbes(c.Pattern, c.N) {
				probes = append(probes, c15MakeProbe(pr))
			}
			e.probes[pk] = probes
		}
		p.EvalN(len(probes) - 1)
	}
	fallbackWalks := 0
	for _, q := range probes {
		only := func() c15bCase {
			cq := c
			pr := q.p
			cq.Only = &pr
			return cq
		}
		if !q.cmp {
			// a context without criteria / a nil context: statement silent, the builders must agree
			// (a complete walk: N+1 picks)
			oF, oP := e.ask(lbF, q, c.N, c.N+1), e.ask(lbP, q, c.N, c.N+1)
			if oF.pan != "" || oP.pan != "" {
				p.Violation("panic | "+q.kind, oF.pan+" / "+oP.pan, only())
			} else if ds := c15bDiffer(oF, oP, true); len(ds) > 0 {
				p.Violation("builders disagree | "+q.kind+" | "+ds[0].what, fmt.Sprintf("n=%d pattern=%s lb=%s: filtering %s ; pre-index %s (%s)", c.N, c.Pattern, c.LB, oF, oP, ds[0].detail), only())
			}
			continue
		}
		exp := c15bReference(metas, &c, q.p.Crit)
		full := true
		picks := exp.n + 1
		if exp.n == 0 {
			picks = 2
		}
		if exp.class != "subset" && c.Only == nil {
			fallbackWalks++
			if fallbackWalks > c15bFullFallbackWalks && picks > 3 {
				picks, full = 3, false
			}
		}
		oF, oP := e.ask(lbF, q, c.N, picks), e.ask(lbP, q, c.N, picks)
		explained := false
		for bi, o := range [2]c15bObs{oF, oP} {
			b := "filtering builder"
			if bi == 1 {
				b = "pre-index builder"
			}
			for _, pb := range c15bJudge(exp, o, full) {
				explained = true
				p.Violation(fmt.Sprintf("%s | %s | %s", b, exp.class, pb.what),
					fmt.Sprintf("n=%d pattern=%s lb=%s criteria=%v (fallback reason: %s): %s; observed %s; selectors=%v policy=%d default=%v",
						c.N, c.Pattern, c.LB, q.p.Crit, exp.reason, pb.detail, o, c.Selectors, c.Policy, c.Default), only())
			}
		}
		if ds := c15bDiffer(oF, oP, full); len(ds) > 0 && !explained {
			p.Violation("builders disagree | "+q.kind+" | "+ds[0].what,
				fmt.Sprintf("n=%d pattern=%s lb=%s criteria=%v: filtering %s ; pre-index %s (%s)", c.N, c.Pattern, c.LB, q.p.Crit, oF, oP, ds[0].detail), only())
		}
		p.Distinct(fmt.Sprintf("%s/%s/n=%d/%s/allowed=%d/sel=%d/pol=%d/def=%d/crit=%d", exp.class, exp.reason, c.N, c.Pattern, exp.n, len(c.Selectors), c.Policy, len(c.Default), len(q.p.Crit)))
		p.Outcome(fmt.Sprint(exp.class, oF.hostNum, oF.exists, oF.nChosen, oF.nils > 0))
		p.Count("choose_host_calls", oF.calls+oP.calls)
	}
}

func c15bSelfCheck() string {
	// the patterns do what the file comment says, for a size beyond one block
	n := 257
	same := func(a, b []int) bool { return fmt.Sprint(a) == fmt.Sprint(b) }
	members := func(pattern string, want ...c15ref.Pair) []int {
		var out []int
		for i := 0; i < n; i++ {
			if c15bHas(c15bMeta(pattern, n, i), want) {
				out = append(out, i)
			}
		}
		return out
	}
	if got := members("edges", c15ref.Pair{K: "e", V: "1"}); !same(got, []int{0, 62, 256}) {
		return fmt.Sprint("edges e=1: ", got)
	}
	if got := members("edges", c15ref.Pair{K: "f", V: "1"}); !same(got, []int{0, 255, 256}) {
		return fmt.Sprint("edges f=1: ", got)
	}
	if got := members("tail", c15ref.Pair{K: "e", V: "1"}); !same(got, []int{0, 254, 256}) {
		return fmt.Sprint("tail e=1: ", got)
	}
	if got := members("edges", c15ref.Pair{K: "t", V: "1"}); !same(got, []int{254, 255, 256}) {
		return fmt.Sprint("edges t=1: ", got)
	}
	if got := members("words", c15ref.Pair{K: "a", V: "4"}); !same(got, []int{256}) {
		return fmt.Sprint("words a=4: ", got)
	}
	if got := members("mod", c15ref.Pair{K: "c", V: "0"}); len(got) == 0 || got[0] != 64 {
		return fmt.Sprint("mod c=0 starts at ", got[:1])
	}
	// the reference agrees with c15ref.Reference on a small configuration
	metas := [][]c15ref.Pair{c15P("a", "1"), c15P("a", "2", "b", "1"), c15P()}
	for pol := 0; pol <= 2; pol++ {
		for _, crit := range [][]c15ref.Pair{c15P(), c15P("a", "1"), c15P("a", "9"), c15P("b", "1"), c15P("a", "2", "b", "1")} {
			c := c15bCase{Selectors: [][]string{{"a"}, {"a", "b"}}, Policy: pol, Default: c15P("a", "2")}
			small := c15ref.Reference(&c15ref.Config{Hosts: metas, Selectors: c.Selectors, Policy: pol, Default: c.Default}, crit)
			big := c15bReference(metas, &c, crit)
			var mask uint32
			for i, b := range big.allowed {
				if b {
					mask |= 1 << uint(i)
				}
			}
			if small.Class != big.class || small.Reason != big.reason || small.Allowed != mask {
				return fmt.Sprintf("reference mismatch for policy %d criteria %v: %+v vs %+v", pol, crit, small, big)
			}
		}
	}
	return ""
}

func TestVerifC15BigHostSets(t *testing.T) {
	p := vreport.Begin("C15", "subset-big-hostsets", time.Duration(vreport.Pick(5, 25))*time.Minute)
	if !vreport.Replaying() {
		if msg := c15bSelfCheck(); msg != "" {
			vreport.HarnessError("C15", "subset-big-hostsets", "self-check: "+msg)
			p.End(false, "self-check failed", msg)
			t.Error(msg)
			return
		}
	}
	thorough := vreport.Thorough()
	sizes := []int{63, 64, 65, 255, 256, 257, 511, 512, 513}
	if thorough {
		sizes = append(sizes, 127, 128, 129, 191, 192, 193, 319, 320, 321, 767, 768, 769, 1023, 1024, 1025)
	}
	patterns := []string{"mod", "words", "edges", "tail"}
	e := &c15bEnv{c15Env: c15NewEnv(nil), hostsOf: map[string][]types.Host{}, metasOf: map[string][][]c15ref.Pair{}, probes: map[string][]*c15Probe{}}
	si, sn := vreport.Shard()
	configs := 0
	complete := vreport.Run(p, func(yield func(c15bCase) bool) {
		idx := 0
		for _, n := range sizes {
			for _, pat := range patterns {
				lists := c15bSelectorLists(pat)
				for _, sel := range lists {
					for _, fb := range c15bFallbacks(pat, n, thorough) {
						for _, lb := range []string{"rr", "random"} {
							idx++
							if idx%sn != si {
								continue
							}
							if !yield(c15bCase{N: n, Pattern: pat, Selectors: sel, Policy: fb.Policy, Default: fb.Default, LB: lb}) {
								return
							}
						}
					}
				}
			}
		}
	}, func(p *vreport.Part, c c15bCase) {
		configs++
		c15bCheck(e, p, c)
		if p.WantSample() {
			p.Sample(c)
		}
	})
	p.Note("configurations", configs)
	p.Note("cluster_infos_built", len(e.infos))
	var pc []string
	for _, pat := range patterns {
		pc = append(pc, fmt.Sprintf("%s:%d", pat, len(c15bProbes(pat, 257))))
	}
	sort.Strings(pc)
	p.End(complete,
		fmt.Sprintf("host sets of %v hosts (intsets.Sparse: 64-bit words, 256-bit blocks) x metadata patterns {mod: a=i%%3, b=i%%5, c=i%%2 on hosts >=64 | words: a=i/64, b=i%%2, c=i/256 on odd hosts | edges: e=1 on {0,62,N-1}, f=1 on {0,N-2,N-1} (else 0), t=1 on the last three hosts | tail: as edges with e=1 on {0,N-3,N-1}}; selector lists: every key set of size 1..3 of the pattern's three keys alone, and all 7 together; fallback: none, any-endpoint, default-subset {} / {first key: its last value} / {second key:1, third key: its last value} / {second key: unknown value}%s; criteria: every assignment of the three keys to {absent, every occurring value, unknown value 9} x unknown key z {absent,1}, sorted by name (probes per configuration at 257 hosts: %s), plus a context without criteria and a nil context; inner balancer round-robin and random (scripted draws) for every configuration; all hosts healthy",
			sizes, map[bool]string{true: ", plus a default subset configured under none / any-endpoint", false: ""}[thorough], strings.Join(pc, " ")),
		"complete product size x pattern x selector list x fallback x inner balancer x probe; every probe = HostNum + IsExistsHosts + successive ChooseHost calls on BOTH builders: |allowed|+1 calls (allowed = the reference's answer set; round-robin then shows every member and any extra member, random gets draws 0..|allowed|), except that of the criteria of one configuration that fall back only the first 3 walk the (single) fallback balancer completely, the later ones make 3 calls; sorted criteria are compared with the reference written from the statement (selector with exactly the criteria's key set + a host carrying all pairs: chosen within those hosts, never nil, HostNum = their number; otherwise the fallback policy exactly) and between the builders; a context without criteria and a nil context between the builders only; LoadBalancers() key sets compared between builders; evaluations = (configuration, probe) pairs; distinct = (class, reason, size, pattern, #allowed, #selectors, policy, #default, #criteria)")
}
