//go:build verif

package cluster

import (
	"fmt"
	"os"
	"strings"
	"testing"
	"time"

	"mosn.io/api"
	v2 "mosn.io/mosn/pkg/config/v2"
	"mosn.io/mosn/pkg/types"
	"mosn.io/mosn/pkg/verifrt/vreport"
	"mosn.io/mosn/pkg/verifrt/vrt"
)

// C16 (a): concurrent set/clear of different health conditions on hosts that
// share one address never loses or invents a condition, and Health() is true
// exactly when no condition is set.
//
// Threads: 2 or 3; thread i owns flag bit i and runs a program of 1-2
// operations on it; every initial word over the bits; ALL interleavings
// (unbounded: executions have <= ~25 scheduling points).

type c16Case struct {
	Init     uint64   `json:"init"`
	Programs [][]bool `json:"programs"`         // per thread: true=set, false=clear
	Bound    int      `json:"bound"`            // preemption bound, -1 = unbounded
	Create   bool     `json:"create,omitempty"` // every owner creates its own host object of a never-seen address itself (concurrent first creation)
	Choices  []int    `json:"choices,omitempty"`
}

var c16Flags = []api.HealthFlag{api.FAILED_ACTIVE_HC, api.FAILED_OUTLIER_CHECK, api.HealthFlag(0x04)} // third bit: any further condition (the word is a plain bit set)

func c16Body(c c16Case, obs *struct {
	final    uint64
	health   bool
	midBad   string
	hostsNew []types.Host
}) func() {
	return func() {
		addr := "127.0.0.1:11616"
		info := &clusterInfo{name: "c16"}
		hosts := make([]types.Host, len(c.Programs))
		if c.Create {
			// the per-address words live in a process-global store: a fresh address per execution
			c16Fresh++
			addr = fmt.Sprintf("127.0.%d.%d:11617", (c16Fresh>>8)&0xff, c16Fresh&0xff)
			if c16Fresh >= 1<<16 {
				addr = fmt.Sprintf("[fd00::%x]:11617", c16Fresh)
			}
		} else {
			for i := range c.Programs {
				hosts[i] = NewSimpleHost(v2.Host{HostConfig: v2.HostConfig{Address: addr}}, info)
			}
			// initial word
			p := GetHealthFlagPointer(addr)
			*p = c.Init
		}
		done := 0
		for i := range c.Programs {
			i := i
			vrt.GoNamed(fmt.Sprintf("owner%d", i), func() {
				if c.Create {
					hosts[i] = NewSimpleHost(v2.Host{HostConfig: v2.HostConfig{Address: addr}}, info)
				}
				for _, set := range c.Programs[i] {
					if set {
						hosts[i].SetHealthFlag(c16Flags[i])
					} else {
						hosts[i].ClearHealthFlag(c16Flags[i])
					}
					// the owner's own bit must read back as it just wrote it:
					// nobody else touches that bit
					if hosts[i].ContainHealthFlag(c16Flags[i]) != set && obs.midBad == "" {
						obs.midBad = fmt.Sprintf("owner %d wrote set=%v of its bit but reads back %v", i, set, !set)
					}
				}
				done++
			})
		}
		vrt.WaitUntil("owners done", func() bool { return done == len(c.Programs) })
		obs.final = uint64(hosts[0].HealthFlag())
		obs.health = hosts[0].Health()
		// host objects of one address share one word: every object reports the same conditions
		for i := range hosts {
			if w := uint64(hosts[i].HealthFlag()); w != obs.final && obs.midBad == "" {
				obs.midBad = fmt.Sprintf("host object %d of the address reports word %#x, object 0 reports %#x: the objects do not share one word", i, w, obs.final)
			}
		}
	}
}

var c16Fresh int

func c16Expected(c c16Case) uint64 {
	w := c.Init
	for i, prog := range c.Programs {
		if len(prog) == 0 {
			continue
		}
		if prog[len(prog)-1] {
			w |= uint64(c16Flags[i])
		} else {
			w &^= uint64(c16Flags[i])
		}
	}
	return w
}

func TestVerifC16Flags(t *testing.T) {
	p := vreport.Begin("C16", "health-flags-interleavings", 10*time.Minute)
	var rc c16Case
	if vreport.Replaying() {
		if vreport.ReplayFor("C16", "health-flags-interleavings", &rc) {
			c16Run(p, rc, true)
			p.End(true, "replay", "replay of one recorded schedule")
		}
		return
	}
	progs := [][]bool{{true}, {false}, {true, false}, {false, true}}
	var cases []c16Case
	// 2 threads: all program pairs, every initial word over their two bits, ALL interleavings.
	// 3 threads: single-op programs, every initial word; quick: <=2 preemptions, thorough: all
	// interleavings, plus two-op programs with <=3 preemptions.
	word := func(init uint64) uint64 {
		w := uint64(0)
		for b := 0; b < 3; b++ {
			if init&(1<<b) != 0 {
				w |= uint64(c16Flags[b])
			}
		}
		return w
	}
	for init := uint64(0); init < 4; init++ {
		for ia, a := range progs {
			for ib, b := range progs {
				bound := -1
				if !vreport.Thorough() && (ia >= 2 || ib >= 2) {
					// quick: two-op programs with <=3 preemptions (all interleavings in thorough)
					bound = 3
					if ia >= 2 && ib >= 2 && init != 0 && init != 3 {
						continue
					}
				}
				cases = append(cases, c16Case{Init: word(init), Programs: [][]bool{a, b}, Bound: bound})
			}
		}
	}
	for init := uint64(0); init < 8; init++ {
		for _, a := range progs[:2] {
			for _, b := range progs[:2] {
				for _, c := range progs[:2] {
					cases = append(cases, c16Case{Init: word(init), Programs: [][]bool{a, b, c}, Bound: vreport.Pick(2, -1)})
				}
			}
		}
	}
	if vreport.Thorough() {
		for init := uint64(0); init < 8; init += 7 {
			for _, a := range progs[2:] {
				for _, b := range progs[2:] {
					for _, c := range progs[2:] {
						cases = append(cases, c16Case{Init: word(init), Programs: [][]bool{a, b, c}, Bound: 3})
					}
				}
			}
		}
	}
	// concurrent FIRST creation of the host objects of an address (the shared word is allocated on first use)
	for _, a := range progs {
		for _, b := range progs {
			cases = append(cases, c16Case{Programs: [][]bool{a, b}, Bound: vreport.Pick(3, -1), Create: true})
		}
	}
	for _, a := range progs[:2] {
		for _, b := range progs[:2] {
			for _, c := range progs[:2] {
				cases = append(cases, c16Case{Programs: [][]bool{a, b, c}, Bound: vreport.Pick(2, 3), Create: true})
			}
		}
	}
	complete := true
	for _, c := range cases {
		if p.Expired() {
			complete = false
			break
		}
		if !c16Run(p, c, false) {
			complete = false
		}
	}
	p.End(complete, "2 threads x 1 op: all interleavings; 2 threads with 2-op programs: <=3 preemptions (quick) / all (thorough); 3 threads x 1 op: <=2 preemptions (quick) / all (thorough); 3 threads x 2 ops: <=3 preemptions (thorough)",
		"every complete interleaving of the owners' atomic steps; distinct = distinct (case, final word); outcome = final word vs expected")
}

func c16Run(p *vreport.Part, c c16Case, replay bool) bool {
	exp := c16Expected(c)
	var obs struct {
		final    uint64
		health   bool
		midBad   string
		hostsNew []types.Host
	}
	opts := vrt.Options{Bound: c.Bound, MaxSteps: 5000}
	if replay {
		opts.Replay = true
		opts.Prefix = c.Choices
	}
	st := vrt.Explore(opts, func() {
		obs.final, obs.health, obs.midBad = 0, false, ""
		c16Body(c, &obs)()
	}, func(r *vrt.Result) {
		p.Eval()
		p.Distinct(fmt.Sprintf("%v|%v|%v|%d", c.Init, c.Create, c.Programs, obs.final))
		p.Outcome(fmt.Sprintf("%d/%d", obs.final, exp))
		cc := c
		cc.Choices = r.Choices
		if r.Deadlock || len(r.Panics) > 0 || r.StepLimit || r.Diverged != "" {
			p.Violation("harness: execution did not complete", r.String()+fmt.Sprint(r.Panics), cc)
			return
		}
		if p.WantSample() {
			p.Sample(map[string]interface{}{"init": c.Init, "programs": c.Programs, "schedule": r.Choices, "final": obs.final})
		}
		if obs.final != exp {
			lost := exp &^ obs.final
			inv := obs.final &^ exp
			kind := "lost"
			if lost == 0 {
				kind = "invented"
			}
			p.Violation(fmt.Sprintf("health-flags concurrent set/clear of different conditions: condition %s", kind),
				fmt.Sprintf("init=%#x programs=%v schedule=%v: final word %#x, expected %#x (lost bits %#x, invented bits %#x)", c.Init, c.Programs, r.Choices, obs.final, exp, lost, inv), cc)
		}
		if obs.midBad != "" {
			kind := "health-flags owner reads back a different value of its own condition"
			if strings.Contains(obs.midBad, "do not share one word") {
				kind = "health-flags: host objects of one address do not share one flag word"
			}
			p.Violation(kind, obs.midBad, cc)
		}
		if obs.health != (obs.final == 0) {
			p.Violation("Health() disagrees with the flag word", fmt.Sprintf("word %#x Health()=%v", obs.final, obs.health), cc)
		}
	})
	p.AddTraces(st.Executions)
	if os.Getenv("VERIF_DEBUG") != "" {
		fmt.Printf("case %+v: execs=%d maxdepth=%d points=%d\n", c, st.Executions, st.MaxDepth, st.Points)
	}
	return st.Complete
}
