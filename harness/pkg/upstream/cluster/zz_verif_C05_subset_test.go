//go:build verif

package cluster

// C05, unit subset: "... and subset balancing on top of them".
//
// The C05 statement is judged on SUBSET load balancers built through the real
// path: NewCluster(v2.Cluster{lb_subset_config}) -> simpleCluster.UpdateHosts,
// which builds NewSubsetLoadBalancerPreIndex (the default build mode) or, after
// SetSubsetBuildMode(SubsetFilterBuildMode), NewSubsetLoadBalancer - both are
// run - with EVERY inner policy (random, round robin, weighted round robin,
// least request, least connection, peak EWMA, maglev, request round robin).
//
// Oracle = the C05 statement only (what subset balancing adds is which hosts a
// request may be sent to at all):
//
//	(a) a returned host is, by identity, a member of the cluster's CURRENT host
//	    set (the one handed to the last UpdateHosts);
//	(b) let E be the hosts eligible for the request under the configured subset
//	    semantics, computed by the independent reference c15ref.Reference (a
//	    selector with exactly the criteria's key set exists and some host carries
//	    all criteria pairs: those hosts; otherwise the fallback policy: none ->
//	    no host, any-endpoint -> every host, default-subset -> the hosts that
//	    carry the default subset): if E contains a healthy host, the result is a
//	    healthy host of E; no host is returned only if E has no healthy host.
//
// Not compared (statement silent, as in the other C05 parts): what is returned
// when no member of E is healthy (nil, an unhealthy member, or - the balancer
// then consults its fallback - another member of the cluster); it still has to
// be a member of the current set (a). A context WITHOUT match criteria is
// enumerated and judged on (a) only. Criteria are handed over in the api
// contract's order (sorted by name). The values of HostNum / IsExistsHosts and
// the equivalence of the two builders are C15's, not asked here; that the counts
// and the cluster manager's lookups (ConnPoolForCluster sizes its attempts with
// HostNum) agree with the chooser is unit consumers'
// (zz_verif_C05_subsetapi_test.go).
//
// Randomness: every *rand.Rand of every inner balancer (and of the round-robin
// factory that draws initial cursors) is replaced by one scripted source.
// Construction draws (initial cursors, EDF pre-advance) of ALL inner balancers
// of one build answer the same alphabet value K (c05Alpha(K), the C05 alphabet:
// K=2a+b reaches every residue of Uint32()%m and Intn(m) for m <= n). Selection
// draws are Intn(m), m <= n, only: their alphabet is a in 0..n-1 (Int63 = a<<32).
//
// One case = one configuration with its alternatives (builder, inner policy,
// weight shape, K). Per alternative the subset balancer is built ONCE (fresh
// cluster) and asked for every health pattern x every criteria x the runs of
// the policy, in a fixed order. Cursor / EDF state carries over between the
// lookups of an alternative (the verdict never depends on it on a correct
// tree); the replayable case of a violation is therefore the whole
// alternative (or all alternatives of the builder, see check), which
// re-executes exactly the same lookup sequence on a fresh cluster. It also
// makes the verdict independent of Go's map iteration order inside the
// builders (which sibling subset a defect loses): every value assignment of a
// criteria key set is asked by the same case.

import (
	"fmt"
	"math/rand"
	"sort"
	"strings"
	"testing"
	"time"

	"mosn.io/api"
	v2 "mosn.io/mosn/pkg/config/v2"
	"mosn.io/mosn/pkg/types"
	"mosn.io/mosn/pkg/verifrt/c15ref"
	"mosn.io/mosn/pkg/verifrt/vreport"
)

// ---------------------------------------------------------------------------
// request context with match criteria (the cluster package cannot import
// pkg/router: import cycle)

type c05sCriterion struct{ k, v string }

func (c *c05sCriterion) MetadataKeyName() string { return c.k }
func (c *c05sCriterion) MetadataValue() string   { return c.v }

type c05sCriteria struct{ list []api.MetadataMatchCriterion }

func (c *c05sCriteria) MetadataMatchCriteria() []api.MetadataMatchCriterion { return c.list }
func (c *c05sCriteria) MergeMatchCriteria(map[string]string) api.MetadataMatchCriteria {
	panic("c05s: MergeMatchCriteria is not part of the balancer seam")
}

// c05sCtx = the C05 request context (variable context for the retry index,
// route with a hash policy) + match criteria.
type c05sCtx struct {
	*c05LbCtx
	mmc api.MetadataMatchCriteria // nil interface: a context without criteria
}

func (c *c05sCtx) MetadataMatchCriteria() api.MetadataMatchCriteria { return c.mmc }

func c05sMmc(crit []c15ref.Pair) api.MetadataMatchCriteria {
	cr := &c05sCriteria{list: []api.MetadataMatchCriterion{}}
	for _, kv := range crit {
		cr.list = append(cr.list, &c05sCriterion{kv.K, kv.V})
	}
	return cr
}

// ---------------------------------------------------------------------------
// scripted randomness

type c05sSrc struct {
	constant int   // >= 0: every draw answers c05Alpha(constant)
	script   []int // constant < 0: draw i answers script[i]<<32 (beyond the script: 0, and the script grows)
	pos      int
	draws    int
}

func (s *c05sSrc) Int63() int64 {
	s.draws++
	if s.constant >= 0 {
		return c05Alpha(s.constant)
	}
	if s.pos >= len(s.script) {
		s.script = append(s.script, 0)
	}
	a := s.script[s.pos]
	s.pos++
	return int64(a) << 32
}
func (s *c05sSrc) Seed(int64) {}

// ---------------------------------------------------------------------------
// building through the real path

const c05sCounterMask = 0b00101 // hosts 0 and 2 carry one active request / connection

func c05sNewCluster(name string, policy types.LoadBalancerType, cfg *c15ref.Config) types.Cluster {
	return NewCluster(c05sClusterConfig(name, policy, cfg))
}

// c05sClusterConfig: the cluster configuration of a reference configuration (no
// selectors: a cluster without subset balancing).
func c05sClusterConfig(name string, policy types.LoadBalancerType, cfg *c15ref.Config) v2.Cluster {
	cc := v2.Cluster{Name: name, ClusterType: v2.SIMPLE_CLUSTER, LbType: v2.LbType(policy)}
	cc.LBSubSetConfig = v2.LBSubsetConfig{FallBackPolicy: uint8(cfg.Policy)}
	for _, s := range cfg.Selectors {
		cc.LBSubSetConfig.SubsetSelectors = append(cc.LBSubSetConfig.SubsetSelectors, append([]string{}, s...))
	}
	if cfg.Default != nil {
		cc.LBSubSetConfig.DefaultSubset = map[string]string{}
		for _, kv := range cfg.Default {
			cc.LBSubSetConfig.DefaultSubset[kv.K] = kv.V
		}
	}
	return cc
}

func c05sMakeHosts(info types.ClusterInfo, addrs []string, metas [][]c15ref.Pair, weights []uint32) []types.Host {
	hosts := make([]types.Host, len(addrs))
	for i := range addrs {
		var md api.Metadata
		if len(metas[i]) > 0 {
			md = api.Metadata{}
			for _, kv := range metas[i] {
				md[kv.K] = kv.V
			}
		}
		hosts[i] = NewSimpleHost(v2.Host{HostConfig: v2.HostConfig{Address: addrs[i], Hostname: fmt.Sprintf("h%d", i), Weight: weights[i]}, MetaData: md}, info)
	}
	return hosts
}

// c05sPublish replaces the cluster's host set through simpleCluster.UpdateHosts
// in the given subset build mode; the round-robin factory draws from rnd while
// the balancers are built. A panic is returned as text.
func c05sPublish(cl types.Cluster, builder string, hosts []types.Host, rnd *rand.Rand) (pan string) {
	defer func() {
		if r := recover(); r != nil {
			pan = fmt.Sprint(r)
		}
	}()
	mode := SubsetPreIndexBuildMode
	if builder == "filter" {
		mode = SubsetFilterBuildMode
	}
	SetSubsetBuildMode(mode)
	defer SetSubsetBuildMode(SubsetPreIndexBuildMode)
	restore := c05SwapRRFactoryRand(rnd)
	defer restore()
	cl.UpdateHosts(NewHostSet(hosts))
	return ""
}

// c05sInner is one inner balancer of a subset balancer, named by its place.
type c05sInner struct {
	path string
	lb   types.LoadBalancer
}

// c05sInners lists the inner balancers in a deterministic order (full, fallback,
// then the subset trie with keys and values sorted); a plain balancer is its own
// only entry. Used to put the random sources under the script, to derive the
// maglev hash keys and to fingerprint the mutable state - never by the oracle.
func c05sInners(lb types.LoadBalancer) []c05sInner {
	sl, ok := lb.(*subsetLoadBalancer)
	if !ok {
		if lb == nil {
			return nil
		}
		return []c05sInner{{"plain", lb}}
	}
	var out []c05sInner
	seen := map[types.LoadBalancer]bool{}
	add := func(path string, l types.LoadBalancer) {
		if l == nil || seen[l] {
			return
		}
		seen[l] = true
		out = append(out, c05sInner{path, l})
	}
	add("full", sl.fullLb)
	if sl.fallbackSubset != nil {
		add("fallback", sl.fallbackSubset.lb)
	}
	var walk func(prefix string, m types.LbSubsetMap)
	walk = func(prefix string, m types.LbSubsetMap) {
		ks := make([]string, 0, len(m))
		for k := range m {
			ks = append(ks, k)
		}
		sort.Strings(ks)
		for _, k := range ks {
			vm := m[k]
			vs := make([]string, 0, len(vm))
			for v := range vm {
				vs = append(vs, v)
			}
			sort.Strings(vs)
			for _, v := range vs {
				e := vm[v]
				if e == nil {
					continue
				}
				path := prefix + k + "=" + v + ";"
				if e.Initialized() {
					add(path, e.LoadBalancer())
				}
				if e.Children() != nil {
					walk(path, e.Children())
				}
			}
		}
	}
	walk("", sl.subSets)
	return out
}

func c05sScriptAll(lb types.LoadBalancer, info types.ClusterInfo, rnd *rand.Rand) ([]c05sInner, error) {
	inners := c05sInners(lb)
	for _, in := range inners {
		if err := c05Script(in.lb, info, rnd); err != nil {
			return inners, fmt.Errorf("inner balancer %s: %v", in.path, err)
		}
	}
	return inners, nil
}

// c05sMaglevKeys: for every inner maglev balancer and every index of its table
// the smallest hash key that looks it up, plus a wrapping and the largest key
// (c05MaglevKeys), de-duplicated in order of first appearance.
func c05sMaglevKeys(inners []c05sInner) []uint64 {
	var keys []uint64
	seen := map[uint64]bool{}
	for _, in := range inners {
		hs := c05LbHosts(in.lb)
		if hs == nil {
			continue
		}
		for _, k := range c05MaglevKeys(in.lb, hs.Size()) {
			if !seen[k] {
				seen[k] = true
				keys = append(keys, k)
			}
		}
	}
	if len(keys) == 0 {
		keys = []uint64{0}
	}
	return keys
}

// c05sFingerprint: per inner balancer its place, WHICH members of the current
// host set it selects from (index in members, -1 = a host object that is not a
// current member, e.g. one of an earlier generation) and its mutable state.
func c05sFingerprint(inners []c05sInner, members []types.Host) string {
	var sb strings.Builder
	for _, in := range inners {
		hs := c05LbHosts(in.lb)
		if hs == nil {
			fmt.Fprintf(&sb, "%s?%T ", in.path, in.lb)
			continue
		}
		sb.WriteString(in.path)
		sb.WriteByte('[')
		hs.Range(func(h types.Host) bool {
			idx := -1
			for i, m := range members {
				if m == h {
					idx = i
					break
				}
			}
			fmt.Fprintf(&sb, "%d,", idx)
			return true
		})
		fmt.Fprintf(&sb, "]%s ", c05Fingerprint(in.lb, hs))
	}
	return sb.String()
}

// ---------------------------------------------------------------------------
// the oracle

const (
	c05sKindNil       = "no host returned while a healthy eligible host exists"
	c05sKindOutside   = "host outside the eligible set returned while a healthy eligible host exists"
	c05sKindUnhealthy = "unhealthy host returned while a healthy eligible host exists"
	c05sKindPanic     = "ChooseHost panicked while a healthy eligible host exists"
)

// c05sJudge applies the statement to one result. members = the current host
// set, healthy / eligible = bit i set: member i is healthy / in E. useE false:
// only membership is judged (context without criteria). It never calls a
// method on got.
func c05sJudge(members []types.Host, healthy, eligible uint32, useE bool, got types.Host) (outcome int, violation string, idx int) {
	idx = -1
	if got != nil {
		for i, m := range members {
			if m == got {
				idx = i
				break
			}
		}
	}
	eh := healthy & eligible
	switch {
	case got == nil:
		if useE && eh != 0 {
			return c05sOutNilBad, c05sKindNil, idx
		}
		return c05sOutNil, c05OK, idx
	case idx < 0:
		return c05sOutForeign, c05KindNotMember, idx
	case !useE:
		return c05sOutMember, c05OK, idx
	case eh == 0:
		return c05sOutNotCompared, c05OK, idx
	case eligible&(1<<uint(idx)) == 0:
		return c05sOutOutside, c05sKindOutside, idx
	case healthy&(1<<uint(idx)) == 0:
		return c05sOutUnhealthy, c05sKindUnhealthy, idx
	}
	return c05sOutHealthy, c05OK, idx
}

const (
	c05sOutHealthy = iota
	c05sOutNil
	c05sOutNotCompared
	c05sOutMember
	c05sOutNilBad
	c05sOutForeign
	c05sOutOutside
	c05sOutUnhealthy
	c05sOutPanic
	c05sOutN
)

var c05sOutNames = [c05sOutN]string{"healthy eligible member", "nil: no healthy eligible host", "member, no healthy eligible host (statement silent: not compared)",
	"member (no criteria: membership only)", "nil", "foreign", "outside E", "unhealthy", "panic"}

func c05sKey(builder, policy, wclass, class, kind string) string {
	return fmt.Sprintf("%s lb=%s %s-weights | %s: %s", c05sLayer(builder), policy, wclass, class, kind)
}

// c05sLayer names the balancer layer of a finding key; builder "" = a cluster
// without subset selectors (part subset-consumers only).
func c05sLayer(builder string) string {
	if builder == "" {
		return "plain balancer (no subset selectors)"
	}
	return fmt.Sprintf("subset(%s builder)", builder)
}

func c05sPop(m uint32) int {
	n := 0
	for ; m != 0; m &= m - 1 {
		n++
	}
	return n
}

// ---------------------------------------------------------------------------
// the enumeration parts (inputs)

// c05sCase is one configuration with the alternatives it is run under; every
// alternative is one build + all health patterns x criteria x runs.
type c05sCase struct {
	Deep     bool            `json:"deep"` // every selection-draw sequence / every hash key x retry index; otherwise one run per draw value
	Cfg      c15ref.Config   `json:"cfg"`
	Crits    [][]c15ref.Pair `json:"crits"`    // criteria asked, each sorted by key; a context without criteria is always asked too
	Variants []c05sVariant   `json:"variants"` // (builder, inner policy, weight shape, construction draw) alternatives
}

// c05sVariant is one (builder, policy, weight shape, K) alternative of a configuration.
type c05sVariant struct {
	Builder string `json:"builder"` // "pre-index" (default build mode) | "filter"
	Policy  string `json:"policy"`
	Shape   string `json:"shape"` // host weights: "equal" | "inc" (1,2,3,..)
	K       int    `json:"k"`     // construction draw of every inner balancer (C05 alphabet index)
}

// c05sViol is one deviation found while a variant was run.
type c05sViol struct {
	v                   c05sVariant
	wclass, class, kind string
	detail              string
}

type c05sDKey struct {
	builder, policy, shape, class, reason string
	n, ne, neh, nh                        int
}

type c05sOKey struct {
	policy, class string
	out           int
}

type c05sEnv struct {
	part     string
	seenD    map[c05sDKey]struct{}
	seenO    map[c05sOKey]struct{}
	lookups  int64
	builds   int64
	runs     int64
	perPol   map[string]int64
	notFull  int64 // filter builder: the full balancer does not select from the published set object (sanity of the build-mode switch)
	preShare int64
	mmcs     map[string]api.MetadataMatchCriteria
	// variant runs one alternative of a configuration; nil: checkVariant (the
	// ChooseHost oracle of this file). Part subset-consumers plugs in its own.
	variant func(p *vreport.Part, c *c05sCase, v c05sVariant, collect func(c05sViol))
}

func c05sNewEnv(part string) *c05sEnv {
	return &c05sEnv{part: part, seenD: map[c05sDKey]struct{}{}, seenO: map[c05sOKey]struct{}{}, perPol: map[string]int64{}, mmcs: map[string]api.MetadataMatchCriteria{}}
}

func (e *c05sEnv) mmc(crit []c15ref.Pair) api.MetadataMatchCriteria {
	k := fmt.Sprintf("%q", crit)
	if m, ok := e.mmcs[k]; ok {
		return m
	}
	m := c05sMmc(crit)
	e.mmcs[k] = m
	return m
}

func (e *c05sEnv) flush(p *vreport.Part) {
	for k := range e.seenD {
		p.Distinct(fmt.Sprint(k))
	}
	for k := range e.seenO {
		p.Outcome(fmt.Sprintf("%s|%s|%s", k.policy, k.class, c05sOutNames[k.out]))
	}
	p.Note("lookups", e.lookups)
	p.Note("subset_balancers_built", e.builds)
	p.Note("runs", e.runs)
	for k, v := range e.perPol {
		p.Note("lookups_"+k, v)
	}
	p.Note("filter_mode_full_balancer_on_other_set_object", e.notFull)
	p.Note("preindex_mode_full_balancer_on_published_set_object", e.preShare)
}

func c05sAddrs(n int) []string {
	a := make([]string, n)
	for i := range a {
		a[i] = fmt.Sprintf("10.55.0.%d:80", i+1)
	}
	return a
}

func c05sCalls(pol types.LoadBalancerType, n int, deep bool) int {
	switch pol {
	case types.RoundRobin, types.WeightedRoundRobin:
		return n + 1 // the cursor passes every member of every inner set
	case types.Random:
		if deep {
			return 2
		}
		return 1
	case types.LeastActiveRequest, types.LeastActiveConnection, types.PeakEwma:
		if deep && n <= 2 {
			return 2
		}
		return 1
	case types.RequestRoundRobin:
		if deep {
			return 3
		}
		return n + 1
	}
	if deep {
		return 3 // maglev: first try + 2 retries on one context
	}
	return 2
}

// check runs every variant of the configuration and reports the deviations. A
// deviation (builder, expected class, kind) that shows under EVERY inner policy
// run for the configuration is one finding ("every inner policy": the subset
// layer, not one policy, is at fault) whose replayable case is the
// configuration with all variants of that builder; otherwise each (policy,
// weight class) is a finding of its own with the single variant as its case.
func (e *c05sEnv) check(p *vreport.Part, c c05sCase) {
	type gkey struct{ builder, class, kind string }
	type vkey struct {
		g              gkey
		policy, wclass string
	}
	var order []gkey
	groups := map[gkey][]c05sViol{}
	seen := map[vkey]bool{}
	collect := func(x c05sViol) {
		g := gkey{x.v.Builder, x.class, x.kind}
		vk := vkey{g, x.v.Policy, x.wclass}
		if seen[vk] {
			return
		}
		seen[vk] = true
		if _, ok := groups[g]; !ok {
			order = append(order, g)
		}
		groups[g] = append(groups[g], x)
	}
	runVariant := e.checkVariant
	if e.variant != nil {
		runVariant = e.variant
	}
	for _, v := range c.Variants {
		runVariant(p, &c, v, collect)
	}
	for _, g := range order {
		vs := groups[g]
		ran, failed := map[string]bool{}, map[string]bool{}
		var sub []c05sVariant
		for _, v := range c.Variants {
			if v.Builder == g.builder {
				ran[v.Policy] = true
				sub = append(sub, v)
			}
		}
		for _, x := range vs {
			failed[x.v.Policy] = true
		}
		if len(ran) >= 2 && len(failed) == len(ran) {
			cc := c
			cc.Variants = sub
			p.Violation(fmt.Sprintf("%s every %s | %s: %s", c05sLayer(g.builder), map[bool]string{true: "policy", false: "inner policy"}[g.builder == ""], g.class, g.kind),
				fmt.Sprintf("the same under each of the %d inner policies run for this configuration; first: %s", len(ran), vs[0].detail), cc)
			continue
		}
		for _, x := range vs {
			cc := c
			cc.Variants = []c05sVariant{x.v}
			p.Violation(c05sKey(x.v.Builder, x.v.Policy, x.wclass, x.class, x.kind), x.detail, cc)
		}
	}
}

func (e *c05sEnv) checkVariant(p *vreport.Part, c *c05sCase, v c05sVariant, collect func(c05sViol)) {
	n := len(c.Cfg.Hosts)
	if n > 8 || len(c.Cfg.Selectors) == 0 || v.K < 0 || v.K > 15 {
		return
	}
	pol := types.LoadBalancerType(v.Policy)
	cl := c05sNewCluster("c05s-"+v.Policy, pol, &c.Cfg)
	snap0 := cl.Snapshot()
	if snap0 == nil {
		vreport.HarnessError("C05", e.part, "fresh cluster has no snapshot")
		return
	}
	info := snap0.ClusterInfo()
	if !info.LbSubsetInfo().IsEnabled() {
		vreport.HarnessError("C05", e.part, fmt.Sprintf("subset balancing is not enabled for selectors %v", c.Cfg.Selectors))
		return
	}
	weights := c05Weights(v.Shape, n)
	wclass := c05WeightClass(weights)
	hosts := c05sMakeHosts(info, c05sAddrs(n), c.Cfg.Hosts, weights)
	all := uint(1)<<uint(n) - 1
	c05SetHealth(hosts, all)
	c05SetCounters(hosts, c05sCounterMask)
	defer c05SetHealth(hosts, all)
	defer c05SetCounters(hosts, 0)

	src := &c05sSrc{constant: v.K}
	rnd := rand.New(src)
	buildPanic := c05sPublish(cl, v.Builder, hosts, rnd)
	e.builds++
	snap := cl.Snapshot()
	if snap == nil || snap.LoadBalancer() == nil || snap.HostSet() == nil {
		collect(c05sViol{v, wclass, "cluster snapshot", "no snapshot / load balancer after UpdateHosts", buildPanic})
		return
	}
	lb := snap.LoadBalancer()
	note := ""
	if buildPanic != "" {
		note = " (UpdateHosts panicked: " + buildPanic + "; lookups go to the snapshot that is published)"
		p.Count("update_hosts_panics", 1)
	}
	// (a) on the snapshot itself: the published host set is the one just handed over
	if got := c05HostsOf(snap.HostSet()); !c05sSameHosts(got, hosts) {
		collect(c05sViol{v, wclass, "cluster snapshot", "published host set is not the set handed to the last UpdateHosts",
			fmt.Sprintf("handed over %d hosts, snapshot holds %d%s", len(hosts), len(got), note)})
	}
	inners, err := c05sScriptAll(lb, info, rnd)
	if err != nil {
		vreport.HarnessError("C05", e.part, err.Error())
		return
	}
	if sl, ok := lb.(*subsetLoadBalancer); ok {
		same := c05LbHosts(sl.fullLb) == snap.HostSet()
		if v.Builder == "filter" && !same {
			e.notFull++
		}
		if v.Builder != "filter" && same {
			e.preShare++
		}
	} else if buildPanic == "" {
		vreport.HarnessError("C05", e.part, fmt.Sprintf("cluster with subset selectors publishes a %T", lb))
		return
	}
	for _, in := range inners {
		if got := c05ConcreteType(in.lb); got != v.Policy {
			vreport.HarnessError("C05", e.part, fmt.Sprintf("inner balancer %s of a %s cluster is a %s", in.path, v.Policy, got))
			return
		}
	}
	var keys []uint64
	if pol == types.Maglev {
		keys = c05sMaglevKeys(inners)
	}
	src.constant = -1
	calls := c05sCalls(pol, n, c.Deep)
	selAlphabet := n
	if selAlphabet < 1 {
		selAlphabet = 1
	}

	type probe struct {
		crit []c15ref.Pair
		mmc  api.MetadataMatchCriteria
		useE bool
		exp  c15ref.Expect
		ctx  *c05sCtx // policies that do not read the request context: one context per criteria
	}
	probes := make([]probe, 0, len(c.Crits)+1)
	for _, cr := range c.Crits {
		probes = append(probes, probe{crit: cr, mmc: e.mmc(cr), useE: true, exp: c15ref.Reference(&c.Cfg, cr)})
	}
	probes = append(probes, probe{exp: c15ref.Expect{Class: "context without criteria", Reason: "-"}})
	if !c05UsesContext(pol) {
		for i := range probes {
			probes[i].ctx = &c05sCtx{c05LbCtx: c05NewCtx(info, 0, -1), mmc: probes[i].mmc}
		}
	}

	var lookups int64
	for hm := uint(0); hm <= all; hm++ {
		c05SetHealth(hosts, hm)
		healthy := uint32(hm)
		for pi := range probes {
			q := &probes[pi]
			E := q.exp.Allowed
			dk := c05sDKey{v.Builder, v.Policy, v.Shape, q.exp.Class, q.exp.Reason, n, c05sPop(E), c05sPop(E & healthy), c05sPop(healthy)}
			if _, ok := e.seenD[dk]; !ok {
				e.seenD[dk] = struct{}{}
			}
			// one run = `calls` consecutive ChooseHost calls on one request context
			run := func(ctx *c05sCtx, what func() string) {
				e.runs++
				for call := 0; call < calls; call++ {
					got, pan := c05Choose(lb, ctx)
					lookups++
					out, viol, idx := c05sJudge(hosts, healthy, E, q.useE, got)
					if pan != nil {
						out, viol = c05sOutPanic, c05OK
						if q.useE && E&healthy != 0 {
							viol = c05sKindPanic
						} else {
							p.Count("panics_without_healthy_eligible_host_not_compared", 1)
						}
					}
					ok := c05sOKey{v.Policy, q.exp.Class, out}
					if _, seen := e.seenO[ok]; !seen {
						e.seenO[ok] = struct{}{}
					}
					if viol != c05OK {
						collect(c05sViol{v, wclass, q.exp.Class, viol,
							fmt.Sprintf("%s builder, inner policy %s, hosts %v weights %v, selectors %v fallback policy %d default %v; healthy mask %0*b (bit i = host i), criteria %v (eligible set E = %s: %s, %s), %s, call %d of the run: returned member index %d (%s)%s%s",
								v.Builder, v.Policy, c.Cfg.Hosts, weights, c.Cfg.Selectors, c.Cfg.Policy, c.Cfg.Default, n, hm, q.crit, c15ref.MaskString(E), q.exp.Class, q.exp.Reason,
								what(), call+1, idx, c05sOutNames[out], c05PanicText(pan), note)})
					}
				}
			}
			newCtx := func(hash uint64, init int) *c05sCtx {
				return &c05sCtx{c05LbCtx: c05NewCtx(info, hash, init), mmc: q.mmc}
			}
			switch {
			case c05UsesContext(pol):
				nk := 1
				if pol == types.Maglev {
					nk = len(keys)
				}
				inits := []int{-1}
				if c.Deep {
					// a retry index left by an earlier attempt, also one written against a larger set
					for i := 0; i <= n; i++ {
						inits = append(inits, i)
					}
				}
				for hk := 0; hk < nk; hk++ {
					hash := uint64(0)
					if pol == types.Maglev {
						hash = keys[hk]
					}
					for _, init := range inits {
						init := init
						run(newCtx(hash, init), func() string { return fmt.Sprintf("hash key %d, retry index left in the context %d", hash, init) })
					}
				}
			case c.Deep:
				ctx := q.ctx
				for script := []int{}; script != nil; {
					src.script, src.pos = script, 0
					run(ctx, func() string {
						return fmt.Sprintf("selection draws so far (values a, Int63 = a<<32) %v", src.script[:src.pos])
					})
					script = c05NextScript(src.script[:src.pos], selAlphabet)
				}
			default:
				ctx := q.ctx
				for d := 0; d < selAlphabet; d++ {
					d := d
					src.constant, src.draws = 2*d, 0
					run(ctx, func() string { return fmt.Sprintf("every selection draw of the run answers a = %d", d) })
					if src.draws == 0 {
						break // the run does not draw: one run
					}
				}
				src.constant = -1
			}
		}
	}
	e.lookups += lookups
	e.perPol[v.Policy] += lookups
	p.EvalN(int(lookups))
}

func c05sSameHosts(a, b []types.Host) bool {
	if len(a) != len(b) {
		return false
	}
	for i := range a {
		if a[i] != b[i] {
			return false
		}
	}
	return true
}

// ---- alphabets

func c05sP(kv ...string) []c15ref.Pair {
	ps := []c15ref.Pair{}
	for i := 0; i+1 < len(kv); i += 2 {
		ps = append(ps, c15ref.Pair{K: kv[i], V: kv[i+1]})
	}
	return ps
}

func c05sReadsWeights(p types.LoadBalancerType) bool {
	return p == types.WeightedRoundRobin || p == types.LeastActiveRequest || p == types.LeastActiveConnection || p == types.PeakEwma
}

// c05sHasConstructionDraw: building the balancer draws (initial cursor of an
// embedded round-robin balancer; EDF pre-advance, which exists only with
// unequal weights). Least-request / least-connection with equal weights, maglev
// and request-RR never draw while they are built.
func c05sHasConstructionDraw(p types.LoadBalancerType, shape string) bool {
	switch p {
	case types.Maglev, types.RequestRoundRobin:
		return false
	case types.LeastActiveRequest, types.LeastActiveConnection:
		return shape != "equal"
	}
	return true
}

// c05sVariants: both builders x every policy x {equal weights; (1,2,3,..) for the
// policies that read weights, n >= 2} x K (allK: every alphabet value 0..2n-1 for
// policies that draw while they are built; otherwise 0).
func c05sVariants(n int, allK bool) []c05sVariant {
	var out []c05sVariant
	for _, b := range []string{"pre-index", "filter"} {
		for _, pol := range c05Policies {
			for _, shape := range []string{"equal", "inc"} {
				if shape == "inc" && (!c05sReadsWeights(pol) || n < 2) {
					continue
				}
				ks := 1
				if allK && c05sHasConstructionDraw(pol, shape) && n >= 2 {
					ks = 2 * n
				}
				for k := 0; k < ks; k++ {
					out = append(out, c05sVariant{Builder: b, Policy: string(pol), Shape: shape, K: k})
				}
			}
		}
	}
	return out
}

type c05sSmallBound struct {
	name      string
	shapes    [][]c15ref.Pair // host metadata alphabet
	maxHosts  int             // every multiset of <= maxHosts shapes
	bigShapes []int           // and every multiset of exactly maxHosts+1 hosts over these shape indexes ...
	bigSels   [][][]string    // ... under these selector lists
	bigFB     []c15ref.FallbackAlt
	sels      [][][]string
	fbs       []c15ref.FallbackAlt
	crits     [][]c15ref.Pair
	deep      bool
	allK      bool
	// maglev builds a 65537-entry table per inner balancer (~0.5 ms each): it is
	// an inner policy of the configurations with <= maglevMaxHosts hosts whose
	// selector list is maglevSel only (nil: every configuration)
	maglevSel      [][]string
	maglevMaxHosts int
}

func c05sSameSel(a, b [][]string) bool { return fmt.Sprintf("%q", a) == fmt.Sprintf("%q", b) }

func c05sCritList(ps []c15ref.Probe) [][]c15ref.Pair {
	var out [][]c15ref.Pair
	for _, p := range ps {
		if p.Kind == "criteria" && p.Sorted() {
			out = append(out, p.Crit)
		}
	}
	return out
}

// criteria of the two-key scopes: every assignment a in {absent,1,2,9} x b in
// {absent,1,2} (9 = a value no host carries), the unknown key z alone, with a,
// with a and b (superset of every selector), and b with the unknown value.
func c05sCrits2() [][]c15ref.Pair {
	var out [][]c15ref.Pair
	for _, a := range []string{"", "1", "2", "9"} {
		for _, b := range []string{"", "1", "2"} {
			cr := []c15ref.Pair{}
			if a != "" {
				cr = append(cr, c15ref.Pair{K: "a", V: a})
			}
			if b != "" {
				cr = append(cr, c15ref.Pair{K: "b", V: b})
			}
			out = append(out, cr)
		}
	}
	return append(out, c05sP("z", "1"), c05sP("a", "1", "z", "1"), c05sP("a", "1", "b", "1", "z", "1"), c05sP("a", "1", "b", "9"))
}

var (
	c05sShapes5 = [][]c15ref.Pair{c05sP(), c05sP("a", "1"), c05sP("a", "1", "b", "1"), c05sP("a", "1", "b", "2"), c05sP("a", "2", "b", "1")}
	c05sSelA    = [][]string{{"a"}}
	c05sSelAB   = [][]string{{"a", "b"}}
	c05sSelAAB  = [][]string{{"a"}, {"a", "b"}}
	c05sSelA_B  = [][]string{{"a"}, {"b"}}
)

func c05sFallbacks(defaults ...[]c15ref.Pair) []c15ref.FallbackAlt {
	return c15ref.Fallbacks(defaults, false)
}

// breadth: wide over configurations, one run per selection-draw value.
func c05sBreadthBound() c05sSmallBound {
	b := c05sSmallBound{name: "breadth", shapes: c05sShapes5, maxHosts: 3, bigShapes: []int{1, 2, 3, 4},
		sels:    [][][]string{c05sSelA, c05sSelAB, c05sSelAAB, c05sSelA_B},
		fbs:     c05sFallbacks(c05sP(), c05sP("a", "1"), c05sP("b", "9")),
		bigSels: [][][]string{c05sSelAAB}, bigFB: c05sFallbacks(c05sP("a", "1")),
		crits: c05sCrits2(), maglevSel: c05sSelAAB, maglevMaxHosts: 3}
	if vreport.Thorough() {
		b.maglevMaxHosts = 4
		// 7 shapes: no metadata, one key only (a / b), both keys with overlapping values
		b.shapes = [][]c15ref.Pair{c05sP(), c05sP("a", "1"), c05sP("b", "1"), c05sP("a", "1", "b", "1"), c05sP("a", "1", "b", "2"), c05sP("a", "2", "b", "1"), c05sP("a", "2", "b", "2")}
		b.maxHosts = 4
		b.bigShapes = []int{1, 3, 4, 5} // 5 hosts over {a1, a1b1, a1b2, a2b1}
		b.sels = [][][]string{c05sSelA, {{"b"}}, c05sSelAB, {{"b", "a"}}, c05sSelAAB, c05sSelA_B, {{"b"}, {"a", "b"}}}
		b.fbs = c05sFallbacks(c05sP(), c05sP("a", "1"), c05sP("a", "1", "b", "2"), c05sP("b", "9"))
		b.bigSels = [][][]string{c05sSelAB, c05sSelAAB}
		b.bigFB = c05sFallbacks(c05sP("a", "1"))[1:]
		// every assignment a, b in {absent,1,2,9} x z in {absent,1}
		b.crits = nil
		for _, cr := range c05sCritList(c15ref.Criteria([]string{"a", "b", "z"}, []string{"1", "2", "9"}, false)) {
			if n := len(cr); n == 0 || cr[n-1].K != "z" || cr[n-1].V == "1" {
				b.crits = append(b.crits, cr)
			}
		}
	}
	return b
}

// depth: fewer configurations, every selection-draw sequence, every hash key x
// retry index, every construction draw.
func c05sDepthBound() c05sSmallBound {
	b := c05sSmallBound{name: "depth", shapes: [][]c15ref.Pair{c05sP("a", "1"), c05sP("a", "1", "b", "1"), c05sP("a", "1", "b", "2"), c05sP("a", "2", "b", "1")}, maxHosts: 3,
		sels: [][][]string{c05sSelAAB}, fbs: c05sFallbacks(c05sP("a", "1")),
		crits: [][]c15ref.Pair{c05sP(), c05sP("a", "1"), c05sP("a", "1", "b", "1"), c05sP("a", "1", "b", "2"), c05sP("a", "2"), c05sP("a", "9"), c05sP("b", "1"), c05sP("z", "1")},
		deep:  true, allK: true}
	if vreport.Thorough() {
		b.crits = c05sCrits2()
		b.shapes = c05sShapes5
		b.bigShapes = []int{1, 2, 3, 4}
		b.sels = [][][]string{c05sSelAB, c05sSelAAB, c05sSelA_B}
		b.bigSels = [][][]string{c05sSelAAB}
		b.fbs = c05sFallbacks(c05sP(), c05sP("a", "1"), c05sP("b", "9"))
		b.bigFB = c05sFallbacks(c05sP("a", "1"))
	}
	return b
}

func (b c05sSmallBound) String() string {
	s := fmt.Sprintf("host metadata shapes %v; host sets: every multiset of 0..%d shapes", b.shapes, b.maxHosts)
	if len(b.bigShapes) > 0 {
		var bs [][]c15ref.Pair
		for _, i := range b.bigShapes {
			bs = append(bs, b.shapes[i])
		}
		s += fmt.Sprintf(" plus every multiset of exactly %d hosts over %v (those under selector lists %v and %d fallback alternatives)", b.maxHosts+1, bs, b.bigSels, len(b.bigFB))
	}
	s += fmt.Sprintf("; selector lists %v; fallback alternatives %v (policy 0 none, 1 any-endpoint, 2 default-subset); criteria (sorted by key) %v plus a context without criteria; EVERY health pattern (2^n); both builders (pre-index = default build mode, filter) x all 8 inner policies x weights {equal; (1,2,3,..) for WRR / least-request / least-connection / peak-EWMA, n>=2}; active request+connection counter 1 on hosts 0 and 2; ",
		b.sels, b.fbs, b.crits)
	if b.maglevSel != nil {
		s += fmt.Sprintf("inner policy maglev (one 65537-entry table per inner balancer) only for the configurations of <= %d hosts with selector list %v; ", b.maglevMaxHosts, b.maglevSel)
	}
	if b.deep {
		s += "construction draws: every alphabet value K in 0..2n-1 for the policies that draw while they are built (all inner balancers of one build answer K); selection draws: EVERY draw sequence (odometer, alphabet a in 0..n-1) of a run; run = 2 calls (random; least-*/peak-EWMA for n<=2, else 1), n+1 calls (RR, WRR), maglev: every table-index / wrapping / largest hash key of every inner table x retry index none/0..n x 3 entries on one context, request-RR: retry index none/0..n x 3 entries"
	} else {
		s += "construction draws K=0; selection draws: one run per draw value a in 0..n-1 (every draw of the run answers a); run = 1 call (random, least-*, peak-EWMA), n+1 calls (RR, WRR, request-RR on one context), maglev: every table-index / wrapping / largest hash key of every inner table x 2 entries on one context"
	}
	return s
}

func (b c05sSmallBound) gen(yield func(c05sCase) bool) {
	si, sn := vreport.Shard()
	idx := 0
	emit := func(ms []int, sels [][][]string, fbs []c15ref.FallbackAlt) bool {
		hosts := [][]c15ref.Pair{}
		for _, s := range ms {
			hosts = append(hosts, b.shapes[s])
		}
		for _, sel := range sels {
			for _, fb := range fbs {
				var vs []c05sVariant
				for _, v := range c05sVariants(len(hosts), b.allK) {
					if v.Policy == string(types.Maglev) && b.maglevSel != nil && (len(hosts) > b.maglevMaxHosts || !c05sSameSel(sel, b.maglevSel)) {
						continue
					}
					vs = append(vs, v)
				}
				idx++
				if idx%sn != si {
					continue
				}
				if !yield(c05sCase{Deep: b.deep, Cfg: c15ref.Config{Hosts: hosts, Selectors: sel, Policy: fb.Policy, Default: fb.Default}, Crits: b.crits, Variants: vs}) {
					return false
				}
			}
		}
		return true
	}
	if !c15ref.Multisets(len(b.shapes), b.maxHosts, func(ms []int) bool { return emit(ms, b.sels, b.fbs) }) {
		return
	}
	if len(b.bigShapes) > 0 {
		c15ref.Multisets(len(b.bigShapes), b.maxHosts+1, func(ms []int) bool {
			if len(ms) != b.maxHosts+1 {
				return true
			}
			real := make([]int, len(ms))
			for i, j := range ms {
				real[i] = b.bigShapes[j]
			}
			return emit(real, b.bigSels, b.bigFB)
		})
	}
}

const c05sRule = "complete cartesian product configuration x builder x inner policy x weight shape x construction draw; per (configuration, alternative) ONE subset balancer built through NewCluster + simpleCluster.UpdateHosts, then every health pattern x every criteria x the runs of the policy; one evaluation = one judged ChooseHost result: (a) member of the current host set by identity, (b) E = eligible hosts per the independent reference (c15ref.Reference: subset hit, else fallback none / any-endpoint / default-subset): a healthy host of E whenever E has one, nil only when E has none; not compared: the result when E has no healthy host (membership still is), eligibility for a context without criteria (membership only); the published host set must be the one handed to UpdateHosts; distinct = (builder, policy, weights, expected class, fallback reason, n, |E|, |healthy E|, |healthy|); outcome = policy x expected class x result kind; a deviation seen under every inner policy run for a configuration is one finding (\"every inner policy\") whose replay case is the configuration with all alternatives of that builder, otherwise one finding per (policy, weight class) with that alternative as replay case"

func c05sRunSmall(b c05sSmallBound, budget time.Duration) {
	part := "subset-" + b.name
	p := vreport.Begin("C05", part, budget)
	e := c05sNewEnv(part)
	complete := vreport.Run(p, b.gen, func(p *vreport.Part, c c05sCase) {
		e.check(p, c)
		if p.WantSample() {
			s := c
			s.Crits, s.Variants = s.Crits[:1], s.Variants[:1]
			p.Sample(s)
		}
	})
	e.flush(p)
	p.End(complete, b.String(), c05sRule)
}

// ---- wide selectors: every selector size 1..8 (append's capacity boundaries)

type c05sWideBound struct {
	sizes    []int
	bases    []string // "prefix" | "suffix" of c15ref.WideKeys
	dupHost  bool     // a 4th host with the metadata of host 1 (subsets of two hosts)
	twoPos   bool     // also two varied keys (first and last of P), 4 hosts
	deep     bool
	allFB    bool
	selLists int
}

func c05sWideBoundFor() c05sWideBound {
	b := c05sWideBound{sizes: []int{1, 2, 3, 4, 5, 6, 7, 8}, bases: []string{"prefix"}}
	if vreport.Thorough() {
		b.bases = []string{"prefix", "suffix"}
		b.dupHost, b.twoPos, b.allFB, b.deep = true, true, true, true
	}
	return b
}

// c05sWideHosts: all hosts carry all 8 keys with the fixed value "x", except:
// host 0: P[pos] = "1"; host 1: P[pos] = "2"; host 2: as host 0 but WITHOUT P's
// last key (partial metadata; for pos = last key: without that key);
// dup: host 3 = metadata of host 1. twoPos (pos2 >= 0): hosts 0..3 = the four
// assignments of {1,2} to P[pos], P[pos2], host 4 lacks P's last key.
// The LAST host carries no selector key at all. Every host also carries the
// marker key "m" = its index (never a selector key): the default subset
// {m: index of the last host} selects exactly that host, which is in no subset
// of any selector - whichever sibling subset a defect loses, the fallback then
// lands outside the eligible set (a verdict that does not depend on Go's map
// iteration order inside the builders).
func c05sWideHosts(P []string, pos, pos2 int, dup bool) [][]c15ref.Pair {
	mk := func(set map[string]string, drop string) []c15ref.Pair {
		h := []c15ref.Pair{}
		for _, k := range c15ref.WideKeys {
			if k == drop {
				continue
			}
			v := c15ref.WideFixed
			if s, ok := set[k]; ok {
				v = s
			}
			h = append(h, c15ref.Pair{K: k, V: v})
		}
		return h
	}
	last := P[len(P)-1]
	var hs [][]c15ref.Pair
	if pos2 >= 0 {
		for _, v1 := range []string{"1", "2"} {
			for _, v2 := range []string{"1", "2"} {
				hs = append(hs, mk(map[string]string{P[pos]: v1, P[pos2]: v2}, ""))
			}
		}
		hs = append(hs, mk(map[string]string{P[pos]: "1", P[pos2]: "1"}, last))
	} else {
		hs = [][]c15ref.Pair{mk(map[string]string{P[pos]: "1"}, ""), mk(map[string]string{P[pos]: "2"}, ""), mk(map[string]string{P[pos]: "1"}, last)}
		if dup {
			hs = append(hs, mk(map[string]string{P[pos]: "2"}, ""))
		}
	}
	hs = append(hs, []c15ref.Pair{})
	for i := range hs {
		hs[i] = append(hs[i], c15ref.Pair{K: c05sMarker, V: fmt.Sprint(i)})
		sort.Slice(hs[i], func(a, b int) bool { return hs[i][a].K < hs[i][b].K })
	}
	return hs
}

const c05sMarker = "m"

// c05sWideCrits: on key set P: the varied key(s) take 1, 2 and the unknown
// value 9, every other key x; P with its first non-varied key set to 9; key
// set P minus its last key (a selector in the second selector list); the
// varied key alone; P plus the unknown key zz; the empty criteria.
func c05sWideCrits(P []string, pos, pos2 int) [][]c15ref.Pair {
	var out [][]c15ref.Pair
	seen := map[string]bool{}
	add := func(keys []string, set map[string]string) {
		ks := append([]string{}, keys...)
		sort.Strings(ks)
		cr := []c15ref.Pair{}
		for _, k := range ks {
			v := c15ref.WideFixed
			if s, ok := set[k]; ok {
				v = s
			}
			cr = append(cr, c15ref.Pair{K: k, V: v})
		}
		if k := fmt.Sprintf("%q", cr); !seen[k] {
			seen[k] = true
			out = append(out, cr)
		}
	}
	vals := []string{"1", "2", c15ref.UnknownValue}
	for _, v := range vals {
		if pos2 < 0 {
			add(P, map[string]string{P[pos]: v})
			continue
		}
		for _, v2 := range vals {
			add(P, map[string]string{P[pos]: v, P[pos2]: v2})
		}
	}
	for i, k := range P {
		if i != pos && i != pos2 {
			add(P, map[string]string{P[pos]: "1", k: c15ref.UnknownValue})
			break
		}
	}
	if len(P) >= 2 {
		for _, v := range []string{"1", "2"} {
			add(P[:len(P)-1], map[string]string{P[pos]: v})
		}
	}
	add([]string{P[pos]}, map[string]string{P[pos]: "1"})
	add(append(append([]string{}, P...), "zz"), map[string]string{P[pos]: "1", "zz": "1"})
	add(nil, nil)
	return out
}

func (b c05sWideBound) String() string {
	return fmt.Sprintf("keys %v (byte order); primary selector P = the %v of the keys of every size %v; selector lists [P] and (n>=2) [P minus its last key, P]; hosts carry all 8 keys with value %q except the varied key P[pos], EVERY position pos in P: host 0 P[pos]=1, host 1 P[pos]=2, host 2 as host 0 but lacking P's last key%s%s, a last host without any selector key; every host also carries the marker key m = its index; fallback: none, any-endpoint, default-subset {m: the last host}%s; criteria: P with the varied key(s) in {1,2,unknown 9}, P with another key unknown, P minus its last key with the varied key in {1,2}, the varied key alone, P plus unknown key zz, empty criteria, plus a context without criteria; EVERY health pattern; both builders x all 8 inner policies x weights {equal; (1,2,3,..) for the weight-reading policies}; construction draws K=0; %s%s",
		c15ref.WideKeys, b.bases, b.sizes, c15ref.WideFixed,
		map[bool]string{true: ", host 3 = metadata of host 1", false: ""}[b.dupHost],
		map[bool]string{true: "; also two varied keys (first and last of P, n>=2): hosts 0..3 = all assignments of {1,2}, host 4 lacking P's last key", false: ""}[b.twoPos],
		map[bool]string{true: ", default-subset {P[pos]:2} / {} / {all of P = x except varied = 1}, any-endpoint with a configured default", false: ""}[b.allFB],
		map[bool]string{true: "", false: "inner policy maglev (one 65537-entry table per inner balancer) only under selector list [P] with the first / last key of P varied; "}[b.deep],
		map[bool]string{true: "selection draws: every draw sequence; maglev every key x retry index x 3 entries", false: "selection draws: one run per draw value a in 0..n-1; run = 1 call (random, least-*, peak-EWMA), n+1 calls (RR, WRR, request-RR), maglev every key x 2 entries"}[b.deep])
}

func (b c05sWideBound) gen(yield func(c05sCase) bool) {
	si, sn := vreport.Shard()
	idx := 0
	for _, n := range b.sizes {
		for _, base := range b.bases {
			var P []string
			if base == "prefix" {
				P = append(P, c15ref.WideKeys[:n]...)
			} else {
				if n == len(c15ref.WideKeys) {
					continue
				}
				P = append(P, c15ref.WideKeys[len(c15ref.WideKeys)-n:]...)
			}
			type hv struct{ pos, pos2 int }
			var hvs []hv
			for pos := 0; pos < n; pos++ {
				hvs = append(hvs, hv{pos, -1})
			}
			if b.twoPos && n >= 2 {
				hvs = append(hvs, hv{0, n - 1})
			}
			sels := [][][]string{{P}}
			if n >= 2 {
				sels = append(sels, [][]string{append([]string{}, P[:n-1]...), P})
			}
			for _, h := range hvs {
				hosts := c05sWideHosts(P, h.pos, h.pos2, b.dupHost)
				crits := c05sWideCrits(P, h.pos, h.pos2)
				marker := []c15ref.Pair{{K: c05sMarker, V: fmt.Sprint(len(hosts) - 1)}}
				fbs := c05sFallbacks(marker)
				if b.allFB {
					full := []c15ref.Pair{}
					for i, k := range P {
						v := c15ref.WideFixed
						if i == h.pos || i == h.pos2 {
							v = "1"
						}
						full = append(full, c15ref.Pair{K: k, V: v})
					}
					fbs = c05sFallbacks(marker, []c15ref.Pair{{K: P[h.pos], V: "2"}}, []c15ref.Pair{}, full)
					fbs = append(fbs, c15ref.FallbackAlt{Policy: c15ref.FallbackAny, Default: marker})
				}
				for _, sel := range sels {
					for _, fb := range fbs {
						var vs []c05sVariant
						for _, v := range c05sVariants(len(hosts), false) {
							if v.Policy == string(types.Maglev) && !b.deep && (len(sel) != 1 || (h.pos != 0 && h.pos != n-1)) {
								continue // maglev (65537-entry table per inner balancer): selector list [P], first and last position only
							}
							vs = append(vs, v)
						}
						idx++
						if idx%sn != si {
							continue
						}
						if !yield(c05sCase{Deep: b.deep, Cfg: c15ref.Config{Hosts: hosts, Selectors: sel, Policy: fb.Policy, Default: fb.Default}, Crits: crits, Variants: vs}) {
							return
						}
					}
				}
			}
		}
	}
}

func c05sRunWide(budget time.Duration) {
	b := c05sWideBoundFor()
	part := "subset-wide-selectors-1to8"
	p := vreport.Begin("C05", part, budget)
	e := c05sNewEnv(part)
	complete := vreport.Run(p, b.gen, func(p *vreport.Part, c c05sCase) {
		e.check(p, c)
		if p.WantSample() {
			s := c
			s.Crits, s.Variants = s.Crits[:1], s.Variants[:1]
			p.Sample(s)
		}
	})
	e.flush(p)
	p.End(complete, b.String(), c05sRule)
}

// ---------------------------------------------------------------------------
// histories (explicit-state BFS over a real cluster with subset balancing)
//
// State = the event history that reaches it; a successor = the history replayed
// on a FRESH cluster (fresh host objects per update, health words reset) plus
// one event:
//
//	U1 | U2 | U0   UpdateHosts(S1) | UpdateHosts(S2) | UpdateHosts(empty); every update builds new host objects
//	               S1 = A{a:1,b:1} w1, B{a:1,b:2} w2, C{a:2,b:1} w3
//	               S2 = C{a:1,b:1} w1, D{a:1,b:2} w1      (address C comes back with OTHER metadata)
//	F(j)           flip the health of address j in {A,B,C,D}
//	C(i)           Snapshot().LoadBalancer().ChooseHost(context with criteria i) x every selection draw
//	Cnew(i)|Cretry (maglev, request-RR) new context with criteria i | the previous context again (retry index read)
//
// Canonical state = (tag of the current set, health bit per address, for EVERY
// inner balancer of the published subset balancer: which members of the current
// set it selects from (a host object of an earlier generation counts as "not a
// member") and the exact fingerprint of its mutable state (cursor, EDF heap),
// context (criteria, retry index) for the
// context-reading policies). Histories with the same canonical state have the
// same futures: UpdateHosts rebuilds the published (host set, subset balancer)
// pair from scratch from its argument (the tag), hosts carry no mutable state
// besides the per-address health word and the (never changed) counters, the
// fingerprint holds every field a later ChooseHost reads, future draws are
// explicit choices.
//
// Oracle: every C event is judged as in the input parts, against the host
// set handed to the LAST UpdateHosts and ITS metadata (a subset index that
// survives a replacement returns hosts of the previous generation or routes
// by the previous metadata); after every U event the snapshot's host set must
// be, by identity, the set just handed over.

type c05sEvent struct {
	Kind  string `json:"kind"` // U1 U2 U0 F C Cnew Cretry
	Arg   int    `json:"arg"`  // F: address index; C/Cnew: criteria index
	Draws []int  `json:"draws"`
}

func (e c05sEvent) String() string {
	switch e.Kind {
	case "F":
		return fmt.Sprintf("F(%c)", 'A'+e.Arg)
	case "C", "Cnew":
		return fmt.Sprintf("%s(c%d)%v", e.Kind, e.Arg, e.Draws)
	case "Cretry":
		return "Cretry"
	}
	return fmt.Sprintf("%s%v", e.Kind, e.Draws)
}

type c05sHistCase struct {
	Builder  string      `json:"builder"`
	Policy   string      `json:"policy"`
	Fallback int         `json:"fallback"` // 0 none, 1 any-endpoint, 2 default-subset {a:2}
	Depth    int         `json:"depth"`
	AllK     bool        `json:"all_k"`
	History  []c05sEvent `json:"history"` // nil: run the BFS; set: replay this history, the last event is judged
}

var c05sHistAddrs = []string{"10.56.0.1:80", "10.56.0.2:80", "10.56.0.3:80", "10.56.0.4:80"} // A B C D

type c05sHistSet struct {
	tag     string
	addrIdx []int
	metas   [][]c15ref.Pair
	weights []uint32
}

var c05sHistSets = map[string]c05sHistSet{
	"U0": {tag: "S0"},
	"U1": {tag: "S1", addrIdx: []int{0, 1, 2}, metas: [][]c15ref.Pair{c05sP("a", "1", "b", "1"), c05sP("a", "1", "b", "2"), c05sP("a", "2", "b", "1")}, weights: []uint32{1, 2, 3}},
	"U2": {tag: "S2", addrIdx: []int{2, 3}, metas: [][]c15ref.Pair{c05sP("a", "1", "b", "1"), c05sP("a", "1", "b", "2")}, weights: []uint32{1, 1}},
}

var c05sHistCrits = [][]c15ref.Pair{c05sP("a", "1"), c05sP("a", "1", "b", "1"), c05sP("a", "2"), c05sP("a", "1", "b", "2")}

func c05sHistCfg(fallback int) c15ref.Config {
	cfg := c15ref.Config{Selectors: c05sSelAAB, Policy: fallback}
	if fallback == c15ref.FallbackDefault {
		cfg.Default = c05sP("a", "2")
	}
	return cfg
}

type c05sHistWorld struct {
	c       *c05sHistCase
	policy  types.LoadBalancerType
	cfg     c15ref.Config
	cluster types.Cluster
	info    types.ClusterInfo
	handles []types.Host
	healthy []bool // per address
	cur     c05sHistSet
	members []types.Host
	inners  []c05sInner
	ctx     *c05sCtx
	ctxCrit int
	src     *c05sSrc
	rnd     *rand.Rand
}

func c05sNewHistWorld(c *c05sHistCase) (*c05sHistWorld, error) {
	w := &c05sHistWorld{c: c, policy: types.LoadBalancerType(c.Policy), cfg: c05sHistCfg(c.Fallback), src: &c05sSrc{constant: -1}, ctxCrit: -1}
	w.rnd = rand.New(w.src)
	w.cur = c05sHistSet{tag: "init"}
	w.cluster = c05sNewCluster("c05sh-"+c.Policy, w.policy, &w.cfg)
	snap := w.cluster.Snapshot()
	if snap == nil {
		return nil, fmt.Errorf("fresh cluster has no snapshot")
	}
	w.info = snap.ClusterInfo()
	w.handles = c05MakeHosts(w.info, c05sHistAddrs, []uint32{1, 1, 1, 1})
	c05SetHealth(w.handles, 0b1111)
	c05SetCounters(w.handles, 0b1001)
	w.healthy = []bool{true, true, true, true}
	var err error
	w.src.constant = 0
	w.inners, err = c05sScriptAll(snap.LoadBalancer(), w.info, w.rnd)
	w.src.constant = -1
	return w, err
}

type c05sStep struct {
	outcome   string
	class     string
	violation string
	detail    string
	harness   string
}

func (w *c05sHistWorld) apply(e c05sEvent) (consumed []int, res c05sStep) {
	switch e.Kind {
	case "U0", "U1", "U2":
		set := c05sHistSets[e.Kind]
		k := 0
		if len(e.Draws) > 0 {
			k = e.Draws[0]
		}
		consumed = []int{k}
		addrs := make([]string, len(set.addrIdx))
		for i, a := range set.addrIdx {
			addrs[i] = c05sHistAddrs[a]
		}
		hosts := c05sMakeHosts(w.info, addrs, set.metas, set.weights)
		w.src.constant = k
		pan := c05sPublish(w.cluster, w.c.Builder, hosts, w.rnd)
		w.cur, w.members = set, hosts
		snap := w.cluster.Snapshot()
		if snap == nil || snap.LoadBalancer() == nil || snap.HostSet() == nil {
			w.src.constant = -1
			res.class, res.violation, res.detail = "cluster snapshot", "no snapshot / load balancer after UpdateHosts", pan
			return
		}
		var err error
		w.inners, err = c05sScriptAll(snap.LoadBalancer(), w.info, w.rnd)
		w.src.constant = -1
		if err != nil {
			res.harness = err.Error()
			return
		}
		res.outcome = "updated"
		if pan != "" {
			res.outcome = "UpdateHosts panicked"
			res.detail = "UpdateHosts panicked: " + pan
		}
		if got := c05HostsOf(snap.HostSet()); !c05sSameHosts(got, hosts) {
			res.class, res.violation = "cluster snapshot", "published host set is not the set handed to the last UpdateHosts"
			res.detail = fmt.Sprintf("after %s: handed over %d hosts, snapshot holds %d. %s", e.Kind, len(hosts), len(got), res.detail)
		}
	case "F":
		if e.Arg < 0 || e.Arg >= len(w.handles) {
			res.harness = "bad address index"
			return
		}
		h := w.handles[e.Arg]
		if w.healthy[e.Arg] {
			h.SetHealthFlag(c05HistFlag(e.Arg))
		} else {
			h.ClearHealthFlag(c05HistFlag(e.Arg))
		}
		w.healthy[e.Arg] = !w.healthy[e.Arg]
		if h.Health() != w.healthy[e.Arg] {
			res.harness = "health flip did not take"
		}
		res.outcome = "flipped"
	case "C", "Cnew", "Cretry":
		if e.Kind != "Cretry" {
			if e.Arg < 0 || e.Arg >= len(c05sHistCrits) {
				res.harness = "bad criteria index"
				return
			}
			w.ctx, w.ctxCrit = &c05sCtx{c05LbCtx: c05NewCtx(w.info, 0, -1), mmc: c05sMmc(c05sHistCrits[e.Arg])}, e.Arg
		}
		if w.ctx == nil {
			res.outcome = "no previous context"
			return
		}
		snap := w.cluster.Snapshot()
		if snap == nil || snap.LoadBalancer() == nil {
			res.class, res.violation = "cluster snapshot", "no snapshot / load balancer"
			return
		}
		w.src.script, w.src.pos = append([]int(nil), e.Draws...), 0
		got, pan := c05Choose(snap.LoadBalancer(), w.ctx)
		consumed = append([]int{}, w.src.script[:w.src.pos]...)
		cfg := w.cfg
		cfg.Hosts = w.cur.metas
		crit := c05sHistCrits[w.ctxCrit]
		exp := c15ref.Reference(&cfg, crit)
		var healthy uint32
		for i, a := range w.cur.addrIdx {
			if w.healthy[a] {
				healthy |= 1 << uint(i)
			}
		}
		out, viol, idx := c05sJudge(w.members, healthy, exp.Allowed, true, got)
		if pan != nil {
			out, viol = c05sOutPanic, c05OK
			if exp.Allowed&healthy != 0 {
				viol = c05sKindPanic
			}
		}
		res.outcome, res.class, res.violation = c05sOutNames[out], exp.Class, viol
		res.detail = fmt.Sprintf("current set %s (addresses %v, metadata %v, weights %v), health per address ABCD %v, criteria %v (eligible set E = %s: %s, %s): ChooseHost returned member index %d (%s)%s",
			w.cur.tag, w.cur.addrIdx, w.cur.metas, w.cur.weights, w.healthy, crit, c15ref.MaskString(exp.Allowed), exp.Class, exp.Reason, idx, c05sOutNames[out], c05PanicText(pan))
	default:
		res.harness = "unknown event " + e.Kind
	}
	return
}

func (w *c05sHistWorld) canon() string {
	bits := 0
	for i, h := range w.healthy {
		if h {
			bits |= 1 << uint(i)
		}
	}
	s := fmt.Sprintf("%s|%04b|%s", w.cur.tag, bits, c05sFingerprint(w.inners, w.members))
	if c05UsesContext(w.policy) {
		if w.ctx == nil {
			s += "|ctx -"
		} else {
			s += fmt.Sprintf("|ctx c%d idx=%s", w.ctxCrit, c05CtxIndex(w.ctx.c05LbCtx))
		}
	}
	return s
}

func c05sHistEvents(policy types.LoadBalancerType, ncrit int) []c05sEvent {
	ev := []c05sEvent{{Kind: "U1"}, {Kind: "U2"}, {Kind: "U0"}}
	for j := 0; j < 4; j++ {
		ev = append(ev, c05sEvent{Kind: "F", Arg: j})
	}
	for i := 0; i < ncrit; i++ {
		if c05UsesContext(policy) {
			ev = append(ev, c05sEvent{Kind: "Cnew", Arg: i})
		} else {
			ev = append(ev, c05sEvent{Kind: "C", Arg: i})
		}
	}
	if c05UsesContext(policy) {
		ev = append(ev, c05sEvent{Kind: "Cretry"})
	}
	return ev
}

func c05sRunHistories(budget time.Duration) {
	const part = "subset-histories-bfs"
	p := vreport.Begin("C05", part, budget)
	depth := vreport.Pick(3, 4)
	ncrit := vreport.Pick(3, 4)
	allK := vreport.Thorough()
	si, sn := vreport.Shard()

	gen := func(yield func(c05sHistCase) bool) {
		gi := 0
		for _, b := range []string{"pre-index", "filter"} {
			for _, pol := range c05Policies {
				for _, fb := range []int{c15ref.FallbackNone, c15ref.FallbackAny, c15ref.FallbackDefault} {
					if pol == types.Maglev && !allK && fb != c15ref.FallbackAny {
						continue // quick tier: maglev (a 65537-entry table per inner balancer and update) under any-endpoint only
					}
					gi++
					if gi%sn != si {
						continue
					}
					if !yield(c05sHistCase{Builder: b, Policy: string(pol), Fallback: fb, Depth: depth, AllK: allK}) {
						return
					}
				}
			}
		}
	}

	type verdict struct{ key, detail string }
	outcomes := map[string]struct{}{}
	replay := func(c *c05sHistCase, hist []c05sEvent, last *c05sEvent) (w *c05sHistWorld, lastConsumed []int, v *verdict, harness string) {
		w, err := c05sNewHistWorld(c)
		if err != nil {
			return nil, nil, nil, err.Error()
		}
		all := hist
		if last != nil {
			all = append(append([]c05sEvent{}, hist...), *last)
		}
		for i, e := range all {
			consumed, res := w.apply(e)
			isLast := i == len(all)-1
			if res.harness != "" {
				return w, consumed, nil, res.harness
			}
			if !isLast && len(consumed) != len(e.Draws) {
				return w, consumed, nil, fmt.Sprintf("replay diverged: event %d %v consumed draws %v", i, e, consumed)
			}
			if isLast {
				lastConsumed = consumed
				if res.violation != c05OK {
					// one key per (builder, class, kind): the input parts tell the policies apart
					v = &verdict{fmt.Sprintf("subset(%s builder) histories | %s: %s", c.Builder, res.class, res.violation), res.detail}
				}
				if res.outcome != "" {
					outcomes[c.Policy+"|"+e.Kind+"|"+res.class+"|"+res.outcome] = struct{}{}
				}
			}
		}
		return w, lastConsumed, v, ""
	}

	check := func(p *vreport.Part, c c05sHistCase) {
		if c.Depth > 6 {
			return
		}
		if c.History != nil {
			if len(c.History) == 0 {
				return
			}
			last := c.History[len(c.History)-1]
			_, _, v, harness := replay(&c, c.History[:len(c.History)-1], &last)
			if harness != "" {
				vreport.HarnessError("C05", part, harness)
				return
			}
			if v != nil {
				p.Violation(v.key, v.detail, c)
			}
			return
		}
		pol := types.LoadBalancerType(c.Policy)
		events := c05sHistEvents(pol, ncrit)
		w0, _, _, harness := replay(&c, nil, nil)
		if harness != "" {
			vreport.HarnessError("C05", part, harness)
			return
		}
		seen := map[string]bool{w0.canon(): true}
		frontier := [][]c05sEvent{nil}
		states, transitions := 1, 0
		done := func() {
			p.AddStates(states)
			p.AddTransitions(transitions)
			p.AddTraces(transitions)
		}
		for d := 0; d < c.Depth && len(frontier) > 0; d++ {
			var next [][]c05sEvent
			for _, hist := range frontier {
				for _, ev := range events {
					alphabet := 3 // selection draws: a in 0..2 (the largest set has 3 hosts)
					isU := strings.HasPrefix(ev.Kind, "U")
					if isU {
						alphabet = 1
						if c.AllK && ev.Kind != "U0" && c05sHasConstructionDraw(pol, "inc") {
							alphabet = 6 // K in 0..2n-1, n = 3
						}
					}
					start := []int{}
					if isU {
						start = []int{0}
					}
					for script := start; script != nil; {
						e := ev
						e.Draws = script
						w, consumed, v, harness := replay(&c, hist, &e)
						if harness != "" {
							vreport.HarnessError("C05", part, fmt.Sprintf("%s %s history %v + %v: %s", c.Policy, c.Builder, hist, e, harness))
							done()
							return
						}
						transitions++
						p.EvalN(1)
						e.Draws = consumed
						full := append(append([]c05sEvent{}, hist...), e)
						if v != nil {
							cc := c
							cc.History = full
							p.Violation(v.key, fmt.Sprintf("%s builder, inner policy %s, selectors %v fallback policy %d default %v, history %v: %s", c.Builder, c.Policy, w.cfg.Selectors, w.cfg.Policy, w.cfg.Default, full, v.detail), cc)
						}
						cs := w.canon()
						if !seen[cs] {
							seen[cs] = true
							states++
							next = append(next, full)
							p.Distinct(fmt.Sprintf("%s|%s|%d|%s", c.Builder, c.Policy, c.Fallback, cs))
							if p.WantSample() {
								p.Sample(map[string]interface{}{"builder": c.Builder, "policy": c.Policy, "fallback": c.Fallback, "history": fmt.Sprint(full), "state": cs})
							}
						}
						if transitions&255 == 0 && p.Expired() {
							done()
							return
						}
						script = c05NextScript(consumed, alphabet)
					}
				}
			}
			frontier = next
		}
		done()
		p.Count("states_"+c.Policy, states)
	}

	complete := vreport.Run(p, gen, check)
	for k := range outcomes {
		p.Outcome(k)
	}
	p.End(complete,
		fmt.Sprintf("real simpleCluster with lb_subset_config selectors [[a],[a,b]] per builder {pre-index, filter} x 8 inner policies x fallback {none, any-endpoint, default-subset {a:2}}%s; all histories of depth <= %d over {UpdateHosts(S1 = A{a:1,b:1} w1, B{a:1,b:2} w2, C{a:2,b:1} w3) | UpdateHosts(S2 = C{a:1,b:1} w1, D{a:1,b:2} w1) | UpdateHosts(empty) | flip health of A|B|C|D | ChooseHost with criteria %v (maglev / request-RR: on a new context, or a retry on the previous context)} x every selection draw (a in 0..2); construction draws K %s; addresses A and D carry one active request+connection",
			map[bool]string{true: "", false: " (maglev: any-endpoint only)"}[allK], depth, c05sHistCrits[:ncrit], map[bool]string{true: "every value 0..5 (all inner balancers of one build answer K)", false: "= 0"}[allK]),
		"BFS with canonical-state de-duplication; state = history replayed on a fresh cluster + one event; canonical state = (current set tag, health bit per address, per inner balancer of the published subset balancer its member indexes (foreign object = -1) and exact state fingerprint, context criteria + retry index); transitions = (state, event, draw sequence) triples executed; every ChooseHost judged against the host set and metadata handed to the LAST UpdateHosts (member by identity; a healthy host of the eligible set E per c15ref.Reference whenever E has one; nil only when E has none); after every UpdateHosts the snapshot's host set must be that set by identity")
}

// ---------------------------------------------------------------------------

// c05sSelfCheck: the oracle rejects what it should, the reference computes the
// eligible sets the file comment says, the two build modes are really selected.
func c05sSelfCheck() string {
	info := c05Info("c05s-self", types.RoundRobin)
	hs := c05MakeHosts(info, []string{"10.55.9.1:80", "10.55.9.2:80", "10.55.9.3:80"}, []uint32{1, 1, 1})
	foreign := c05MakeHosts(info, []string{"10.55.9.1:80"}, []uint32{1})[0]
	type oc struct {
		healthy, eligible uint32
		useE              bool
		got               types.Host
		want              string
	}
	for i, c := range []oc{
		{0b111, 0b011, true, hs[0], c05OK},
		{0b111, 0b011, true, hs[2], c05sKindOutside},
		{0b110, 0b011, true, hs[0], c05sKindUnhealthy},
		{0b110, 0b011, true, nil, c05sKindNil},
		{0b100, 0b011, true, nil, c05OK},
		{0b100, 0b011, true, hs[2], c05OK}, // E has no healthy host: not compared
		{0b100, 0b011, true, foreign, c05KindNotMember},
		{0b111, 0, true, nil, c05OK},
		{0b111, 0, true, hs[1], c05OK}, // fallback none returning a member: C15's business
		{0b111, 0, false, hs[1], c05OK},
		{0b111, 0, false, foreign, c05KindNotMember},
		{0b111, 0b111, false, nil, c05OK},
	} {
		if _, v, _ := c05sJudge(hs, c.healthy, c.eligible, c.useE, c.got); v != c.want {
			return fmt.Sprintf("oracle self-test %d: got %q want %q", i, v, c.want)
		}
	}
	cfg := c15ref.Config{Hosts: [][]c15ref.Pair{c05sP("a", "1", "b", "1"), c05sP("a", "1"), c05sP("a", "2", "b", "1")}, Selectors: c05sSelAAB, Policy: c15ref.FallbackDefault, Default: c05sP("a", "2")}
	for _, t := range []struct {
		crit []c15ref.Pair
		want uint32
	}{{c05sP("a", "1"), 0b011}, {c05sP("a", "1", "b", "1"), 0b001}, {c05sP("b", "1"), 0b100}, {c05sP("a", "9"), 0b100}, {c05sP(), 0b100}} {
		if got := c15ref.Reference(&cfg, t.crit).Allowed; got != t.want {
			return fmt.Sprintf("reference: criteria %v eligible %03b, expected %03b", t.crit, got, t.want)
		}
	}
	// build modes: the filter builder's full balancer selects from the published set
	// object, the pre-index builder's from a copy
	for _, b := range []string{"pre-index", "filter"} {
		cl := c05sNewCluster("c05s-self-mode", types.RoundRobin, &cfg)
		hosts := c05sMakeHosts(cl.Snapshot().ClusterInfo(), c05sAddrs(3), cfg.Hosts, []uint32{1, 1, 1})
		if pan := c05sPublish(cl, b, hosts, rand.New(&c05sSrc{constant: 0})); pan != "" {
			return "UpdateHosts panicked: " + pan
		}
		if getSubsetBuildMode() != SubsetPreIndexBuildMode {
			return "build mode not restored"
		}
		sl, ok := cl.Snapshot().LoadBalancer().(*subsetLoadBalancer)
		if !ok {
			return fmt.Sprintf("cluster with selectors publishes a %T", cl.Snapshot().LoadBalancer())
		}
		if same := c05LbHosts(sl.fullLb) == cl.Snapshot().HostSet(); same != (b == "filter") {
			return fmt.Sprintf("builder %s: full balancer on the published set object = %v (the build-mode switch does not select the builders as assumed)", b, same)
		}
	}
	return ""
}

func TestVerifC05Subset(t *testing.T) {
	c05Quiet()
	if !vreport.Replaying() {
		if msg := c05sSelfCheck(); msg != "" {
			vreport.HarnessError("C05", "subset-self-check", msg)
			t.Error(msg)
			return
		}
	}
	min := func(q, th int) time.Duration { return time.Duration(vreport.Pick(q, th)) * time.Minute }
	c05sRunWide(min(4, 30))
	c05sRunSmall(c05sBreadthBound(), min(5, 40))
	c05sRunSmall(c05sDepthBound(), min(4, 30))
	c05sRunHistories(min(4, 30))
}

// TestVerifC05SubsetConsumers is unit "consumers": the counting side and the
// cluster manager's lookups (zz_verif_C05_subsetapi_test.go).
func TestVerifC05SubsetConsumers(t *testing.T) {
	c05Quiet()
	if !vreport.Replaying() {
		if msg := c05sSelfCheck(); msg != "" {
			vreport.HarnessError("C05", "subset-consumers-self-check", msg)
			t.Error(msg)
			return
		}
	}
	c05aRunConsumers(time.Duration(vreport.Pick(4, 30)) * time.Minute)
}
