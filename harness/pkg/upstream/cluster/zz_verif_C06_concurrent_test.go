//go:build verif

package cluster

// C06 (b) under CONCURRENT callers: "weighted round-robin over healthy hosts
// serves hosts in proportion to their effective weights with bounded lag: in any
// window of consecutive picks |n_i/w_i - n_j/w_j| <= 1/w_i + 1/w_j".
//
// A balancer is shared by all worker goroutines of a cluster snapshot, so "the
// sequence of picks" is the sequence handed out to overlapping ChooseHost calls.
// Each call takes effect at some point between its invocation and its return;
// the statement must hold for the picks in SOME order consistent with that
// (a linearisation: if call a returned before call b was invoked, a precedes b).
//
// Under the E1 scheduler (pkg/upstream/cluster instrumented: every mutex and
// atomic operation is a scheduling point) thread 0 builds the real
// WeightedRoundRobin balancer (NewLoadBalancer over real simpleHosts, scripted
// constructor draw), takes `prefix` sequential picks (so that the race starts
// from a non-initial scheduler state), then 2..3 threads each do 1..3
// ChooseHost calls; every interleaving up to the preemption bound is executed.
// Invocation and return of every call are stamped with a harness-side counter
// (threads run one at a time under the scheduler, so the stamps are a total
// order of real time). After the threads are done, 2*sum(w) further sequential
// picks are taken (outside the execution; nothing else is running).
//
// Oracle per execution: there is a permitted order of the concurrent picks such
// that EVERY window of   prefix ++ concurrent picks ++ sequential picks after
// quiescence   satisfies |n_i*w_j - n_j*w_i| <= w_i + w_j for every host pair
// (exact integer arithmetic). All permitted orders are tried (<= 6 concurrent
// picks). The three ways to fail get different keys: no permitted order of the
// concurrent picks fits even prefix ++ concurrent; some order fits but the
// picks after quiescence do not continue it within the bound; the picks after
// quiescence break the bound on their own (scheduler state left corrupted).

import (
	"fmt"
	"math/rand"
	"strings"
	"testing"
	"time"

	v2 "mosn.io/mosn/pkg/config/v2"
	"mosn.io/mosn/pkg/log"
	"mosn.io/mosn/pkg/types"
	"mosn.io/mosn/pkg/verifrt/vreport"
	"mosn.io/mosn/pkg/verifrt/vrt"
)

const c06ccPart = "wrr-concurrent-picks"

type c06ccCase struct {
	Weights []uint32 `json:"weights"`
	Draw    int      `json:"draw"`   // the constructor's random draw (EDF pre-advance count / rr start index)
	Prefix  int      `json:"prefix"` // sequential picks before the threads start
	Calls   []int    `json:"calls"`  // per thread: number of ChooseHost calls
	Bound   int      `json:"bound"`
	Choices []int    `json:"choices"`
}

type c06ccCall struct {
	thread, k int
	inv, ret  int // harness time stamps; ret == 0: the call did not return
	host      int
	err       string
}

type c06ccState struct {
	lb      types.LoadBalancer
	viaEdf  bool
	prefix  []int
	calls   []c06ccCall
	tick    int
	done    int
	problem string // harness problem
	fail    string // ChooseHost failed in the sequential prefix
}

type c06ccEnv struct {
	info  types.ClusterInfo
	hosts []types.Host
	index map[types.Host]int
	eff   []int64
	sum   int64
}

func c06ccNewEnv(w []uint32) *c06ccEnv {
	e := &c06ccEnv{info: &clusterInfo{name: "c06cc", lbType: types.WeightedRoundRobin}, index: map[types.Host]int{}}
	for i, x := range w {
		h := NewSimpleHost(v2.Host{HostConfig: v2.HostConfig{Address: fmt.Sprintf("10.6.2.%d:80", i+1), Hostname: fmt.Sprintf("h%d", i), Weight: x}}, e.info)
		e.hosts = append(e.hosts, h)
		e.index[h] = i
		e.eff = append(e.eff, c06Clamp(x))
		e.sum += c06Clamp(x)
	}
	return e
}

func c06ccPick(lb types.LoadBalancer, index map[types.Host]int) (host int, err string) {
	host = -1
	defer func() {
		if r := recover(); r != nil {
			err = fmt.Sprintf("panic: %v", r)
		}
	}()
	h := lb.ChooseHost(nil)
	i, known := index[h]
	if h == nil || !known {
		return -1, fmt.Sprintf("returned %v, not one of the healthy hosts", h)
	}
	return i, ""
}

func c06ccBody(c c06ccCase, e *c06ccEnv, st *c06ccState) {
	*st = c06ccState{}
	n := len(e.hosts)
	for i, h := range e.hosts {
		if !h.Health() {
			st.problem = fmt.Sprintf("host %d is not healthy", i)
			return
		}
	}
	hs := NewHostSet(e.hosts)
	oldRR := rrFactory.rand
	rrSrc := &c06Src{v: int64(c.Draw) << 31}
	rrFactory.rand = rand.New(rrSrc)
	defer func() { rrFactory.rand = oldRR }()
	lb := NewLoadBalancer(e.info, hs)
	wrr, ok := lb.(*WRRLoadBalancer)
	if !ok {
		st.problem = fmt.Sprintf("NewLoadBalancer(WeightedRoundRobin) returned %T", lb)
		return
	}
	edfSrc := &c06Src{v: int64(c.Draw) << 32}
	wrr.EdfLoadBalancer.rand = rand.New(edfSrc)
	wrr.EdfLoadBalancer.scheduler = nil
	wrr.EdfLoadBalancer.refresh(e.info, hs)
	st.viaEdf = wrr.EdfLoadBalancer.scheduler != nil
	if st.viaEdf && n > 1 && edfSrc.calls != 1 {
		st.problem = fmt.Sprintf("refresh consumed %d random values, expected 1", edfSrc.calls)
		return
	}
	st.lb = lb
	for k := 0; k < c.Prefix; k++ {
		h, err := c06ccPick(lb, e.index)
		if err != "" {
			st.fail = fmt.Sprintf("sequential pick %d: ChooseHost %s", k, err)
			return
		}
		st.prefix = append(st.prefix, h)
	}
	total := 0
	for _, m := range c.Calls {
		total += m
	}
	st.calls = make([]c06ccCall, total)
	base := 0
	for ti, m := range c.Calls {
		ti, m, b := ti, m, base
		base += m
		for k := 0; k < m; k++ {
			st.calls[b+k] = c06ccCall{thread: ti, k: k, host: -1}
		}
		vrt.GoNamed(fmt.Sprintf("picker%d", ti), func() {
			for k := 0; k < m; k++ {
				cl := &st.calls[b+k]
				st.tick++
				cl.inv = st.tick
				cl.host, cl.err = c06ccPick(lb, e.index)
				st.tick++
				cl.ret = st.tick
			}
			st.done++
		})
	}
	vrt.WaitUntil("pickers done", func() bool { return st.done == len(c.Calls) })
}

// c06ccTailOK checks every window that ends with the last element of seq.
func c06ccTailOK(seq []int, w []int64, cnt []int64) bool {
	for i := range cnt {
		cnt[i] = 0
	}
	n := len(w)
	for s := len(seq) - 1; s >= 0; s-- {
		cnt[seq[s]]++
		for i := 0; i < n; i++ {
			for j := i + 1; j < n; j++ {
				d := cnt[i]*w[j] - cnt[j]*w[i]
				if d < 0 {
					d = -d
				}
				if d > w[i]+w[j] {
					return false
				}
			}
		}
	}
	return true
}

const (
	c06ccOK        = ""
	c06ccBadPrefix = "prefix"
	c06ccNoLin     = "no-linearisation"
	c06ccNoCont    = "not-continued"
	c06ccBadAfter  = "after-alone"
)

// c06ccJudge: is there an order of the concurrent picks, consistent with the
// calls' invocation/return stamps, such that every window of
// prefix ++ order ++ suffix is within the bound? tried = orders examined.
func c06ccJudge(w []int64, prefix []int, calls []c06ccCall, suffix []int) (verdict string, tried int) {
	cnt := make([]int64, len(w))
	seq := make([]int, 0, len(prefix)+len(calls)+len(suffix))
	for _, h := range prefix {
		seq = append(seq, h)
		if !c06ccTailOK(seq, w, cnt) {
			return c06ccBadPrefix, 0
		}
	}
	m := len(calls)
	linOK, allOK := false, false
	var rec func(placed uint, depth int)
	rec = func(placed uint, depth int) {
		if allOK {
			return
		}
		if depth == m {
			tried++
			linOK = true
			base := len(seq)
			ok := true
			for _, h := range suffix {
				seq = append(seq, h)
				if !c06ccTailOK(seq, w, cnt) {
					ok = false
					break
				}
			}
			seq = seq[:base]
			if ok {
				allOK = true
			}
			return
		}
		for a := 0; a < m; a++ {
			if placed&(1<<uint(a)) != 0 {
				continue
			}
			must := false // an unplaced call that returned before a was invoked has to come first
			for b := 0; b < m; b++ {
				if b != a && placed&(1<<uint(b)) == 0 && calls[b].ret < calls[a].inv {
					must = true
					break
				}
			}
			if must {
				continue
			}
			seq = append(seq, calls[a].host)
			if c06ccTailOK(seq, w, cnt) {
				rec(placed|1<<uint(a), depth+1)
			} else {
				tried++
			}
			seq = seq[:len(seq)-1]
			if allOK {
				return
			}
		}
	}
	rec(0, 0)
	switch {
	case allOK:
		return c06ccOK, tried
	case !linOK:
		return c06ccNoLin, tried
	}
	if _, bad := c06Windows(suffix, w); bad != "" {
		return c06ccBadAfter, tried
	}
	return c06ccNoCont, tried
}

func c06ccSelfCheck() error {
	if err := c06WrrSelfCheck(); err != nil {
		return err
	}
	mk := func(spec ...[3]int) []c06ccCall {
		var cs []c06ccCall
		for i, s := range spec {
			cs = append(cs, c06ccCall{thread: i, inv: s[0], ret: s[1], host: s[2]})
		}
		return cs
	}
	w := []int64{1, 128}
	type tc struct {
		name   string
		w      []int64
		prefix []int
		calls  []c06ccCall
		suffix []int
		want   string
	}
	for _, c := range []tc{
		{"two overlapping picks of the light host", w, nil, mk([3]int{1, 3, 0}, [3]int{2, 4, 0}), nil, c06ccNoLin},
		{"overlapping picks light+heavy", w, nil, mk([3]int{1, 3, 0}, [3]int{2, 4, 1}), nil, c06ccOK},
		// weights 1,1: a window is bad iff the counts differ by more than 2
		{"picks after quiescence do not continue", []int64{1, 1}, nil, mk([3]int{1, 3, 0}, [3]int{2, 4, 0}), []int{0, 1}, c06ccNoCont},
		{"picks after quiescence continue", []int64{1, 1}, nil, mk([3]int{1, 3, 0}, [3]int{2, 4, 0}), []int{1, 0}, c06ccOK},
		{"real-time order is binding", []int64{1, 1}, []int{0, 0}, mk([3]int{1, 2, 0}, [3]int{3, 4, 1}), nil, c06ccNoLin},
		{"overlap lets the later return go first", []int64{1, 1}, []int{0, 0}, mk([3]int{1, 4, 0}, [3]int{2, 3, 1}), nil, c06ccOK},
		{"overlap, first return first", []int64{1, 1}, []int{0, 0}, mk([3]int{2, 3, 0}, [3]int{1, 4, 1}), nil, c06ccOK},
		{"picks after quiescence bad on their own", []int64{1, 1}, nil, mk([3]int{1, 3, 0}, [3]int{2, 4, 1}), []int{0, 0, 0}, c06ccBadAfter},
		{"bad prefix", []int64{1, 1}, []int{0, 0, 0}, nil, nil, c06ccBadPrefix},
	} {
		if got, _ := c06ccJudge(c.w, c.prefix, c.calls, c.suffix); got != c.want {
			return fmt.Errorf("linearisation judge self-check %q: verdict %q, expected %q", c.name, got, c.want)
		}
	}
	// the unit must be instrumented: a ChooseHost on the EDF path has scheduling points
	e := c06ccNewEnv([]uint32{1, 2})
	var st c06ccState
	c := c06ccCase{Weights: []uint32{1, 2}, Calls: []int{1, 1}}
	r := vrt.RunOnce(nil, vrt.Options{MaxSteps: 20000}, func() { c06ccBody(c, e, &st) })
	if st.problem != "" || !st.viaEdf {
		return fmt.Errorf("self-check execution: %s (edf path %v)", st.problem, st.viaEdf)
	}
	if len(r.Choices) < 4 {
		return fmt.Errorf("an execution of two threads x one ChooseHost had %d choice points: pkg/upstream/cluster is not instrumented (unit needs \"instrument\": \"cluster\")", len(r.Choices))
	}
	return nil
}

func c06ccDescribe(st *c06ccState, suffix []int) string {
	var b strings.Builder
	fmt.Fprintf(&b, "sequential prefix %v; concurrent calls (thread.call [invoked,returned] -> host):", st.prefix)
	for _, cl := range st.calls {
		if cl.ret == 0 {
			fmt.Fprintf(&b, " %d.%d [%d,-] never returned;", cl.thread, cl.k, cl.inv)
		} else {
			fmt.Fprintf(&b, " %d.%d [%d,%d] -> %d;", cl.thread, cl.k, cl.inv, cl.ret, cl.host)
		}
	}
	head := suffix
	if len(head) > 16 {
		head = head[:16]
	}
	fmt.Fprintf(&b, " first picks after quiescence %v", head)
	return b.String()
}

func c06ccRun(p *vreport.Part, c c06ccCase, replay bool, memo map[string][2]string) bool {
	e := c06ccNewEnv(c.Weights)
	var st c06ccState
	opts := vrt.Options{Bound: c.Bound, MaxSteps: 20000}
	if replay {
		opts.Replay = true
		opts.Prefix = c.Choices
	}
	path := "rr"
	stats := vrt.Explore(opts, func() { c06ccBody(c, e, &st) }, func(r *vrt.Result) {
		p.Eval()
		cc := c
		cc.Choices = r.Choices
		where := fmt.Sprintf("weights %v (effective %v) constructor draw %d, %d sequential picks, then threads x calls %v, schedule %v", c.Weights, e.eff, c.Draw, c.Prefix, c.Calls, r.Choices)
		if r.StepLimit || r.Diverged != "" || st.problem != "" {
			vreport.HarnessError("C06", c06ccPart, fmt.Sprintf("execution did not complete: %s %s (%s)", r.String(), st.problem, where))
			return
		}
		if st.viaEdf {
			path = "edf"
		}
		key := "wrr concurrent ChooseHost (" + path + " path): "
		if st.fail != "" {
			p.Violation("wrr ("+path+" path): ChooseHost did not return a healthy host", where+": "+st.fail, cc)
			return
		}
		if r.Deadlock || len(r.Panics) > 0 {
			p.Violation(key+"a call never returned (deadlock / crashed thread)", fmt.Sprintf("%s: %s %v; %s", where, r.String(), r.Panics, c06ccDescribe(&st, nil)), cc)
			return
		}
		for _, cl := range st.calls {
			if cl.err != "" || cl.ret == 0 {
				p.Violation(key+"ChooseHost did not return a healthy host", fmt.Sprintf("%s: call %d.%d: ChooseHost %s", where, cl.thread, cl.k, cl.err), cc)
				return
			}
		}
		// quiescent now (the execution is over, nothing else runs): sequential picks
		suffix := make([]int, 0, 2*e.sum)
		for k := 0; k < int(2*e.sum); k++ {
			h, err := c06ccPick(st.lb, e.index)
			if err != "" {
				p.Violation("wrr after concurrent ChooseHost ("+path+" path): ChooseHost did not return a healthy host", fmt.Sprintf("%s: sequential pick %d after quiescence: ChooseHost %s", where, k, err), cc)
				return
			}
			suffix = append(suffix, h)
		}
		// what the judge depends on
		var sb strings.Builder
		fmt.Fprint(&sb, st.prefix, "|")
		for _, cl := range st.calls {
			fmt.Fprintf(&sb, "%d,%d,%d;", cl.inv, cl.ret, cl.host)
		}
		obs := sb.String()
		fmt.Fprint(&sb, "|", suffix)
		mk := sb.String()
		res, seen := memo[mk]
		if !seen {
			v, tried := c06ccJudge(e.eff, st.prefix, st.calls, suffix)
			p.Count("linearisations_examined", tried)
			res = [2]string{v, ""}
			if v != c06ccOK {
				byRet := append([]c06ccCall(nil), st.calls...)
				for i := 1; i < len(byRet); i++ {
					for j := i; j > 0 && byRet[j].ret < byRet[j-1].ret; j-- {
						byRet[j], byRet[j-1] = byRet[j-1], byRet[j]
					}
				}
				seq := append([]int(nil), st.prefix...)
				for _, cl := range byRet {
					seq = append(seq, cl.host)
				}
				if v != c06ccNoLin && v != c06ccBadPrefix {
					seq = append(seq, suffix...)
				}
				if v == c06ccBadAfter {
					seq = suffix
				}
				_, res[1] = c06Windows(seq, e.eff)
			}
			memo[mk] = res
		}
		byRet := make([]int, 0, len(st.calls))
		{
			ord := append([]c06ccCall(nil), st.calls...)
			for i := 1; i < len(ord); i++ {
				for j := i; j > 0 && ord[j].ret < ord[j-1].ret; j-- {
					ord[j], ord[j-1] = ord[j-1], ord[j]
				}
			}
			for _, cl := range ord {
				byRet = append(byRet, cl.host)
			}
		}
		p.Distinct(fmt.Sprint(c.Weights, c.Draw, c.Prefix, c.Calls, "|", obs))
		p.Outcome(fmt.Sprint(path, c.Weights, c.Prefix, byRet))
		if p.WantSample() {
			p.Sample(map[string]interface{}{"weights": c.Weights, "draw": c.Draw, "prefix": c.Prefix, "calls": c.Calls, "schedule": r.Choices, "path": path, "hosts_in_return_order": byRet})
		}
		desc := c06ccDescribe(&st, suffix)
		switch res[0] {
		case c06ccOK:
		case c06ccBadPrefix:
			p.Violation("wrr ("+path+" path): window lag bound |n_i*w_j-n_j*w_i| <= w_i+w_j exceeded", fmt.Sprintf("%s: the sequential prefix alone: %s", where, res[1]), cc)
		case c06ccNoLin:
			p.Violation(key+"hosts handed out to overlapping calls admit no order (consistent with call/return order) within the window lag bound |n_i*w_j-n_j*w_i| <= w_i+w_j",
				fmt.Sprintf("%s: %s. No permitted order of the concurrent picks fits prefix ++ concurrent picks; e.g. in order of return: %s", where, desc, res[1]), cc)
		case c06ccNoCont:
			p.Violation("wrr after concurrent ChooseHost ("+path+" path): the sequential picks after quiescence do not continue any permitted order of the concurrent picks within the window lag bound",
				fmt.Sprintf("%s: %s. Every permitted order fails for prefix ++ concurrent ++ 2*sum(w) picks after quiescence; e.g. in order of return: %s", where, desc, res[1]), cc)
		case c06ccBadAfter:
			p.Violation("wrr after concurrent ChooseHost ("+path+" path): the sequential picks after quiescence exceed the window lag bound on their own (scheduler state corrupted)",
				fmt.Sprintf("%s: %s. The 2*sum(w) picks after quiescence alone: %s", where, desc, res[1]), cc)
		}
	})
	p.AddTraces(stats.Executions)
	p.Count("executions", stats.Executions)
	p.Count("executions_"+path, stats.Executions)
	return stats.Complete
}

func c06ccPrefixes(sum int64) []int {
	if sum <= 16 {
		var r []int
		for k := 0; k <= int(sum); k++ {
			r = append(r, k)
		}
		return r
	}
	s := int(sum)
	return []int{0, 1, s - 2, s - 1, s}
}

func TestVerifC06ConcurrentPicks(t *testing.T) {
	p := vreport.Begin("C06", c06ccPart, time.Duration(vreport.Pick(4, 30))*time.Minute)
	// NewHostSet logs every construction at INFO (one per execution); logging is not part of the property
	oldLevel := log.DefaultLogger.GetLogLevel()
	log.DefaultLogger.SetLogLevel(log.ERROR)
	defer log.DefaultLogger.SetLogLevel(oldLevel)
	memo := map[string][2]string{}
	if vreport.Replaying() {
		var rc c06ccCase
		if vreport.ReplayFor("C06", c06ccPart, &rc) {
			c06ccRun(p, rc, true, memo)
			p.End(true, "replay", "replay of one recorded schedule")
		}
		return
	}
	if err := c06ccSelfCheck(); err != nil {
		vreport.HarnessError("C06", c06ccPart, err.Error())
		p.End(false, "self-check failed", "")
		return
	}
	vectors := [][]uint32{{1, 2}, {2, 1}, {2, 3}, {1, 128}, {128, 1}, {127, 128}, {3, 5, 7}, {1, 1, 128}, {1, 2, 5, 128}, {2, 2}}
	shapes := [][]int{{1, 1}, {2, 1}, {1, 1, 1}, {2, 2}}
	bound := vreport.Pick(2, 3)
	if vreport.Thorough() {
		vectors = append(vectors, []uint32{1, 3}, []uint32{5, 7}, []uint32{64, 128}, []uint32{128, 1, 1}, []uint32{1, 2, 3}, []uint32{7, 5, 3}, []uint32{128, 5, 2, 1}, []uint32{1, 2, 3, 4, 5}, []uint32{3, 3, 3})
		shapes = append(shapes, []int{3, 1}, []int{2, 1, 1}, []int{3, 2}, []int{3, 3}, []int{2, 2, 2})
	}
	var cases []c06ccCase
	// shapes outermost: consecutive cases (dealt to the shards round robin) cost about the same
	for _, sh := range shapes {
		for _, w := range vectors {
			sum := int64(0)
			for _, x := range w {
				sum += c06Clamp(x)
			}
			draws := []int{0}
			if vreport.Thorough() {
				draws = nil
				for d := 0; d < len(w); d++ {
					draws = append(draws, d)
				}
			}
			for _, d := range draws {
				for _, k := range c06ccPrefixes(sum) {
					cases = append(cases, c06ccCase{Weights: w, Draw: d, Prefix: k, Calls: sh, Bound: bound})
				}
			}
		}
	}
	// determinism of the harness: the default schedule of the first case, twice
	{
		c := cases[0]
		e := c06ccNewEnv(c.Weights)
		var sa, sb c06ccState
		ra := vrt.RunOnce(nil, vrt.Options{MaxSteps: 20000}, func() { c06ccBody(c, e, &sa) })
		rb := vrt.RunOnce(nil, vrt.Options{MaxSteps: 20000}, func() { c06ccBody(c, e, &sb) })
		if fmt.Sprint(ra.Choices, sa.calls, sa.prefix) != fmt.Sprint(rb.Choices, sb.calls, sb.prefix) {
			vreport.HarnessError("C06", c06ccPart, fmt.Sprintf("default schedule is not deterministic: %v %v vs %v %v", ra.Choices, sa.calls, rb.Choices, sb.calls))
			p.End(false, "aborted", "nondeterministic harness")
			return
		}
	}
	si, sn := vreport.Shard()
	complete := true
	for i, c := range cases {
		if i%sn != si {
			continue
		}
		if p.Expired() {
			complete = false
			break
		}
		if len(memo) > 200000 {
			memo = map[string][2]string{}
		}
		if !c06ccRun(p, c, false, memo) {
			complete = false
		}
	}
	p.Note("weight_vectors", len(vectors))
	p.Note("cases", len(cases))
	p.End(complete,
		fmt.Sprintf("one real WeightedRoundRobin balancer (NewLoadBalancer over healthy simpleHosts) shared by the threads; weight vectors %v; constructor draw %s; sequential prefix of k picks, k in [0,sum(w)] (sum(w) <= 16) or {0,1,sum-2,sum-1,sum}; thread shapes (calls per thread) %v; every interleaving with <= %d preemptions (scheduling point at every mutex and atomic operation of pkg/upstream/cluster); then 2*sum(w) sequential picks; every order of the concurrent picks consistent with call/return order; every window and host pair of prefix ++ concurrent ++ after",
			vectors, map[bool]string{false: "0", true: "every value in [0,n)"}[vreport.Thorough()], shapes, bound),
		"stateless DFS over thread interleavings (preemption bounded); one evaluation = one complete execution judged by brute force over the permitted linearisations; distinct = (case, prefix picks, call/return stamps and host of every concurrent call); outcome = (path, weights, prefix, hosts in order of return)")
}
