//go:build verif

package cluster

import (
	"context"
	"fmt"
	"math/rand"
	"net"
	"sort"
	"strings"
	"testing"
	"time"

	"mosn.io/api"
	v2 "mosn.io/mosn/pkg/config/v2"
	"mosn.io/mosn/pkg/types"
	"mosn.io/mosn/pkg/verifrt/c15ref"
	"mosn.io/mosn/pkg/verifrt/vreport"
)

// C15: subset load balancing honours metadata and its fallback policy, and
// the two subset builders (NewSubsetLoadBalancer = per-host filtering,
// NewSubsetLoadBalancerPreIndex = inverted index) are observationally
// equivalent.
//
// Sequential enumeration (engine E2): every (host list, selector list, fallback)
// configuration of the bound is built with BOTH builders on the same
// (ClusterInfo, HostSet); every criteria of the bound is asked to both through
// HostNum, IsExistsHosts and n+1 successive ChooseHost calls (n = cluster
// size), with the inner balancer round-robin (n+1 >= |subset|+1 successive
// picks show every member whatever the start index) and random (the random
// source of every inner balancer is scripted: draw d = 0..n, so every value of
// Intn(k), k <= n, occurs). The oracle is c15ref.Reference, written from the
// statement. What the statement does not fix is enumerated but only compared
// between the two builders: criteria handed over in an order other than the
// api contract's (sorted by name), a context without criteria, a nil context.

type c15Case struct {
	Cfg  c15ref.Config `json:"cfg"`
	LB   string        `json:"lb"` // "rr" | "random": inner balancer type
	Only *c15ref.Probe `json:"only,omitempty"`
	// wide scope: the probes are derived from the configuration
	// (c15ref.WideProbes); the replayable case of a violation is the
	// configuration + the criteria KEY SET (every value assignment of that key
	// set is re-asked: which sibling subset a builder loses may depend on Go's
	// map iteration order, the failing class does not).
	Wide     *c15ref.WideSpec `json:"wide,omitempty"`
	OnlyKeys *[]string        `json:"only_keys,omitempty"`
}

// ---- criteria / context handed to the balancers (the cluster package cannot
// import pkg/router: import cycle; the pkg/router unit of this check runs the
// same probes with router.NewMetadataMatchCriteriaImpl).

type c15Criterion struct{ k, v string }

func (c *c15Criterion) MetadataKeyName() string { return c.k }
func (c *c15Criterion) MetadataValue() string   { return c.v }

type c15Criteria struct{ list []api.MetadataMatchCriterion }

func (c *c15Criteria) MetadataMatchCriteria() []api.MetadataMatchCriterion { return c.list }
func (c *c15Criteria) MergeMatchCriteria(map[string]string) api.MetadataMatchCriteria {
	panic("c15: MergeMatchCriteria is not part of the balancer seam")
}

type c15Ctx struct{ mmc api.MetadataMatchCriteria }

func (c *c15Ctx) MetadataMatchCriteria() api.MetadataMatchCriteria { return c.mmc }
func (c *c15Ctx) DownstreamConnection() net.Conn                   { return nil }
func (c *c15Ctx) DownstreamHeaders() api.HeaderMap                 { return nil }
func (c *c15Ctx) DownstreamContext() context.Context               { return context.Background() }
func (c *c15Ctx) DownstreamCluster() types.ClusterInfo             { return nil }
func (c *c15Ctx) DownstreamRoute() api.Route                       { return nil }

// ---- scripted random source: Rand.Intn(n) (n < 2^31) is Int63()>>32 reduced
// mod n, Rand.Uint32() is Int63()>>31; with v = d<<32 Intn(n) = d mod n.

type c15Src struct{ v int64 }

func (s *c15Src) Int63() int64 { return s.v }
func (s *c15Src) Seed(int64)   {}

type c15Probe struct {
	p    c15ref.Probe
	ctx  types.LoadBalancerContext // nil for kind nil-ctx
	mmc  api.MetadataMatchCriteria // nil for kinds nil-*
	cmp  bool                      // statement decides this probe
	kind string                    // finding-key fragment
}

func c15MakeProbe(pr c15ref.Probe) *c15Probe {
	q := &c15Probe{p: pr}
	switch pr.Kind {
	case "nil-ctx":
		q.kind = "nil-context"
	case "nil-criteria":
		q.ctx = &c15Ctx{}
		q.kind = "context-without-criteria"
	default:
		cr := &c15Criteria{list: []api.MetadataMatchCriterion{}}
		for _, kv := range pr.Crit {
			cr.list = append(cr.list, &c15Criterion{kv.K, kv.V})
		}
		q.mmc = cr
		q.ctx = &c15Ctx{mmc: cr}
		q.cmp = pr.Sorted()
		q.kind = "sorted-criteria"
		if !q.cmp {
			q.kind = "unsorted-criteria"
		}
	}
	return q
}

type c15DKey struct {
	class, reason, rel string
	n                  int
	allowed            uint32
	nsel, policy, ndef int
}

type c15OKey struct {
	class   string
	hostNum int
	exists  bool
	mask    uint32
	nils    bool
}

type c15Env struct {
	src    *c15Src
	infos  map[string]types.ClusterInfo
	hosts  map[string]types.Host
	probes []*c15Probe
	seenD  map[c15DKey]bool
	seenO  map[c15OKey]bool
	nprobes int64
	wideKey    string
	wideProbes []*c15Probe
}

func c15NewEnv(probes []c15ref.Probe) *c15Env {
	e := &c15Env{src: &c15Src{}, infos: map[string]types.ClusterInfo{}, hosts: map[string]types.Host{},
		seenD: map[c15DKey]bool{}, seenO: map[c15OKey]bool{}}
	// the start index of every round-robin balancer is drawn from this factory
	// source: script it (start 0) so that runs are reproducible. n+1 successive
	// picks cover every member whatever the start.
	rrFactory.rand = rand.New(&c15Src{})
	for _, pr := range probes {
		e.probes = append(e.probes, c15MakeProbe(pr))
	}
	return e
}

func c15PairsKey(ps []c15ref.Pair) string {
	var sb strings.Builder
	for _, p := range ps {
		sb.WriteString(p.K + "=" + p.V + ",")
	}
	return sb.String()
}

func (e *c15Env) info(c *c15Case) types.ClusterInfo {
	key := fmt.Sprint(c.Cfg.Selectors, c.Cfg.Policy, c15PairsKey(c.Cfg.Default), c.Cfg.Default == nil, c.LB)
	if i, ok := e.infos[key]; ok {
		return i
	}
	cc := v2.Cluster{Name: "c15", LbType: v2.LB_ROUNDROBIN}
	if c.LB == "random" {
		cc.LbType = v2.LB_RANDOM
	}
	cc.LBSubSetConfig = v2.LBSubsetConfig{FallBackPolicy: uint8(c.Cfg.Policy)}
	for _, s := range c.Cfg.Selectors {
		cc.LBSubSetConfig.SubsetSelectors = append(cc.LBSubSetConfig.SubsetSelectors, append([]string{}, s...))
	}
	if c.Cfg.Default != nil {
		cc.LBSubSetConfig.DefaultSubset = map[string]string{}
		for _, kv := range c.Cfg.Default {
			cc.LBSubSetConfig.DefaultSubset[kv.K] = kv.V
		}
	}
	i := NewClusterInfo(cc)
	e.infos[key] = i
	return i
}

// host i of a configuration always has address 10.15.0.(i+1):80; host objects
// are created once per (position, metadata) and reused (the balancers only
// read them).
func (e *c15Env) host(pos int, meta []c15ref.Pair, info types.ClusterInfo) types.Host {
	key := fmt.Sprint(pos, "|", c15PairsKey(meta))
	if h, ok := e.hosts[key]; ok {
		return h
	}
	var md api.Metadata
	if len(meta) > 0 {
		md = api.Metadata{}
		for _, kv := range meta {
			md[kv.K] = kv.V
		}
	}
	h := NewSimpleHost(v2.Host{HostConfig: v2.HostConfig{Address: fmt.Sprintf("10.15.0.%d:80", pos+1)}, MetaData: md}, info)
	e.hosts[key] = h
	return h
}

// c15Script replaces the random source of every inner random balancer. It
// walks the balancer structure itself: LoadBalancers() names entries by joining
// keys and values with ':' and '->' and merges two entries whose names collide
// (values containing the separators), which would leave one unscripted.
func c15Script(lb types.LoadBalancer, src *c15Src) {
	one := func(l types.LoadBalancer) {
		if r, ok := l.(*randomLoadBalancer); ok {
			r.rand = rand.New(src)
		}
	}
	sl, ok := lb.(*subsetLoadBalancer)
	if !ok {
		if g, ok := lb.(types.SubsetLoadBalancer); ok {
			for _, l := range g.LoadBalancers() {
				one(l)
			}
		}
		return
	}
	one(sl.fullLb)
	if sl.fallbackSubset != nil && sl.fallbackSubset.lb != nil {
		one(sl.fallbackSubset.lb)
	}
	var walk func(m types.LbSubsetMap)
	walk = func(m types.LbSubsetMap) {
		for _, vm := range m {
			for _, e := range vm {
				if e.Initialized() {
					one(e.LoadBalancer())
				}
				if e.Children() != nil {
					walk(e.Children())
				}
			}
		}
	}
	walk(sl.subSets)
}

func c15LbKeys(lb types.LoadBalancer) string {
	sl, ok := lb.(types.SubsetLoadBalancer)
	if !ok {
		return "<not a SubsetLoadBalancer>"
	}
	var ks []string
	for k := range sl.LoadBalancers() {
		ks = append(ks, k)
	}
	sort.Strings(ks)
	return strings.Join(ks, " ")
}

func (e *c15Env) ask(lb types.LoadBalancer, q *c15Probe, hosts []types.Host) (o c15ref.Obs) {
	defer func() {
		if r := recover(); r != nil {
			o.Panic = fmt.Sprint(r)
		}
	}()
	n := len(hosts)
	o.HostNum = lb.HostNum(q.mmc)
	o.Exists = lb.IsExistsHosts(q.mmc)
	for d := 0; d <= n; d++ {
		e.src.v = int64(d) << 32
		h := lb.ChooseHost(q.ctx)
		o.Calls++
		if h == nil {
			o.Nils++
			continue
		}
		found := false
		for i, x := range hosts {
			if x == h {
				o.Mask |= 1 << uint(i)
				found = true
				break
			}
		}
		if !found {
			o.Mask |= 1 << 31
		}
	}
	return o
}

func c15Build(f func(types.ClusterInfo, types.HostSet) types.LoadBalancer, info types.ClusterInfo, hs types.HostSet) (lb types.LoadBalancer, perr string) {
	defer func() {
		if r := recover(); r != nil {
			perr = fmt.Sprint(r)
		}
	}()
	return f(info, hs), ""
}

func c15Check(e *c15Env, p *vreport.Part, c c15Case) {
	info := e.info(&c)
	var hosts []types.Host
	for i, m := range c.Cfg.Hosts {
		hosts = append(hosts, e.host(i, m, info))
	}
	hs := NewHostSet(hosts)
	lbF, perrF := c15Build(func(i types.ClusterInfo, h types.HostSet) types.LoadBalancer { return NewSubsetLoadBalancer(i, h) }, info, hs)
	lbP, perrP := c15Build(NewSubsetLoadBalancerPreIndex, info, hs)
	if perrF != "" || perrP != "" {
		// a configuration that contains an empty selector entry [] gets its own
		// finding key (one defect, one key; any other build panic keeps the plain key)
		sfx := ""
		for _, s := range c.Cfg.Selectors {
			if len(s) == 0 {
				sfx = " | configuration with an empty selector []"
			}
		}
		if perrF != "" {
			p.Violation("filtering builder | panic while building"+sfx, perrF, c)
		}
		if perrP != "" {
			p.Violation("pre-index builder | panic while building"+sfx, perrP, c)
		}
		if (perrF != "") != (perrP != "") {
			p.Outcome("build panic in one builder only" + sfx)
		}
		return
	}
	c15Script(lbF, e.src)
	c15Script(lbP, e.src)
	if kf, kp := c15LbKeys(lbF), c15LbKeys(lbP); kf != kp {
		p.Violation("builders disagree | LoadBalancers() key set", fmt.Sprintf("filtering: [%s] pre-index: [%s]", kf, kp), c)
	}
	probes := e.probes
	switch {
	case c.Only != nil:
		probes = []*c15Probe{c15MakeProbe(*c.Only)}
	case c.Wide != nil:
		// the derived probes depend on hosts, selectors and spec only: successive
		// configurations (fallback / inner balancer alternatives) reuse them
		wk := ""
		if c.OnlyKeys == nil {
			wk = fmt.Sprintf("%q|%q|%q|%v", c.Cfg.Hosts, c.Cfg.Selectors, c.Wide.P, c.Wide.AllKeySets)
		}
		if wk != "" && wk == e.wideKey {
			probes = e.wideProbes
		} else {
			probes = nil
			for _, pr := range c15ref.WideProbes(&c.Cfg, *c.Wide, c.OnlyKeys) {
				probes = append(probes, c15MakeProbe(pr))
			}
			if c.OnlyKeys == nil {
				probes = append(probes, c15MakeProbe(c15ref.Probe{Kind: "nil-criteria"}), c15MakeProbe(c15ref.Probe{Kind: "nil-ctx"}))
				e.wideKey, e.wideProbes = wk, probes
			}
		}
		if c.OnlyKeys == nil {
			p.EvalN(len(probes) - 1)
			e.nprobes += int64(len(probes))
		}
	default:
		p.EvalN(len(probes) - 1)
	}
	for _, q := range probes {
		oF := e.ask(lbF, q, hosts)
		oP := e.ask(lbP, q, hosts)
		// the replayable case of a violation = this configuration + this probe only
		only := func() c15Case {
			cq := c
			if c.Wide != nil && q.p.Kind == "criteria" {
				ks := c15ref.CritKeys(q.p.Crit)
				cq.OnlyKeys = &ks
				return cq
			}
			pr := q.p
			cq.Only = &pr
			return cq
		}
		var exp c15ref.Expect
		class := q.kind
		explained := false // a disagreement is reported on its own only when no builder deviates from the reference
		if q.cmp {
			exp = c15ref.Reference(&c.Cfg, q.p.Crit)
			class = exp.Class
			dk := c15DKey{exp.Class, exp.Reason, exp.Rel, len(c.Cfg.Hosts), exp.Allowed, len(c.Cfg.Selectors), c.Cfg.Policy, len(c.Cfg.Default)}
			if !e.seenD[dk] {
				e.seenD[dk] = true
				p.Distinct(c15ref.ClassCode(&c.Cfg, exp))
			}
			for bi, o := range [2]c15ref.Obs{oF, oP} {
				b := "filtering builder"
				if bi == 1 {
					b = "pre-index builder"
				}
				// small scopes: the most severe deviation only (one bug, few keys). Wide
				// scope: every deviation. Which sibling subset a builder loses may depend
				// on Go's map iteration order, and with it which deviation is the most
				// severe one of a case (fallback default-subset can land inside the
				// allowed set); reporting all of them makes the first case of every key
				// one that fails whatever the order (policy none / any-endpoint come
				// first), so the replay of a key is deterministic.
				ps := c15ref.Judge(exp, o, true)
				if len(ps) > 1 && c.Wide == nil {
					ps = ps[:1]
				}
				for _, pb := range ps {
					explained = true
					p.Violation(fmt.Sprintf("%s | %s | %s", b, exp.Class, pb.What),
						fmt.Sprintf("lb=%s criteria=%v (fallback reason: %s; key sets: %s): %s; observed %s; hosts=%v selectors=%v policy=%d default=%v",
							c.LB, q.p.Crit, exp.Reason, exp.Rel, pb.Detail, o, c.Cfg.Hosts, c.Cfg.Selectors, c.Cfg.Policy, c.Cfg.Default), only())
				}
			}
		} else if q.p.Kind != "criteria" && (oF.Panic != "" || oP.Panic != "") {
			explained = true
			p.Violation("panic | "+q.kind, oF.Panic+" / "+oP.Panic, only())
		}
		if ds := c15ref.Differ(oF, oP); len(ds) > 0 && !explained {
			p.Violation("builders disagree | "+q.kind+" | "+ds[0].What,
				fmt.Sprintf("lb=%s probe=%+v: filtering %s ; pre-index %s (%s)", c.LB, q.p, oF, oP, ds[0].Detail), only())
		}
		ok := c15OKey{class, oF.HostNum, oF.Exists, oF.Mask, oF.Nils > 0}
		if !e.seenO[ok] {
			e.seenO[ok] = true
			p.Outcome(fmt.Sprint(ok))
		}
	}
}

type c15Bound struct {
	keys, values    []string // host metadata: every partial assignment keys -> values
	critKeys, critV []string // criteria: every partial assignment critKeys -> critV
	ordMax          int      // every ORDERED host list of length <= ordMax
	msMax           int      // plus every host multiset of size ordMax < s <= msMax (non-decreasing shape order)
	selAlphabet     [][]string
	maxSel          int
	defaults        [][]c15ref.Pair // default-subset alternatives for policy default-subset
	cross           [][]c15ref.Pair // default subsets additionally configured under policies none / any-endpoint
	perms           bool            // also every non-sorted order of each criteria (compared between builders only)
	randMax         int             // inner balancer random (scripted draws) for host lists of length <= randMax; round-robin for all
	minHosts        int             // host lists shorter than this are left to the other parts
}

func (b c15Bound) fallbacks() []c15ref.FallbackAlt {
	out := c15ref.Fallbacks(b.defaults, false)
	for _, d := range b.cross {
		out = append(out, c15ref.FallbackAlt{Policy: c15ref.FallbackNone, Default: d}, c15ref.FallbackAlt{Policy: c15ref.FallbackAny, Default: d})
	}
	return out
}

func (b c15Bound) String() string {
	return fmt.Sprintf("host metadata: keys %v x values %v incl. absent (%d shapes); host lists of length >=%d: all ordered lists of <=%d hosts plus all multisets of size %d..%d; selectors: all lists of 1..%d different entries of %v; fallback: %d alternatives {none, any-endpoint, default-subset with %v; none/any-endpoint with configured default %v}; criteria: every assignment of %v to {absent,%s}%s, plus context-without-criteria and nil-context; inner balancer round-robin for every configuration and random (source scripted, all draws) for host lists of length <=%d; all hosts healthy",
		b.keys, b.values, len(c15ref.Shapes(b.keys, b.values)), b.minHosts, b.ordMax, b.ordMax+1, b.msMax, b.maxSel, b.selAlphabet, len(b.fallbacks()), b.defaults, b.cross,
		b.critKeys, strings.Join(b.critV, ","), map[bool]string{true: " in every order", false: " in sorted order"}[b.perms], b.randMax)
}

func c15P(kv ...string) []c15ref.Pair {
	ps := []c15ref.Pair{}
	for i := 0; i+1 < len(kv); i += 2 {
		ps = append(ps, c15ref.Pair{K: kv[i], V: kv[i+1]})
	}
	return ps
}

// two-key scope: the bound of the DESIGN entry (keys {a,b}, <=3 hosts, 64
// criteria, 6 fallbacks) widened: host lists are ordered, selectors may be
// spelled unsorted ([b,a]) (thorough: or with a repeated key [a,a]), a default
// subset may be configured under policies that must ignore it.
func c15Bounds2() c15Bound {
	b := c15Bound{keys: []string{"a", "b"}, values: []string{"1", "2"}, critKeys: []string{"a", "b", "z"}, critV: []string{"1", "2", "9"},
		ordMax: 3, msMax: 3, selAlphabet: [][]string{{"a"}, {"b"}, {"a", "b"}, {"b", "a"}}, maxSel: 2,
		defaults: [][]c15ref.Pair{c15P(), c15P("a", "1"), c15P("a", "1", "b", "2"), c15P("b", "9")},
		cross:    [][]c15ref.Pair{c15P("a", "1")}, randMax: 2}
	if vreport.Thorough() {
		b.msMax, b.randMax = 4, 4
		b.selAlphabet = append(b.selAlphabet, []string{"a", "a"})
		b.cross = [][]c15ref.Pair{c15P("a", "1"), c15P("a", "1", "b", "2"), c15P("b", "9")}
		b.perms = true
	}
	return b
}

// three-key scope: deeper subset tries (selectors of up to 3 keys).
func c15Bounds3() c15Bound {
	abc := []string{"a", "b", "c"}
	b := c15Bound{keys: abc, values: []string{"1", "2"}, critKeys: abc, critV: []string{"1", "2", "9"},
		ordMax: 0, msMax: 2, selAlphabet: c15ref.KeySets(abc), maxSel: 2,
		defaults: [][]c15ref.Pair{c15P(), c15P("a", "1"), c15P("a", "1", "b", "2"), c15P("b", "9")}, randMax: 1}
	if vreport.Thorough() {
		b.randMax = 3
		b.critKeys = []string{"a", "b", "c", "z"}
		b.ordMax, b.msMax = 2, 3
		b.defaults = append(b.defaults, c15P("a", "2", "b", "1", "c", "1"))
	}
	return b
}

// four-host scope: every ORDERED list of exactly 4 hosts (the pre-index builder
// caches host slices by index set; index sets with equal min, max and size but
// different members need 4 hosts whose first and last are in both sets).
func c15Bounds4() c15Bound {
	ab := []string{"a", "b"}
	b := c15Bound{keys: ab, values: []string{"1", "2"}, critKeys: ab, critV: []string{"1", "2"},
		ordMax: 4, msMax: 4, minHosts: 4, selAlphabet: c15ref.KeySets(ab), maxSel: 2,
		defaults: [][]c15ref.Pair{c15P("a", "1")}, randMax: 0}
	if vreport.Thorough() {
		b.critKeys, b.critV = []string{"a", "b", "z"}, []string{"1", "2", "9"}
		b.selAlphabet = [][]string{{"a"}, {"b"}, {"a", "b"}, {"b", "a"}}
		b.defaults = [][]c15ref.Pair{c15P(), c15P("a", "1"), c15P("a", "1", "b", "2"), c15P("b", "9")}
		b.cross = [][]c15ref.Pair{c15P("a", "1")}
		b.randMax = 4
	}
	return b
}

func c15Gen(b c15Bound, yield func(c15Case) bool) {
	shapes := c15ref.Shapes(b.keys, b.values)
	sels := c15ref.SelectorLists(b.selAlphabet, b.maxSel)
	fbs := b.fallbacks()
	si, sn := vreport.Shard()
	idx := 0
	each := func(ms []int) bool {
		if len(ms) < b.minHosts {
			return true
		}
		hosts := [][]c15ref.Pair{}
		for _, s := range ms {
			hosts = append(hosts, shapes[s])
		}
		for _, sel := range sels {
			for _, fb := range fbs {
				for _, lb := range []string{"rr", "random"} {
					if lb == "random" && len(hosts) > b.randMax {
						continue
					}
					idx++
					if idx%sn != si {
						continue
					}
					c := c15Case{Cfg: c15ref.Config{Hosts: hosts, Selectors: sel, Policy: fb.Policy, Default: fb.Default}, LB: lb}
					if !yield(c) {
						return false
					}
				}
			}
		}
		return true
	}
	if !c15ref.Sequences(len(shapes), b.ordMax, each) {
		return
	}
	c15ref.Multisets(len(shapes), b.msMax, func(ms []int) bool {
		if len(ms) <= b.ordMax {
			return true // already covered by the ordered lists
		}
		return each(ms)
	})
}

const c15Rule = "complete cartesian product: host lists x selector lists x fallback x inner balancer {round-robin, random(scripted draws)} x probes; every probe = HostNum + IsExistsHosts + n+1 successive ChooseHost on BOTH builders (n = cluster size); criteria in the api contract's order (sorted by name) are compared with the reference written from the statement (subset hit: chosen within S, never nil, HostNum=|S|; otherwise the fallback exactly) and between the builders; criteria in another order, a context without criteria and a nil context are compared between the two builders only (statement silent); LoadBalancers() key sets compared between builders; evaluations = (configuration, inner balancer, probe) triples; distinct = distinct (expected class, reason, key-set relation, #hosts, #allowed, #selectors, policy, #default) classes; outcomes = distinct (class, HostNum, IsExistsHosts, chosen set, nil)"

func c15RunPart(name string, b c15Bound) {
	p := vreport.Begin("C15", name, 25*time.Minute)
	probes := c15ref.Criteria(b.critKeys, b.critV, b.perms)
	probes = append(probes, c15ref.Probe{Kind: "nil-criteria"}, c15ref.Probe{Kind: "nil-ctx"})
	e := c15NewEnv(probes)
	complete := vreport.Run(p, func(yield func(c15Case) bool) { c15Gen(b, yield) },
		func(p *vreport.Part, c c15Case) {
			c15Check(e, p, c)
			if p.WantSample() {
				p.Sample(c)
			}
		})
	p.Note("probes_per_config", len(probes))
	p.Note("cluster_infos_built", len(e.infos))
	p.End(complete, b.String(), c15Rule)
}

func TestVerifC15Subset2Keys(t *testing.T) { c15RunPart("subset-2keys", c15Bounds2()) }

func TestVerifC15Subset3Keys(t *testing.T) { c15RunPart("subset-3keys", c15Bounds3()) }

func TestVerifC15Subset4Hosts(t *testing.T) { c15RunPart("subset-4hosts", c15Bounds4()) }

// ---- wide scope: selectors of every size 1..8, overlapping selector lists,
// order-trap key names, hand-written shortcut inputs (see c15ref "wide scope").

func c15WideBound() c15ref.WideBound {
	b := c15ref.WideBound{Sizes: []int{1, 2, 3, 4, 5, 6, 7, 8}, Bases: []string{"prefix", "suffix"}, Spellings: []string{"sorted", "rotated"},
		SingleVals: 3, PairVals: 2, Extras: []bool{true}}
	if vreport.Thorough() {
		b.Bases = []string{"prefix", "suffix"}
		b.Spellings = []string{"sorted", "reversed", "rotated", "dup"}
		b.PairVals = 3
		b.Extras = []bool{false, true}
		b.AllFB, b.AllKeySets, b.DupList = true, true, true
	}
	return b
}

const c15WideRule = "complete product: selector size x base x spelling x selector list x varied key positions x extra hosts x fallback x inner balancer, then every derived probe (criteria key sets x value assignments, see bound) = HostNum + IsExistsHosts + n+1 successive ChooseHost on BOTH builders; sorted criteria are compared with the reference written from the statement (a selector with exactly the criteria's key set and a host carrying all pairs: chosen within those hosts, never nil, HostNum = their number; otherwise the fallback policy exactly) and between the builders; the reversed order, a context without criteria and a nil context between the builders only; LoadBalancers() key sets compared between builders; a violation's replayable case is the configuration + the criteria key set (all value assignments re-asked); evaluations = (configuration, inner balancer, probe) triples; distinct/outcomes as in the small-scope parts"

func c15RunWide(name string, bound string, gen func(yield func(c15ref.Config, c15ref.WideSpec) bool) bool, randomFor func(c15ref.Config) bool) {
	p := vreport.Begin("C15", name, 25*time.Minute)
	e := c15NewEnv(nil)
	si, sn := vreport.Shard()
	configs := 0
	complete := vreport.Run(p, func(yield func(c15Case) bool) {
		idx := 0
		gen(func(cfg c15ref.Config, spec c15ref.WideSpec) bool {
			for _, lb := range []string{"rr", "random"} {
				if lb == "random" && !randomFor(cfg) {
					continue
				}
				idx++
				if idx%sn != si {
					continue
				}
				spec := spec
				if !yield(c15Case{Cfg: cfg, LB: lb, Wide: &spec}) {
					return false
				}
			}
			return true
		})
	}, func(p *vreport.Part, c c15Case) {
		configs++
		c15Check(e, p, c)
		if p.WantSample() {
			s := c // keep samples small: one key set
			if s.OnlyKeys == nil && s.Only == nil && s.Wide != nil && s.Wide.P != nil {
				ks := append([]string{}, s.Wide.P...)
				s.OnlyKeys = &ks
			}
			p.Sample(s)
		}
	})
	p.Note("configurations", configs)
	p.Note("probes_total", e.nprobes)
	p.Note("cluster_infos_built", len(e.infos))
	p.End(complete, bound, c15WideRule)
}

func TestVerifC15SubsetWide(t *testing.T) {
	b := c15WideBound()
	thorough := vreport.Thorough()
	c15RunWide("subset-wide-selectors-1to8", b.String()+"; inner balancer round-robin for every configuration, random (source scripted, all draws) for "+
		map[bool]string{true: "every configuration", false: "the single-selector lists"}[thorough]+"; all hosts healthy",
		func(yield func(c15ref.Config, c15ref.WideSpec) bool) bool { return c15ref.WideConfigs(b, yield) },
		func(cfg c15ref.Config) bool { return thorough || len(cfg.Selectors) == 1 })
}

func TestVerifC15SubsetShortcuts(t *testing.T) {
	var names []string
	for _, s := range c15ref.Shortcuts() {
		names = append(names, s.Name)
	}
	c15RunWide("subset-shortcut-inputs", fmt.Sprintf("%d hand-written configurations, one per implementation shortcut seen in the builders/balancer: %s; each under none / any-endpoint / default-subset {} / {zz:9} and, for each listed default subset, default-subset / any-endpoint / none with it configured; criteria: every subset of the configuration's keys + unknown key zz, each key taking every value some host has for it, plus first/last criterion replaced by the unknown value, plus one reversed order; inner balancer round-robin and random (scripted, all draws); all hosts healthy",
		len(names), strings.Join(names, " | ")),
		c15ref.ShortcutConfigs, func(c15ref.Config) bool { return true })
}
