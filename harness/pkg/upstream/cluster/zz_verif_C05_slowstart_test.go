//go:build verif

package cluster

// C05 part "slow-start": the C05 statement (only members of the current host
// set; a healthy host whenever one exists; no host only when none is healthy)
// under the slow-start feature of loadbalancer.go, which makes the effective
// weights of the EDF based policies (weighted round robin, least request, least
// connection, peak EWMA) a function of the clock and of each host's
// LastHealthCheckPassTime.
//
// The clock is virtual: the unit is built with the "cluster" instrumentation
// set, which rewrites every time.Now of pkg/upstream/cluster (the slow-start
// factor function, the stamp written by Host.ClearHealthFlag/SetHealthFlag) to
// the scheduler's clock. Every run is one single-threaded vrt execution: the
// clock stands still unless the run advances it (vrt.Sleep), host start times
// are set relative to it through the public Host.SetLastHealthCheckPassTime,
// and the scheduler's per-execution step limit turns an unbounded selection
// loop into an observation instead of a hung test.
//
// Three ways to obtain the slow-start configuration ("layer"):
//
//	config   v2.Cluster{SlowStart: ...} -> NewClusterInfo   (what the control plane can configure;
//	         NewClusterInfo replaces aggression <= 0 by 1 and min_weight_percent <= 0 by 0.1)
//	raw      the SlowStart struct of the real clusterInfo is set directly (as the package's own
//	         tests do): aggression 0 / negative and min_weight_percent 0 reach the weight function
//	custom   a mode registered through the public RegisterSlowStartMode whose factor function
//	         returns a constant (0, negative, NaN, +Inf, 0.5): effective weights 0 / NaN / negative
//	         reach the EDF scheduler
//
// Oracle: c05Judge (membership by identity + health) on every pick, plus: no
// panic, no unbounded loop. Nothing about WHICH healthy host is returned
// (proportions are C06's statement).

import (
	"fmt"
	"math"
	"math/rand"
	"runtime"
	"sort"
	"strings"
	"testing"
	"time"

	"mosn.io/api"
	v2 "mosn.io/mosn/pkg/config/v2"
	"mosn.io/mosn/pkg/types"
	"mosn.io/mosn/pkg/verifrt/vreport"
	"mosn.io/mosn/pkg/verifrt/vrt"
	"mosn.io/mosn/pkg/verifrt/vtime"
)

const c05ssCustomMode = "c05-constant-factor"

// c05ssFactor is what the custom mode's factor function returns (set per run).
var c05ssFactor float64

func init() {
	RegisterSlowStartMode(types.SlowStartMode(c05ssCustomMode), func(types.ClusterInfo, types.Host) float64 { return c05ssFactor })
}

var c05ssPolicies = []types.LoadBalancerType{types.WeightedRoundRobin, types.LeastActiveRequest, types.LeastActiveConnection, types.PeakEwma}

// host age classes (relative to the virtual clock at the start of a run)
const (
	c05ssOld    = 0 // passed its health check 24h ago: older than every window
	c05ssHalf   = 1 // half a window ago
	c05ssJust   = 2 // right now
	c05ssFuture = 3 // one hour in the future
	c05ssZero   = 4 // never recorded (zero time): the state of a host built by NewSimpleHost
)

var c05ssAgeNames = []string{"old", "half-way", "just-started", "future", "never-recorded"}

type c05ssCfg struct {
	Layer  string  `json:"layer"` // config | raw | custom
	Mode   string  `json:"mode"`
	DurMs  int64   `json:"slow_start_duration_ms"`
	Aggr   float64 `json:"aggression"`
	MWP    float64 `json:"min_weight_percent"`
	Factor string  `json:"factor,omitempty"` // custom layer: the constant factor ("0", "-0.5", "nan", "inf", "0.5", "1e-320")
}

func (c c05ssCfg) String() string {
	s := fmt.Sprintf("%s{mode=%q duration=%dms aggression=%v min_weight_percent=%v", c.Layer, c.Mode, c.DurMs, c.Aggr, c.MWP)
	if c.Layer == "custom" {
		s += " factor=" + c.Factor
	}
	return s + "}"
}

func c05ssParseFactor(s string) float64 {
	switch s {
	case "nan":
		return math.NaN()
	case "inf":
		return math.Inf(1)
	}
	var f float64
	fmt.Sscan(s, &f)
	return f
}

type c05ssSub struct {
	Ages []int `json:"ages"` // per host: age class
	Draw int   `json:"draw"` // alphabet index answered to EVERY random draw of the run (c05Alpha)
	Tick int   `json:"tick"` // 0: clock frozen; 1: the clock advances by max(window,1s)/4 after every ceil(picks/8) picks (two windows over the run)
	Flip int   `json:"flip"` // -1: none; j: before pick picks/2 the health of host j is toggled through Host.SetHealthFlag / ClearHealthFlag
}

// c05ssCase is one group: (policy, configuration, weights, health pattern) with
// the alphabets of its sub-enumeration; a replayable case carries One.
type c05ssCase struct {
	Block    string    `json:"block"`
	Policy   string    `json:"policy"`
	Cfg      c05ssCfg  `json:"cfg"`
	Weights  []uint32  `json:"weights"`
	Healthy  uint      `json:"healthy_mask"` // bit i set: host i healthy at the start
	Picks    int       `json:"picks"`
	AgeAlpha []int     `json:"age_alphabet"`
	Draws    []int     `json:"draws"`
	TickFlip [][2]int  `json:"tick_flip"`
	One      *c05ssSub `json:"one,omitempty"`
}

// ---------------------------------------------------------------------------
// configurations

func c05ssMakeInfo(pol types.LoadBalancerType, cfg c05ssCfg) types.ClusterInfo {
	// one cluster name per policy: host and cluster statistics are keyed by name,
	// so the number of metric registries stays bounded
	cc := v2.Cluster{Name: "c05ss-" + string(pol), ClusterType: v2.SIMPLE_CLUSTER, LbType: v2.LbType(pol)}
	dur := time.Duration(cfg.DurMs) * time.Millisecond
	if cfg.Layer == "config" {
		cc.SlowStart = v2.SlowStartConfig{Mode: cfg.Mode, SlowStartDuration: &api.DurationConfig{Duration: dur}, Aggression: cfg.Aggr, MinWeightPercent: cfg.MWP}
		return NewClusterInfo(cc)
	}
	info := NewClusterInfo(cc)
	ci, ok := info.(*clusterInfo)
	if !ok {
		return nil
	}
	ci.slowStart = types.SlowStart{Mode: types.SlowStartMode(cfg.Mode), SlowStartDuration: dur, Aggression: cfg.Aggr, MinWeightPercent: cfg.MWP}
	return ci
}

func c05ssResolvedKey(info types.ClusterInfo) string {
	s := info.SlowStart()
	return fmt.Sprintf("%q|%d|%x|%x", s.Mode, int64(s.SlowStartDuration), math.Float64bits(s.Aggression), math.Float64bits(s.MinWeightPercent))
}

// c05ssConfigGrid is the configuration grid of the control plane:
// mode x slow_start_duration x aggression x min_weight_percent.
func c05ssConfigGrid(modes []string, durs []int64, aggrs, mwps []float64) []c05ssCfg {
	var out []c05ssCfg
	for _, m := range modes {
		for _, d := range durs {
			for _, a := range aggrs {
				for _, w := range mwps {
					out = append(out, c05ssCfg{Layer: "config", Mode: m, DurMs: d, Aggr: a, MWP: w})
				}
			}
		}
	}
	return out
}

// c05ssDedupe keeps, of the config-layer grid points, one per resolved
// SlowStart struct (what ClusterInfo.SlowStart() returns from the real
// NewClusterInfo); the balancers read the configuration only through it.
func c05ssDedupe(grid []c05ssCfg) (kept []c05ssCfg, points int) {
	seen := map[string]bool{}
	for _, g := range grid {
		points++
		k := g.Layer
		if g.Layer == "config" {
			info := c05ssMakeInfo(types.WeightedRoundRobin, g)
			k += c05ssResolvedKey(info)
		} else {
			k += fmt.Sprint(g)
		}
		if seen[k] {
			continue
		}
		seen[k] = true
		kept = append(kept, g)
	}
	return kept, points
}

func c05ssRawConfigs(full bool) []c05ssCfg {
	out := []c05ssCfg{
		{Layer: "raw", Mode: "duration", DurMs: 10000, Aggr: 0, MWP: 0},     // 1/aggression = +Inf, factor^Inf = 0, no floor: weight 0
		{Layer: "raw", Mode: "duration", DurMs: 10000, Aggr: 1, MWP: 0},     // no floor
		{Layer: "raw", Mode: "duration", DurMs: 10000, Aggr: -1, MWP: 0},    // factor^-1 > 1
		{Layer: "raw", Mode: "duration", DurMs: 10000, Aggr: -0.5, MWP: 0.1},
		{Layer: "raw", Mode: "duration", DurMs: 10000, Aggr: 0.001, MWP: 0}, // factor^1000 underflows to 0
		{Layer: "raw", Mode: "duration", DurMs: -1000, Aggr: 1, MWP: 0.1},   // negative window
		{Layer: "custom", Mode: c05ssCustomMode, Aggr: 1, MWP: 0, Factor: "0"},
		{Layer: "custom", Mode: c05ssCustomMode, Aggr: 1, MWP: 0.1, Factor: "0"},
		{Layer: "custom", Mode: c05ssCustomMode, Aggr: 2, MWP: 0, Factor: "-0.5"}, // (-0.5)^(1/2) = NaN
		{Layer: "custom", Mode: c05ssCustomMode, Aggr: 1, MWP: 0, Factor: "-0.5"}, // negative weight
		{Layer: "custom", Mode: c05ssCustomMode, Aggr: 1, MWP: 0, Factor: "nan"},
		{Layer: "custom", Mode: c05ssCustomMode, Aggr: 1, MWP: 0, Factor: "1e-320"}, // 1/weight = +Inf
	}
	if full {
		out = append(out,
			c05ssCfg{Layer: "raw", Mode: "duration", DurMs: 1000, Aggr: 0, MWP: 0},
			c05ssCfg{Layer: "raw", Mode: "duration", DurMs: 10000, Aggr: 0, MWP: 1},
			c05ssCfg{Layer: "raw", Mode: "duration", DurMs: 3600000, Aggr: 0.5, MWP: 0},
			c05ssCfg{Layer: "raw", Mode: "unknown-mode", DurMs: 10000, Aggr: 0, MWP: 0},
			c05ssCfg{Layer: "custom", Mode: c05ssCustomMode, Aggr: 1, MWP: 0.1, Factor: "0.5"},
			c05ssCfg{Layer: "custom", Mode: c05ssCustomMode, Aggr: 0, MWP: 0, Factor: "0.5"},
			c05ssCfg{Layer: "custom", Mode: c05ssCustomMode, Aggr: 1, MWP: 0, Factor: "inf"},
			c05ssCfg{Layer: "custom", Mode: c05ssCustomMode, Aggr: -1, MWP: 0, Factor: "0"}, // 0^-1 = +Inf
		)
	}
	return out
}

// ---------------------------------------------------------------------------
// blocks of the enumeration

type c05ssBlock struct {
	name     string
	cfgs     []c05ssCfg
	sizes    []int
	sorted3  bool // host sets of 3: weight vectors in non-decreasing order only
	ages     []int
	draws    []int // alphabet values answered to the draws (nil: the whole alphabet of the set size). The even values reach every residue of Intn (every EDF pre-advance count); the odd ones only move the start index of the fallback round robin
	tickFlip func(n int) [][2]int
	pickCap  int // picks = min(2*sum(w), pickCap), at least 2n+2
	what     string
}

func c05ssIn(s []int, x int) bool {
	for _, y := range s {
		if y == x {
			return true
		}
	}
	return false
}

func c05ssNoTF(int) [][2]int { return [][2]int{{0, -1}} }

func c05ssAllTF(n int) [][2]int {
	var out [][2]int
	for tick := 0; tick <= 1; tick++ {
		for flip := -1; flip < n; flip++ {
			out = append(out, [2]int{tick, flip})
		}
	}
	return out
}

func c05ssExtraTF(n int) [][2]int { return c05ssAllTF(n)[1:] }

func c05ssBlocks() (blocks []c05ssBlock, gridPoints int) {
	modes := []string{"", "duration", "unknown-mode"}
	durs := []int64{0, 1000, 10000}
	aggrs := []float64{0, 0.5, 1, 2}
	mwps := []float64{0, 0.1, 1}
	full, gridPoints := c05ssDedupe(c05ssConfigGrid(modes, durs, aggrs, mwps))
	all4 := []int{c05ssOld, c05ssHalf, c05ssJust, c05ssFuture}
	all5 := []int{c05ssOld, c05ssHalf, c05ssJust, c05ssFuture, c05ssZero}
	var narrow []c05ssCfg // the configurations in which slow start can act, 10 s window
	for _, c := range full {
		if c.Mode == "duration" && c.DurMs == 10000 {
			narrow = append(narrow, c)
		}
	}
	pick := func(cs []c05ssCfg, aggr, mwp float64) c05ssCfg {
		for _, c := range cs {
			if c.Aggr == aggr && c.MWP == mwp {
				return c
			}
		}
		return cs[0]
	}
	if vreport.Thorough() {
		rawAll := c05ssRawConfigs(true)
		cfgs := append(append([]c05ssCfg{}, full...), rawAll...)
		return []c05ssBlock{
			{name: "product-n12", cfgs: cfgs, sizes: []int{1, 2}, ages: all5, tickFlip: c05ssNoTF, pickCap: 1 << 20,
				what: "every configuration x host sets of 1..2, clock frozen, picks = 2*sum(w) (two EDF rounds)"},
			{name: "product-n3", cfgs: cfgs, sizes: []int{3}, ages: all4, tickFlip: c05ssNoTF, pickCap: 64,
				what: "every configuration x host sets of 3, clock frozen, picks = min(2*sum(w),64)"},
			{name: "clock-and-flips-n12", cfgs: cfgs, sizes: []int{1, 2}, ages: all5, tickFlip: c05ssExtraTF, pickCap: 1 << 20,
				what: "every configuration x host sets of 1..2 x advancing clock x one health flip in mid-run, picks = 2*sum(w)"},
			{name: "clock-and-flips-n3", cfgs: append(append([]c05ssCfg{}, narrow...), rawAll...), sizes: []int{3}, sorted3: true, ages: all4, draws: []int{0, 2, 4}, tickFlip: c05ssExtraTF, pickCap: 48,
				what: "10 s window + raw/custom configurations x host sets of 3 (weights in non-decreasing order) x advancing clock x one health flip in mid-run, picks = min(2*sum(w),48)"},
		}, gridPoints
	}
	// quick: a cross instead of the full product
	var quickGrid []c05ssCfg
	for _, c := range full {
		if c.Mode == "duration" {
			quickGrid = append(quickGrid, c)
		} else if (c.DurMs == 0 && c.Aggr == 0 && c.MWP == 0) || (c.DurMs == 10000 && c.Aggr == 2 && c.MWP == 1) {
			quickGrid = append(quickGrid, c) // modes "" / unknown: the two corner parameter sets
		}
	}
	raw := c05ssRawConfigs(false)
	gridCfgs := append(append([]c05ssCfg{}, quickGrid...), raw...)
	few := []c05ssCfg{pick(narrow, 1, 0.1), pick(narrow, 2, 1), raw[0], raw[6]}
	return []c05ssBlock{
		{name: "grid-n1", cfgs: gridCfgs, sizes: []int{1}, ages: all5, tickFlip: c05ssNoTF, pickCap: 12,
			what: "every configuration of the quick grid x single hosts, clock frozen, picks = min(2*sum(w),12), at least 4"},
		{name: "grid-n2", cfgs: gridCfgs, sizes: []int{2}, ages: all4, draws: []int{0, 2, 4}, tickFlip: c05ssNoTF, pickCap: 12,
			what: "every configuration of the quick grid x host sets of 2, clock frozen, picks = min(2*sum(w),12)"},
		{name: "hosts-n3", cfgs: few, sizes: []int{3}, sorted3: true, ages: []int{c05ssOld, c05ssJust, c05ssFuture}, draws: []int{0, 2}, tickFlip: c05ssNoTF, pickCap: 12,
			what: "4 configurations (10 s window: aggression 1 / floor 0.1 and aggression 2 / floor 1; raw aggression 0 without floor; constant factor 0) x host sets of 3 (weights in non-decreasing order), clock frozen, picks = min(2*sum(w),12)"},
		{name: "long-n2", cfgs: few[:3], sizes: []int{2}, ages: all4, draws: []int{0}, tickFlip: c05ssAllTF, pickCap: 64,
			what: "3 configurations x host sets of 2 x {frozen, advancing clock} x {no flip, health flip of host 0 / 1 in mid-run}, picks = min(2*sum(w),64)"},
	}, gridPoints
}

func c05ssWeightVectors(n int, sortedOnly bool) [][]uint32 {
	alpha := []uint32{1, 2, 100}
	var out [][]uint32
	w := make([]uint32, n)
	var rec func(i int)
	rec = func(i int) {
		if i == n {
			out = append(out, append([]uint32(nil), w...))
			return
		}
		for _, a := range alpha {
			if sortedOnly && i > 0 && a < w[i-1] {
				continue
			}
			w[i] = a
			rec(i + 1)
		}
	}
	rec(0)
	return out
}

func c05ssPicks(w []uint32, cap int) int {
	s := 0
	for _, x := range w {
		s += int(x)
	}
	n := 2 * s
	if n > cap {
		n = cap
	}
	if n < 2*len(w)+2 {
		n = 2*len(w) + 2
	}
	return n
}

// ---------------------------------------------------------------------------
// one run

type c05ssConst int

func (s c05ssConst) Int63() int64 { return c05Alpha(int(s)) }
func (s c05ssConst) Seed(int64)   {}

type c05ssFixture struct {
	info  types.ClusterInfo
	hosts []types.Host
}

type c05ssViol struct{ kind, detail string }

type c05ssResult struct {
	viols     []c05ssViol
	chosen    uint // set of member indices returned
	outcomes  map[string]bool
	scheduler bool
	picksDone int
	stage     string // what was running (for the step-limit / deadlock report)
	harness   string
	panicked  bool
}

func c05ssFlag(i int) api.HealthFlag {
	if i%2 == 1 {
		return api.FAILED_ACTIVE_HC
	}
	return api.FAILED_OUTLIER_CHECK
}

// c05ssBody runs inside a vrt execution (virtual clock).
func c05ssBody(fx *c05ssFixture, c *c05ssCase, sub c05ssSub, res *c05ssResult) {
	n := len(fx.hosts)
	now := vtime.Now()
	window := time.Duration(c.Cfg.DurMs) * time.Millisecond
	for i, h := range fx.hosts {
		switch sub.Ages[i] {
		case c05ssOld:
			h.SetLastHealthCheckPassTime(now.Add(-24 * time.Hour))
		case c05ssHalf:
			h.SetLastHealthCheckPassTime(now.Add(-window / 2))
		case c05ssJust:
			h.SetLastHealthCheckPassTime(now)
		case c05ssFuture:
			h.SetLastHealthCheckPassTime(now.Add(time.Hour))
		default:
			h.SetLastHealthCheckPassTime(time.Time{})
		}
	}
	healthy := make([]bool, n)
	for i := range healthy {
		healthy[i] = c.Healthy&(1<<uint(i)) != 0
	}
	c05SetHealth(fx.hosts, c.Healthy)
	c05SetCounters(fx.hosts, 0)
	for i, h := range fx.hosts {
		if h.Health() != healthy[i] {
			res.harness = fmt.Sprintf("host %d: Health()=%v after setting healthy=%v", i, h.Health(), healthy[i])
			return
		}
	}
	if c.Cfg.Layer == "custom" {
		c05ssFactor = c05ssParseFactor(c.Cfg.Factor)
	}
	r := rand.New(c05ssConst(sub.Draw))
	restore := c05SwapRRFactoryRand(r)
	defer restore()
	hs := NewHostSet(fx.hosts)
	members := c05HostsOf(hs)
	if len(members) != n {
		res.harness = fmt.Sprintf("host set has %d members, expected %d", len(members), n)
		return
	}
	res.stage = "building the balancer"
	var lb types.LoadBalancer
	func() {
		defer func() {
			if p := recover(); p != nil {
				res.panicked = true
				res.viols = append(res.viols, c05ssViol{"NewLoadBalancer panicked", fmt.Sprint(p)})
			}
		}()
		lb = NewLoadBalancer(fx.info, hs)
		if got := c05ConcreteType(lb); got != c.Policy {
			res.harness = fmt.Sprintf("NewLoadBalancer for %s returned %s", c.Policy, got)
			return
		}
		if err := c05Script(lb, fx.info, r); err != nil {
			res.harness = err.Error()
		}
	}()
	if res.panicked || res.harness != "" {
		return
	}
	if e := c05Edf(lb); e != nil && e.scheduler != nil {
		res.scheduler = true
	}
	every := (c.Picks + 7) / 8
	step := window
	if step < time.Second {
		step = time.Second
	}
	step /= 4
	ctx := c05NewCtx(fx.info, 0, -1)
	for k := 0; k < c.Picks; k++ {
		res.stage = "a pick"
		if sub.Flip >= 0 && sub.Flip < n && k == c.Picks/2 {
			j := sub.Flip
			h := fx.hosts[j]
			if healthy[j] {
				h.SetHealthFlag(api.FAILED_ACTIVE_HC)
			} else {
				h.ClearHealthFlag(c05ssFlag(j)) // stamps LastHealthCheckPassTime with the (virtual) clock: the host re-enters its window
			}
			healthy[j] = !healthy[j]
			if h.Health() != healthy[j] {
				res.harness = fmt.Sprintf("host %d: Health()=%v after toggling to %v", j, h.Health(), healthy[j])
				return
			}
		}
		got, pan := c05Choose(lb, ctx)
		outcome, viol := c05Judge(members, healthy, got)
		if pan != nil {
			// no panic, whatever the health pattern (this part's oracle)
			res.panicked = true
			any := false
			for _, x := range healthy {
				any = any || x
			}
			kind := c05KindPanic
			if !any {
				kind = "ChooseHost panicked (no healthy host)"
			}
			res.viols = append(res.viols, c05ssViol{kind, fmt.Sprintf("pick %d: panic: %v", k+1, pan)})
			res.outcomes["panic"] = true
			res.picksDone = k + 1
			return // the panic may have left a lock held
		}
		if idx := c05HostIndex(hs, got); idx >= 0 {
			res.chosen |= 1 << uint(idx)
		}
		res.outcomes[outcome] = true
		if viol != c05OK {
			res.viols = append(res.viols, c05ssViol{viol, fmt.Sprintf("pick %d returned member index %d (%s), healthy now %v", k+1, c05HostIndex(hs, got), outcome, healthy)})
		}
		res.picksDone = k + 1
		if sub.Tick == 1 && (k+1)%every == 0 {
			vrt.Sleep(step)
		}
	}
	res.stage = "done"
}

func c05ssKey(c *c05ssCase, kind string) string {
	return fmt.Sprintf("lb=%s slow-start (%s layer): %s", c.Policy, c.Cfg.Layer, kind)
}

func c05ssRun(p *vreport.Part, fx *c05ssFixture, c *c05ssCase, sub c05ssSub) {
	res := &c05ssResult{outcomes: map[string]bool{}}
	// a pick makes a bounded number of lock/atomic operations (at most n EDF
	// probes + the fallback's scans); 400 per pick is two orders of magnitude above
	r := vrt.RunOnce(nil, vrt.Options{MaxSteps: 4000 + 400*c.Picks}, func() { c05ssBody(fx, c, sub, res) })
	one := func() c05ssCase {
		cc := *c
		s := sub
		s.Ages = append([]int(nil), sub.Ages...)
		cc.One = &s
		return cc
	}
	ageNames := func() []string {
		out := make([]string, len(sub.Ages))
		for i, a := range sub.Ages {
			out[i] = c05ssAgeNames[a]
		}
		return out
	}
	if res.harness == "" && !r.StepLimit && !r.Deadlock && res.stage == "done" && len(res.viols) == 0 {
		// the common case, kept cheap
		p.EvalN(res.picksDone)
		c05ssRecord(p, c, res)
		if p.WantSample() {
			p.Sample(map[string]interface{}{"policy": c.Policy, "cfg": c.Cfg, "weights": c.Weights, "healthy_mask": c.Healthy, "ages": ageNames(),
				"draw": sub.Draw, "tick": sub.Tick, "flip": sub.Flip, "picks": c.Picks, "edf_scheduler": res.scheduler, "returned_member_set": fmt.Sprintf("%b", res.chosen)})
		}
		return
	}
	where := fmt.Sprintf("policy %s, %s, weights %v, healthy mask %0*b (bit i = host i), host ages %v, every draw = alphabet value %d, tick %d, flip %d, %d picks",
		c.Policy, c.Cfg, c.Weights, len(c.Weights), c.Healthy, ageNames(), sub.Draw, sub.Tick, sub.Flip, c.Picks)
	if res.harness != "" {
		vreport.HarnessError("C05", "slow-start", where+": "+res.harness)
		return
	}
	if r.StepLimit {
		p.Violation(c05ssKey(c, "unbounded loop (scheduling-step limit reached)"),
			fmt.Sprintf("%s: %d scheduling steps while %s (after %d completed picks); stack: %s", where, r.Steps, res.stage, res.picksDone, r.StepLimitStack), one())
	} else if (r.Deadlock || res.stage != "done") && !res.panicked {
		vreport.HarnessError("C05", "slow-start", fmt.Sprintf("%s: execution did not complete (%s) while %s; panics %v", where, r.String(), res.stage, r.Panics))
		return
	}
	for _, v := range res.viols {
		p.Violation(c05ssKey(c, v.kind), where+": "+v.detail, one())
	}
	p.EvalN(res.picksDone)
	c05ssRecord(p, c, res)
}

// per-case strings of the outcome / distinct keys (a case = several thousand runs)
var c05ssKeyCache struct {
	c      *c05ssCase
	prefix string
	dist   string
}

func c05ssRecord(p *vreport.Part, c *c05ssCase, res *c05ssResult) {
	if c05ssKeyCache.c != c {
		c05ssKeyCache.c = c
		c05ssKeyCache.prefix = c.Policy + "|" + c.Cfg.Layer + "|"
		c05ssKeyCache.dist = fmt.Sprintf("%s|%v|%v|%b|", c.Policy, c.Cfg, c.Weights, c.Healthy)
	}
	sched := "edf|"
	if !res.scheduler {
		sched = "no-edf|"
	}
	for o := range res.outcomes {
		p.Outcome(c05ssKeyCache.prefix + sched + o)
	}
	p.Distinct(c05ssKeyCache.dist + string(rune('0'+res.chosen)))
}

// c05ssSelfCheck: the unit must run instrumented (virtual clock inside an
// execution), otherwise host ages would be taken against the wall clock.
func c05ssSelfCheck() string {
	info := c05ssMakeInfo(types.WeightedRoundRobin, c05ssCfg{Layer: "config", Mode: "duration", DurMs: 10000, Aggr: 1, MWP: 0.1})
	if info == nil {
		return "NewClusterInfo does not return *clusterInfo"
	}
	if s := info.SlowStart(); s.Mode != types.ModeDuration || s.SlowStartDuration != 10*time.Second {
		return fmt.Sprintf("slow-start configuration does not reach ClusterInfo.SlowStart(): %+v", s)
	}
	hosts := c05MakeHosts(info, []string{"10.55.250.1:80"}, []uint32{1})
	msg := ""
	r := vrt.RunOnce(nil, vrt.Options{MaxSteps: 10000}, func() {
		if !vrt.Active() {
			msg = "no active vrt execution inside RunOnce"
			return
		}
		t0 := vtime.Now()
		c05SetHealth(hosts, 0)
		hosts[0].ClearHealthFlag(c05ssFlag(0))
		if !hosts[0].Health() {
			msg = "ClearHealthFlag did not make the host healthy"
			return
		}
		if st := hosts[0].LastHealthCheckPassTime(); !st.Equal(t0) {
			msg = fmt.Sprintf("Host.ClearHealthFlag stamped %v, the virtual clock is %v: pkg/upstream/cluster is not instrumented (unit needs \"instrument\": \"cluster\")", st, t0)
			return
		}
		vrt.Sleep(3 * time.Second)
		if d := vtime.Now().Sub(t0); d != 3*time.Second {
			msg = fmt.Sprintf("vrt.Sleep(3s) advanced the virtual clock by %v", d)
		}
	})
	if msg == "" && (r.Deadlock || r.StepLimit || len(r.Panics) > 0) {
		msg = "self-check execution did not complete: " + r.String() + fmt.Sprint(r.Panics)
	}
	c05SetHealth(hosts, 1)
	return msg
}

func TestVerifC05SlowStart(t *testing.T) {
	c05Quiet()
	p := vreport.Begin("C05", "slow-start", time.Duration(vreport.Pick(8, 45))*time.Minute)
	if !vreport.Replaying() {
		if msg := c05ssSelfCheck(); msg != "" {
			vreport.HarnessError("C05", "slow-start", msg)
			p.End(false, "self-check failed", msg)
			t.Error(msg)
			return
		}
	}
	blocks, gridPoints := c05ssBlocks()
	shardI, shardN := vreport.Shard()
	// one OS thread, as vrt.Explore does: a run hands control to the execution's
	// goroutine and back, which is a plain goroutine switch then
	defer runtime.GOMAXPROCS(runtime.GOMAXPROCS(1))

	// fixtures of the current (policy, configuration): infos and hosts are reused
	// by all its groups and dropped when the enumeration moves on
	var fxOwner string
	fixtures := map[string]*c05ssFixture{}
	var curInfo types.ClusterInfo
	fix := func(c *c05ssCase) *c05ssFixture {
		owner := c.Policy + "|" + fmt.Sprint(c.Cfg)
		if owner != fxOwner {
			fxOwner = owner
			fixtures = map[string]*c05ssFixture{}
			curInfo = c05ssMakeInfo(types.LoadBalancerType(c.Policy), c.Cfg)
		}
		k := fmt.Sprint(c.Weights)
		if f, ok := fixtures[k]; ok {
			return f
		}
		if curInfo == nil {
			return nil
		}
		code := 0
		for _, w := range c.Weights {
			code = code*4 + map[uint32]int{1: 1, 2: 2, 100: 3}[w]
		}
		addrs := make([]string, len(c.Weights))
		for i := range addrs {
			addrs[i] = fmt.Sprintf("10.55.%d.%d:80", code, i+1)
		}
		f := &c05ssFixture{info: curInfo, hosts: c05MakeHosts(curInfo, addrs, c.Weights)}
		fixtures[k] = f
		return f
	}

	configsRun := map[string]bool{}
	gen := func(yield func(c05ssCase) bool) {
		gi := 0
		for _, b := range blocks {
			for _, pol := range c05ssPolicies {
				for _, cfg := range b.cfgs {
					for _, n := range b.sizes {
						draws := []int{}
						for k := 0; k < c05AlphabetFor(n); k++ {
							if b.draws != nil && !c05ssIn(b.draws, k) {
								continue
							}
							draws = append(draws, k)
						}
						for _, w := range c05ssWeightVectors(n, b.sorted3 && n == 3) {
							for healthy := uint(0); healthy < 1<<uint(n); healthy++ {
								gi++
								if gi%shardN != shardI {
									continue
								}
								if !yield(c05ssCase{Block: b.name, Policy: string(pol), Cfg: cfg, Weights: w, Healthy: healthy,
									Picks: c05ssPicks(w, b.pickCap), AgeAlpha: b.ages, Draws: draws, TickFlip: b.tickFlip(n)}) {
									return
								}
							}
						}
					}
				}
			}
		}
	}

	check := func(p *vreport.Part, c c05ssCase) {
		n := len(c.Weights)
		if n < 1 || n > 3 || c.Picks < 1 || c.Picks > 4096 {
			return
		}
		c05ssKeyCache.c = nil // &c may be reused by the next case
		fx := fix(&c)
		if fx == nil {
			vreport.HarnessError("C05", "slow-start", "cannot build the cluster info for "+c.Cfg.String())
			return
		}
		defer c05SetHealth(fx.hosts, 1<<uint(n)-1)
		if c.One != nil {
			if len(c.One.Ages) != n {
				return
			}
			c05ssRun(p, fx, &c, *c.One)
			return
		}
		configsRun[c.Cfg.String()] = true
		ages := make([]int, n)
		runs := 0
		var rec func(i int) bool
		rec = func(i int) bool {
			if i == n {
				for _, d := range c.Draws {
					for _, tf := range c.TickFlip {
						c05ssRun(p, fx, &c, c05ssSub{Ages: ages, Draw: d, Tick: tf[0], Flip: tf[1]})
						runs++
					}
				}
				return !p.Expired()
			}
			for _, a := range c.AgeAlpha {
				ages[i] = a
				if !rec(i + 1) {
					return false
				}
			}
			return true
		}
		rec(0)
		p.Count("runs", runs)
		p.Count("runs_"+c.Block, runs)
	}

	complete := vreport.Run(p, gen, check)
	var bl []string
	for _, b := range blocks {
		var layers []string
		cnt := map[string]int{}
		for _, c := range b.cfgs {
			cnt[c.Layer]++
		}
		for l, k := range cnt {
			layers = append(layers, fmt.Sprintf("%d %s", k, l))
		}
		sort.Strings(layers)
		bl = append(bl, fmt.Sprintf("[%s: %s; %d configurations (%s); age alphabet %d classes; draws %s]", b.name, b.what, len(b.cfgs), strings.Join(layers, ", "), len(b.ages),
			map[bool]string{true: "whole alphabet", false: fmt.Sprint("alphabet values ", b.draws)}[b.draws == nil]))
	}
	p.Note("config_grid_points", gridPoints)
	p.Note("configurations_run", len(configsRun))
	p.End(complete,
		fmt.Sprintf("policies %v; slow-start configuration grid mode {\"\",duration,unknown} x slow_start_duration {0,1s,10s} x aggression {0,0.5,1,2} x min_weight_percent {0,0.1,1} = %d points through v2.Cluster -> NewClusterInfo, run once per distinct resolved ClusterInfo.SlowStart() value, plus raw SlowStart structs (aggression 0 / negative / 0.001, min_weight_percent 0, negative window) and a registered constant-factor mode (factor 0, negative, NaN, +Inf, denormal); host sets of 1..3 hosts, weights from {1,2,100}, every health subset, every host age pattern over {24h old, half a window, just started, 1h in the future, never recorded}; every random draw of a run answers one alphabet value (every value enumerated: every EDF pre-advance count and every start index of the fallback); virtual clock; blocks: %s",
			c05ssPolicies, gridPoints, strings.Join(bl, " ")),
		"complete product inside each block; one run = one single-threaded vrt execution (virtual clock, step limit) that builds the real balancer with NewLoadBalancer and judges every consecutive ChooseHost with c05Judge (member by identity; healthy if any member is; nil only if none is) + no panic + no unbounded loop; one evaluation = one judged pick; distinct = (policy, configuration, weights, health mask, set of members returned); active request/connection counters all 0 and all draw SEQUENCES are the policies part's quantifiers; not compared (statement silent): which member is returned when none is healthy, proportions between healthy hosts (C06)")
}
