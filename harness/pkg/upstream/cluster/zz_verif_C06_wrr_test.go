//go:build verif

package cluster

// C06 (b): weighted round-robin over healthy hosts serves hosts in proportion
// to their effective weights with bounded lag: in ANY window of consecutive
// picks the counts of two hosts i, j satisfy |n_i/w_i - n_j/w_j| <= 1/w_i + 1/w_j,
// checked in exact integer arithmetic as |n_i*w_j - n_j*w_i| <= w_i + w_j.
//
// Seam: the balancer is the one registered for types.WeightedRoundRobin, built
// by the public NewLoadBalancer over real simpleHosts in a real hostSet and
// driven through types.LoadBalancer.ChooseHost. The two random draws of the
// constructor path are scripted (in-package): rrFactory.rand (start index of the
// unweighted fallback, Uint32()%n) is preset before construction; the EDF
// balancer creates its own rand inside newEdfLoadBalancer and consumes it in
// refresh() (randomPick = Intn(n) initial advances), so the harness replaces
// lb.rand by the scripted one and calls the real lb.refresh(info, hosts) again —
// exactly what the constructor does after building the struct. Every value of
// the draw in [0,n) is enumerated.

import (
	"fmt"
	"math/rand"
	"strings"
	"testing"
	"time"

	v2 "mosn.io/mosn/pkg/config/v2"
	"mosn.io/mosn/pkg/types"
	"mosn.io/mosn/pkg/verifrt/vreport"
)

type c06Src struct {
	v     int64
	calls int
}

func (s *c06Src) Int63() int64 { s.calls++; return s.v }
func (s *c06Src) Seed(int64)   {}

type c06WrrCase struct {
	Weights []uint32 `json:"weights"`
	Draw    int      `json:"draw"` // value of the constructor's random draw (EDF initial advances / rr start index), in [0,n)
}

func c06Clamp(w uint32) int64 {
	if w < 1 {
		return 1
	}
	if w > 128 {
		return 128
	}
	return int64(w)
}

// c06Picks builds the balancer for the case and returns the first `picks` host indices.
func c06Picks(c c06WrrCase, picks int) (seq []int, viaEdf bool, err error) {
	defer func() {
		if r := recover(); r != nil {
			err = fmt.Errorf("panic: %v", r)
		}
	}()
	n := len(c.Weights)
	info := &clusterInfo{name: "c06wrr", lbType: types.WeightedRoundRobin}
	hosts := make([]types.Host, n)
	index := map[types.Host]int{}
	for i, w := range c.Weights {
		hosts[i] = NewSimpleHost(v2.Host{HostConfig: v2.HostConfig{Address: fmt.Sprintf("10.6.0.%d:80", i+1), Hostname: fmt.Sprintf("h%d", i), Weight: w}}, info)
		index[hosts[i]] = i
		if !hosts[i].Health() {
			return nil, false, fmt.Errorf("harness: fresh host %d is not healthy", i)
		}
	}
	hs := NewHostSet(hosts)
	if hs.Size() != n {
		return nil, false, fmt.Errorf("harness: host set has %d hosts, expected %d", hs.Size(), n)
	}
	oldRR := rrFactory.rand
	rrSrc := &c06Src{v: int64(c.Draw) << 31} // Uint32() = uint32(Int63()>>31) = Draw
	rrFactory.rand = rand.New(rrSrc)
	defer func() { rrFactory.rand = oldRR }()
	lb := NewLoadBalancer(info, hs)
	wrr, ok := lb.(*WRRLoadBalancer)
	if !ok {
		return nil, false, fmt.Errorf("harness: NewLoadBalancer(WeightedRoundRobin) returned %T", lb)
	}
	edfSrc := &c06Src{v: int64(c.Draw) << 32} // Intn(n) = Int63()>>32 = Draw
	wrr.EdfLoadBalancer.rand = rand.New(edfSrc)
	wrr.EdfLoadBalancer.refresh(info, hs)
	viaEdf = wrr.EdfLoadBalancer.scheduler != nil
	if viaEdf && n > 1 && edfSrc.calls != 1 {
		return nil, viaEdf, fmt.Errorf("harness: refresh consumed %d random values, expected 1", edfSrc.calls)
	}
	if n > 0 && rrSrc.calls != 1 {
		return nil, viaEdf, fmt.Errorf("harness: round-robin factory consumed %d random values, expected 1", rrSrc.calls)
	}
	seq = make([]int, 0, picks)
	for k := 0; k < picks; k++ {
		h := lb.ChooseHost(nil)
		i, known := index[h]
		if h == nil || !known {
			return seq, viaEdf, fmt.Errorf("pick %d: ChooseHost returned %v, not one of the healthy hosts", k, h)
		}
		seq = append(seq, i)
	}
	return seq, viaEdf, nil
}

// c06Windows checks every window (start, length) of seq for every host pair.
// Returns the number of (window, pair) inequalities evaluated and the first failure.
func c06Windows(seq []int, w []int64) (evals int64, bad string) {
	n := len(w)
	L := len(seq)
	// prefix counts
	cnt := make([][]int64, n)
	for i := range cnt {
		cnt[i] = make([]int64, L+1)
	}
	for t, h := range seq {
		for i := 0; i < n; i++ {
			cnt[i][t+1] = cnt[i][t]
		}
		cnt[h][t+1]++
	}
	for i := 0; i < n; i++ {
		for j := i + 1; j < n; j++ {
			lim := w[i] + w[j]
			ci, cj := cnt[i], cnt[j]
			for s := 0; s < L; s++ {
				for e := s + 1; e <= L; e++ {
					d := (ci[e]-ci[s])*w[j] - (cj[e]-cj[s])*w[i]
					if d < 0 {
						d = -d
					}
					if d > lim && bad == "" {
						bad = fmt.Sprintf("window start=%d length=%d: hosts %d,%d (effective weights %d,%d) picked %d,%d times: |n_i*w_j - n_j*w_i| = %d > w_i+w_j = %d",
							s, e-s, i, j, w[i], w[j], ci[e]-ci[s], cj[e]-cj[s], d, lim)
					}
				}
			}
			evals += int64(L) * int64(L+1) / 2
		}
	}
	return evals, bad
}

func c06WrrSelfCheck() error {
	for n := 1; n <= 8; n++ {
		for d := 0; d < n; d++ {
			s := &c06Src{v: int64(d) << 32}
			if got := rand.New(s).Intn(n); got != d || s.calls != 1 {
				return fmt.Errorf("math/rand self-check: Int63()=%d<<32 gives Intn(%d)=%d (%d calls)", d, n, got, s.calls)
			}
			s = &c06Src{v: int64(d) << 31}
			if got := rand.New(s).Uint32(); got != uint32(d) || s.calls != 1 {
				return fmt.Errorf("math/rand self-check: Int63()=%d<<31 gives Uint32()=%d (%d calls)", d, got, s.calls)
			}
		}
	}
	// the window checker itself: a sequence that violates the bound must be flagged, a perfect one not
	if _, bad := c06Windows([]int{0, 0, 0, 1, 1, 1}, []int64{1, 1}); bad == "" {
		return fmt.Errorf("window checker accepted 0,0,0,1,1,1 for weights 1,1")
	}
	if _, bad := c06Windows([]int{0, 1, 0, 1, 1, 0}, []int64{1, 1}); bad != "" {
		return fmt.Errorf("window checker rejected 0,1,0,1,1,0 for weights 1,1: %s", bad)
	}
	return nil
}

func c06WrrVectors() (in [][]uint32, out [][]uint32) {
	quick := []uint32{1, 2, 3, 5, 7, 64, 127, 128}
	seen := map[string]bool{}
	add := func(dst *[][]uint32, w ...uint32) {
		k := fmt.Sprint(w)
		if seen[k] {
			return
		}
		seen[k] = true
		*dst = append(*dst, append([]uint32(nil), w...))
	}
	prod := func(alpha []uint32, n int) {
		w := make([]uint32, n)
		var rec func(i int)
		rec = func(i int) {
			if i == n {
				add(&in, w...)
				return
			}
			for _, a := range alpha {
				w[i] = a
				rec(i + 1)
			}
		}
		rec(0)
	}
	rng := func(lo, hi uint32) (r []uint32) {
		for x := lo; x <= hi; x++ {
			r = append(r, x)
		}
		return
	}
	prod(quick, 2)
	prod(quick, 3)
	prod(rng(1, 128), 2)
	prod([]uint32{1, 2, 5, 128}, 4)
	if vreport.Thorough() {
		prod(rng(1, 24), 3)
		prod([]uint32{1, 2, 3, 4, 5, 7, 8, 16, 31, 32, 33, 64, 100, 127, 128}, 3)
		prod(quick, 4)
		prod([]uint32{1, 2, 3, 7, 128}, 5)
	}
	// out of the supported range: effective weight is the clamp to [1,128]
	oor := []uint32{0, 129, 255, 1000}
	inr := []uint32{1, 2, 64, 128}
	for _, a := range oor {
		for _, b := range append(append([]uint32{}, oor...), inr...) {
			add(&out, a, b)
			add(&out, b, a)
		}
	}
	add(&out, 0, 3, 200)
	add(&out, 1000, 1, 0)
	return in, out
}

func c06WrrRun(t *testing.T, part string, vecs [][]uint32, keyPrefix, bound, rule string) {
	p := vreport.Begin("C06", part, 12*time.Minute)
	if !vreport.Replaying() {
		if err := c06WrrSelfCheck(); err != nil {
			vreport.HarnessError("C06", part, err.Error())
			p.End(false, "self-check failed", "")
			return
		}
	}
	si, sn := vreport.Shard()
	complete := vreport.Run(p,
		func(yield func(c06WrrCase) bool) {
			idx := 0
			for _, w := range vecs {
				for d := 0; d < len(w); d++ {
					idx++
					if idx%sn != si {
						continue
					}
					if !yield(c06WrrCase{Weights: w, Draw: d}) {
						return
					}
				}
			}
		},
		func(p *vreport.Part, c c06WrrCase) {
			eff := make([]int64, len(c.Weights))
			sum := int64(0)
			for i, w := range c.Weights {
				eff[i] = c06Clamp(w)
				sum += eff[i]
			}
			picks := int(2 * sum)
			seq, viaEdf, err := c06Picks(c, picks)
			path := "rr"
			if viaEdf {
				path = "edf"
			}
			if err != nil {
				if strings.HasPrefix(err.Error(), "harness:") {
					vreport.HarnessError("C06", part, fmt.Sprintf("weights %v draw %d: %v", c.Weights, c.Draw, err))
					return
				}
				p.Violation(keyPrefix+" ("+path+" path): ChooseHost did not return a healthy host", fmt.Sprintf("weights %v draw %d: %v", c.Weights, c.Draw, err), c)
				return
			}
			evals, bad := c06Windows(seq, eff)
			p.EvalN(int(evals))
			p.Count("window_pair_inequalities", int(evals))
			p.Count("pick_sequences", 1)
			p.Distinct(fmt.Sprint(c.Weights, c.Draw))
			head := seq
			if len(head) > 12 {
				head = head[:12]
			}
			p.Outcome(fmt.Sprint(path, head))
			if p.WantSample() {
				p.Sample(map[string]interface{}{"weights": c.Weights, "draw": c.Draw, "path": path, "first_picks": head, "picks": picks})
			}
			if bad != "" {
				p.Violation(keyPrefix+" ("+path+" path): window lag bound |n_i*w_j-n_j*w_i| <= w_i+w_j exceeded",
					fmt.Sprintf("weights %v (effective %v), constructor draw %d, first %d picks: %s", c.Weights, eff, c.Draw, picks, bad), c)
			}
		})
	p.Note("weight_vectors", len(vecs))
	p.End(complete, bound, rule)
}

func TestVerifC06Wrr(t *testing.T) {
	in, _ := c06WrrVectors()
	b := "host weight vectors [1,128]^2, {1,2,3,5,7,64,127,128}^3, {1,2,5,128}^4"
	if vreport.Thorough() {
		b = "host weight vectors [1,128]^2, [1,24]^3, {1,2,3,4,5,7,8,16,31,32,33,64,100,127,128}^3, {1,2,3,5,7,64,127,128}^4, {1,2,3,7,128}^5"
	}
	c06WrrRun(t, "wrr-windows", in, "wrr",
		b+"; every value of the constructor's random draw in [0,n); the first 2*sum(w) picks; every window (start,length) and every host pair",
		"cartesian product weight vector x constructor draw; real balancer from NewLoadBalancer(WeightedRoundRobin) over healthy simpleHosts; an evaluation is one (window, host pair) inequality in exact integer arithmetic; distinct = (weights, draw); outcome = path (edf / rr for equal raw weights) and first 12 picks")
}

func TestVerifC06WrrOutOfRange(t *testing.T) {
	_, out := c06WrrVectors()
	c06WrrRun(t, "wrr-windows-clamped", out, "wrr out-of-range weights (effective weight = clamp to [1,128])",
		"host weight pairs with at least one weight from {0,129,255,1000} (other from that set or {1,2,64,128}), two triples; every constructor draw; first 2*sum(effective w) picks; every window and pair",
		"as wrr-windows, with w = the weight clamped to [1,128] (MOSN's effective weight); the statement's quantifier is 1..128, these cases document the clamp")
}
