//go:build verif

package cluster

// C05 part 2 (histories): explicit-state breadth-first search over a REAL
// cluster (NewCluster -> simpleCluster, UpdateHosts, Snapshot).
//
// A state is the event history that reaches it; a successor is produced by
// replaying the history on a FRESH cluster (fresh host objects per update,
// health words reset) plus one event. Events:
//
//	U1 | U2 | U0      UpdateHosts(S1 = {A,B,C}) | UpdateHosts(S2 = {C,D}) | UpdateHosts(empty)
//	                  (every update builds new host objects; C of S2 is another object with C's address)
//	F(j)              flip the health of address j in {A,B,C,D} (through a host object of that address)
//	C                 Snapshot().LoadBalancer().ChooseHost(ctx)            (policies that ignore the context)
//	Cnew(k) | Cretry  the same with a new request context (hash key k for maglev) | with the
//	                  previous context (retry: the index variable written by the last choice is read)
//
// Every random draw made inside an event (initial cursors and schedule
// pre-advance in U*, selection draws in C*) is enumerated exhaustively, so one
// (history, event) pair has one successor per draw sequence.
//
// Canonical state = (tag of the current set, health bit per address, the exact
// fingerprint of the published balancer's mutable state, retry index + hash key
// of the current context for context-reading policies). Two histories with the
// same canonical state have the same futures: the published (host set,
// balancer) pair is rebuilt from scratch by every update (nothing of older
// generations is reachable from the snapshot), host objects carry no mutable
// state besides the per-address health word and the counters (never changed by
// an event), and the fingerprint holds every field a later ChooseHost reads
// (c05Fingerprint); future draws are explicit choices, not hidden state.
//
// Oracle in every state after every event: the snapshot's host set is, member
// by member and by identity, the set passed to the last UpdateHosts; every
// ChooseHost result satisfies c05Judge against THAT set and the health bits.

import (
	"fmt"
	"math/rand"
	"strings"
	"testing"
	"time"

	"mosn.io/api"
	v2 "mosn.io/mosn/pkg/config/v2"
	"mosn.io/mosn/pkg/types"
	"mosn.io/mosn/pkg/verifrt/vreport"
)

type c05Event struct {
	Kind  string `json:"kind"` // U1 U2 U0 F C Cnew Cretry
	Arg   int    `json:"arg"`  // F: address index; Cnew: hash key index
	Draws []int  `json:"draws"`
}

func (e c05Event) String() string {
	switch e.Kind {
	case "F":
		return fmt.Sprintf("F(%c)", 'A'+e.Arg)
	case "Cnew":
		return fmt.Sprintf("Cnew(k%d)%v", e.Arg, e.Draws)
	case "U0":
		return "U0"
	}
	return fmt.Sprintf("%s%v", e.Kind, e.Draws)
}

type c05HistCase struct {
	Policy  string     `json:"policy"`
	Cfg     string     `json:"cfg"` // "eq-uneq": S1 weights (1,1,1), S2 (1,128); "uneq-eq": S1 (128,1,2), S2 (1,1)
	Depth   int        `json:"depth"`
	History []c05Event `json:"history"` // nil: run the BFS; set: replay this one history
}

var c05HistAddrs = []string{"10.6.0.1:80", "10.6.0.2:80", "10.6.0.3:80", "10.6.0.4:80"} // A B C D

type c05HistSet struct {
	tag     string
	addrIdx []int
	weights []uint32
}

func c05HistSets(cfg string) map[string]c05HistSet {
	m := map[string]c05HistSet{
		"U0": {tag: "S0"},
		"U1": {tag: "S1", addrIdx: []int{0, 1, 2}},
		"U2": {tag: "S2", addrIdx: []int{2, 3}},
	}
	s1, s2 := m["U1"], m["U2"]
	if cfg == "uneq-eq" {
		s1.weights, s2.weights = []uint32{128, 1, 2}, []uint32{1, 1}
	} else {
		s1.weights, s2.weights = []uint32{1, 1, 1}, []uint32{1, 128}
	}
	m["U1"], m["U2"] = s1, s2
	return m
}

// c05World is one fresh cluster and the harness's own record of what was done to it.
type c05World struct {
	policy  types.LoadBalancerType
	sets    map[string]c05HistSet
	cluster types.Cluster
	info    types.ClusterInfo
	handles []types.Host // one host object per address, used to flip health (as a health checker would)
	healthy []bool       // per address
	tag     string
	members []types.Host // the hosts passed to the last UpdateHosts
	addrIdx []int
	weights []uint32
	ctx     *c05LbCtx
	ctxKey  int
	keys    []uint64
	src     *c05Src
	rnd     *rand.Rand
}

const c05HistCounterMask = 0b1001 // addresses A and D carry one active request / connection

func c05NewWorld(policy types.LoadBalancerType, cfg string, keys []uint64) (*c05World, error) {
	w := &c05World{policy: policy, sets: c05HistSets(cfg), keys: keys, tag: "init", src: &c05Src{}}
	w.rnd = rand.New(w.src)
	w.cluster = NewCluster(v2.Cluster{Name: "c05h-" + string(policy) + "-" + cfg, ClusterType: v2.SIMPLE_CLUSTER, LbType: v2.LbType(policy)})
	snap := w.cluster.Snapshot()
	if snap == nil {
		return nil, fmt.Errorf("fresh cluster has no snapshot")
	}
	w.info = snap.ClusterInfo()
	w.handles = c05MakeHosts(w.info, c05HistAddrs, []uint32{1, 1, 1, 1})
	c05SetHealth(w.handles, 0b1111)
	c05SetCounters(w.handles, c05HistCounterMask)
	w.healthy = []bool{true, true, true, true}
	if err := c05Script(snap.LoadBalancer(), w.info, w.rnd); err != nil {
		return nil, err
	}
	w.ctx = c05NewCtx(w.info, w.key(0), -1)
	return w, nil
}

func (w *c05World) key(k int) uint64 {
	if k < len(w.keys) {
		return w.keys[k]
	}
	return 0
}

type c05StepResult struct {
	outcome   string
	violation string // kind, "" if none
	detail    string
	harness   string // harness problem
}

// apply performs one event on the world; the event's draws are e.Draws, the
// consumed sequence is returned.
func (w *c05World) apply(e c05Event) (consumed []int, res c05StepResult) {
	w.src.script, w.src.pos = append([]int(nil), e.Draws...), 0
	defer func() { consumed = append([]int{}, w.src.script[:w.src.pos]...) }()
	switch e.Kind {
	case "U0", "U1", "U2":
		set, ok := w.sets[e.Kind]
		if !ok {
			res.harness = "unknown set " + e.Kind
			return
		}
		addrs := make([]string, len(set.addrIdx))
		for i, a := range set.addrIdx {
			addrs[i] = c05HistAddrs[a]
		}
		hosts := c05MakeHosts(w.info, addrs, set.weights)
		restore := c05SwapRRFactoryRand(w.rnd)
		w.cluster.UpdateHosts(NewHostSet(hosts))
		restore()
		w.tag, w.members, w.addrIdx, w.weights = set.tag, hosts, set.addrIdx, set.weights
		snap := w.cluster.Snapshot()
		if snap == nil || snap.LoadBalancer() == nil {
			res.violation, res.detail = "cluster has no snapshot / load balancer after UpdateHosts", ""
			return
		}
		if got := c05ConcreteType(snap.LoadBalancer()); got != string(w.policy) {
			res.harness = fmt.Sprintf("cluster of lb type %s publishes a %s", w.policy, got)
			return
		}
		if err := c05Script(snap.LoadBalancer(), w.info, w.rnd); err != nil {
			res.harness = err.Error()
			return
		}
		res.outcome = "updated"
	case "F":
		if e.Arg < 0 || e.Arg >= len(w.handles) {
			res.harness = "bad address index"
			return
		}
		h := w.handles[e.Arg]
		if w.healthy[e.Arg] {
			h.SetHealthFlag(c05HistFlag(e.Arg))
		} else {
			h.ClearHealthFlag(c05HistFlag(e.Arg))
		}
		w.healthy[e.Arg] = !w.healthy[e.Arg]
		if h.Health() != w.healthy[e.Arg] {
			res.harness = "health flip did not take"
		}
		res.outcome = "flipped"
	case "C", "Cnew", "Cretry":
		if e.Kind == "Cnew" {
			w.ctx, w.ctxKey = c05NewCtx(w.info, w.key(e.Arg), -1), e.Arg
		}
		snap := w.cluster.Snapshot()
		if snap == nil || snap.LoadBalancer() == nil || snap.HostSet() == nil {
			res.violation = "cluster has no snapshot / load balancer"
			return
		}
		got, pan := c05Choose(snap.LoadBalancer(), w.ctx)
		healthy := make([]bool, len(w.members))
		anyHealthy := false
		for i, a := range w.addrIdx {
			healthy[i] = w.healthy[a]
			anyHealthy = anyHealthy || healthy[i]
		}
		res.outcome, res.violation = c05Judge(w.members, healthy, got)
		if pan != nil {
			res.outcome, res.violation = "panic", c05OK
			if anyHealthy {
				res.violation = c05KindPanic
			}
		}
		idx := -1
		for i, m := range w.members {
			if m == got {
				idx = i
			}
		}
		res.detail = fmt.Sprintf("current set %s (addresses %v, weights %v), health per address ABCD %v: ChooseHost returned member index %d (%s)%s",
			w.tag, w.addrIdx, w.weights, w.healthy, idx, res.outcome, c05PanicText(pan))
	default:
		res.harness = "unknown event " + e.Kind
	}
	return
}

func c05HistFlag(addr int) api.HealthFlag {
	if addr%2 == 1 {
		return api.FAILED_ACTIVE_HC
	}
	return api.FAILED_OUTLIER_CHECK
}

// snapshotInvariant: the published host set is exactly the last one passed to
// UpdateHosts (member by member, by identity), and the published balancer
// selects from that very set object.
func (w *c05World) snapshotInvariant() string {
	snap := w.cluster.Snapshot()
	if snap == nil || snap.HostSet() == nil || snap.LoadBalancer() == nil {
		return "snapshot incomplete"
	}
	got := c05HostsOf(snap.HostSet())
	if len(got) != len(w.members) {
		return fmt.Sprintf("snapshot host set has %d members, the last published set %d", len(got), len(w.members))
	}
	for i := range got {
		if got[i] != w.members[i] {
			return fmt.Sprintf("snapshot member %d is not the host object last published", i)
		}
	}
	if lh := c05LbHosts(snap.LoadBalancer()); lh != nil && lh != snap.HostSet() {
		return "snapshot pairs the load balancer of another host set with this host set"
	}
	return ""
}

func (w *c05World) canon() string {
	snap := w.cluster.Snapshot()
	bits := 0
	for i, h := range w.healthy {
		if h {
			bits |= 1 << uint(i)
		}
	}
	s := fmt.Sprintf("%s|%04b|%s", w.tag, bits, c05Fingerprint(snap.LoadBalancer(), snap.HostSet()))
	if c05UsesContext(w.policy) {
		s += fmt.Sprintf("|ctx k%d idx=%s", w.ctxKey, c05CtxIndex(w.ctx))
	}
	return s
}

func c05HistEvents(policy types.LoadBalancerType, nkeys int) []c05Event {
	ev := []c05Event{{Kind: "U1"}, {Kind: "U2"}, {Kind: "U0"}}
	for j := 0; j < 4; j++ {
		ev = append(ev, c05Event{Kind: "F", Arg: j})
	}
	switch {
	case policy == types.Maglev:
		for k := 0; k < nkeys; k++ {
			ev = append(ev, c05Event{Kind: "Cnew", Arg: k})
		}
		ev = append(ev, c05Event{Kind: "Cretry"})
	case policy == types.RequestRoundRobin:
		ev = append(ev, c05Event{Kind: "Cnew"}, c05Event{Kind: "Cretry"})
	default:
		ev = append(ev, c05Event{Kind: "C"})
	}
	return ev
}

func c05HistWeightClass(w *c05World) string { return c05WeightClass(w.weights) }

func TestVerifC05Histories(t *testing.T) {
	c05Quiet()
	p := vreport.Begin("C05", "histories-bfs", time.Duration(vreport.Pick(6, 40))*time.Minute)
	depth := vreport.Pick(5, 7)
	shardI, shardN := vreport.Shard()
	alphabet := c05AlphabetFor(3) // largest set has 3 hosts

	maglevKeys := func() []uint64 {
		info := c05Info("c05h-keys", types.Maglev)
		s1 := c05HistSets("eq-uneq")["U1"]
		addrs := make([]string, len(s1.addrIdx))
		for i, a := range s1.addrIdx {
			addrs[i] = c05HistAddrs[a]
		}
		keys := c05MaglevKeys(NewLoadBalancer(info, NewHostSet(c05MakeHosts(info, addrs, s1.weights))), len(addrs))
		return keys[:len(addrs)] // one key per table index of S1
	}()

	gen := func(yield func(c05HistCase) bool) {
		gi := 0
		for _, pol := range c05Policies {
			for _, cfg := range []string{"eq-uneq", "uneq-eq"} {
				if cfg == "uneq-eq" && (pol == types.Random || pol == types.RoundRobin || pol == types.Maglev || pol == types.RequestRoundRobin) {
					continue // these policies never read weights
				}
				gi++
				if gi%shardN != shardI {
					continue
				}
				if !yield(c05HistCase{Policy: string(pol), Cfg: cfg, Depth: depth}) {
					return
				}
			}
		}
	}

	// replayHistory builds a fresh world, applies hist, and (if judge) checks
	// every event; returns the world.
	type verdict struct {
		key, detail string
	}
	replay := func(c c05HistCase, hist []c05Event, last *c05Event) (w *c05World, lastConsumed []int, v *verdict, harness string) {
		pol := types.LoadBalancerType(c.Policy)
		w, err := c05NewWorld(pol, c.Cfg, maglevKeys)
		if err != nil {
			return nil, nil, nil, err.Error()
		}
		all := hist
		if last != nil {
			all = append(append([]c05Event{}, hist...), *last)
		}
		for i, e := range all {
			consumed, res := w.apply(e)
			isLast := i == len(all)-1
			if res.harness != "" {
				return w, consumed, nil, res.harness
			}
			if !isLast && len(consumed) != len(e.Draws) {
				return w, consumed, nil, fmt.Sprintf("replay diverged: event %d %v consumed draws %v", i, e, consumed)
			}
			if isLast {
				lastConsumed = consumed
				if res.violation != c05OK {
					v = &verdict{c05Key(pol, c05HistWeightClass(w), res.violation), res.detail}
				} else if inv := w.snapshotInvariant(); inv != "" {
					v = &verdict{fmt.Sprintf("lb=%s cluster snapshot: %s", pol, c05InvKind(inv)), "after " + e.Kind + ": " + inv}
				}
				if res.outcome != "" {
					p.Outcome(c.Policy + "|" + c05HistWeightClass(w) + "|" + e.Kind + "|" + res.outcome)
				}
			}
		}
		return w, lastConsumed, v, ""
	}

	check := func(p *vreport.Part, c c05HistCase) {
		if c.History != nil { // replay of one recorded history: the last event is the judged one
			if len(c.History) == 0 {
				return
			}
			last := c.History[len(c.History)-1]
			_, _, v, harness := replay(c, c.History[:len(c.History)-1], &last)
			if harness != "" {
				vreport.HarnessError("C05", "histories-bfs", harness)
				return
			}
			if v != nil {
				p.Violation(v.key, v.detail, c)
			}
			return
		}
		pol := types.LoadBalancerType(c.Policy)
		events := c05HistEvents(pol, len(maglevKeys))
		w0, _, _, harness := replay(c, nil, nil)
		if harness != "" {
			vreport.HarnessError("C05", "histories-bfs", harness)
			return
		}
		seen := map[string]bool{w0.canon(): true}
		frontier := [][]c05Event{nil}
		states, transitions := 1, 0
		for d := 0; d < c.Depth && len(frontier) > 0; d++ {
			var next [][]c05Event
			for _, hist := range frontier {
				for _, ev := range events {
					for script := []int{}; script != nil; {
						e := ev
						e.Draws = script
						w, consumed, v, harness := replay(c, hist, &e)
						if harness != "" {
							vreport.HarnessError("C05", "histories-bfs", fmt.Sprintf("%s %s history %v + %v: %s", c.Policy, c.Cfg, hist, e, harness))
							return
						}
						transitions++
						p.EvalN(1)
						e.Draws = consumed
						full := append(append([]c05Event{}, hist...), e)
						if v != nil {
							cc := c
							cc.History = full
							p.Violation(v.key, fmt.Sprintf("policy %s cfg %s history %v: %s", c.Policy, c.Cfg, full, v.detail), cc)
						}
						cs := w.canon()
						if !seen[cs] {
							seen[cs] = true
							states++
							next = append(next, full)
							p.Distinct(c.Policy + "|" + c.Cfg + "|" + cs)
							if p.WantSample() {
								p.Sample(map[string]interface{}{"policy": c.Policy, "cfg": c.Cfg, "history": fmt.Sprint(full), "state": cs})
							}
						}
						if transitions&255 == 0 && p.Expired() {
							p.AddStates(states)
							p.AddTransitions(transitions)
							p.AddTraces(transitions)
							return
						}
						script = c05NextScript(consumed, alphabet)
					}
				}
			}
			frontier = next
			p.Note(fmt.Sprintf("frontier_%s_%s_depth%d", c.Policy, c.Cfg, d+1), len(next))
		}
		p.AddStates(states)
		p.AddTransitions(transitions)
		p.AddTraces(transitions)
		p.Note(fmt.Sprintf("states_%s_%s", c.Policy, c.Cfg), states)
	}

	complete := vreport.Run(p, gen, check)
	p.End(complete,
		fmt.Sprintf("real simpleCluster per policy (8 policies; EDF based ones with S1 equal/S2 unequal weights and S1 unequal/S2 equal); all histories of depth <= %d over {UpdateHosts(S1={A,B,C}) | UpdateHosts(S2={C,D}) | UpdateHosts(empty) | flip health of A|B|C|D | ChooseHost (new context x hash key per S1 table index / retry on the previous context for maglev and request-RR)} x every value of every random draw inside an event; addresses A and D carry one active request+connection", depth),
		"BFS with canonical-state de-duplication; state = history replayed on a fresh cluster + one event; canonical state = (current set tag, health bit per address, exact balancer state fingerprint, context retry index + hash key); transitions = (state, event, draw sequence) triples executed; every ChooseHost judged against the snapshot's current set; after every event the snapshot's host set must be the last published one by identity and be the balancer's own set")
}

func c05InvKind(inv string) string {
	// finding keys must not contain volatile data (counts, indices)
	switch {
	case strings.Contains(inv, "pairs the load balancer"):
		return "load balancer and host set of different generations"
	case strings.Contains(inv, "members, the last published"):
		return "host set size differs from the last published set"
	case strings.Contains(inv, "not the host object"):
		return "host set holds hosts of another generation"
	}
	return inv
}
