//go:build verif

package cluster

// C05 part 2b (manager histories): explicit-state breadth-first search over a
// REAL cluster manager (Destroy + NewClusterManagerSingleton), i.e. the level at
// which the control plane (xDS, service discovery, MngAdapter.TriggerHost*)
// changes the membership of a cluster.
//
// A state is the operation history that reaches it; a successor is produced by
// replaying the history on a FRESH manager (fresh cluster, health words reset)
// plus one operation. Operations (host arguments are LISTS over a universe of u
// addresses a0 < a1 < .. in address order; weight 2 for a2 and a5, 1 otherwise,
// so published sets fall into both the equal-weight class without EDF scheduler
// and the unequal class with one):
//
//	AUP(P)      AddOrUpdatePrimaryCluster(cluster with lb type P)    P in {home policy, alternate policy}
//	AUCH(P,L)   AddOrUpdateClusterAndHost(cluster with lb type P, L) home: every subset in DESCENDING address order; alternate: all hosts ascending
//	UPD(L)      UpdateClusterHosts(name, L)
//	APP(L)      AppendClusterHosts(name, L)
//	REM(L)      RemoveClusterHosts(name, addresses of L)
//	            L: every subset of the universe in EVERY order (so: unsorted inputs, the first / last / middle
//	            address, all addresses, addresses that are not members), plus lists naming one address twice
//	            ([a,a] and [a,b,a] for all a != b)
//	RPC         RemovePrimaryCluster(name)
//	F(j)        flip the health of address j (through a host object of that address, as a health checker would)
//
// Reference model = the INTENDED membership, a plain set of addresses kept by
// the harness and never read back from the code under test:
// AUCH/UPD: set(L); APP: members + set(L); REM: members - set(L); AUP: unchanged
// (empty for a new cluster); RPC: cluster gone. An operation that returns an
// error leaves the model unchanged (on the unchanged tree only operations on a
// missing cluster do).
//
// Oracle after every operation (the statement: lookups return only current,
// healthy members; no host only when none is healthy):
//
//   - GetClusterSnapshot(name).HostSet() holds exactly the intended addresses,
//     each once (Size and Range agree); HostNum / IsExistsHosts agree with it;
//     the published balancer selects from the published host set object;
//   - lookups on the PUBLISHED balancer (GetClusterSnapshot().LoadBalancer()):
//     a "light" probe (cursor 0, all draws 0, n+1 consecutive calls) after every
//     transition, and a "full" probe the first time a (policy, published ordered
//     host list, health bits, intended set) combination is seen in the process:
//     every draw sequence of one ChooseHost call (odometer), and for every draw
//     value v: cursor / EDF pre-advance derived from v, all draws v, K
//     consecutive calls (K = n+1, for EDF schedulers n + sum(w)/min(w));
//     maglev: one context per table index / wrapping / largest hash key with 3
//     entries, request-RR: every retry index left in the context. Every result
//     must be, by identity, a member of the published set, by address an
//     intended member, and healthy when an intended member is healthy; nil only
//     when none is;
//   - every intended healthy member is returned by at least one call of the
//     full probe (a member that lookups can never reach was not added).
//
// Canonical state = (cluster exists, lb type, the published host list IN ORDER
// as universe indices, health bit per universe address). Two histories with the
// same canonical state have the same futures: every operation rebuilds the host
// set / balancer from the published list (the manager reads nothing else of the
// cluster: order matters to the sort / binary search in RemoveClusterHosts and to
// the de-duplication in NewHostSet, which is why the order is part of the state
// and not just the sorted membership), weights are a function of the address,
// health words are per address, active counters are never touched (all 0), and
// every probe leaves the balancer in the normal form (cursor 0, EDF scheduler
// rebuilt with pre-advance 0). Successors of a violating transition are not
// expanded (the model and the implementation have diverged).
//
// Not compared (statement silent): error values; operations on a missing
// cluster (enumerated, must not make hosts appear); which host object (old or
// new config) survives an append of an address that is already a member; the
// lb type of the published balancer.

import (
	"context"
	"fmt"
	"math/rand"
	"sort"
	"strings"
	"sync/atomic"
	"testing"
	"time"

	v2 "mosn.io/mosn/pkg/config/v2"
	"mosn.io/mosn/pkg/configmanager"
	"mosn.io/mosn/pkg/log"
	"mosn.io/mosn/pkg/types"
	"mosn.io/mosn/pkg/verifrt/vreport"
)

const (
	c05mPart    = "manager-histories-bfs"
	c05mCluster = "c05m"
	c05mMaxU    = 6
)

var c05mAddrs = []string{"10.7.1.1:80", "10.7.2.1:80", "10.7.3.1:80", "10.7.4.1:80", "10.7.5.1:80", "10.7.6.1:80"}

func c05mWeight(i int) uint32 {
	if i%3 == 2 {
		return 2
	}
	return 1
}

func c05mAddrIndex(addr string) int {
	for i, a := range c05mAddrs {
		if a == addr {
			return i
		}
	}
	return -1
}

type c05mOp struct {
	Kind string `json:"kind"`          // AUP AUCH UPD APP REM RPC F
	Pol  string `json:"pol,omitempty"` // AUP, AUCH
	L    []int  `json:"l,omitempty"`   // universe indices, in call order
	Addr int    `json:"addr"`          // F
}

func (o c05mOp) String() string {
	switch o.Kind {
	case "AUP":
		return "AUP(" + o.Pol + ")"
	case "AUCH":
		return fmt.Sprintf("AUCH(%s,%v)", o.Pol, o.L)
	case "RPC":
		return "RPC"
	case "F":
		return fmt.Sprintf("F(a%d)", o.Addr)
	}
	return fmt.Sprintf("%s%v", o.Kind, o.L)
}

var c05mOpNames = map[string]string{
	"AUP": "AddOrUpdatePrimaryCluster", "AUCH": "AddOrUpdateClusterAndHost", "UPD": "UpdateClusterHosts",
	"APP": "AppendClusterHosts", "REM": "RemoveClusterHosts", "RPC": "RemovePrimaryCluster", "F": "health flip",
}

type c05mCase struct {
	Home    string   `json:"home"` // home lb type; the alternate one is c05mAlt(home)
	U       int      `json:"u"`
	Depth   int      `json:"depth"`
	History []c05mOp `json:"history"` // nil: run the BFS; set: replay this history, judging its last operation
}

// c05mAlt: the lb type a cluster is switched to by AUP/AUCH(alternate): the next
// policy in c05Policies (cyclic), skipping maglev: every host-set publication of
// a maglev cluster builds a 65537-entry table (~0.3 ms), so maglev is a home
// policy only, with smaller bounds (c05mBounds).
func c05mAlt(home string) string {
	for i, p := range c05Policies {
		if string(p) == home {
			for k := 1; k <= len(c05Policies); k++ {
				if a := c05Policies[(i+k)%len(c05Policies)]; a != types.Maglev {
					return string(a)
				}
			}
		}
	}
	return string(c05Policies[0])
}

type c05mBound struct{ u, depth int }

// c05mBounds: (universe size, depth) pairs explored per home policy and tier.
func c05mBounds(home string) []c05mBound {
	if home == string(types.Maglev) {
		if vreport.Thorough() {
			return []c05mBound{{4, 3}, {5, 2}}
		}
		return []c05mBound{{3, 2}}
	}
	if vreport.Thorough() {
		// the manager's host operations never look at the lb type: the two largest
		// bounds run for one equal-weight-cursor policy and one EDF policy only
		b := []c05mBound{{4, 4}, {5, 2}}
		if home == string(types.RoundRobin) {
			b = append(b, c05mBound{5, 3})
		}
		if home == string(types.RoundRobin) || home == string(types.WeightedRoundRobin) {
			b = append(b, c05mBound{6, 2})
		}
		return b
	}
	return []c05mBound{{4, 2}, {3, 3}}
}

func c05mCfg(pol string) v2.Cluster {
	return v2.Cluster{Name: c05mCluster, ClusterType: v2.SIMPLE_CLUSTER, LbType: v2.LbType(pol)}
}

func c05mHostConfigs(l []int) []v2.Host {
	hs := make([]v2.Host, len(l))
	for i, a := range l {
		hs[i] = v2.Host{HostConfig: v2.HostConfig{Address: c05mAddrs[a], Hostname: fmt.Sprintf("a%d", a), Weight: c05mWeight(a)}}
	}
	return hs
}

// c05mLists: every subset of 0..u-1 in every order, then the lists with a
// repeated address.
func c05mLists(u int) [][]int {
	var out [][]int
	var rec func(cur []int, used uint)
	rec = func(cur []int, used uint) {
		out = append(out, append([]int{}, cur...))
		for a := 0; a < u; a++ {
			if used&(1<<uint(a)) == 0 {
				rec(append(cur, a), used|1<<uint(a))
			}
		}
	}
	rec(nil, 0)
	for a := 0; a < u; a++ {
		out = append(out, []int{a, a})
		for b := 0; b < u; b++ {
			if b != a {
				out = append(out, []int{a, b, a})
			}
		}
	}
	return out
}

func c05mAlphabet(home string, u int) []c05mOp {
	alt := c05mAlt(home)
	ops := []c05mOp{{Kind: "AUP", Pol: home}, {Kind: "AUP", Pol: alt}}
	for mask := 0; mask < 1<<uint(u); mask++ {
		var l []int
		for a := u - 1; a >= 0; a-- { // descending: the published list is NOT address sorted
			if mask&(1<<uint(a)) != 0 {
				l = append(l, a)
			}
		}
		ops = append(ops, c05mOp{Kind: "AUCH", Pol: home, L: l})
	}
	all := make([]int, u)
	for a := range all {
		all[a] = a
	}
	ops = append(ops, c05mOp{Kind: "AUCH", Pol: alt, L: all})
	lists := c05mLists(u)
	for _, k := range []string{"UPD", "APP", "REM"} {
		for _, l := range lists {
			ops = append(ops, c05mOp{Kind: k, L: l})
		}
	}
	ops = append(ops, c05mOp{Kind: "RPC"})
	for a := 0; a < u; a++ {
		ops = append(ops, c05mOp{Kind: "F", Addr: a})
	}
	return ops
}

// ---------------------------------------------------------------------------

type c05mWorld struct {
	u       int
	cm      types.ClusterManager
	healthy []bool // per universe address
	// the model
	exists bool
	policy string
	member []bool // intended membership per universe address
	// operations whose effect the statement does not define happened: not expanded
	unmodelled string
}

// c05mHandles: one host object per universe address, used to flip health.
var c05mHandles []types.Host

func c05mNewWorld(u int) *c05mWorld {
	if c05mHandles == nil {
		info := c05Info("c05m-handles", types.RoundRobin)
		w := make([]uint32, len(c05mAddrs))
		for i := range w {
			w[i] = 1
		}
		c05mHandles = c05MakeHosts(info, c05mAddrs, w)
	}
	for _, a := range c05mAddrs {
		atomic.StoreUint64(GetHealthFlagPointer(a), 0)
	}
	clusterManagerInstance.Destroy()
	configmanager.Reset()
	w := &c05mWorld{u: u, healthy: make([]bool, u), member: make([]bool, u)}
	for i := range w.healthy {
		w.healthy[i] = true
	}
	w.cm = NewClusterManagerSingleton(nil, nil, nil)
	return w
}

func (w *c05mWorld) intended() []string {
	var out []string
	for i, m := range w.member {
		if m {
			out = append(out, c05mAddrs[i])
		}
	}
	return out
}

// apply performs the operation on the real manager and, from its error value
// alone, on the model. existedBefore tells the judge whether the operation met
// a cluster.
func (w *c05mWorld) apply(op c05mOp) (err error, pan interface{}, harness string) {
	for _, a := range op.L {
		if a < 0 || a >= w.u {
			return nil, nil, "bad host index in " + op.String()
		}
	}
	call := func(f func() error) {
		defer func() {
			if r := recover(); r != nil {
				pan = r
			}
		}()
		err = f()
	}
	existed := w.exists
	set := func(l []int, base []bool) []bool {
		m := make([]bool, w.u)
		copy(m, base)
		for _, a := range l {
			m[a] = true
		}
		return m
	}
	switch op.Kind {
	case "AUP":
		call(func() error { return w.cm.AddOrUpdatePrimaryCluster(c05mCfg(op.Pol)) })
		if err == nil {
			if !existed {
				w.member = make([]bool, w.u)
			}
			w.exists, w.policy = true, op.Pol
		}
	case "AUCH":
		call(func() error { return w.cm.AddOrUpdateClusterAndHost(c05mCfg(op.Pol), c05mHostConfigs(op.L)) })
		if err == nil {
			w.exists, w.policy, w.member = true, op.Pol, set(op.L, nil)
		}
	case "UPD":
		call(func() error { return w.cm.UpdateClusterHosts(c05mCluster, c05mHostConfigs(op.L)) })
		if err == nil && existed {
			w.member = set(op.L, nil)
		}
	case "APP":
		call(func() error { return w.cm.AppendClusterHosts(c05mCluster, c05mHostConfigs(op.L)) })
		if err == nil && existed {
			w.member = set(op.L, w.member)
		}
	case "REM":
		addrs := make([]string, len(op.L))
		for i, a := range op.L {
			addrs[i] = c05mAddrs[a]
		}
		call(func() error { return w.cm.RemoveClusterHosts(c05mCluster, addrs) })
		if err == nil && existed {
			m := set(nil, w.member)
			for _, a := range op.L {
				m[a] = false
			}
			w.member = m
		}
	case "RPC":
		call(func() error { return w.cm.RemovePrimaryCluster(c05mCluster) })
		if err == nil && existed {
			w.exists, w.policy, w.member = false, "", make([]bool, w.u)
		}
	case "F":
		if op.Addr < 0 || op.Addr >= w.u {
			return nil, nil, "bad address index"
		}
		h := c05mHandles[op.Addr]
		if w.healthy[op.Addr] {
			h.SetHealthFlag(c05HistFlag(op.Addr))
		} else {
			h.ClearHealthFlag(c05HistFlag(op.Addr))
		}
		w.healthy[op.Addr] = !w.healthy[op.Addr]
		if h.Health() != w.healthy[op.Addr] {
			return nil, nil, "health flip did not take"
		}
	default:
		return nil, nil, "unknown operation " + op.Kind
	}
	if pan == nil && err == nil && !existed && (op.Kind == "UPD" || op.Kind == "APP" || op.Kind == "REM" || op.Kind == "RPC") {
		w.unmodelled = op.Kind + " on a missing cluster returned no error"
	}
	return
}

type c05mVerdict struct{ key, detail string }

// c05mZeroSrc: the round-robin factory draws the initial cursor of every balancer built inside a manager
// operation from it (cursor 0; the probes set the cursor themselves).
type c05mZeroSrc struct{}

func (c05mZeroSrc) Int63() int64 { return 0 }
func (c05mZeroSrc) Seed(int64)   {}

// c05mJudge is the oracle after one operation. memo remembers the probe
// configurations that already passed the full probe in this process.
type c05mJudge struct {
	p    *vreport.Part
	src  *c05Src
	rnd  *rand.Rand
	memo map[string]bool
	// statistics
	fullProbes, lightProbes, calls int
}

func c05mAlphabetFor(n int) int {
	if n < 1 {
		n = 1
	}
	return 2 * n
}

func c05mSetCursor(lb types.LoadBalancer, v uint32) {
	set := func(x types.LoadBalancer) {
		if r, ok := x.(*roundRobinLoadBalancer); ok {
			atomic.StoreUint32(&r.rrIndex, v)
		}
	}
	switch l := lb.(type) {
	case *roundRobinLoadBalancer:
		set(l)
	case *randomLoadBalancer:
		set(l.rrLB)
	case *WRRLoadBalancer:
		set(l.rrLB)
	case *peakEwmaLoadBalancer:
		set(l.rrLB)
	}
}

const c05mKindNotIntended = "returned host is not an intended member of the cluster"

func (j *c05mJudge) judge(w *c05mWorld, op c05mOp, opErr error, opPan interface{}) (vs []c05mVerdict, canon string, harness string) {
	opName := c05mOpNames[op.Kind]
	mkey := func(what string) string { return "manager " + opName + ": " + what }
	add := func(key, detail string) { vs = append(vs, c05mVerdict{key, detail}) }
	bits := 0
	for i, h := range w.healthy {
		if h {
			bits |= 1 << uint(i)
		}
	}
	if opPan != nil {
		add(mkey("the operation panics"), fmt.Sprintf("%s: panic: %v", op, opPan))
		return
	}
	errClass := "ok"
	if opErr != nil {
		errClass = "error"
	}
	snap := w.cm.GetClusterSnapshot(context.Background(), c05mCluster)
	if !w.exists {
		canon = fmt.Sprintf("absent|%0*b", w.u, bits)
		j.p.Outcome(op.Kind + "|" + errClass + "|no cluster")
		if snap != nil {
			if lb := snap.LoadBalancer(); lb != nil {
				if got, _ := c05Choose(lb, c05NewCtx(snap.ClusterInfo(), 0, -1)); got != nil {
					add(mkey("a lookup on a cluster that does not exist returns a host"), fmt.Sprintf("%s: returned %s", op, got.AddressString()))
				}
			}
		}
		return
	}
	if snap == nil || snap.HostSet() == nil || snap.LoadBalancer() == nil || snap.ClusterInfo() == nil {
		add(mkey("existing cluster has no snapshot / host set / load balancer"), op.String())
		return
	}
	hs, lb, info := snap.HostSet(), snap.LoadBalancer(), snap.ClusterInfo()
	members := c05HostsOf(hs)
	n := len(members)
	intended := map[string]bool{}
	for _, a := range w.intended() {
		intended[a] = true
	}
	// --- membership
	published := make([]int, n)
	weights := make([]uint32, n)
	healthy := make([]bool, n)
	seen := map[string]int{}
	var extra, twice []string
	for i, m := range members {
		a := m.AddressString()
		idx := c05mAddrIndex(a)
		published[i] = idx
		weights[i] = m.Weight()
		if idx >= 0 && idx < w.u {
			healthy[i] = w.healthy[idx]
		} else {
			healthy[i] = m.Health()
		}
		seen[a]++
		if seen[a] == 2 {
			twice = append(twice, a)
		}
		if !intended[a] && seen[a] == 1 {
			extra = append(extra, a)
		}
	}
	var missing []string
	for a := range intended {
		if seen[a] == 0 {
			missing = append(missing, a)
		}
	}
	sort.Strings(missing)
	setDetail := fmt.Sprintf("%s: intended membership %v, published host set %v (health per address %0*b, bit i = a%d..a0)", op, w.intended(), hs, w.u, bits, w.u-1)
	mismatch := false
	if len(extra) > 0 {
		mismatch = true
		add(mkey("published host set contains a host that is not an intended member"), setDetail+fmt.Sprintf(": extra %v", extra))
	}
	if len(missing) > 0 {
		mismatch = true
		add(mkey("published host set misses an intended member"), setDetail+fmt.Sprintf(": missing %v", missing))
	}
	if len(twice) > 0 {
		mismatch = true
		add(mkey("published host set contains an address twice"), setDetail+fmt.Sprintf(": twice %v", twice))
	}
	if hs.Size() != n {
		mismatch = true
		add(mkey("published host set: Size() differs from the number of members Range() yields"), setDetail)
	}
	pol := types.LoadBalancerType(c05ConcreteType(lb))
	wclass := c05WeightClass(weights)
	if string(pol) != w.policy {
		j.p.Outcome("published lb type differs from the configured one (not compared)")
	}
	lkey := func(kind string) string {
		if mismatch {
			return mkey("lookup: " + kind)
		}
		return c05Key(pol, wclass, kind)
	}
	if lh := c05LbHosts(lb); lh != nil && lh != hs {
		add(fmt.Sprintf("lb=%s cluster snapshot: load balancer and host set of different generations", pol), setDetail)
	}
	if num, ex := snap.HostNum(nil), snap.IsExistsHosts(nil); num != len(intended) || ex != (len(intended) > 0) {
		add(lkey("HostNum / IsExistsHosts disagree with the intended membership"), setDetail+fmt.Sprintf(": HostNum=%d IsExistsHosts=%v", num, ex))
	}
	canon = fmt.Sprintf("%s|%v|%0*b", w.policy, published, w.u, bits)
	j.p.Outcome(fmt.Sprintf("%s|%s|%s|n=%d", op.Kind, errClass, wclass, n))

	// --- lookups on the published balancer
	alphabet := c05mAlphabetFor(n)
	anyHealthy := false
	for a := range intended {
		if i := c05mAddrIndex(a); i >= 0 && w.healthy[i] {
			anyHealthy = true
		}
	}
	reached := map[string]bool{}
	const fill = 96
	restore := func(v int) bool {
		s := make([]int, fill)
		for i := range s {
			s[i] = v
		}
		j.src.script, j.src.pos = s, 0
		if err := c05Script(lb, info, j.rnd); err != nil {
			harness = err.Error()
			return false
		}
		if n > 0 {
			c05mSetCursor(lb, j.rnd.Uint32()%uint32(n))
		}
		return true
	}
	one := func(ctx *c05LbCtx, what string) {
		got, pan := c05Choose(lb, ctx)
		j.calls++
		outcome, viol := c05Judge(members, healthy, got)
		if pan != nil {
			outcome, viol = "panic", c05OK
			if anyHealthy {
				viol = c05KindPanic
			}
		}
		idx := -1
		for i, m := range members {
			if m == got {
				idx = i
			}
		}
		if idx >= 0 {
			a := members[idx].AddressString()
			reached[a] = true
			if viol == c05OK && !intended[a] {
				outcome, viol = "member that is not intended", c05mKindNotIntended
			}
		}
		if got == nil && pan == nil && viol == c05OK && anyHealthy {
			outcome, viol = "nil", c05KindNil // an intended healthy member exists (it is missing from the published set)
		}
		j.p.Outcome(string(pol) + "|" + wclass + "|" + outcome)
		if viol != c05OK {
			add(lkey(viol), fmt.Sprintf("%s; probe %s: ChooseHost returned member index %d (%s)%s", setDetail, what, idx, outcome, c05PanicText(pan)))
		}
	}
	// light probe: every transition
	if !restore(0) {
		return
	}
	j.lightProbes++
	{
		ctx := c05NewCtx(info, 0, -1)
		for k := 0; k <= n; k++ {
			one(ctx, fmt.Sprintf("light call %d", k+1))
		}
	}
	mk := fmt.Sprintf("%s|%v|%v|%0*b|%v", pol, published, weights, w.u, bits, w.intended())
	if !j.memo[mk] {
		before := len(vs)
		j.fullProbes++
		// (a) one call, every draw sequence, from the normal form
		switch pol {
		case types.Maglev:
			for ki, key := range c05MaglevKeys(lb, n) {
				ctx := c05NewCtx(info, key, -1)
				for k := 0; k < 3; k++ {
					one(ctx, fmt.Sprintf("maglev key#%d entry %d", ki, k+1))
				}
			}
		case types.RequestRoundRobin:
			for init := -1; init <= n; init++ {
				ctx := c05NewCtx(info, 0, init)
				for k := 0; k < 2; k++ {
					one(ctx, fmt.Sprintf("request-RR retry index %d entry %d", init, k+1))
				}
			}
			ctx := c05NewCtx(info, 0, -1)
			for k := 0; k <= n; k++ {
				one(ctx, fmt.Sprintf("request-RR one context entry %d", k+1))
			}
		default:
			runs := 0
			for script := []int{}; script != nil; {
				if !restore(0) {
					return
				}
				j.src.script, j.src.pos = append(make([]int, 0, 8), script...), 0
				one(c05NewCtx(info, 0, -1), fmt.Sprintf("single call draws %v", script))
				script = c05NextScript(j.src.script[:j.src.pos], alphabet)
				if runs++; runs > 1<<16 {
					harness = "single-call draw enumeration does not terminate"
					return
				}
			}
			// (b) constant draws, consecutive calls
			k := n + 1
			if e := c05Edf(lb); e != nil && e.scheduler != nil && n > 0 {
				sum, min := uint32(0), weights[0]
				for _, x := range weights {
					sum += x
					if x < min {
						min = x
					}
				}
				if min == 0 {
					min = 1
				}
				k = n + int((sum+min-1)/min)
			}
			for v := 0; v < alphabet; v++ {
				if !restore(v) {
					return
				}
				ctx := c05NewCtx(info, 0, -1)
				for c := 0; c < k; c++ {
					one(ctx, fmt.Sprintf("all draws %d, call %d", v, c+1))
				}
			}
		}
		if len(vs) == before {
			var unreached []string
			for a := range intended {
				if i := c05mAddrIndex(a); i >= 0 && w.healthy[i] && !reached[a] {
					unreached = append(unreached, a)
				}
			}
			sort.Strings(unreached)
			if len(unreached) > 0 {
				add(lkey("an intended healthy member is never returned"), setDetail+fmt.Sprintf(": never returned %v", unreached))
			} else {
				j.memo[mk] = true
			}
		}
	}
	restore(0)
	return
}

// ---------------------------------------------------------------------------

func TestVerifC05ManagerHistories(t *testing.T) {
	c05Quiet()
	// operations on a missing cluster are part of the alphabet; the manager logs each at ERROR
	log.DefaultLogger.SetLogLevel(log.FATAL)
	defer log.DefaultLogger.SetLogLevel(log.ERROR)
	p := vreport.Begin("C05", c05mPart, time.Duration(vreport.Pick(4, 40))*time.Minute)
	shardI, shardN := vreport.Shard()

	var bounds []string
	for _, home := range []string{string(types.RoundRobin), string(types.WeightedRoundRobin), string(types.Random), string(types.Maglev)} {
		var b []string
		for _, c := range c05mBounds(home) {
			b = append(b, fmt.Sprintf("%d addresses to depth %d", c.u, c.depth))
		}
		bounds = append(bounds, strings.Join(b, ", "))
	}
	// the alphabet of draws for up to c05mMaxU hosts reaches every residue of both draw idioms
	for n := 1; n <= c05mMaxU; n++ {
		for m := 1; m <= n; m++ {
			a, b := map[int]bool{}, map[uint32]bool{}
			for k := 0; k < c05mAlphabetFor(n); k++ {
				s := &c05Src{script: []int{k}}
				a[rand.New(s).Intn(m)] = true
				s2 := &c05Src{script: []int{k}}
				b[rand.New(s2).Uint32()%uint32(m)] = true
				if s.pos != 1 || s2.pos != 1 {
					vreport.HarnessError("C05", c05mPart, "a draw consumed more than one value")
					return
				}
			}
			if len(a) != m || len(b) != m {
				vreport.HarnessError("C05", c05mPart, fmt.Sprintf("draw alphabet for %d hosts does not reach every residue mod %d", n, m))
				return
			}
		}
	}

	src := &c05Src{}
	rnd := rand.New(src)
	restoreRR := c05SwapRRFactoryRand(rand.New(c05mZeroSrc{}))
	defer restoreRR()
	defer clusterManagerInstance.Destroy()
	j := &c05mJudge{p: p, src: src, rnd: rnd, memo: map[string]bool{}}

	gen := func(yield func(c05mCase) bool) {
		gi := 0
		for _, pol := range c05Policies {
			for _, c := range c05mBounds(string(pol)) {
				gi++
				if gi%shardN != shardI {
					continue
				}
				if !yield(c05mCase{Home: string(pol), U: c.u, Depth: c.depth}) {
					return
				}
			}
		}
	}

	// run replays hist on a fresh manager (no probes), applies and judges `last`.
	run := func(c c05mCase, hist []c05mOp, last *c05mOp) (w *c05mWorld, vs []c05mVerdict, canon string, harness string) {
		w = c05mNewWorld(c.U)
		for i, op := range hist {
			_, pan, h := w.apply(op)
			if h != "" {
				return w, nil, "", h
			}
			if pan != nil {
				return w, nil, "", fmt.Sprintf("prefix operation %d %v panicked on replay: %v", i, op, pan)
			}
		}
		if last == nil {
			vs, canon, harness = j.judge(w, c05mOp{Kind: "F"}, nil, nil) // root: nothing happened yet
			return
		}
		err, pan, h := w.apply(*last)
		if h != "" {
			return w, nil, "", h
		}
		vs, canon, harness = j.judge(w, *last, err, pan)
		return
	}

	check := func(p *vreport.Part, c c05mCase) {
		if c.U < 1 || c.U > c05mMaxU || c.Depth < 0 || c.Depth > 8 {
			return
		}
		known := false
		for _, pol := range c05Policies {
			known = known || string(pol) == c.Home
		}
		if !known {
			return
		}
		if c.History != nil {
			if len(c.History) == 0 {
				return
			}
			last := c.History[len(c.History)-1]
			_, vs, _, harness := run(c, c.History[:len(c.History)-1], &last)
			if harness != "" {
				vreport.HarnessError("C05", c05mPart, harness)
				return
			}
			p.EvalN(1)
			for _, v := range vs {
				p.Violation(v.key, v.detail, c)
			}
			return
		}
		ops := c05mAlphabet(c.Home, c.U)
		tag := fmt.Sprintf("%s|u%d", c.Home, c.U)
		_, vs0, canon0, harness := run(c, nil, nil)
		if harness != "" || len(vs0) > 0 {
			vreport.HarnessError("C05", c05mPart, fmt.Sprintf("fresh manager is not in the expected state: %s %v", harness, vs0))
			return
		}
		seen := map[string]bool{canon0: true}
		frontier := [][]c05mOp{nil}
		states, transitions := 1, 0
		flush := func() {
			p.AddStates(states)
			p.AddTransitions(transitions)
			p.AddTraces(transitions)
		}
		for d := 0; d < c.Depth && len(frontier) > 0; d++ {
			var next [][]c05mOp
			for _, hist := range frontier {
				for i := range ops {
					op := ops[i]
					callsBefore := j.calls
					w, vs, cs, harness := run(c, hist, &op)
					if harness != "" {
						vreport.HarnessError("C05", c05mPart, fmt.Sprintf("%s history %v + %v: %s", tag, hist, op, harness))
						flush()
						return
					}
					transitions++
					p.EvalN(1 + j.calls - callsBefore)
					if len(vs) > 0 {
						cc := c
						cc.History = append(append([]c05mOp{}, hist...), op)
						for _, v := range vs {
							p.Violation(v.key, fmt.Sprintf("home policy %s, %d addresses, history %v: %s", c.Home, c.U, cc.History, v.detail), cc)
						}
						continue
					}
					if w.unmodelled != "" {
						p.Count("not_expanded_"+strings.ReplaceAll(w.unmodelled, " ", "_"), 1)
						continue
					}
					if !seen[cs] {
						seen[cs] = true
						states++
						full := append(append(make([]c05mOp, 0, len(hist)+1), hist...), op)
						next = append(next, full)
						p.Distinct(tag + "|" + cs)
						if p.WantSample() {
							p.Sample(map[string]interface{}{"home": c.Home, "u": c.U, "history": fmt.Sprint(full), "state": cs})
						}
					}
					if transitions&255 == 0 && p.Expired() {
						flush()
						return
					}
				}
			}
			frontier = next
			p.Note(fmt.Sprintf("frontier_%s_depth%d", tag, d+1), len(next))
		}
		flush()
		p.Note("states_"+tag, states)
	}

	complete := vreport.Run(p, gen, check)
	p.Count("full_probes", j.fullProbes)
	p.Count("light_probes", j.lightProbes)
	p.Count("choosehost_calls", j.calls)
	p.End(complete,
		fmt.Sprintf("real cluster manager singleton, one cluster, per home lb type (8; the alternate type is the next one): all histories over {AddOrUpdatePrimaryCluster(home|alternate) | AddOrUpdateClusterAndHost(home, every subset in descending address order | alternate, all hosts) | UpdateClusterHosts(L) | AppendClusterHosts(L) | RemoveClusterHosts(L) for L = every subset of the address universe in every order + every list naming one address twice ([a,a], [a,b,a]) | RemovePrimaryCluster | flip health of one address}: home round robin %s; home weighted round robin %s; other home types %s (home maglev, whose every publication builds a 65537-entry table: %s; maglev is never the alternate type); weights 2 for the 3rd and 6th address, else 1; active counters 0", bounds[0], bounds[1], bounds[2], bounds[3]),
		"BFS with canonical-state de-duplication; state = history replayed on a fresh manager + one operation; canonical state = (cluster exists, lb type, published host list in order, health bit per address); transitions = (state, operation) pairs executed; reference model = intended membership as a plain address set (never read from the snapshot); after every transition: published host set == intended set (addresses, multiplicity, Size), HostNum/IsExistsHosts, balancer bound to the published set, n+1 lookups on the published balancer; first time per (lb type, published list, health, intended set): every draw sequence of one ChooseHost + per draw value K consecutive calls (maglev: every table index / wrapping / largest key x 3 entries; request-RR: every retry index), each result an intended, published (by identity), healthy-if-any-healthy member, and every intended healthy member returned at least once. Not compared: error values, operations on a missing cluster (must not make hosts appear), which host object survives a re-append, published lb type")
}
