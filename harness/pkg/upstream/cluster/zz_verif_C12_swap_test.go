//go:build verif

package cluster

// C12, concurrent part: "Requests concurrent with an update are handled
// entirely by the old or entirely by the new configuration and never fail
// because of the swap."
//
// Under the E1 scheduler (pkg/upstream/cluster instrumented: every lock,
// atomic, atomic.Value and sync.Map operation is a scheduling point) one
// execution builds, inside the body, a real cluster manager
// (Destroy + NewClusterManagerSingleton) holding cluster "c12s" with lb
// LB_ROUNDROBIN and hosts {h1,h2}; then
//
//	thread "updater":  ONE update operation on the existing cluster
//	thread "reader<i>": what the proxy does for a request: GetClusterSnapshot(name),
//	                    HostSet() (size + members), LoadBalancer().ChooseHost
//
// and all interleavings up to the preemption bound are enumerated.
//
// Oracle per reader: a snapshot exists; the observed (lb type, host set) pair is
// the OLD pair or the NEW pair as a whole (NEW is fixed by the operation, and
// the state after the execution must be NEW as well); when the observed set is
// non-empty ChooseHost returns a member of it. Old and new both have hosts for
// every operation of the alphabet, so "no cluster" / "no host" is never an
// acceptable answer.
//
// Observed but NOT judged: InheritClusterHostsHandler re-points the (shared)
// old host objects at the new ClusterInfo before the new cluster is published,
// so a request on the old snapshot may pick a host whose ClusterInfo() is
// already the new one. The executions where a reader saw that are counted in
// the note "host_info_newer_than_snapshot"; the statement's "configuration" is
// read here as the published (lb, host set), as in the design entry.
//
// Randomness: the round-robin factory's source (package init) is replaced by a
// constant one; sources created inside an execution are deterministic in the
// instrumented build.

import (
	"context"
	"fmt"
	"math/rand"
	"net"
	"sort"
	"strings"
	"testing"
	"time"

	"mosn.io/api"
	v2 "mosn.io/mosn/pkg/config/v2"
	"mosn.io/mosn/pkg/configmanager"
	"mosn.io/mosn/pkg/log"
	"mosn.io/mosn/pkg/types"
	"mosn.io/mosn/pkg/verifrt/vreport"
	"mosn.io/mosn/pkg/verifrt/vrt"
)

const (
	c12sPart    = "cluster-swap-schedules"
	c12sCluster = "c12s"
)

type c12sCase struct {
	Op      string `json:"op"`
	Readers int    `json:"readers"`
	Bound   int    `json:"bound"`
	Choices []int  `json:"choices,omitempty"`
}

type c12sZeroSrc struct{}

func (c12sZeroSrc) Int63() int64 { return 0 }
func (c12sZeroSrc) Seed(int64)   {}

type c12sCtx struct{}

func (c12sCtx) MetadataMatchCriteria() api.MetadataMatchCriteria { return nil }
func (c12sCtx) DownstreamConnection() net.Conn                   { return nil }
func (c12sCtx) DownstreamHeaders() api.HeaderMap                 { return nil }
func (c12sCtx) DownstreamContext() context.Context               { return context.Background() }
func (c12sCtx) DownstreamCluster() types.ClusterInfo             { return nil }
func (c12sCtx) DownstreamRoute() api.Route                       { return nil }

func c12sHost(id string) v2.Host {
	switch id {
	case "h1":
		return v2.Host{HostConfig: v2.HostConfig{Address: "127.0.0.1:12001", Weight: 1}}
	case "h2":
		return v2.Host{HostConfig: v2.HostConfig{Address: "127.0.0.1:12002", Weight: 2}}
	case "h3":
		return v2.Host{HostConfig: v2.HostConfig{Address: "127.0.0.1:12003", Weight: 3}}
	}
	panic("host " + id)
}

func c12sHosts(ids ...string) []v2.Host {
	var hs []v2.Host
	for _, id := range ids {
		hs = append(hs, c12sHost(id))
	}
	return hs
}

func c12sCfg(lb v2.LbType) v2.Cluster {
	return v2.Cluster{Name: c12sCluster, ClusterType: v2.SIMPLE_CLUSTER, LbType: lb}
}

const c12sWRR = v2.LbType(types.WeightedRoundRobin)

// the alphabet: name -> (operation, NEW lb type, NEW hosts)
type c12sOp struct {
	name   string
	run    func(cm types.ClusterManager) error
	newLb  v2.LbType
	newSet []string
}

var c12sOps = []c12sOp{
	{"AddOrUpdatePrimaryCluster(same config)", func(cm types.ClusterManager) error {
		return cm.AddOrUpdatePrimaryCluster(c12sCfg(v2.LB_ROUNDROBIN))
	}, v2.LB_ROUNDROBIN, []string{"h1", "h2"}},
	{"AddOrUpdatePrimaryCluster(lb type changed)", func(cm types.ClusterManager) error {
		return cm.AddOrUpdatePrimaryCluster(c12sCfg(c12sWRR))
	}, c12sWRR, []string{"h1", "h2"}},
	{"AddOrUpdateClusterAndHost(lb type changed,{h2,h3})", func(cm types.ClusterManager) error {
		return cm.AddOrUpdateClusterAndHost(c12sCfg(c12sWRR), c12sHosts("h2", "h3"))
	}, c12sWRR, []string{"h2", "h3"}},
	{"UpdateClusterHosts({h2,h3})", func(cm types.ClusterManager) error {
		return cm.UpdateClusterHosts(c12sCluster, c12sHosts("h2", "h3"))
	}, v2.LB_ROUNDROBIN, []string{"h2", "h3"}},
	{"AppendClusterHosts({h3})", func(cm types.ClusterManager) error {
		return cm.AppendClusterHosts(c12sCluster, c12sHosts("h3"))
	}, v2.LB_ROUNDROBIN, []string{"h1", "h2", "h3"}},
	{"RemoveClusterHosts({h1})", func(cm types.ClusterManager) error {
		return cm.RemoveClusterHosts(c12sCluster, []string{c12sHost("h1").Address})
	}, v2.LB_ROUNDROBIN, []string{"h2"}},
}

func c12sOpByName(n string) *c12sOp {
	for i := range c12sOps {
		if c12sOps[i].name == n {
			return &c12sOps[i]
		}
	}
	return nil
}

// kind is the operation name without its arguments, for finding keys
func (o *c12sOp) kind() string {
	if i := strings.IndexByte(o.name, '('); i > 0 {
		return o.name[:i]
	}
	return o.name
}

type c12sView struct {
	nilSnap  bool
	lb       string
	hosts    string // sorted "addr/w" list
	size     int
	chosen   string // "" = nil
	inSet    bool
	infoMix  bool // chosen host's ClusterInfo is not the snapshot's
	panicked string
}

func (v c12sView) String() string {
	if v.nilSnap {
		return "no snapshot"
	}
	return fmt.Sprintf("lb=%s hosts=[%s] chosen=%q", v.lb, v.hosts, v.chosen)
}

func c12sSetString(hs []v2.Host) string {
	var s []string
	for _, h := range hs {
		s = append(s, fmt.Sprintf("%s/w%d", h.Address, h.Weight))
	}
	sort.Strings(s)
	return strings.Join(s, " ")
}

func c12sObserve(cm types.ClusterManager) (v c12sView) {
	defer func() {
		if r := recover(); r != nil {
			v.panicked = fmt.Sprint(r)
		}
	}()
	snap := cm.GetClusterSnapshot(context.Background(), c12sCluster)
	if snap == nil {
		v.nilSnap = true
		return
	}
	info := snap.ClusterInfo()
	v.lb = string(info.LbType())
	hs := snap.HostSet()
	v.size = hs.Size()
	var members []string
	set := map[string]bool{}
	hs.Range(func(h types.Host) bool {
		members = append(members, fmt.Sprintf("%s/w%d", h.AddressString(), h.Weight()))
		set[h.AddressString()] = true
		return true
	})
	sort.Strings(members)
	v.hosts = strings.Join(members, " ")
	if h := snap.LoadBalancer().ChooseHost(c12sCtx{}); h != nil {
		v.chosen = h.AddressString()
		v.inSet = set[v.chosen]
		v.infoMix = h.ClusterInfo() != info
	}
	return
}

type c12sState struct {
	views   []c12sView
	final   c12sView
	opErr   error
	done    int
	problem string
}

func c12sBody(c c12sCase, st *c12sState) {
	op := c12sOpByName(c.Op)
	*st = c12sState{views: make([]c12sView, c.Readers)}
	if op == nil {
		st.problem = "unknown operation " + c.Op
		return
	}
	oldRand := rrFactory.rand
	rrFactory.rand = rand.New(c12sZeroSrc{})
	defer func() { rrFactory.rand = oldRand }()
	clusterManagerInstance.Destroy()
	configmanager.Reset()
	cm := NewClusterManagerSingleton([]v2.Cluster{c12sCfg(v2.LB_ROUNDROBIN)}, map[string][]v2.Host{c12sCluster: c12sHosts("h1", "h2")}, nil)
	if pre := c12sObserve(cm); pre.nilSnap || pre.hosts != c12sSetString(c12sHosts("h1", "h2")) || pre.chosen == "" {
		st.problem = "initial cluster is not {h1,h2}: " + pre.String()
		return
	}
	vrt.GoNamed("updater", func() {
		st.opErr = op.run(cm)
		st.done++
	})
	for i := 0; i < c.Readers; i++ {
		i := i
		vrt.GoNamed(fmt.Sprintf("reader%d", i), func() {
			st.views[i] = c12sObserve(cm)
			st.done++
		})
	}
	vrt.WaitUntil("updater and readers done", func() bool { return st.done == 1+c.Readers })
	st.final = c12sObserve(cm)
	clusterManagerInstance.Destroy()
}

// c12sJudge returns a summary of what the readers saw and the violations.
func c12sJudge(c c12sCase, st *c12sState) (summary string, viols [][2]string, mixes int) {
	op := c12sOpByName(c.Op)
	oldLb, oldSet := string(v2.LB_ROUNDROBIN), c12sSetString(c12sHosts("h1", "h2"))
	newLb, newSet := string(op.newLb), c12sSetString(c12sHosts(op.newSet...))
	key := func(what string) string { return fmt.Sprintf("concurrent %s: %s", op.kind(), what) }
	if st.opErr != nil {
		viols = append(viols, [2]string{key("the update of an existing cluster failed"), st.opErr.Error()})
	}
	if st.final.nilSnap || st.final.lb != newLb || st.final.hosts != newSet {
		viols = append(viols, [2]string{key("state after the update is not the new configuration"),
			fmt.Sprintf("expected lb=%s hosts=[%s], final %s", newLb, newSet, st.final)})
	}
	for i, v := range st.views {
		who := fmt.Sprintf("reader%d", i)
		gen := "?"
		switch {
		case v.panicked != "":
			viols = append(viols, [2]string{key("lookup panics"), who + ": " + v.panicked})
			gen = "panic"
		case v.nilSnap:
			viols = append(viols, [2]string{key("lookup finds no cluster although old and new both exist"), who})
			gen = "none"
		case v.lb == oldLb && v.hosts == oldSet:
			gen = "old"
			if oldLb == newLb && oldSet == newSet {
				gen = "old=new"
			}
		case v.lb == newLb && v.hosts == newSet:
			gen = "new"
		case v.size == 0:
			viols = append(viols, [2]string{key("lookup sees an empty host set although old and new both have hosts"),
				fmt.Sprintf("%s observed %s; old lb=%s [%s], new lb=%s [%s]", who, v, oldLb, oldSet, newLb, newSet)})
			gen = "empty"
		default:
			viols = append(viols, [2]string{key("lookup sees a (lb type, host set) pair that is neither the old nor the new configuration"),
				fmt.Sprintf("%s observed %s; old lb=%s [%s], new lb=%s [%s]", who, v, oldLb, oldSet, newLb, newSet)})
			gen = "mixed"
		}
		if !v.nilSnap && v.panicked == "" && v.size > 0 {
			if v.chosen == "" {
				viols = append(viols, [2]string{key("no host chosen from a non-empty host set"), fmt.Sprintf("%s observed %s", who, v)})
			} else if !v.inSet {
				viols = append(viols, [2]string{key("chosen host is not a member of the observed host set"), fmt.Sprintf("%s observed %s", who, v)})
			}
		}
		if v.infoMix {
			mixes++
		}
		summary += fmt.Sprintf("%s:%s->%s; ", who, gen, v.chosen)
	}
	return
}

func c12sRun(p *vreport.Part, c c12sCase, replay bool) bool {
	var st c12sState
	opts := vrt.Options{Bound: c.Bound, MaxSteps: 50000}
	if replay {
		opts.Replay = true
		opts.Prefix = c.Choices
	}
	stats := vrt.Explore(opts, func() { c12sBody(c, &st) }, func(r *vrt.Result) {
		p.Eval()
		cc := c
		cc.Choices = r.Choices
		if r.Deadlock || len(r.Panics) > 0 || r.StepLimit || r.Diverged != "" || st.problem != "" {
			vreport.HarnessError(c12sProp, c12sPart, fmt.Sprintf("execution did not complete: %s %v %s (case %+v)", r.String(), r.Panics, st.problem, cc))
			return
		}
		summary, viols, mixes := c12sJudge(c, &st)
		p.Distinct(c.Op + "|" + summary)
		p.Outcome(summary)
		if mixes > 0 {
			p.Count("host_info_newer_than_snapshot", 1)
		}
		if p.WantSample() {
			p.Sample(map[string]interface{}{"op": c.Op, "readers": c.Readers, "schedule": r.Choices, "observed": summary})
		}
		for _, v := range viols {
			p.Violation(v[0], fmt.Sprintf("op %s, %d reader(s), schedule %v: %s [%s]", c.Op, c.Readers, r.Choices, v[1], summary), cc)
		}
	})
	p.AddTraces(stats.Executions)
	p.Count("executions", stats.Executions)
	p.Count(fmt.Sprintf("executions_%s_r%d", c12sOpByName(c.Op).kind(), c.Readers), stats.Executions)
	if stats.MaxDepth > 0 {
		p.Note("max_scheduling_points", stats.MaxDepth)
	}
	return stats.Complete
}

// c12sProp is the property the part reports under: C12 (updates are atomic for lookups) and, through
// TestVerifC05ManagerSwap, C05 (a lookup sees the old or the new host set, never a mixture or an empty one).
var c12sProp = "C12"

func TestVerifC12Swap(t *testing.T) { c12sMain(t) }

func c12sMain(t *testing.T) {
	log.DefaultLogger.SetLogLevel(log.ERROR)
	log.StartLogger.SetLogLevel(log.ERROR)
	p := vreport.Begin(c12sProp, c12sPart, time.Duration(vreport.Pick(4, 40))*time.Minute)
	if vreport.Replaying() {
		var rc c12sCase
		if vreport.ReplayFor(c12sProp, c12sPart, &rc) {
			if c12sOpByName(rc.Op) == nil {
				vreport.HarnessError(c12sProp, c12sPart, "replay names unknown operation "+rc.Op)
				return
			}
			c12sRun(p, rc, true)
			p.End(true, "replay", "replay of one recorded schedule")
		}
		return
	}
	b1, b2 := vreport.Pick(4, 6), vreport.Pick(2, 3) // preemption bound with 1 reader / with 2 readers
	var cases []c12sCase
	for _, op := range c12sOps {
		cases = append(cases, c12sCase{Op: op.name, Readers: 1, Bound: b1}, c12sCase{Op: op.name, Readers: 2, Bound: b2})
	}
	// determinism pre-check: the default schedule of every case, twice
	for _, c := range cases {
		var sa, sb c12sState
		ra := vrt.RunOnce(nil, vrt.Options{MaxSteps: 50000}, func() { c12sBody(c, &sa) })
		oa, _, _ := c12sJudge(c, &sa)
		rb := vrt.RunOnce(nil, vrt.Options{MaxSteps: 50000}, func() { c12sBody(c, &sb) })
		ob, _, _ := c12sJudge(c, &sb)
		if sa.problem != "" || oa != ob || fmt.Sprint(ra.Choices) != fmt.Sprint(rb.Choices) {
			vreport.HarnessError(c12sProp, c12sPart, fmt.Sprintf("%s: default schedule is not deterministic or did not run: %q/%v vs %q/%v %s", c.Op, oa, ra.Choices, ob, rb.Choices, sa.problem))
			p.End(false, "aborted", "nondeterministic harness")
			return
		}
	}
	complete := true
	for _, c := range cases {
		if p.Expired() {
			complete = false
			break
		}
		if !c12sRun(p, c, false) {
			complete = false
		}
	}
	p.End(complete,
		fmt.Sprintf("real cluster manager with cluster c12s (round robin, hosts {h1,h2}); updater doing ONE of %d update operations || 1 reader (<= %d preemptions; -1 = all interleavings) or 2 readers (<= %d preemptions), each reader = GetClusterSnapshot + HostSet + LoadBalancer().ChooseHost; scheduling point at every lock / atomic / atomic.Value / sync.Map operation of pkg/upstream/cluster", len(c12sOps), b1, b2),
		"stateless DFS over thread interleavings (preemption bounded); one evaluation = one complete execution; distinct = (operation, what each reader observed: old/new generation and chosen host); judged: snapshot exists, (lb type, host set) is the old or the new pair, chosen host is a member; not judged (counted in notes): ClusterInfo generation of shared host objects")
}
