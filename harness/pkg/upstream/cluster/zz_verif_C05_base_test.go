//go:build verif

package cluster

// C05 — load balancers return only current, healthy members of the cluster.
//
// This file holds what the three C05 parts share: the scripted random source,
// the oracle, the construction of real hosts / host sets / load balancers with
// the random sources under harness control, and an exact fingerprint of a load
// balancer's mutable state (used by the BFS part to merge states).
//
// Everything under test is real: hosts are simpleHost values built with
// NewSimpleHost, host sets come from NewHostSet, load balancers from
// NewLoadBalancer (the registered factory of the cluster's lb type), health is
// changed through Host.SetHealthFlag / ClearHealthFlag. The only intervention
// is the replacement of the *rand.Rand values the load balancers hold.

import (
	"context"
	"fmt"
	"math"
	"math/rand"
	"net"
	"strings"
	"sync/atomic"

	"mosn.io/api"
	v2 "mosn.io/mosn/pkg/config/v2"
	"mosn.io/mosn/pkg/log"
	"mosn.io/mosn/pkg/types"
	"mosn.io/pkg/variable"
)

// ---------------------------------------------------------------------------
// the scripted random source

// The draw alphabet: value k stands for Int63() == (a<<32)|(b<<31) with a = k>>1
// in 0..3 and b = k&1.
//
// math/rand derives Intn(m) (m < 2^31) from Int31() = Int63()>>32 = a, returned
// as a&(m-1) for a power of two and a%m otherwise (a <= 3 is never above the
// rejection threshold), and Uint32() = Int63()>>31 = 2a+b in 0..7. So the
// full alphabet (8 values) reaches every residue of both draw idioms used by
// the load balancers (`rand.Intn(m)` and `rand.Uint32() % m`) for every m <= 4,
// each with exactly one Int63 call. For host sets of n < 4 hosts the values
// with a >= n add nothing (a in 0..n-1 already reaches every residue of
// Intn(m) for every m <= n, and 2a+b in 0..2n-1 every residue of Uint32()%m
// for every m <= 2n), so the alphabet used for a set of n hosts is k in
// 0..2*max(n,1)-1. TestVerifC05SelfCheck verifies all of this against the
// linked math/rand instead of trusting the argument.
const c05AlphabetMax = 8

func c05AlphabetFor(n int) int {
	if n < 1 {
		n = 1
	}
	if 2*n > c05AlphabetMax {
		return c05AlphabetMax
	}
	return 2 * n
}

func c05Alpha(k int) int64 { return int64(k>>1)<<32 | int64(k&1)<<31 }

// c05Src answers Int63 from a script of alphabet indices; beyond the script it
// answers index 0 and extends the script, so that after a run `script` is the
// exact sequence of draws the run consumed.
type c05Src struct {
	script []int
	pos    int
}

func (s *c05Src) Int63() int64 {
	if s.pos >= len(s.script) {
		s.script = append(s.script, 0)
	}
	k := s.script[s.pos]
	s.pos++
	return c05Alpha(k)
}
func (s *c05Src) Seed(int64) {}

// c05NextScript is the odometer over draw sequences: given the sequence a run
// consumed it returns the next one in depth-first order (last position that can
// still be incremented is incremented, the tail is dropped and will be
// re-grown with zeros by the next run), or nil when all sequences are done.
// Because a run is a deterministic function of its draw sequence, this visits
// every complete draw sequence exactly once, whatever the (data dependent)
// number of draws per run is.
func c05NextScript(consumed []int, alphabet int) []int {
	for i := len(consumed) - 1; i >= 0; i-- {
		if consumed[i] < alphabet-1 {
			n := append([]int(nil), consumed[:i+1]...)
			n[i]++
			return n
		}
	}
	return nil
}

// ---------------------------------------------------------------------------
// policies

var c05Policies = []types.LoadBalancerType{
	types.Random, types.RoundRobin, types.WeightedRoundRobin, types.LeastActiveRequest,
	types.LeastActiveConnection, types.PeakEwma, types.Maglev, types.RequestRoundRobin,
}

// c05ReadsCounters: the policy's choice depends on per-host active request /
// connection counters.
func c05ReadsCounters(p types.LoadBalancerType) bool {
	return p == types.LeastActiveRequest || p == types.LeastActiveConnection || p == types.PeakEwma
}

// c05UsesContext: the policy reads the downstream context (hash, retry index).
func c05UsesContext(p types.LoadBalancerType) bool {
	return p == types.Maglev || p == types.RequestRoundRobin
}

// c05ConcreteType names the implementation NewLoadBalancer must hand out for
// the policy; a policy that silently fell back to the default round robin
// would otherwise be "covered" without being run.
func c05ConcreteType(lb types.LoadBalancer) string {
	switch lb.(type) {
	case *randomLoadBalancer:
		return string(types.Random)
	case *roundRobinLoadBalancer:
		return string(types.RoundRobin)
	case *WRRLoadBalancer:
		return string(types.WeightedRoundRobin)
	case *leastActiveRequestLoadBalancer:
		return string(types.LeastActiveRequest)
	case *leastActiveConnectionLoadBalancer:
		return string(types.LeastActiveConnection)
	case *peakEwmaLoadBalancer:
		return string(types.PeakEwma)
	case *maglevLoadBalancer:
		return string(types.Maglev)
	case *reqRoundRobinLoadBalancer:
		return string(types.RequestRoundRobin)
	}
	return fmt.Sprintf("%T", lb)
}

// ---------------------------------------------------------------------------
// weights

var c05Shapes = []string{"equal", "inc", "skew"}

func c05Weights(shape string, n int) []uint32 {
	w := make([]uint32, n)
	for i := range w {
		switch shape {
		case "equal":
			w[i] = 1
		case "inc": // (1,2,3,..)
			w[i] = uint32(i + 1)
		case "skew": // (128,1,1,..): the heaviest legal weight first
			w[i] = 1
			if i == 0 {
				w[i] = v2.MaxHostWeight
			}
		}
	}
	return w
}

func c05WeightsEqual(w []uint32) bool {
	for _, x := range w {
		if x != w[0] {
			return false
		}
	}
	return true
}

// c05WeightClass is the branch selector of the EDF based policies: with <= 1
// host or equal weights no EDF scheduler exists ("equal"), otherwise weighted
// selection runs first ("unequal").
func c05WeightClass(w []uint32) string {
	if len(w) <= 1 || c05WeightsEqual(w) {
		return "equal"
	}
	return "unequal"
}

// ---------------------------------------------------------------------------
// hosts and health

func c05Quiet() {
	// the code under test logs every host-set update at INFO and every nil
	// maglev choice; logging is not part of the property
	log.DefaultLogger.SetLogLevel(log.ERROR)
	log.Proxy.SetLogLevel(log.ERROR)
}

func c05Info(name string, policy types.LoadBalancerType) types.ClusterInfo {
	// slow start is NOT configured (wall clock; out of scope): SlowStart.Mode == ""
	return NewClusterInfo(v2.Cluster{Name: name, ClusterType: v2.SIMPLE_CLUSTER, LbType: v2.LbType(policy)})
}

func c05MakeHosts(info types.ClusterInfo, addrs []string, weights []uint32) []types.Host {
	hosts := make([]types.Host, len(addrs))
	for i := range addrs {
		hosts[i] = NewSimpleHost(v2.Host{HostConfig: v2.HostConfig{Address: addrs[i], Hostname: fmt.Sprintf("h%d", i), Weight: weights[i]}}, info)
	}
	return hosts
}

// c05SetHealth puts the per-address health words in the state described by
// healthyMask (bit i set = host i healthy). The word is first zeroed in place
// (health words are process-global per address), then unhealthy hosts get a
// condition through the public Host API; odd hosts fail the active check, even
// hosts are outlier-ejected, so both conditions are exercised.
func c05SetHealth(hosts []types.Host, healthyMask uint) {
	for i, h := range hosts {
		atomic.StoreUint64(GetHealthFlagPointer(h.AddressString()), 0)
		if healthyMask&(1<<uint(i)) == 0 {
			if i%2 == 1 {
				h.SetHealthFlag(api.FAILED_ACTIVE_HC)
			} else {
				h.SetHealthFlag(api.FAILED_OUTLIER_CHECK)
			}
		}
	}
}

// c05SetCounters sets active request and active connection counters of host i
// to bit i of mask.
func c05SetCounters(hosts []types.Host, mask uint) {
	for i, h := range hosts {
		st := h.HostStats()
		st.UpstreamRequestActive.Clear()
		st.UpstreamConnectionActive.Clear()
		if mask&(1<<uint(i)) != 0 {
			st.UpstreamRequestActive.Inc(1)
			st.UpstreamConnectionActive.Inc(1)
		}
	}
}

// ---------------------------------------------------------------------------
// load balancer construction with scripted randomness

// c05SwapRRFactoryRand makes the package-level round-robin factory (which
// draws the initial cursor of every round-robin balancer, including the ones
// embedded in random / WRR / peak-EWMA) draw from r; returns the restore func.
func c05SwapRRFactoryRand(r *rand.Rand) func() {
	old := rrFactory.rand
	rrFactory.rand = r
	return func() { rrFactory.rand = old }
}

// c05Script puts every random source held by a freshly built load balancer
// under the script. EDF based balancers draw once during construction (the
// random pre-advance of the schedule in refresh) from a time-seeded source the
// harness cannot reach beforehand, so the scheduler is rebuilt by calling the
// real refresh again with the scripted source in place. For peak-EWMA the
// constructor runs refresh before it sets its biases and default duration;
// the rebuild reproduces exactly that order. c05RebuildMatchesConstructor
// checks that the rebuilt scheduler equals, for one of the possible draws, the
// scheduler the constructor built.
func c05Script(lb types.LoadBalancer, info types.ClusterInfo, r *rand.Rand) error {
	// the scheduler is rebuilt over the balancer's OWN host set (the one its
	// constructor was given), never over a set named by the harness: a balancer
	// published with the wrong set must stay wrong.
	switch l := lb.(type) {
	case *randomLoadBalancer:
		l.rand = r
	case *roundRobinLoadBalancer, *maglevLoadBalancer, *reqRoundRobinLoadBalancer:
		// no random source of their own
	case *WRRLoadBalancer:
		c05RebuildEdf(l.EdfLoadBalancer, info, r)
	case *leastActiveRequestLoadBalancer:
		c05RebuildEdf(l.EdfLoadBalancer, info, r)
	case *leastActiveConnectionLoadBalancer:
		c05RebuildEdf(l.EdfLoadBalancer, info, r)
	case *peakEwmaLoadBalancer:
		c, a, ce, se, d := l.choice, l.activeRequestBias, l.clientErrorBias, l.serverErrorBias, l.defaultDuration
		l.choice, l.activeRequestBias, l.clientErrorBias, l.serverErrorBias, l.defaultDuration = 0, 0, 0, 0, 0
		c05RebuildEdf(l.EdfLoadBalancer, info, r)
		l.choice, l.activeRequestBias, l.clientErrorBias, l.serverErrorBias, l.defaultDuration = c, a, ce, se, d
	default:
		return fmt.Errorf("unknown load balancer implementation %T", lb)
	}
	return nil
}

func c05RebuildEdf(e *EdfLoadBalancer, info types.ClusterInfo, r *rand.Rand) {
	e.rand = r
	e.scheduler = nil
	e.refresh(info, e.hosts)
}

// c05LbHosts is the host set the balancer itself selects from.
func c05LbHosts(lb types.LoadBalancer) types.HostSet {
	switch l := lb.(type) {
	case *randomLoadBalancer:
		return l.hosts
	case *roundRobinLoadBalancer:
		return l.hosts
	case *maglevLoadBalancer:
		return l.hosts
	case *reqRoundRobinLoadBalancer:
		return l.hosts
	}
	if e := c05Edf(lb); e != nil {
		return e.hosts
	}
	return nil
}

func c05Edf(lb types.LoadBalancer) *EdfLoadBalancer {
	switch l := lb.(type) {
	case *WRRLoadBalancer:
		return l.EdfLoadBalancer
	case *leastActiveRequestLoadBalancer:
		return l.EdfLoadBalancer
	case *leastActiveConnectionLoadBalancer:
		return l.EdfLoadBalancer
	case *peakEwmaLoadBalancer:
		return l.EdfLoadBalancer
	}
	return nil
}

// c05RebuildMatchesConstructor: build the balancer the normal way, fingerprint
// the scheduler its constructor produced (its pre-advance count r0 in 0..n-1 is
// drawn from a time-seeded source), then rebuild it under the script for every
// pre-advance count: exactly the rebuilds with Intn(n) == r0 must reproduce the
// constructor's scheduler. Returns "" when faithful.
func c05RebuildMatchesConstructor(info types.ClusterInfo, hs types.HostSet) string {
	lb := NewLoadBalancer(info, hs)
	e := c05Edf(lb)
	if e == nil || e.scheduler == nil {
		return ""
	}
	want := c05EdfFingerprint(e, hs)
	n := hs.Size()
	matches := 0
	var got []string
	for a := 0; a < 4; a++ {
		src := &c05Src{script: []int{a << 1}}
		lb2 := NewLoadBalancer(info, hs)
		if err := c05Script(lb2, info, rand.New(src)); err != nil {
			return err.Error()
		}
		if src.pos != 1 {
			return fmt.Sprintf("rebuild of %T consumed %d draws, expected 1", lb2, src.pos)
		}
		fp := c05EdfFingerprint(c05Edf(lb2), hs)
		got = append(got, fp)
		if fp == want {
			matches++
		}
	}
	// a in 0..3 reaches each residue of Intn(n) (n<=4) at least once
	if matches == 0 {
		return fmt.Sprintf("constructor scheduler %s is none of the rebuilt ones %v (n=%d)", want, got, n)
	}
	return ""
}

// ---------------------------------------------------------------------------
// fingerprint of the mutable state of a load balancer

func c05HostIndex(hs types.HostSet, h interface{}) int {
	idx := -1
	i := 0
	hs.Range(func(x types.Host) bool {
		if interface{}(x) == h {
			idx = i
			return false
		}
		i++
		return true
	})
	return idx
}

func c05EdfFingerprint(e *EdfLoadBalancer, hs types.HostSet) string {
	if e == nil {
		return ""
	}
	s := e.scheduler
	if s == nil {
		return "edf-"
	}
	var sb strings.Builder
	fmt.Fprintf(&sb, "edf{t=%x c=%d", math.Float64bits(s.currentTime), s.clock)
	for i := 0; i < s.items.size; i++ {
		en := s.items.elements[i]
		fmt.Fprintf(&sb, " [%d d=%x w=%x q=%d]", c05HostIndex(hs, en.item), math.Float64bits(en.deadline), math.Float64bits(en.weight), en.queuedTime)
	}
	sb.WriteString("}")
	return sb.String()
}

// c05Fingerprint is the complete mutable state of the balancer that later
// ChooseHost calls can depend on (cursor modulo the set size, the whole EDF
// heap bit for bit with hosts named by their index in the set). The random
// sources are not state: every future draw is an explicit choice. Maglev and
// request-RR keep their state in the request context (fingerprinted by the
// caller).
func c05Fingerprint(lb types.LoadBalancer, hs types.HostSet) string {
	rr := func(x types.LoadBalancer) string {
		r, ok := x.(*roundRobinLoadBalancer)
		if !ok {
			return fmt.Sprintf("?%T", x)
		}
		if hs.Size() == 0 {
			return "rr-"
		}
		return fmt.Sprintf("rr%d", atomic.LoadUint32(&r.rrIndex)%uint32(hs.Size()))
	}
	switch l := lb.(type) {
	case *randomLoadBalancer:
		return "random{" + rr(l.rrLB) + "}"
	case *roundRobinLoadBalancer:
		return rr(l)
	case *WRRLoadBalancer:
		return "wrr{" + c05EdfFingerprint(l.EdfLoadBalancer, hs) + " " + rr(l.rrLB) + "}"
	case *leastActiveRequestLoadBalancer:
		return "lar{" + c05EdfFingerprint(l.EdfLoadBalancer, hs) + "}"
	case *leastActiveConnectionLoadBalancer:
		return "lac{" + c05EdfFingerprint(l.EdfLoadBalancer, hs) + "}"
	case *peakEwmaLoadBalancer:
		return "ewma{" + c05EdfFingerprint(l.EdfLoadBalancer, hs) + " " + rr(l.rrLB) + "}"
	case *maglevLoadBalancer:
		return "maglev"
	case *reqRoundRobinLoadBalancer:
		return "reqrr"
	}
	return fmt.Sprintf("?%T", lb)
}

// ---------------------------------------------------------------------------
// request context

type c05HashPolicy struct{ hash uint64 }

func (h *c05HashPolicy) GenerateHash(context.Context) uint64 { return h.hash }

type c05Policy struct {
	api.Policy
	hp api.HashPolicy
}

func (p *c05Policy) HashPolicy() api.HashPolicy { return p.hp }

type c05RouteRule struct {
	api.RouteRule
	policy api.Policy
}

func (r *c05RouteRule) Policy() api.Policy { return r.policy }

type c05Route struct {
	api.Route
	rule api.RouteRule
}

func (r *c05Route) RouteRule() api.RouteRule { return r.rule }

type c05LbCtx struct {
	ctx   context.Context
	route api.Route
	info  types.ClusterInfo
}

func (c *c05LbCtx) MetadataMatchCriteria() api.MetadataMatchCriteria { return nil }
func (c *c05LbCtx) DownstreamConnection() net.Conn                   { return nil }
func (c *c05LbCtx) DownstreamHeaders() api.HeaderMap                 { return nil }
func (c *c05LbCtx) DownstreamContext() context.Context               { return c.ctx }
func (c *c05LbCtx) DownstreamCluster() types.ClusterInfo             { return c.info }
func (c *c05LbCtx) DownstreamRoute() api.Route                       { return c.route }

// c05NewCtx builds the context of one downstream request: a variable context
// (so that the retry index written by maglev / request-RR survives to the
// re-entry), a route whose hash policy yields `hash`, and optionally a retry
// index left by an earlier attempt (initIdx >= 0), possibly against an earlier,
// larger host set.
func c05NewCtx(info types.ClusterInfo, hash uint64, initIdx int) *c05LbCtx {
	ctx := variable.NewVariableContext(context.Background())
	if initIdx >= 0 {
		_ = variable.SetString(ctx, VarProxyUpstreamIndex, fmt.Sprint(initIdx))
	}
	return &c05LbCtx{ctx: ctx, info: info,
		route: &c05Route{rule: &c05RouteRule{policy: &c05Policy{hp: &c05HashPolicy{hash: hash}}}}}
}

func c05CtxIndex(c *c05LbCtx) string {
	s, err := variable.GetString(c.ctx, VarProxyUpstreamIndex)
	if err != nil {
		return "-"
	}
	return s
}

// c05MaglevKeys returns, for a maglev balancer over n hosts, for every table
// index the smallest hash key that looks it up, plus one key that wraps the
// table (key + table size) and the largest key.
func c05MaglevKeys(lb types.LoadBalancer, n int) []uint64 {
	m, ok := lb.(*maglevLoadBalancer)
	if !ok || m.maglev == nil {
		return []uint64{0}
	}
	found := make([]bool, n)
	var keys []uint64
	for k := uint64(0); k < 65537 && len(keys) < n; k++ {
		i := m.maglev.Lookup(k)
		if i >= 0 && i < n && !found[i] {
			found[i] = true
			keys = append(keys, k)
		}
	}
	if len(keys) == 0 {
		return []uint64{0}
	}
	keys = append(keys, keys[0]+65537, math.MaxUint64)
	return keys
}

// ---------------------------------------------------------------------------
// the oracle

const (
	c05OK            = ""
	c05KindNotMember = "returned host is not a member of the current host set"
	c05KindUnhealthy = "unhealthy host returned while a healthy one exists"
	c05KindNil       = "no host returned while a healthy one exists"
	c05KindPanic     = "ChooseHost panicked while a healthy host exists"
)

// c05Judge applies the statement to one ChooseHost result. members is the
// current host set, healthy[i] the harness's own record of the health of
// member i. It never calls a method on `got` (a foreign or typed-nil value must
// be reported, not dereferenced).
//
//   - got must be, by identity, a member of the set;
//   - if some member is healthy, got must be non-nil and healthy;
//   - got == nil is allowed only when no member is healthy (or the set is empty).
//
// The statement does not say what is returned when no member is healthy: nil
// and an (unhealthy) member are both accepted and counted as separate outcomes.
func c05Judge(members []types.Host, healthy []bool, got types.Host) (outcome string, violation string) {
	anyHealthy := false
	for _, h := range healthy {
		anyHealthy = anyHealthy || h
	}
	if got == nil {
		if anyHealthy {
			return "nil", c05KindNil
		}
		if len(members) == 0 {
			return "nil: empty set", c05OK
		}
		return "nil: none healthy", c05OK
	}
	idx := -1
	for i, m := range members {
		if m == got {
			idx = i
			break
		}
	}
	if idx < 0 {
		return "foreign", c05KindNotMember
	}
	if healthy[idx] {
		return "healthy member", c05OK
	}
	if anyHealthy {
		return "unhealthy member", c05KindUnhealthy
	}
	return "unhealthy member, none healthy (statement silent: not compared)", c05OK
}

// c05Choose calls ChooseHost and converts a panic into a value.
func c05Choose(lb types.LoadBalancer, ctx types.LoadBalancerContext) (h types.Host, panicked interface{}) {
	defer func() {
		if r := recover(); r != nil {
			h, panicked = nil, r
		}
	}()
	return lb.ChooseHost(ctx), nil
}

func c05Key(policy types.LoadBalancerType, weightClass, kind string) string {
	return fmt.Sprintf("lb=%s %s-weights: %s", policy, weightClass, kind)
}

func c05HostsOf(hs types.HostSet) []types.Host {
	var out []types.Host
	hs.Range(func(h types.Host) bool { out = append(out, h); return true })
	return out
}
