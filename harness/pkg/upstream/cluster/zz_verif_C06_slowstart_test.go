//go:build verif

package cluster

// C06 (b) under slow start: "weighted round-robin over hosts serves hosts in
// proportion to their EFFECTIVE weights with bounded lag: in any window of
// consecutive picks over healthy hosts |n_i/w_i - n_j/w_j| <= 1/w_i + 1/w_j".
//
// With the cluster's slow_start configured the effective weight of a host is
// its configured weight (clamped to [1,128]) times a factor that depends on the
// time since the host last passed its health check. Two parts:
//
//	aged       every host is at least a window old (or has never recorded a pass
//	           time): factor 1, so the bound must hold for the configured weights
//	           exactly as without slow start (c06Windows, exact integer arithmetic)
//	effective  hosts inside their window, clock frozen: the bound must hold for
//	           w_i * factor_i, the factor computed by a reference written from the
//	           configuration's meaning (below), not from the code
//
// Reference factor (the documented meaning of slow_start, Envoy's formula that
// MOSN's configuration mirrors): with window = slow_start_duration and
// elapsed = now - LastHealthCheckPassTime (counted as at least one second),
//
//	factor = 1                                            if mode != "duration", window <= 0,
//	                                                      no pass time recorded, or elapsed >= window
//	factor = max(min_weight_percent, (elapsed/window)^(1/aggression))   otherwise (and 1 if elapsed/window >= 1)
//
// with aggression <= 0 read as 1 and min_weight_percent <= 0 read as 0.1 (the
// configuration defaults). Hosts whose pass time lies in the future have no
// documented factor and are not part of this check (C05's slow-start part
// enumerates them for membership/health).
//
// The clock is virtual (unit built with the "cluster" instrumentation set): a
// run is one single-threaded vrt execution in which the clock never moves, so
// the factors are constants of the run.

import (
	"fmt"
	"math"
	"math/rand"
	"runtime"
	"strings"
	"testing"
	"time"

	"mosn.io/api"
	v2 "mosn.io/mosn/pkg/config/v2"
	"mosn.io/mosn/pkg/types"
	"mosn.io/mosn/pkg/verifrt/vreport"
	"mosn.io/mosn/pkg/verifrt/vrt"
	"mosn.io/mosn/pkg/verifrt/vtime"
)

type c06ssCfg struct {
	Mode  string  `json:"mode"`
	DurMs int64   `json:"slow_start_duration_ms"`
	Aggr  float64 `json:"aggression"`
	MWP   float64 `json:"min_weight_percent"`
}

// host age: elapsed time since the health check pass, in 1/8 of the window;
// special values below
const (
	c06ssAgeZero = -1  // never recorded (zero time)
	c06ssAgeDay  = 999 // 24h
)

type c06ssCase struct {
	Cfg     c06ssCfg `json:"cfg"`
	Weights []uint32 `json:"weights"`
	Ages    []int    `json:"ages"` // per host: -1 never recorded, 999 = 24h, otherwise elapsed = k/8 of the window (8 = exactly one window, 0 = just now)
	Draw    int      `json:"draw"` // the constructor's random draw (EDF pre-advance count / start index of the fallback round robin)
	Picks   int      `json:"picks"`
}

func c06ssAgeString(a int) string {
	switch a {
	case c06ssAgeZero:
		return "never-recorded"
	case c06ssAgeDay:
		return "24h"
	}
	return fmt.Sprintf("%d/8 window", a)
}

// c06ssFactor is the reference factor (see the file comment).
func c06ssFactor(cfg c06ssCfg, age int) float64 {
	if cfg.Mode != "duration" || cfg.DurMs <= 0 || age == c06ssAgeZero {
		return 1
	}
	window := float64(cfg.DurMs) / 1000
	elapsed := 24 * 3600.0
	if age != c06ssAgeDay {
		elapsed = window * float64(age) / 8
	}
	if elapsed >= window {
		return 1
	}
	if elapsed < 1 {
		elapsed = 1
	}
	f := elapsed / window
	if f >= 1 {
		return 1
	}
	aggr := cfg.Aggr
	if aggr <= 0 {
		aggr = 1
	}
	floor := cfg.MWP
	if floor <= 0 {
		floor = 0.1
	}
	f = math.Pow(f, 1/aggr)
	if f < floor {
		f = floor
	}
	return f
}

// c06ssWindowsF is c06Windows for real-valued weights: every window (start,
// length) x host pair against |n_i*w_j - n_j*w_i| <= w_i + w_j, with a relative
// slack of 1e-9 for the float64 arithmetic of the comparison itself (a missed or
// extra pick moves the left side by a whole w, nine orders of magnitude more).
func c06ssWindowsF(seq []int, w []float64) (evals int64, bad string) {
	n := len(w)
	L := len(seq)
	cnt := make([][]float64, n)
	for i := range cnt {
		cnt[i] = make([]float64, L+1)
	}
	for t, h := range seq {
		for i := 0; i < n; i++ {
			cnt[i][t+1] = cnt[i][t]
		}
		cnt[h][t+1]++
	}
	for i := 0; i < n; i++ {
		for j := i + 1; j < n; j++ {
			lim := (w[i] + w[j]) * (1 + 1e-9)
			ci, cj := cnt[i], cnt[j]
			for s := 0; s < L; s++ {
				for e := s + 1; e <= L; e++ {
					d := (ci[e]-ci[s])*w[j] - (cj[e]-cj[s])*w[i]
					if d < 0 {
						d = -d
					}
					if d > lim && bad == "" {
						bad = fmt.Sprintf("window start=%d length=%d: hosts %d,%d (effective weights %g,%g) picked %g,%g times: |n_i*w_j - n_j*w_i| = %g > w_i+w_j = %g",
							s, e-s, i, j, w[i], w[j], ci[e]-ci[s], cj[e]-cj[s], d, w[i]+w[j])
					}
				}
			}
			evals += int64(L) * int64(L+1) / 2
		}
	}
	return evals, bad
}

type c06ssEnv struct {
	infos map[c06ssCfg]types.ClusterInfo
	hosts map[string][]types.Host
}

func (e *c06ssEnv) info(cfg c06ssCfg) types.ClusterInfo {
	if i, ok := e.infos[cfg]; ok {
		return i
	}
	i := NewClusterInfo(v2.Cluster{Name: "c06ss", ClusterType: v2.SIMPLE_CLUSTER, LbType: v2.LbType(types.WeightedRoundRobin),
		SlowStart: v2.SlowStartConfig{Mode: cfg.Mode, SlowStartDuration: &api.DurationConfig{Duration: time.Duration(cfg.DurMs) * time.Millisecond},
			Aggression: cfg.Aggr, MinWeightPercent: cfg.MWP}})
	e.infos[cfg] = i
	return i
}

func (e *c06ssEnv) hostsFor(info types.ClusterInfo, w []uint32) []types.Host {
	k := fmt.Sprint(w)
	if h, ok := e.hosts[k]; ok {
		return h
	}
	if len(e.hosts) > 4096 {
		e.hosts = map[string][]types.Host{}
	}
	hs := make([]types.Host, len(w))
	for i, x := range w {
		hs[i] = NewSimpleHost(v2.Host{HostConfig: v2.HostConfig{Address: fmt.Sprintf("10.6.1.%d:80", i+1), Hostname: fmt.Sprintf("h%d", i), Weight: x}}, info)
	}
	e.hosts[k] = hs
	return hs
}

// c06ssPicks runs one case inside a vrt execution with the clock frozen and
// returns the pick sequence.
func c06ssPicks(e *c06ssEnv, c c06ssCase) (seq []int, viaEdf bool, err error) {
	info := e.info(c.Cfg)
	hosts := e.hostsFor(info, c.Weights)
	n := len(hosts)
	index := map[types.Host]int{}
	for i, h := range hosts {
		index[h] = i
	}
	window := time.Duration(c.Cfg.DurMs) * time.Millisecond
	r := vrt.RunOnce(nil, vrt.Options{MaxSteps: 4000 + 400*c.Picks}, func() {
		defer func() {
			if p := recover(); p != nil {
				err = fmt.Errorf("panic: %v", p)
			}
		}()
		now := vtime.Now()
		for i, h := range hosts {
			switch c.Ages[i] {
			case c06ssAgeZero:
				h.SetLastHealthCheckPassTime(time.Time{})
			case c06ssAgeDay:
				h.SetLastHealthCheckPassTime(now.Add(-24 * time.Hour))
			default:
				h.SetLastHealthCheckPassTime(now.Add(-window * time.Duration(c.Ages[i]) / 8))
			}
			if !h.Health() {
				err = fmt.Errorf("harness: host %d is not healthy", i)
				return
			}
		}
		hs := NewHostSet(hosts)
		oldRR := rrFactory.rand
		rrSrc := &c06Src{v: int64(c.Draw) << 31}
		rrFactory.rand = rand.New(rrSrc)
		defer func() { rrFactory.rand = oldRR }()
		lb := NewLoadBalancer(info, hs)
		wrr, ok := lb.(*WRRLoadBalancer)
		if !ok {
			err = fmt.Errorf("harness: NewLoadBalancer(WeightedRoundRobin) returned %T", lb)
			return
		}
		edfSrc := &c06Src{v: int64(c.Draw) << 32}
		wrr.EdfLoadBalancer.rand = rand.New(edfSrc)
		wrr.EdfLoadBalancer.scheduler = nil
		wrr.EdfLoadBalancer.refresh(info, hs)
		viaEdf = wrr.EdfLoadBalancer.scheduler != nil
		if viaEdf && n > 1 && edfSrc.calls != 1 {
			err = fmt.Errorf("harness: refresh consumed %d random values, expected 1", edfSrc.calls)
			return
		}
		seq = make([]int, 0, c.Picks)
		for k := 0; k < c.Picks; k++ {
			h := lb.ChooseHost(nil)
			i, known := index[h]
			if h == nil || !known {
				err = fmt.Errorf("pick %d: ChooseHost returned %v, not one of the healthy hosts", k, h)
				return
			}
			seq = append(seq, i)
		}
		if !vtime.Now().Equal(now) {
			err = fmt.Errorf("harness: the virtual clock moved during the run")
		}
	})
	if err == nil && (r.StepLimit || r.Deadlock || len(r.Panics) > 0) {
		err = fmt.Errorf("execution did not complete: %s %v", r.String(), r.Panics)
	}
	return seq, viaEdf, err
}

func c06ssSelfCheck() error {
	if err := c06WrrSelfCheck(); err != nil {
		return err
	}
	// the unit must be instrumented: inside an execution Host.ClearHealthFlag stamps the virtual clock
	info := NewClusterInfo(v2.Cluster{Name: "c06ss", ClusterType: v2.SIMPLE_CLUSTER, LbType: v2.LbType(types.WeightedRoundRobin)})
	h := NewSimpleHost(v2.Host{HostConfig: v2.HostConfig{Address: "10.6.1.250:80", Weight: 1}}, info)
	msg := ""
	vrt.RunOnce(nil, vrt.Options{MaxSteps: 10000}, func() {
		t0 := vtime.Now()
		h.SetHealthFlag(api.FAILED_ACTIVE_HC)
		h.ClearHealthFlag(api.FAILED_ACTIVE_HC)
		if st := h.LastHealthCheckPassTime(); !st.Equal(t0) || !h.Health() {
			msg = fmt.Sprintf("Host.ClearHealthFlag stamped %v, the virtual clock is %v: pkg/upstream/cluster is not instrumented (unit needs \"instrument\": \"cluster\")", st, t0)
		}
	})
	if msg != "" {
		return fmt.Errorf("%s", msg)
	}
	// the reference against the values the configuration documentation / the package's own unit test name
	ref := func(d int64, a, m float64, age int) float64 {
		return c06ssFactor(c06ssCfg{Mode: "duration", DurMs: d, Aggr: a, MWP: m}, age)
	}
	for _, c := range []struct{ got, want float64 }{
		{ref(10000, 1, 0.1, 0), 0.1}, {ref(10000, 1, 0.1, 4), 0.5}, {ref(10000, 1, 0.1, 8), 1}, {ref(10000, 1, 0.1, c06ssAgeDay), 1},
		{ref(20000, 1, 0.1, 2), 0.25}, {ref(0, 1, 0.1, 0), 1}, {ref(-1000, 1, 0.1, 0), 1}, {ref(10000, 2, 0.1, 0), math.Sqrt(0.1)},
		{ref(10000, 0.5, 0.1, 4), 0.25}, {ref(10000, 0.5, 0.1, 0), 0.1}, {ref(10000, 0, 0, 4), 0.5}, {ref(10000, 1, 1, 0), 1}, {ref(10000, 1, 0.1, c06ssAgeZero), 1},
		{c06ssFactor(c06ssCfg{Mode: "", DurMs: 10000, Aggr: 1, MWP: 0.1}, 0), 1}, {c06ssFactor(c06ssCfg{Mode: "nope", DurMs: 10000, Aggr: 1, MWP: 0.1}, 0), 1},
	} {
		if math.Abs(c.got-c.want) > 1e-12 {
			return fmt.Errorf("reference factor self-check: got %v want %v", c.got, c.want)
		}
	}
	if _, bad := c06ssWindowsF([]int{0, 0, 0, 1, 1, 1}, []float64{0.5, 0.5}); bad == "" {
		return fmt.Errorf("float window checker accepted 0,0,0,1,1,1 for weights .5,.5")
	}
	if _, bad := c06ssWindowsF([]int{0, 1, 0, 1, 1, 0}, []float64{0.5, 0.5}); bad != "" {
		return fmt.Errorf("float window checker rejected 0,1,0,1,1,0 for weights .5,.5: %s", bad)
	}
	return nil
}

func c06ssProduct(alpha []uint32, n int) [][]uint32 {
	var out [][]uint32
	w := make([]uint32, n)
	var rec func(i int)
	rec = func(i int) {
		if i == n {
			out = append(out, append([]uint32(nil), w...))
			return
		}
		for _, a := range alpha {
			w[i] = a
			rec(i + 1)
		}
	}
	rec(0)
	return out
}

func c06ssAgePatterns(alpha []int, n int, yield func([]int) bool) bool {
	a := make([]int, n)
	var rec func(i int) bool
	rec = func(i int) bool {
		if i == n {
			return yield(append([]int(nil), a...))
		}
		for _, x := range alpha {
			a[i] = x
			if !rec(i + 1) {
				return false
			}
		}
		return true
	}
	return rec(0)
}

type c06ssGroup struct {
	cfgs    []c06ssCfg
	vecs    [][]uint32
	ages    []int
	pickCap int
}

func c06ssCfgs(modes []string, durs []int64, aggrs, mwps []float64) []c06ssCfg {
	var out []c06ssCfg
	for _, m := range modes {
		for _, d := range durs {
			for _, a := range aggrs {
				for _, w := range mwps {
					out = append(out, c06ssCfg{Mode: m, DurMs: d, Aggr: a, MWP: w})
				}
			}
		}
	}
	return out
}

func c06ssRun(t *testing.T, part, keyPrefix string, groups []c06ssGroup, aged bool, bound, rule string) {
	p := vreport.Begin("C06", part, time.Duration(vreport.Pick(6, 25))*time.Minute)
	if !vreport.Replaying() {
		if err := c06ssSelfCheck(); err != nil {
			vreport.HarnessError("C06", part, err.Error())
			p.End(false, "self-check failed", err.Error())
			t.Error(err)
			return
		}
	}
	defer runtime.GOMAXPROCS(runtime.GOMAXPROCS(1))
	env := &c06ssEnv{infos: map[c06ssCfg]types.ClusterInfo{}, hosts: map[string][]types.Host{}}
	si, sn := vreport.Shard()
	complete := vreport.Run(p,
		func(yield func(c06ssCase) bool) {
			idx := 0
			for _, g := range groups {
				for _, cfg := range g.cfgs {
					for _, w := range g.vecs {
						sum := 0
						for _, x := range w {
							sum += int(c06Clamp(x))
						}
						picks := 2 * sum
						if picks > g.pickCap {
							picks = g.pickCap
						}
						ok := c06ssAgePatterns(g.ages, len(w), func(ages []int) bool {
							for d := 0; d < len(w); d++ {
								idx++
								if idx%sn != si {
									continue
								}
								if !yield(c06ssCase{Cfg: cfg, Weights: w, Ages: ages, Draw: d, Picks: picks}) {
									return false
								}
							}
							return true
						})
						if !ok {
							return
						}
					}
				}
			}
		},
		func(p *vreport.Part, c c06ssCase) {
			n := len(c.Weights)
			if n < 1 || n > 8 || len(c.Ages) != n || c.Picks < 1 || c.Picks > 4096 {
				return
			}
			ageS := make([]string, n)
			eff := make([]float64, n)
			effI := make([]int64, n)
			allOne := true
			for i, w := range c.Weights {
				ageS[i] = c06ssAgeString(c.Ages[i])
				f := c06ssFactor(c.Cfg, c.Ages[i])
				effI[i] = c06Clamp(w)
				eff[i] = float64(effI[i]) * f
				if f != 1 {
					allOne = false
				}
			}
			if aged && !allOne {
				vreport.HarnessError("C06", part, fmt.Sprintf("case %+v is not an all-aged case (reference factors %v)", c, eff))
				return
			}
			seq, viaEdf, err := c06ssPicks(env, c)
			path := "rr"
			if viaEdf {
				path = "edf"
			}
			where := func() string {
				return fmt.Sprintf("slow_start %+v, weights %v, host ages %v, reference effective weights %v, constructor draw %d, first %d picks", c.Cfg, c.Weights, ageS, eff, c.Draw, c.Picks)
			}
			if err != nil {
				if strings.HasPrefix(err.Error(), "harness:") {
					vreport.HarnessError("C06", part, where()+": "+err.Error())
					return
				}
				p.Violation(keyPrefix+" ("+path+" path): ChooseHost did not return a healthy host", where()+": "+err.Error(), c)
				return
			}
			var evals int64
			var bad string
			if allOne {
				evals, bad = c06Windows(seq, effI) // exact integer arithmetic, as without slow start
			} else {
				evals, bad = c06ssWindowsF(seq, eff)
			}
			p.EvalN(int(evals))
			p.Count("window_pair_inequalities", int(evals))
			p.Count("pick_sequences", 1)
			p.Distinct(fmt.Sprint(c.Cfg, c.Weights, c.Ages, c.Draw))
			head := seq
			if len(head) > 12 {
				head = head[:12]
			}
			p.Outcome(fmt.Sprint(path, head))
			if p.WantSample() {
				p.Sample(map[string]interface{}{"cfg": c.Cfg, "weights": c.Weights, "ages": ageS, "effective_weights": eff, "draw": c.Draw, "path": path, "first_picks": head, "picks": c.Picks})
			}
			if bad != "" {
				p.Violation(keyPrefix+" ("+path+" path): window lag bound |n_i*w_j-n_j*w_i| <= w_i+w_j exceeded", where()+": "+bad, c)
			}
		})
	p.End(complete, bound, rule)
}

var c06ssBoundary = []uint32{1, 2, 3, 5, 7, 64, 127, 128}

// TestVerifC06SlowStart runs the two parts.
func TestVerifC06SlowStart(t *testing.T) {
	thorough := vreport.Thorough()
	// ---- aged: factor 1 for every host
	agedAges := []int{c06ssAgeDay, 8, c06ssAgeZero} // 24h, exactly one window, never recorded
	agedCfgs := c06ssCfgs([]string{"duration"}, []int64{1000, 10000}, []float64{0.5, 1, 2}, []float64{0.1, 1})
	agedOne := c06ssCfgs([]string{"duration"}, []int64{10000}, []float64{1}, []float64{0.1, 1}) // 10 s window, aggression 1
	aged := []c06ssGroup{
		{cfgs: agedCfgs, vecs: c06ssProduct(c06ssBoundary, 2), ages: agedAges, pickCap: 1 << 20},
		{cfgs: agedOne, vecs: c06ssProduct([]uint32{1, 2, 5, 128}, 3), ages: agedAges, pickCap: vreport.Pick(200, 1<<20)},
	}
	agedBound := "slow_start {mode duration} x slow_start_duration {1s,10s} x aggression {0.5,1,2} x min_weight_percent {0.1,1}; host weight pairs {1,2,3,5,7,64,127,128}^2 with the first 2*sum(w) picks, triples {1,2,5,128}^3 (aggression 1 only) with the first min(2*sum(w),200) picks; every host age pattern over {24h, exactly one window, never recorded}; every constructor draw; every window and host pair"
	if thorough {
		var r32 []uint32
		for x := uint32(1); x <= 32; x++ {
			r32 = append(r32, x)
		}
		aged = []c06ssGroup{
			{cfgs: agedCfgs, vecs: c06ssProduct(c06ssBoundary, 2), ages: agedAges, pickCap: 1 << 20},
			{cfgs: agedOne, vecs: c06ssProduct(r32, 2), ages: agedAges, pickCap: 1 << 20},
			{cfgs: agedCfgs, vecs: c06ssProduct([]uint32{1, 2, 5, 128}, 3), ages: agedAges, pickCap: 1 << 20},
			{cfgs: agedOne, vecs: c06ssProduct(c06ssBoundary, 3), ages: []int{c06ssAgeDay, c06ssAgeZero}, pickCap: 400},
		}
		agedBound = "slow_start {mode duration} x slow_start_duration {1s,10s} x aggression {0.5,1,2} x min_weight_percent {0.1,1}; host weight pairs {1,2,3,5,7,64,127,128}^2 and (aggression 1) [1,32]^2, triples {1,2,5,128}^3, with the first 2*sum(w) picks; (aggression 1) triples {1,2,3,5,7,64,127,128}^3 with min(2*sum(w),400) picks and ages {24h, never recorded}; every host age pattern over {24h, exactly one window, never recorded}; every constructor draw; every window and host pair"
	}
	c06ssRun(t, "wrr-slowstart-aged", "wrr slow-start, every host older than its window", aged, true, agedBound,
		"cartesian product configuration x weight vector x age pattern x constructor draw; real balancer from NewLoadBalancer(WeightedRoundRobin) over healthy simpleHosts of a cluster built by NewClusterInfo from the slow_start configuration, virtual clock frozen; effective weight = configured weight clamped to [1,128] (every reference factor is 1, checked); an evaluation is one (window, host pair) inequality in exact integer arithmetic")

	// ---- effective: hosts inside their window
	inAges := []int{c06ssAgeDay, 4, 2, 0, c06ssAgeZero} // 24h, half, quarter of the window, just now, never recorded
	effCfgs := c06ssCfgs([]string{"duration"}, []int64{1000, 10000, 40000}, []float64{0, 0.5, 1, 2}, []float64{0, 0.1, 0.5, 1})
	narrow := c06ssCfgs([]string{"duration"}, []int64{10000}, []float64{0.5, 1, 2}, []float64{0.1})
	other := c06ssCfgs([]string{"", "unknown-mode"}, []int64{10000}, []float64{2}, []float64{0.5})
	eff := []c06ssGroup{
		{cfgs: append(append([]c06ssCfg{}, effCfgs...), other...), vecs: c06ssProduct([]uint32{1, 2, 3, 100}, 2), ages: inAges, pickCap: 120},
		{cfgs: narrow, vecs: c06ssProduct([]uint32{1, 7, 128}, 2), ages: inAges, pickCap: 120},
		{cfgs: narrow, vecs: c06ssProduct([]uint32{1, 2, 100}, 3), ages: []int{c06ssAgeDay, 4, 0}, pickCap: 96},
	}
	effBound := "slow_start mode duration x slow_start_duration {1s,10s,40s} x aggression {0,0.5,1,2} x min_weight_percent {0,0.1,0.5,1} (and modes \"\" / unknown with one parameter set) x host weight pairs {1,2,3,100}^2 x every age pattern over {24h, 1/2 window, 1/4 window, just now, never recorded}; 10 s window x aggression {0.5,1,2} x floor 0.1 x pairs {1,7,128}^2 (same ages) and triples {1,2,100}^3 x ages {24h, 1/2 window, just now}; every constructor draw; first min(2*sum(w),120) (triples: 96) picks; every window and host pair"
	if thorough {
		eff = []c06ssGroup{
			{cfgs: append(append([]c06ssCfg{}, effCfgs...), other...), vecs: c06ssProduct([]uint32{1, 2, 3, 7, 100, 128}, 2), ages: []int{c06ssAgeDay, 6, 4, 2, 1, 0, c06ssAgeZero}, pickCap: 300},
			{cfgs: effCfgs, vecs: c06ssProduct([]uint32{1, 2, 100}, 3), ages: inAges, pickCap: 200},
		}
		effBound = "slow_start mode duration x slow_start_duration {1s,10s,40s} x aggression {0,0.5,1,2} x min_weight_percent {0,0.1,0.5,1} (and modes \"\" / unknown with one parameter set) x host weight pairs {1,2,3,7,100,128}^2 x every age pattern over {24h, 3/4, 1/2, 1/4, 1/8 window, just now, never recorded}, first min(2*sum(w),300) picks; the duration configurations x triples {1,2,100}^3 x ages {24h, 1/2, 1/4 window, just now, never recorded}, first min(2*sum(w),200) picks; every constructor draw; every window and host pair"
	}
	c06ssRun(t, "wrr-slowstart-effective", "wrr slow-start, effective weights w*factor", eff, false, effBound,
		"cartesian product configuration x weight vector x age pattern x constructor draw; real balancer as in wrr-slowstart-aged, virtual clock frozen so that the factors are constants of the run; effective weight of host i = clamp(w_i) * factor_i with factor_i from the harness's reference (Envoy/MOSN slow-start formula: max(min_weight_percent, (max(elapsed,1s)/window)^(1/aggression)), 1 outside the window), NOT read from the code; cases whose factors are all 1 are checked in exact integer arithmetic, the others in float64 with relative slack 1e-9; hosts with a pass time in the future are not part of the check (no documented factor)")
}
