//go:build verif

package cluster

// C05 part 3 (schedules): a lookup concurrent with a host-set replacement sees
// entirely the old or entirely the new set.
//
// Under the E1 scheduler (package pkg/upstream/cluster instrumented: every
// lock / atomic operation is a scheduling point): thread "updater" calls
// UpdateHosts(S2) on a real cluster that currently publishes S1; threads
// "chooser0/1" each do Snapshot(), read HostSet() and LoadBalancer() from it
// and call ChooseHost. All interleavings up to the preemption bound.
//
// Oracle per chooser: the observed HostSet is the S1 or the S2 set object; the
// observed LoadBalancer selects from that very set object (one generation);
// the chosen host satisfies c05Judge against the observed set. Health is fixed
// during an execution (every pattern over the four addresses is a case).
//
// Randomness: sources created inside an execution are deterministic (the
// instrumented build shims math/rand.NewSource and time.Now: a per-execution
// stream / the scheduler's virtual clock), the round-robin factory's source
// (created at package init) is replaced by a constant source whose value is a
// case parameter (every initial-cursor residue). Draws are enumerated in parts 1 and 2; here
// they are fixed per case so that an execution is a function of its schedule.

import (
	"fmt"
	"math/rand"
	"testing"
	"time"

	v2 "mosn.io/mosn/pkg/config/v2"
	"mosn.io/mosn/pkg/types"
	"mosn.io/mosn/pkg/verifrt/vreport"
	"mosn.io/mosn/pkg/verifrt/vrt"
)

type c05SchedCase struct {
	Policy  string `json:"policy"`
	Cfg     string `json:"cfg"`          // weights as in the histories part
	Healthy uint   `json:"healthy_mask"` // bit j: address j (A,B,C,D) healthy
	RRDraw  int    `json:"rr_draw"`      // alphabet index answered to every draw of the round-robin factory
	Bound   int    `json:"bound"`
	Choices []int  `json:"choices"`
}

type c05ConstSrc int

func (s c05ConstSrc) Int63() int64 { return c05Alpha(int(s)) }
func (s c05ConstSrc) Seed(int64)   {}

type c05SchedObs struct {
	hs  types.HostSet
	lb  types.LoadBalancer
	got types.Host
	pan interface{}
}

type c05SchedState struct {
	hs1, hs2 types.HostSet
	m1, m2   []types.Host
	sets     map[string]c05HistSet
	obs      [2]c05SchedObs
	done     int
	problem  string
}

func c05SchedBody(c c05SchedCase, st *c05SchedState, keys []uint64) {
	pol := types.LoadBalancerType(c.Policy)
	*st = c05SchedState{sets: c05HistSets(c.Cfg)}
	restore := c05SwapRRFactoryRand(rand.New(c05ConstSrc(c.RRDraw)))
	defer restore()
	cl := NewCluster(v2.Cluster{Name: "c05s-" + c.Policy + "-" + c.Cfg, ClusterType: v2.SIMPLE_CLUSTER, LbType: v2.LbType(pol)})
	info := cl.Snapshot().ClusterInfo()
	handles := c05MakeHosts(info, c05HistAddrs, []uint32{1, 1, 1, 1})
	c05SetHealth(handles, c.Healthy)
	c05SetCounters(handles, c05HistCounterMask)
	mk := func(ev string) ([]types.Host, types.HostSet) {
		set := st.sets[ev]
		addrs := make([]string, len(set.addrIdx))
		for i, a := range set.addrIdx {
			addrs[i] = c05HistAddrs[a]
		}
		hosts := c05MakeHosts(info, addrs, set.weights)
		return hosts, NewHostSet(hosts)
	}
	st.m1, st.hs1 = mk("U1")
	st.m2, st.hs2 = mk("U2")
	cl.UpdateHosts(st.hs1)
	if got := c05ConcreteType(cl.Snapshot().LoadBalancer()); got != c.Policy {
		st.problem = fmt.Sprintf("cluster of lb type %s publishes a %s", c.Policy, got)
		return
	}
	vrt.GoNamed("updater", func() {
		cl.UpdateHosts(st.hs2)
		st.done++
	})
	for i := 0; i < 2; i++ {
		i := i
		vrt.GoNamed(fmt.Sprintf("chooser%d", i), func() {
			o := &st.obs[i]
			snap := cl.Snapshot()
			if snap == nil {
				st.problem = "nil snapshot"
				st.done++
				return
			}
			o.hs = snap.HostSet()
			o.lb = snap.LoadBalancer()
			key := uint64(0)
			if i < len(keys) {
				key = keys[i]
			}
			o.got, o.pan = c05Choose(o.lb, c05NewCtx(info, key, -1))
			st.done++
		})
	}
	vrt.WaitUntil("updater and choosers done", func() bool { return st.done == 3 })
}

func c05SchedHealthy(set c05HistSet, mask uint) []bool {
	h := make([]bool, len(set.addrIdx))
	for i, a := range set.addrIdx {
		h[i] = mask&(1<<uint(a)) != 0
	}
	return h
}

func c05SchedObserve(c c05SchedCase, st *c05SchedState) (summary string, viols [][2]string) {
	pol := types.LoadBalancerType(c.Policy)
	for i := range st.obs {
		o := &st.obs[i]
		var members []types.Host
		var set c05HistSet
		gen := ""
		switch {
		case o.hs != nil && o.hs == st.hs1:
			gen, members, set = "S1", st.m1, st.sets["U1"]
		case o.hs != nil && o.hs == st.hs2:
			gen, members, set = "S2", st.m2, st.sets["U2"]
		default:
			summary += fmt.Sprintf("chooser%d: foreign set; ", i)
			viols = append(viols, [2]string{fmt.Sprintf("lb=%s concurrent UpdateHosts: observed host set is neither the old nor the new set", pol),
				fmt.Sprintf("chooser%d observed a HostSet that is neither the S1 nor the S2 object", i)})
			continue
		}
		if lh := c05LbHosts(o.lb); lh == nil || lh != o.hs {
			other := "an unknown set"
			if lh == st.hs1 {
				other = "S1"
			} else if lh == st.hs2 {
				other = "S2"
			}
			viols = append(viols, [2]string{fmt.Sprintf("lb=%s concurrent UpdateHosts: observed (HostSet, LoadBalancer) pair of different generations", pol),
				fmt.Sprintf("chooser%d: snapshot host set is %s but its load balancer selects from %s", i, gen, other)})
		}
		healthy := c05SchedHealthy(set, c.Healthy)
		outcome, kind := c05Judge(members, healthy, o.got)
		if o.pan != nil {
			outcome, kind = "panic", c05OK
			for _, h := range healthy {
				if h {
					kind = c05KindPanic
				}
			}
		}
		idx := -1
		for j, m := range members {
			if m == o.got {
				idx = j
			}
		}
		summary += fmt.Sprintf("chooser%d: %s -> %d (%s); ", i, gen, idx, outcome)
		if kind != c05OK {
			viols = append(viols, [2]string{c05Key(pol, c05WeightClass(set.weights), kind),
				fmt.Sprintf("chooser%d concurrently with UpdateHosts(S2): observed set %s (weights %v, healthy %v), ChooseHost returned member index %d (%s)%s",
					i, gen, set.weights, healthy, idx, outcome, c05PanicText(o.pan))})
		}
	}
	return
}

func TestVerifC05Schedules(t *testing.T) {
	c05Quiet()
	p := vreport.Begin("C05", "update-vs-choose-schedules", time.Duration(vreport.Pick(6, 40))*time.Minute)
	keys := []uint64{0, 1}
	if vreport.Replaying() {
		var rc c05SchedCase
		if vreport.ReplayFor("C05", "update-vs-choose-schedules", &rc) {
			c05SchedRun(p, rc, keys, true)
			p.End(true, "replay", "replay of one recorded schedule")
		}
		return
	}
	bound := vreport.Pick(1, 2)
	shardI, shardN := vreport.Shard()
	var cases []c05SchedCase
	for _, pol := range c05Policies {
		for _, cfg := range []string{"eq-uneq", "uneq-eq"} {
			if cfg == "uneq-eq" && (pol == types.Random || pol == types.RoundRobin || pol == types.Maglev || pol == types.RequestRoundRobin) {
				continue
			}
			for healthy := uint(0); healthy < 16; healthy++ {
				for rr := 0; rr < 3; rr++ {
					if rr > 0 && (pol == types.Maglev || pol == types.RequestRoundRobin || pol == types.LeastActiveRequest || pol == types.LeastActiveConnection) {
						continue // no round-robin cursor inside
					}
					b := bound
					if vreport.Thorough() && (pol == types.RoundRobin || pol == types.RequestRoundRobin || pol == types.Maglev || pol == types.Random) {
						b = bound + 1 // few scheduling points per execution: one more preemption is affordable
					}
					cases = append(cases, c05SchedCase{Policy: string(pol), Cfg: cfg, Healthy: healthy, RRDraw: rr, Bound: b})
				}
			}
		}
	}
	// determinism: the default schedule of the first case of every policy, twice
	lastPol := ""
	for _, c := range cases {
		if c.Policy == lastPol || c.Healthy != 0b0110 {
			continue
		}
		lastPol = c.Policy
		var sa, sb c05SchedState
		ra := vrt.RunOnce(nil, vrt.Options{MaxSteps: 20000}, func() { c05SchedBody(c, &sa, keys) })
		oa, _ := c05SchedObserve(c, &sa)
		rb := vrt.RunOnce(nil, vrt.Options{MaxSteps: 20000}, func() { c05SchedBody(c, &sb, keys) })
		ob, _ := c05SchedObserve(c, &sb)
		if oa != ob || fmt.Sprint(ra.Choices) != fmt.Sprint(rb.Choices) {
			vreport.HarnessError("C05", "update-vs-choose-schedules", fmt.Sprintf("%s: default schedule is not deterministic: %q/%v vs %q/%v", c.Policy, oa, ra.Choices, ob, rb.Choices))
			p.End(false, "aborted", "nondeterministic harness")
			return
		}
	}
	complete := true
	for i, c := range cases {
		if i%shardN != shardI {
			continue
		}
		if p.Expired() {
			complete = false
			break
		}
		if !c05SchedRun(p, c, keys, false) {
			complete = false
		}
	}
	p.End(complete,
		fmt.Sprintf("real simpleCluster publishing S1={A,B,C}; 3 threads: UpdateHosts(S2={C,D}) || 2 x (Snapshot, HostSet, LoadBalancer, ChooseHost); 8 policies (EDF based ones with both weight configurations) x all 16 health patterns over A..D x every initial round-robin cursor residue; all interleavings with <= %d preemptions (thorough: <= %d for random, RR, request-RR, maglev) (scheduling point at every lock and atomic operation of pkg/upstream/cluster)", bound, vreport.Pick(bound, bound+1)),
		"stateless DFS over thread interleavings (preemption bounded); one evaluation = one complete execution; distinct = (case, what both choosers observed); draws fixed per case (enumerated in the other parts)")
}

func c05SchedRun(p *vreport.Part, c c05SchedCase, keys []uint64, replay bool) bool {
	var st c05SchedState
	opts := vrt.Options{Bound: c.Bound, MaxSteps: 20000}
	if replay {
		opts.Replay = true
		opts.Prefix = c.Choices
	}
	stats := vrt.Explore(opts, func() { c05SchedBody(c, &st, keys) }, func(r *vrt.Result) {
		p.Eval()
		cc := c
		cc.Choices = r.Choices
		if r.Deadlock || len(r.Panics) > 0 || r.StepLimit || r.Diverged != "" || st.problem != "" {
			vreport.HarnessError("C05", "update-vs-choose-schedules", fmt.Sprintf("execution did not complete: %s %v %s (case %+v)", r.String(), r.Panics, st.problem, cc))
			return
		}
		summary, viols := c05SchedObserve(c, &st)
		p.Distinct(fmt.Sprintf("%s|%s|%b|%d|%s", c.Policy, c.Cfg, c.Healthy, c.RRDraw, summary))
		p.Outcome(c.Policy + "|" + summary)
		if p.WantSample() {
			p.Sample(map[string]interface{}{"policy": c.Policy, "cfg": c.Cfg, "healthy_mask": c.Healthy, "rr_draw": c.RRDraw, "schedule": r.Choices, "observed": summary})
		}
		for _, v := range viols {
			p.Violation(v[0], fmt.Sprintf("policy %s cfg %s healthy mask ABCD(bit0=A) %04b rr-draw %d schedule %v: %s [%s]", c.Policy, c.Cfg, c.Healthy, c.RRDraw, r.Choices, v[1], summary), cc)
		}
	})
	p.AddTraces(stats.Executions)
	p.Count("executions", stats.Executions)
	p.Count("executions_"+c.Policy, stats.Executions)
	return stats.Complete
}
