//go:build verif

package cluster

import "testing"

// C05: "a lookup concurrent with an update sees entirely the old or entirely the new member set, and gets
// no host only when none is healthy" at the level where updates enter: the cluster manager's
// AddOrUpdatePrimaryCluster / AddOrUpdateClusterAndHost / UpdateClusterHosts / AppendClusterHosts /
// RemoveClusterHosts, each running against 1-2 readers doing GetClusterSnapshot + HostSet + ChooseHost under the
// cooperative scheduler. The exploration and the judge are the ones of the C12 swap part
// (zz_verif_C12_swap_test.go, included in this unit through "also": ["C12"]); only the property the part
// reports under differs.
func TestVerifC05ManagerSwap(t *testing.T) {
	c12sProp = "C05"
	c12sMain(t)
}
