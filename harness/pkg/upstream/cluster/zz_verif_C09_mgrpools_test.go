//go:build verif

package cluster

// C09 (upstream connection pools: exclusive leases, no leaks, no dirty reuse),
// unit "manager-pools": the pool BOOKKEEPING OF THE CLUSTER MANAGER - the level at
// which the proxy gets its pools (clusterManager.ConnPoolForCluster /
// getActiveConnectionPool: protocol -> [cluster ->] address -> pool maps, pool
// creation through the registered types.NewConnPool factory, the retry loop over
// hosts with CheckAndInit, replacement of a pool whose TLS hash no longer equals
// its host's, ShutdownConnectionPool) while the control plane changes the
// membership (UpdateClusterHosts / RemoveClusterHosts / RemovePrimaryCluster),
// the health of hosts and the cluster manager's TLS context (UpdateTLSManager).
//
// Explicit-state breadth-first search over a REAL cluster manager singleton
// (Destroy + NewClusterManagerSingleton per replay) with the REAL xprotocol pools
// registered the normal way (protocol/xprotocol.RegisterXProtocolAction +
// RegisterXProtocolCodec -> protocol.RegisterProtocol): protocol "vboltpp" = the
// real bolt codec with PoolMode() PingPong and heartbeats off -> poolPingPong;
// protocol "bolt" -> poolMultiplex (asynchronous connect, so that the manager's
// second phase - polling CheckAndInit of the pools that were not ready - runs).
// Connections are vfake connections made by a client-connection factory of this
// file (network.RegisterClientConnFactory) that scripts connect failures per
// ADDRESS and records the TLS context manager each connection was created with.
//
// The factory handed to RegisterXProtocolAction wraps the real pool in a
// delegating recorder (c09mPool): it records Shutdown / Close / CheckAndInit
// results and which pool is creating a connection, and it WAITS after a
// CheckAndInit that returned false and after Shutdown until the goroutine those
// calls spawn (poolMultiplex.init / Shutdown via utils.GoWithRecover) is gone
// (exact: goroutine dump, no wall clock), so that every event ends in a
// quiescent state. The sleeps between the polls of the manager's retry loop
// (tryConnTimes) are set to 0: with the wait they have no function.
//
// A state is the event history that reaches it; a successor = fresh manager +
// replayed history + one event. Events:
//
//	cp:P:k     ConnPoolForCluster(current snapshot, P in {vboltpp, bolt}) with the round-robin cursor
//	           at published index k, then - as the proxy does - NewStream on the returned pool and the
//	           request written (AppendHeaders(endStream))
//	reply:s    the complete response of in-flight stream s is read / lreset:s local reset (time-out) of s
//	flip:a     health flip of address a
//	upd:i      UpdateClusterHosts(list i): {a0,a1} | {a1} (a0 removed) | {a0 tls_disable,a1} | {a0 other metadata,a1}
//	           (thorough: | {a0,a1,a2} | {} | {a0..a3}: more hosts than the retry loop tries) - always NEW host objects, so: host removed, re-added, re-added
//	           with another TLS state / other metadata
//	rem:a      RemoveClusterHosts([a])
//	scp:P:a    ShutdownConnectionPool(P, a), P in {vboltpp, bolt, "" = every protocol}
//	tls:t      UpdateTLSManager(T0 disabled | T1 | T2 (another hash)); the cluster uses the manager's TLS context
//	cf:a       connects to address a fail from now on / succeed again
//	thorough:  rclose:c (peer closes connection c), cstls (Disable/EnableClientSideTLS), rpc (RemovePrimaryCluster),
//	           cp / scp with a protocol nobody registered (must change nothing)
//
// Reference model (kept by the harness, never read from the code under test):
// intended membership (ordered list of address + tls_disable + metadata), health
// bit per address, TLS generation, connect-fail bit per address, and for every
// connection ever created: address, TLS class it was created with, creating
// pool; for every stream: its connection (where its request bytes appeared), in
// flight until answered, reset or its connection closed. What the manager
// REACHES is read from its maps (in-package).
//
// Oracle, evaluated before and after the last event (only new violations are
// reported, keyed by the kind of that event):
//
//	M1 every open connection is exactly one of {leased: carries an in-flight request; idle in a pool
//	   that is in the manager's maps (its entry for the pool's protocol / address)}; i.e. no open idle
//	   connection in a pool the manager DROPPED from its maps (TLS hash changed -> replaced,
//	   ShutdownConnectionPool): nobody can lease it and nothing closes it. An in-flight request is
//	   never interrupted by a manager operation (Shutdown is graceful).
//	M2 no dirty reuse: a pool the manager dropped is never handed out again: ConnPoolForCluster never
//	   returns a pool that is not in the manager's map or that was shut down; the request travels on a
//	   connection of the returned pool to the returned host's address.
//	M3 ConnPoolForCluster returns a host that is an intended member and healthy (ties in with C05), the
//	   pool of that host's address and protocol, only after a CheckAndInit of that pool that returned
//	   true; NewStream on it succeeds unless connects to the address are scripted to fail; no pool is
//	   returned only if no member is healthy (multiplex: or every healthy member refuses connections; with
//	   more than maxHostsCounts = 3 healthy members the loop tries only 3 of them: not compared then).
//	M4 map hygiene: a pool sits in the map family (global / per cluster) selected by cluster_pool_enable
//	   under its own protocol and address; ShutdownConnectionPool removes the entry; a pool the manager
//	   dropped was told to Shutdown.
//	M5 counters: host / cluster upstream_connection_active == open connections (per address / all),
//	   upstream_request_active and the Requests resource == in-flight requests.
//
// Not compared (no clause of C09; counted as notes "observed: ..."): an idle connection in the pool of a
// host that LEFT the cluster while the pool is still in the manager's map (it is literally idle in the
// pool and leasable again when the address comes back; MP2 of findings/C09-mgrpools.md); the TLS state
// of the pool / connection a request is given versus the TLS state of its host (TLS policy, C13
// territory; MP3). Also not compared: that the pool of a host re-added with the SAME
// TLS state is the old pool with its old idle connection and an outdated Host() object; which of
// several healthy hosts is chosen; lazily replaced pools between a TLS change and the next lookup.
//
// Canonical state = (cluster exists, published list in order with tls_disable / metadata per host,
// health bits, TLS generation, client-side TLS switch, connect-fail bits; per reachable pool: protocol,
// address, TLS class, tls_disable of the host object the pool works with; multiset of OPEN connections:
// protocol, address, status of its pool (reachable / dropped:cause), TLS class, number of in-flight
// requests; counter deviations). Two histories with the same canonical state have the same futures:
// the manager reads only the cluster's snapshot (rebuilt from the published list by every host
// operation), the health words, the TLS manager, the client-side switch and the pool maps (presence and
// the pool's creation-time TLS hash); a pool reads only its host object (the one it was created with; address,
// tls_disable; the ClusterInfo is shared by all host generations), its own connections (interchangeable
// within one class: the pools never look at identity beyond membership, idle ones are all clean - the
// pool-level units check that) and the connection factory, which reads the fail bits; the round-robin
// cursor is set by every cp event; closed connections and dropped pools without open connection can
// never be touched again. Every new canonical state is replayed a second time and must reproduce
// (harness determinism check).

import (
	"context"
	"fmt"
	"net"
	"runtime"
	"sort"
	"strings"
	"sync"
	"sync/atomic"
	"testing"
	"time"

	"mosn.io/api"
	v2 "mosn.io/mosn/pkg/config/v2"
	"mosn.io/mosn/pkg/configmanager"
	"mosn.io/mosn/pkg/log"
	"mosn.io/mosn/pkg/mtls"
	"mosn.io/mosn/pkg/network"
	xproto "mosn.io/mosn/pkg/protocol/xprotocol"
	"mosn.io/mosn/pkg/protocol/xprotocol/bolt"
	sxp "mosn.io/mosn/pkg/stream/xprotocol"
	"mosn.io/mosn/pkg/types"
	"mosn.io/mosn/pkg/verifrt/vfake"
	"mosn.io/mosn/pkg/verifrt/vreport"
	"mosn.io/pkg/buffer"
	"mosn.io/pkg/variable"
)

const (
	c09mPart    = "manager-pools-bfs"
	c09mCluster = "c09m"
	c09mMaxU    = 4
)

var c09mAddrs = []string{"10.9.1.1:80", "10.9.2.1:80", "10.9.3.1:80", "10.9.4.1:80"}

func c09mAddrIndex(a string) int {
	for i, x := range c09mAddrs {
		if x == a {
			return i
		}
	}
	return -1
}

// ---------------------------------------------------------------------------
// protocols

const c09mPPName api.ProtocolName = "vboltpp"

type c09mPPProto struct{ api.XProtocol }

func (p c09mPPProto) Name() api.ProtocolName { return c09mPPName }
func (p c09mPPProto) PoolMode() api.PoolMode { return api.PingPong }
func (p c09mPPProto) EnableWorkerPool() bool { return true }
func (p c09mPPProto) Trigger(ctx context.Context, requestId uint64) api.XFrame {
	return nil // heartbeats off: the pool creates no keep-alive
}

type c09mPPCodec struct{ inner bolt.XCodec }

func (c *c09mPPCodec) ProtocolName() api.ProtocolName { return c09mPPName }
func (c *c09mPPCodec) NewXProtocol(ctx context.Context) api.XProtocol {
	return c09mPPProto{c.inner.NewXProtocol(ctx)}
}
func (c *c09mPPCodec) ProtocolMatch() api.ProtocolMatch { return c.inner.ProtocolMatch() }
func (c *c09mPPCodec) HTTPMapping() api.HTTPMapping     { return c.inner.HTTPMapping() }

var (
	c09mOnce    sync.Once
	c09mCur     *c09mWorld
	c09mBolt    = &bolt.XCodec{}
	c09mPP      = &c09mPPCodec{}
	c09mRefHash [3]*types.HashValue
	c09mInitErr string
)

func c09mProtoName(p string) api.ProtocolName {
	switch p {
	case "pp":
		return c09mPPName
	case "mx":
		return bolt.ProtocolName
	case "zz":
		return "c09m-unregistered"
	}
	return ""
}

func c09mPoolName(p string) string {
	if p == "pp" {
		return "xproto-pingpong"
	}
	return "xproto-multiplex"
}

func c09mTLS(i int) *v2.TLSConfig {
	switch i {
	case 1:
		return &v2.TLSConfig{Status: true, InsecureSkip: true}
	case 2:
		return &v2.TLSConfig{Status: true, InsecureSkip: true, ALPN: "h2"}
	}
	return &v2.TLSConfig{}
}

func c09mInit() {
	c09mOnce.Do(func() {
		log.DefaultLogger.SetLogLevel(log.FATAL)
		log.Proxy.SetLogLevel(log.FATAL)
		log.StartLogger.SetLogLevel(log.FATAL)
		xproto.RegisterXProtocolAction(c09mNewPool, sxp.NewStreamFactory, nil)
		for _, c := range []api.XProtocolCodec{c09mBolt, c09mPP} {
			if err := xproto.RegisterXProtocolCodec(c); err != nil {
				c09mInitErr = fmt.Sprintf("register codec %s: %v", c.ProtocolName(), err)
				return
			}
		}
		network.RegisterClientConnFactory(c09mNewConn)
		// virtual time: the waits between the polls of the retry loop are 0 (the recorder waits for the
		// pool's connect goroutine instead)
		tryConnTimes = [maxTryConnTimes]time.Duration{}
		for i := 1; i <= 2; i++ {
			mng, err := mtls.NewTLSClientContextManager(fmt.Sprintf("c09m-ref%d", i), c09mTLS(i))
			if err != nil || mng == nil || !mng.Enabled() || mng.HashValue() == nil {
				c09mInitErr = fmt.Sprintf("reference TLS context T%d cannot be built: %v", i, err)
				return
			}
			c09mRefHash[i] = mng.HashValue()
		}
		if c09mRefHash[1].Equal(c09mRefHash[2]) || c09mRefHash[1].Equal(disableTLSHashValue) || c09mRefHash[2].Equal(disableTLSHashValue) ||
			c09mRefHash[1].Equal(clientSideDisableHashValue) || c09mRefHash[2].Equal(clientSideDisableHashValue) {
			c09mInitErr = "the TLS contexts T1 / T2 do not have distinct hash values"
		}
	})
}

func c09mHashClass(h *types.HashValue) string {
	switch {
	case h == nil:
		return "nil"
	case h.Equal(disableTLSHashValue):
		return "disable"
	case h.Equal(clientSideDisableHashValue):
		return "clientside"
	case h.Equal(c09mRefHash[1]):
		return "T1"
	case h.Equal(c09mRefHash[2]):
		return "T2"
	}
	return "other"
}

// ---------------------------------------------------------------------------
// recorder around the real pool

type c09mPool struct {
	inner     types.ConnectionPool
	w         *c09mWorld
	id        int
	proto     string // pp | mx
	addr      string
	host      types.Host // the host object the pool was created for
	tlsClass  string
	bornAt    int
	shutdowns int
	closes    int
	lastCheck int // -1 never asked, 0 false, 1 true
	everIn    bool
}

func c09mNewPool(ctx context.Context, codec api.XProtocolCodec, host types.Host) types.ConnectionPool {
	w := c09mCur
	p := &c09mPool{inner: sxp.NewConnPool(ctx, codec, host), w: w, id: len(w.pools), host: host, addr: host.AddressString(), bornAt: w.now, lastCheck: -1}
	if codec.ProtocolName() == c09mPPName {
		p.proto = "pp"
	} else {
		p.proto = "mx"
	}
	p.tlsClass = c09mHashClass(p.inner.TLSHashValue())
	w.pools = append(w.pools, p)
	return p
}

func (p *c09mPool) Protocol() api.ProtocolName { return p.inner.Protocol() }
func (p *c09mPool) NewStream(ctx context.Context, r types.StreamReceiveListener) (types.Host, types.StreamSender, types.PoolFailureReason) {
	p.w.curPool = p
	defer func() { p.w.curPool = nil }()
	return p.inner.NewStream(ctx, r)
}
func (p *c09mPool) CheckAndInit(ctx context.Context) bool {
	p.w.curPool = p
	defer func() { p.w.curPool = nil }()
	r := p.inner.CheckAndInit(ctx)
	p.lastCheck = 0
	if r {
		p.lastCheck = 1
	} else if p.proto == "mx" {
		p.w.quiesce("CheckAndInit") // poolMultiplex.init connects on a goroutine of its own
	}
	return r
}
func (p *c09mPool) TLSHashValue() *types.HashValue { return p.inner.TLSHashValue() }
func (p *c09mPool) Shutdown() {
	p.shutdowns++
	p.inner.Shutdown()
	if p.proto == "mx" {
		p.w.quiesce("Shutdown") // poolMultiplex.Shutdown works on a goroutine of its own
	}
}
func (p *c09mPool) Close() {
	p.closes++
	p.inner.Close()
}
func (p *c09mPool) Host() types.Host { return p.inner.Host() }

// UpdateHost is forwarded if the real pool has it (the xprotocol pools of the unchanged tree do not).
func (p *c09mPool) UpdateHost(h types.Host) {
	if u, ok := p.inner.(interface{ UpdateHost(types.Host) }); ok {
		u.UpdateHost(h)
	}
}

// c09mPendingGoroutines: goroutines spawned through utils.GoWithRecover that have not started yet (their
// only frame is GoWithRecover's closure) or that run pool code.
func c09mPendingGoroutines() (int, string) {
	buf := make([]byte, 1<<16)
	for {
		n := runtime.Stack(buf, true)
		if n < len(buf) {
			buf = buf[:n]
			break
		}
		buf = make([]byte, 2*len(buf))
	}
	n, first := 0, ""
	for _, g := range strings.Split(string(buf), "\n\n") {
		lines := strings.SplitN(g, "\n", 3)
		if len(lines) < 2 {
			continue
		}
		pending := strings.Contains(g, "stream/xprotocol.(*poolMultiplex)") || strings.HasPrefix(lines[1], "mosn.io/pkg/utils.GoWithRecover.func1(")
		if pending && !strings.Contains(g, "c09mPendingGoroutines") {
			n++
			if first == "" {
				first = g
			}
		}
	}
	return n, first
}

// quiesce waits until no goroutine of the pools is left. Exact (goroutine dump); the deadline only
// turns a hang into a harness error.
func (w *c09mWorld) quiesce(what string) {
	start := time.Now()
	for i := 0; ; i++ {
		for k := 0; k < 20; k++ {
			runtime.Gosched()
		}
		n, g := c09mPendingGoroutines()
		w.scans++
		if n == 0 {
			return
		}
		if time.Since(start) > 20*time.Second {
			w.harness("after %s: a pool goroutine is still alive after 20s:\n%s", what, g)
			return
		}
		if i > 50 {
			time.Sleep(50 * time.Microsecond)
		}
	}
}

// ---------------------------------------------------------------------------
// connections

type c09mConn struct {
	fc     *vfake.Conn
	idx    int
	addr   string
	tls    string // plain | T1 | T2 | other
	pool   *c09mPool
	bornAt int
}

func (c *c09mConn) open() bool { return c.fc.Connected() && !c.fc.IsClosed() }

func c09mNewConn(connectTimeout time.Duration, tlsMng types.TLSClientContextManager, remoteAddr net.Addr, stopChan chan struct{}) types.ClientConnection {
	w := c09mCur
	fc := vfake.NewClientSide("up", remoteAddr)
	c := &c09mConn{fc: fc, idx: len(w.conns), addr: remoteAddr.String(), tls: "plain", pool: w.curPool, bornAt: w.now}
	if tlsMng != nil && tlsMng.Enabled() {
		c.tls = c09mHashClass(tlsMng.HashValue())
	}
	if i := c09mAddrIndex(c.addr); i >= 0 && i < len(w.fail) && w.fail[i] {
		fc.Outcome = vfake.ConnectFail
	}
	w.conns = append(w.conns, c)
	return fc
}

// ---------------------------------------------------------------------------
// streams

type c09mStream struct {
	ord      int
	conn     *c09mConn
	pool     *c09mPool
	sender   types.StreamSender
	req      []byte
	ended    bool
	cause    string
	received int32
	destroys int32
	resets   []string
}

func (s *c09mStream) OnReceive(ctx context.Context, headers api.HeaderMap, data buffer.IoBuffer, trailers api.HeaderMap) {
	atomic.AddInt32(&s.received, 1)
}
func (s *c09mStream) OnDecodeError(ctx context.Context, err error, headers api.HeaderMap) {}
func (s *c09mStream) OnResetStream(reason types.StreamResetReason) {
	s.resets = append(s.resets, string(reason))
}
func (s *c09mStream) OnDestroyStream() { atomic.AddInt32(&s.destroys, 1) }

type c09mLbCtx struct{ ctx context.Context }

func (c *c09mLbCtx) MetadataMatchCriteria() api.MetadataMatchCriteria { return nil }
func (c *c09mLbCtx) DownstreamConnection() net.Conn                   { return nil }
func (c *c09mLbCtx) DownstreamHeaders() api.HeaderMap                 { return nil }
func (c *c09mLbCtx) DownstreamContext() context.Context               { return c.ctx }
func (c *c09mLbCtx) DownstreamCluster() types.ClusterInfo             { return nil }
func (c *c09mLbCtx) DownstreamRoute() api.Route                       { return nil }

func c09mEncode(frame interface{}) ([]byte, error) {
	b, err := c09mBolt.NewXProtocol(context.Background()).Encode(context.Background(), frame)
	if err != nil {
		return nil, err
	}
	return append([]byte(nil), b.Bytes()...), nil
}

func c09mReply(reqBytes []byte) ([]byte, error) {
	f, err := c09mBolt.NewXProtocol(context.Background()).Decode(context.Background(), buffer.NewIoBufferBytes(append([]byte(nil), reqBytes...)))
	if err != nil {
		return nil, err
	}
	req, ok := f.(*bolt.Request)
	if !ok {
		return nil, fmt.Errorf("request bytes decode to %T", f)
	}
	return c09mEncode(bolt.NewRpcResponse(req.RequestId, bolt.ResponseStatusSuccess, nil, buffer.NewIoBufferString("ok")))
}

// ---------------------------------------------------------------------------
// case / operations

type c09mSpec struct {
	A          int    `json:"a"`
	TLSDisable bool   `json:"tls_disable,omitempty"`
	Meta       string `json:"meta,omitempty"`
}

func (s c09mSpec) String() string {
	out := fmt.Sprintf("a%d", s.A)
	if s.TLSDisable {
		out += "/tls_disable"
	}
	if s.Meta != "" {
		out += "/meta=" + s.Meta
	}
	return out
}

// c09mLists: the host lists of UpdateClusterHosts (list 0 is the initial membership).
var c09mLists = [][]c09mSpec{
	{{A: 0}, {A: 1}},
	{{A: 1}},
	{{A: 0, TLSDisable: true}, {A: 1}},
	{{A: 0, Meta: "v2"}, {A: 1}},
	{{A: 0}, {A: 1}, {A: 2}},
	{},
	{{A: 0}, {A: 1}, {A: 2}, {A: 3}}, // more hosts than the retry loop tries (maxHostsCounts = 3)
}

func c09mHostConfigs(l []c09mSpec) []v2.Host {
	hs := make([]v2.Host, 0, len(l))
	for _, s := range l {
		h := v2.Host{HostConfig: v2.HostConfig{Address: c09mAddrs[s.A], Hostname: fmt.Sprintf("a%d", s.A), Weight: 1, TLSDisable: s.TLSDisable}}
		if s.Meta != "" {
			h.MetaData = api.Metadata{"version": s.Meta}
		}
		hs = append(hs, h)
	}
	return hs
}

type c09mOp struct {
	K string `json:"k"`           // cp reply lreset flip upd rem scp tls cf rclose cstls rpc
	P string `json:"p,omitempty"` // cp: pp | mx; scp: pp | mx | "" (every protocol)
	I int    `json:"i"`           // cp: cursor; reply/lreset: stream; flip/rem/scp/cf: address; upd: list; tls: generation; rclose: connection
}

func (o c09mOp) String() string {
	switch o.K {
	case "cp":
		return fmt.Sprintf("cp:%s:%d", o.P, o.I)
	case "scp":
		p := o.P
		if p == "" {
			p = "*"
		}
		return fmt.Sprintf("scp:%s:a%d", p, o.I)
	case "flip", "rem", "cf":
		return fmt.Sprintf("%s:a%d", o.K, o.I)
	case "cstls", "rpc":
		return o.K
	}
	return fmt.Sprintf("%s:%d", o.K, o.I)
}

type c09mCase struct {
	ClusterPool bool     `json:"cluster_pool"`           // cluster_pool_enable of the cluster
	MgrPool     bool     `json:"manager_pool,omitempty"` // cluster_pool_enable of the cluster manager config
	TLS0        int      `json:"tls0"`                   // TLS generation the manager starts with
	U           int      `json:"u"`
	Full        bool     `json:"full"` // thorough alphabet
	Depth       int      `json:"depth"`
	History     []c09mOp `json:"history"` // nil: run the BFS; set: replay, judging the last event
}

func (c c09mCase) tag() string {
	cp := fmt.Sprint(c.ClusterPool)
	if c.MgrPool {
		cp += "+manager"
	}
	return fmt.Sprintf("clusterpool=%s|tls0=T%d|u%d|full=%v", cp, c.TLS0, c.U, c.Full)
}

// ---------------------------------------------------------------------------
// world

type c09mFinding struct{ key, detail string }

type c09mWorld struct {
	c   c09mCase
	cm  types.ClusterManager
	now int
	// model
	exists    bool
	members   []c09mSpec
	healthy   []bool
	fail      []bool
	tlsGen    int
	clientTLS bool
	// observed objects
	pools   []*c09mPool
	conns   []*c09mConn
	streams []*c09mStream
	curPool *c09mPool
	cause   map[*c09mPool]string
	// counters
	info      types.ClusterInfo
	hostStats []*types.HostStats
	cstats    *types.ClusterStats
	base      []int64
	herr      string
	lease     []c09mFinding
	scans     int
	notes     []string       // outcomes that are enumerated but not compared
	changed   map[string]int // address -> event at which its host object was last replaced
}

func (w *c09mWorld) harness(f string, a ...interface{}) {
	if w.herr == "" {
		w.herr = fmt.Sprintf(f, a...)
	}
}

func (w *c09mWorld) counters() []int64 {
	out := []int64{}
	for _, hs := range w.hostStats {
		out = append(out, hs.UpstreamConnectionActive.Count(), hs.UpstreamRequestActive.Count())
	}
	out = append(out, w.cstats.UpstreamConnectionActive.Count(), w.cstats.UpstreamRequestActive.Count())
	return out
}

func c09mNewWorld(c c09mCase) *c09mWorld {
	c09mInit()
	w := &c09mWorld{c: c, exists: true, tlsGen: c.TLS0, clientTLS: true, healthy: make([]bool, c.U), fail: make([]bool, c.U), cause: map[*c09mPool]string{}, changed: map[string]int{}}
	if c09mInitErr != "" {
		w.herr = c09mInitErr
		return w
	}
	for i := range w.healthy {
		w.healthy[i] = true
	}
	for _, a := range c09mAddrs {
		atomic.StoreUint64(GetHealthFlagPointer(a), 0)
	}
	EnableClientSideTLS()
	clusterManagerInstance.Destroy()
	configmanager.Reset()
	c09mCur = w
	w.members = append([]c09mSpec(nil), c09mLists[0]...)
	cc := v2.Cluster{Name: c09mCluster, ClusterType: v2.SIMPLE_CLUSTER, LbType: v2.LB_ROUNDROBIN, ClusterManagerTLS: true, ClusterPoolEnable: c.ClusterPool}
	// max_requests 64: the Requests resource counts (a resource with max 0 does not) and never trips
	cc.CirBreThresholds = v2.CircuitBreakers{Thresholds: []v2.Thresholds{{MaxConnections: 0, MaxRequests: 64}}}
	cfg := &v2.ClusterManagerConfig{}
	cfg.TLSContext = *c09mTLS(c.TLS0)
	cfg.ClusterPoolEnable = c.MgrPool
	w.cm = NewClusterManagerSingleton([]v2.Cluster{cc}, map[string][]v2.Host{c09mCluster: c09mHostConfigs(w.members)}, cfg)
	snap := w.cm.GetClusterSnapshot(context.Background(), c09mCluster)
	if snap == nil || snap.ClusterInfo() == nil {
		w.harness("fresh manager has no cluster %s", c09mCluster)
		return w
	}
	w.info = snap.ClusterInfo()
	for i := 0; i < c.U; i++ {
		w.hostStats = append(w.hostStats, newHostStats(c09mCluster, c09mAddrs[i]))
	}
	w.cstats = newClusterStats(c09mCluster)
	w.base = w.counters()
	w.base = append(w.base, w.info.ResourceManager().Requests().Cur())
	return w
}

func (w *c09mWorld) member(addr string) (c09mSpec, bool) {
	for _, m := range w.members {
		if c09mAddrs[m.A] == addr {
			return m, true
		}
	}
	return c09mSpec{}, false
}

// poolClass / connClass: the TLS class a pool / a connection for a member with this config must have NOW.
func (w *c09mWorld) poolClass(m c09mSpec) string {
	switch {
	case m.TLSDisable || w.tlsGen == 0:
		return "disable"
	case !w.clientTLS:
		return "clientside"
	}
	return fmt.Sprintf("T%d", w.tlsGen)
}

func (w *c09mWorld) connClass(m c09mSpec) string {
	if m.TLSDisable || w.tlsGen == 0 || !w.clientTLS {
		return "plain"
	}
	return fmt.Sprintf("T%d", w.tlsGen)
}

// location of a pool in the manager's maps
type c09mLoc struct {
	family  string // global | cluster
	cluster string
	proto   string
	addr    string
}

// scanMaps lists every pool the manager's maps hold.
func (w *c09mWorld) scanMaps() map[*c09mPool][]c09mLoc {
	out := map[*c09mPool][]c09mLoc{}
	cm := clusterManagerInstance.clusterManager
	if cm == nil || cm.protocolConnPool == nil {
		return out
	}
	addrMap := func(loc c09mLoc, m *sync.Map) {
		m.Range(func(k, v interface{}) bool {
			l := loc
			l.addr, _ = k.(string)
			if p, ok := v.(*c09mPool); ok {
				out[p] = append(out[p], l)
			} else {
				w.harness("the manager's pool map holds a %T", v)
			}
			return true
		})
	}
	cm.protocolConnPool.globalPool.Range(func(k, v interface{}) bool {
		addrMap(c09mLoc{family: "global", proto: string(k.(api.ProtocolName))}, v.(*sync.Map))
		return true
	})
	cm.protocolConnPool.clusterPool.Range(func(k, v interface{}) bool {
		v.(*sync.Map).Range(func(cn, m interface{}) bool {
			addrMap(c09mLoc{family: "cluster", cluster: cn.(string), proto: string(k.(api.ProtocolName))}, m.(*sync.Map))
			return true
		})
		return true
	})
	return out
}

func (w *c09mWorld) wantLoc(p *c09mPool) c09mLoc {
	l := c09mLoc{family: "global", proto: string(c09mProtoName(p.proto)), addr: p.addr}
	if w.c.ClusterPool || w.c.MgrPool {
		l.family, l.cluster = "cluster", c09mCluster
	}
	return l
}

func (w *c09mWorld) reachable(locs map[*c09mPool][]c09mLoc, p *c09mPool) bool {
	want := w.wantLoc(p)
	for _, l := range locs[p] {
		if l == want {
			return true
		}
	}
	return false
}

func (w *c09mWorld) inflightOn(c *c09mConn) int {
	n := 0
	for _, s := range w.streams {
		if !s.ended && s.conn == c {
			n++
		}
	}
	return n
}

func (w *c09mWorld) inflight() []*c09mStream {
	var out []*c09mStream
	for _, s := range w.streams {
		if !s.ended {
			out = append(out, s)
		}
	}
	return out
}

// sweep ends the model's streams on connections that are closed.
func (w *c09mWorld) sweep(cause string) {
	for _, s := range w.streams {
		if !s.ended && !s.conn.open() {
			s.ended, s.cause = true, cause
		}
	}
}

func c09mDropCause(kind string) string {
	switch kind {
	case "scp":
		return "ShutdownConnectionPool"
	case "cp":
		return "replaced at ConnPoolForCluster"
	case "upd", "rem", "rpc":
		return "host removed"
	}
	return "at " + kind
}

// ---------------------------------------------------------------------------
// events

func (w *c09mWorld) apply(op c09mOp) (outcome string) {
	w.now++
	w.lease = nil
	w.notes = nil
	before := w.scanMaps()
	defer func() {
		if r := recover(); r != nil {
			buf := make([]byte, 4096)
			buf = buf[:runtime.Stack(buf, false)]
			w.lease = append(w.lease, c09mFinding{"mgr M0 the operation panics", fmt.Sprintf("%v: panic: %v\n%s", op, r, buf)})
			outcome = "panic"
		}
		w.sweep("connection closed")
		after := w.scanMaps()
		for _, p := range w.pools {
			if w.reachable(after, p) {
				p.everIn = true
				delete(w.cause, p)
			} else if _, known := w.cause[p]; !known {
				if w.reachable(before, p) {
					w.cause[p] = c09mDropCause(op.K)
				} else {
					w.cause[p] = "never stored"
				}
			}
		}
		// an in-flight request of the model must not have been destroyed by this event (M1, graceful)
		for _, s := range w.inflight() {
			if atomic.LoadInt32(&s.destroys) > 0 {
				w.lease = append(w.lease, c09mFinding{"mgr M1 a request in flight was interrupted",
					fmt.Sprintf("stream %d on connection %d (%s pool of %s) was destroyed (resets %v) although it was neither answered nor reset and its connection is open", s.ord, s.conn.idx, c09mPoolName(s.pool.proto), s.conn.addr, s.resets)})
				s.ended, s.cause = true, "interrupted"
			}
		}
	}()
	addrOK := func() bool {
		if op.I < 0 || op.I >= w.c.U {
			w.harness("bad address index in %v", op)
			return false
		}
		return true
	}
	switch op.K {
	case "cp":
		return w.connPool(op)
	case "reply", "lreset":
		if op.I < 0 || op.I >= len(w.streams) || w.streams[op.I].ended {
			w.harness("%v: no such in-flight stream", op)
			return "bad"
		}
		s := w.streams[op.I]
		if op.K == "lreset" {
			s.ended, s.cause = true, "local-reset"
			s.sender.GetStream().ResetStream(types.StreamLocalReset)
			if atomic.LoadInt32(&s.destroys) < 1 {
				w.harness("%v: the stream was not destroyed by its local reset", op)
			}
			return "reset"
		}
		b, err := c09mReply(s.req)
		if err != nil {
			w.harness("%v: cannot build the reply for request bytes %x: %v", op, s.req, err)
			return "bad"
		}
		s.ended, s.cause = true, "reply"
		s.conn.fc.InjectRead(b)
		if atomic.LoadInt32(&s.received) < 1 || atomic.LoadInt32(&s.destroys) < 1 {
			w.harness("%v: the response was not delivered (received %d, destroyed %d)", op, s.received, s.destroys)
		}
		return "delivered"
	case "flip":
		if !addrOK() {
			return "bad"
		}
		ptr := GetHealthFlagPointer(c09mAddrs[op.I])
		if w.healthy[op.I] {
			SetHealthFlag(ptr, api.FAILED_ACTIVE_HC)
		} else {
			ClearHealthFlag(ptr, api.FAILED_ACTIVE_HC)
		}
		w.healthy[op.I] = !w.healthy[op.I]
		return fmt.Sprintf("healthy=%v", w.healthy[op.I])
	case "upd":
		if op.I < 0 || op.I >= len(c09mLists) {
			w.harness("bad list index in %v", op)
			return "bad"
		}
		l := c09mLists[op.I]
		for _, s := range l {
			if s.A >= w.c.U {
				w.harness("list %d names an address outside the universe", op.I)
				return "bad"
			}
		}
		err := w.cm.UpdateClusterHosts(c09mCluster, c09mHostConfigs(l))
		if err == nil && w.exists {
			w.members = append([]c09mSpec(nil), l...)
			for _, s := range l {
				w.changed[c09mAddrs[s.A]] = w.now // UpdateClusterHosts builds new host objects
			}
			return "updated"
		}
		return fmt.Sprintf("err=%v", err != nil)
	case "rem":
		if !addrOK() {
			return "bad"
		}
		err := w.cm.RemoveClusterHosts(c09mCluster, []string{c09mAddrs[op.I]})
		if err == nil && w.exists {
			var m []c09mSpec
			for _, x := range w.members {
				if x.A != op.I {
					m = append(m, x)
				}
			}
			removed := len(m) != len(w.members)
			w.members = m
			return fmt.Sprintf("removed=%v", removed)
		}
		return fmt.Sprintf("err=%v", err != nil)
	case "scp":
		if !addrOK() {
			return "bad"
		}
		addr := c09mAddrs[op.I]
		n := 0
		for p, locs := range before {
			if p.addr == addr && (op.P == "" || op.P == p.proto) && len(locs) > 0 {
				n++ // (P = zz, an unregistered protocol, matches no pool: the call must change nothing)
			}
		}
		w.cm.ShutdownConnectionPool(c09mProtoName(op.P), addr)
		for p := range w.scanMaps() {
			if p.addr == addr && (op.P == "" || op.P == p.proto) {
				w.lease = append(w.lease, c09mFinding{"mgr M4 ShutdownConnectionPool leaves the pool in the manager's map",
					fmt.Sprintf("%v: the %s pool of %s is still in the manager's map", op, c09mPoolName(p.proto), addr)})
			}
		}
		return fmt.Sprintf("pools=%d", n)
	case "tls":
		if op.I < 0 || op.I > 2 {
			w.harness("bad TLS generation in %v", op)
			return "bad"
		}
		w.cm.UpdateTLSManager(c09mTLS(op.I))
		changed := w.tlsGen != op.I
		w.tlsGen = op.I
		return fmt.Sprintf("changed=%v", changed)
	case "cf":
		if !addrOK() {
			return "bad"
		}
		w.fail[op.I] = !w.fail[op.I]
		return fmt.Sprintf("fail=%v", w.fail[op.I])
	case "rclose":
		if op.I < 0 || op.I >= len(w.conns) || !w.conns[op.I].open() {
			w.harness("%v: no such open connection", op)
			return "bad"
		}
		c := w.conns[op.I]
		for _, s := range w.streams {
			if !s.ended && s.conn == c {
				s.ended, s.cause = true, "remote-close"
			}
		}
		c.fc.RemoteClose()
		return "closed"
	case "cstls":
		if w.clientTLS {
			DisableClientSideTLS()
		} else {
			EnableClientSideTLS()
		}
		w.clientTLS = !w.clientTLS
		return fmt.Sprintf("client_tls=%v", w.clientTLS)
	case "rpc":
		err := w.cm.RemovePrimaryCluster(c09mCluster)
		if err == nil && w.exists {
			w.exists, w.members = false, nil
			return "removed"
		}
		return fmt.Sprintf("err=%v", err != nil)
	}
	w.harness("unknown event %v", op)
	return "bad"
}

// connPool is the event cp: what the proxy does for one upstream request.
func (w *c09mWorld) connPool(op c09mOp) string {
	if op.P == "zz" {
		// a protocol nobody registered: no pool, and (state oracle) nothing changes
		ctx := buffer.NewBufferPoolContext(variable.NewVariableContext(context.Background()))
		pool, host := w.cm.ConnPoolForCluster(&c09mLbCtx{ctx: ctx}, w.cm.GetClusterSnapshot(context.Background(), c09mCluster), c09mProtoName(op.P))
		if pool != nil || host != nil {
			w.lease = append(w.lease, c09mFinding{"mgr M3 a pool / host is returned for a protocol that is not registered", fmt.Sprintf("%v: pool %v host %v", op, pool, host)})
		}
		return "no-pool:unregistered-protocol"
	}
	if op.P != "pp" && op.P != "mx" {
		w.harness("bad protocol in %v", op)
		return "bad"
	}
	add := func(key, detail string) {
		w.lease = append(w.lease, c09mFinding{"mgr " + key + " pool=" + c09mPoolName(op.P), fmt.Sprintf("%v: %s", op, detail)})
	}
	proto := c09mProtoName(op.P)
	ctx := buffer.NewBufferPoolContext(variable.NewVariableContext(context.Background()))
	lbctx := &c09mLbCtx{ctx: ctx}
	snap := w.cm.GetClusterSnapshot(context.Background(), c09mCluster)
	var pool types.ConnectionPool
	var host types.Host
	if snap == nil {
		if w.exists {
			w.harness("%v: the cluster has no snapshot", op)
			return "bad"
		}
		pool, host = w.cm.ConnPoolForCluster(lbctx, nil, proto)
	} else {
		rr, ok := snap.LoadBalancer().(*roundRobinLoadBalancer)
		if !ok {
			w.harness("%v: the cluster's load balancer is a %T", op, snap.LoadBalancer())
			return "bad"
		}
		if n := snap.HostSet().Size(); n > 0 {
			atomic.StoreUint32(&rr.rrIndex, uint32(op.I%n+n-1))
		}
		pool, host = w.cm.ConnPoolForCluster(lbctx, snap, proto)
	}
	var healthyMembers, connectable []string
	for _, m := range w.members {
		if w.healthy[m.A] {
			healthyMembers = append(healthyMembers, m.String())
			if !w.fail[m.A] {
				connectable = append(connectable, m.String())
			}
		}
	}
	state := fmt.Sprintf("members %v, healthy %v, accepting connections %v, TLS generation T%d, client-side TLS %v", w.members, healthyMembers, connectable, w.tlsGen, w.clientTLS)
	if pool == nil {
		switch {
		case op.P == "pp" && len(healthyMembers) > 0:
			add("M3 no pool although a healthy member exists", state)
		case op.P == "mx" && len(connectable) > 0 && len(healthyMembers) <= maxHostsCounts:
			add("M3 no pool although a healthy member that accepts connections exists", state)
		case op.P == "mx" && len(connectable) > 0:
			// the loop tries maxHostsCounts hosts only: with more healthy members it may miss the one that accepts
			w.notes = append(w.notes, "no pool although one of more than 3 healthy members accepts connections (not compared)")
		}
		if host != nil {
			add("M3 a host is returned without a pool", state)
		}
		if len(healthyMembers) == 0 {
			return "no-pool:no-healthy-member"
		}
		return "no-pool:members-refuse-connections"
	}
	pw, ok := pool.(*c09mPool)
	if !ok {
		w.harness("%v: the returned pool is a %T", op, pool)
		return "bad"
	}
	if host == nil {
		add("M3 a pool is returned without a host", state)
		return "pool-without-host"
	}
	addr := host.AddressString()
	m, isMember := w.member(addr)
	if !isMember {
		add("M3 returned host is not a member of the cluster", fmt.Sprintf("returned %s; %s", addr, state))
	} else if !w.healthy[m.A] {
		add("M3 returned host is unhealthy", fmt.Sprintf("returned %s; %s", addr, state))
	}
	if pw.proto != op.P || pw.addr != addr || pw.inner.Host() == nil || pw.inner.Host().AddressString() != addr {
		add("M3 returned pool is not the pool of the returned host's address and the requested protocol",
			fmt.Sprintf("returned host %s, pool #%d of %s / %s; %s", addr, pw.id, pw.proto, pw.addr, state))
	}
	locs := w.scanMaps()
	if !w.reachable(locs, pw) {
		add("M2 ConnPoolForCluster hands out a pool that is not in the manager's map",
			fmt.Sprintf("pool #%d of %s (created at event %d, dropped: %s); %s", pw.id, pw.addr, pw.bornAt, w.cause[pw], state))
	}
	if pw.shutdowns > 0 || pw.closes > 0 {
		add("M2 ConnPoolForCluster hands out a pool that was shut down",
			fmt.Sprintf("pool #%d of %s (created at event %d) had Shutdown called %d times, Close %d times; %s", pw.id, pw.addr, pw.bornAt, pw.shutdowns, pw.closes, state))
	}
	if isMember {
		if got, want := c09mHashClass(pw.inner.TLSHashValue()), w.poolClass(m); got != want {
			// TLS policy is not a clause of C09: counted, not compared
			w.notes = append(w.notes, "observed: ConnPoolForCluster hands out a pool of another TLS state than its host's (not compared) pool="+c09mPoolName(op.P))
		}
	}
	if pw.lastCheck != 1 {
		add("M3 ConnPoolForCluster returns a pool whose CheckAndInit did not succeed",
			fmt.Sprintf("pool #%d of %s: last CheckAndInit result %d (1 = true, 0 = false, -1 = never asked); %s", pw.id, pw.addr, pw.lastCheck, state))
	}
	if pw.inner.Host() != host {
		w.notes = append(w.notes, "pool.Host() is an earlier host object of the address (not compared)")
	}
	// the proxy: NewStream, listen, send the request
	writes := make([]int, len(w.conns))
	inflight := make([]int, len(w.conns))
	for i, c := range w.conns {
		writes[i] = len(c.fc.Writes)
		inflight[i] = w.inflightOn(c)
	}
	s := &c09mStream{ord: len(w.streams), pool: pw}
	_, sender, reason := pool.NewStream(ctx, s)
	if reason != "" || sender == nil {
		if reason == "" {
			reason = "nil-sender"
		}
		failing := isMember && w.fail[m.A]
		if !failing {
			add("M3 NewStream on the returned pool fails although its host accepts connections", fmt.Sprintf("reason %s, host %s; %s", reason, addr, state))
		}
		return "pool:newstream-" + string(reason)
	}
	s.sender = sender
	sender.GetStream().AddEventListener(s)
	req := bolt.NewRpcRequest(0, nil, nil)
	req.Set("service", "svc")
	req.Timeout = 0
	aerr := sender.AppendHeaders(ctx, req, true)
	var on *c09mConn
	for i, c := range w.conns {
		b := 0
		if i < len(writes) {
			b = writes[i]
		}
		if len(c.fc.Writes) > b {
			if on != nil {
				w.harness("%v: request bytes appeared on two connections", op)
				return "bad"
			}
			on = c
			for _, x := range c.fc.Writes[b:] {
				s.req = append(s.req, x...)
			}
		}
	}
	if on == nil {
		w.harness("%v: NewStream succeeded but no request bytes appeared (AppendHeaders err=%v)", op, aerr)
		return "bad"
	}
	s.conn = on
	w.streams = append(w.streams, s)
	fresh := on.bornAt == w.now
	if on.addr != addr || on.pool != pw {
		creator := "no pool"
		if on.pool != nil {
			creator = fmt.Sprintf("pool #%d of %s", on.pool.id, on.pool.addr)
		}
		add("M2 request placed on a connection of another pool or address", fmt.Sprintf("returned host %s, pool #%d; the request went out on connection %d to %s created by %s; %s", addr, pw.id, on.idx, on.addr, creator, state))
	}
	if isMember {
		if want := w.connClass(m); on.tls != want {
			// TLS policy is not a clause of C09: counted, not compared (findings/C09-mgrpools.md, MP3)
			key := "observed: request placed on a connection created for another TLS state than its host's"
			if ph := pw.inner.Host(); ph != nil && ph != host && ph.Config().TLSDisable != m.TLSDisable && c09mHashClass(pw.inner.TLSHashValue()) == w.poolClass(m) {
				// observed facts only: the pool's TLS hash is the one of the host's TLS state (so the manager
				// rightly keeps the pool), but the pool still creates connections for an EARLIER host object
				// of the address whose tls_disable differs from the member's
				key += " (the pool creates connections for an earlier host object of the address whose tls_disable differs)"
			}
			w.notes = append(w.notes, key+" (not compared) pool="+c09mPoolName(op.P))
		}
	}
	if op.P == "pp" && on.idx < len(inflight) && inflight[on.idx] > 0 {
		add("M1 connection leased while it carries another request", fmt.Sprintf("connection %d already carries %d in-flight request(s)", on.idx, inflight[on.idx]))
	}
	if !fresh && pw.bornAt < w.lastMembershipChange(addr) {
		w.notes = append(w.notes, "request on a connection created before the host was re-added with the same TLS state (not compared)")
	}
	if fresh {
		return "pool:stream-on-new-connection"
	}
	return "pool:stream-on-reused-connection"
}

func (w *c09mWorld) lastMembershipChange(addr string) int { return w.changed[addr] }

// ---------------------------------------------------------------------------
// oracle on a quiescent state

type c09mSV struct{ key, detail string }

// check returns the standing violations keyed "<key>#<object>", so that the caller can tell which
// ones are new after an event.
func (w *c09mWorld) check() map[string]c09mSV {
	out := map[string]c09mSV{}
	add := func(obj, key, detail string) { out[key+"#"+obj] = c09mSV{key, detail} }
	locs := w.scanMaps()
	// M4 map hygiene
	for p, ls := range locs {
		want := w.wantLoc(p)
		for _, l := range ls {
			if l != want {
				add(fmt.Sprintf("pool%d", p.id), "mgr M4 pool stored outside the map selected by cluster_pool_enable / its protocol / its address pool="+c09mPoolName(p.proto),
					fmt.Sprintf("pool #%d (%s, %s) sits at %+v, expected %+v", p.id, p.proto, p.addr, l, want))
			}
		}
	}
	for _, p := range w.pools {
		if !w.reachable(locs, p) && p.everIn && p.shutdowns == 0 && p.closes == 0 {
			add(fmt.Sprintf("pool%d", p.id), "mgr M4 a pool the manager dropped was not told to shut down ("+w.cause[p]+") pool="+c09mPoolName(p.proto),
				fmt.Sprintf("pool #%d of %s (created at event %d) is no longer in the manager's map; Shutdown / Close were never called on it", p.id, p.addr, p.bornAt))
		}
	}
	// M1 partition
	openAt := make([]int, w.c.U)
	reqAt := make([]int, w.c.U)
	openAll := 0
	for _, c := range w.conns {
		if !c.open() {
			continue
		}
		openAll++
		if i := c09mAddrIndex(c.addr); i >= 0 && i < w.c.U {
			openAt[i]++
			reqAt[i] += w.inflightOn(c)
		}
		if w.inflightOn(c) > 0 {
			continue // leased
		}
		obj := fmt.Sprintf("conn%d", c.idx)
		if c.pool == nil {
			add(obj, "mgr M1 open connection that no pool created", fmt.Sprintf("connection %d to %s", c.idx, c.addr))
			continue
		}
		pn := c09mPoolName(c.pool.proto)
		what := fmt.Sprintf("connection %d to %s (TLS class %s, created at event %d by pool #%d) is open and carries no request", c.idx, c.addr, c.tls, c.bornAt, c.pool.id)
		if !w.reachable(locs, c.pool) {
			add(obj, "mgr M1 open idle connection in a pool the manager dropped ("+w.cause[c.pool]+") pool="+pn,
				what+fmt.Sprintf("; its pool is no longer in the manager's map (%s; Shutdown called %d times): nobody can lease or close it", w.cause[c.pool], c.pool.shutdowns))
		} else if _, ok := w.member(c.addr); !ok {
			// the pool is still in the manager's map (leasable again when the address comes back): literally
			// "idle in the pool" - counted, not a violation (findings/C09-mgrpools.md, MP2)
			add(obj, "observed: open idle connection in the pool of a host that is no longer a member (not compared) pool="+pn,
				what+fmt.Sprintf("; %s is not a member of the cluster (members %v): no lookup can reach the pool, nothing closes the connection", c.addr, w.members))
		}
	}
	// M5 counters
	now := w.counters()
	now = append(now, w.info.ResourceManager().Requests().Cur())
	cmp := func(i int, name string, want int) {
		if got := now[i] - w.base[i]; got != int64(want) {
			add(name, "mgr M5 "+name, fmt.Sprintf("%s is %d, the true number is %d", name, got, want))
		}
	}
	reqAll := len(w.inflight())
	for a := 0; a < w.c.U; a++ {
		cmp(2*a, "host stat upstream_connection_active differs from the open connections to the address", openAt[a])
		cmp(2*a+1, "host stat upstream_request_active differs from the requests in flight to the address", reqAt[a])
	}
	cmp(2*w.c.U, "cluster stat upstream_connection_active differs from the open connections", openAll)
	cmp(2*w.c.U+1, "cluster stat upstream_request_active differs from the requests in flight", reqAll)
	cmp(2*w.c.U+2, "Requests resource differs from the requests in flight", reqAll)
	return out
}

// canon: see the file comment for the argument why merged states have the same futures.
func (w *c09mWorld) canon() string {
	var b strings.Builder
	fmt.Fprintf(&b, "exists=%v|members=%v|healthy=%v|fail=%v|tls=T%d|ctls=%v", w.exists, w.members, w.healthy, w.fail, w.tlsGen, w.clientTLS)
	locs := w.scanMaps()
	var ps []string
	for _, p := range w.pools {
		if w.reachable(locs, p) {
			ps = append(ps, fmt.Sprintf("%s/%s/%s/hostTLSDisable=%v/sd=%v", p.proto, p.addr, c09mHashClass(p.inner.TLSHashValue()), p.inner.Host().Config().TLSDisable, p.shutdowns+p.closes > 0))
		}
		for _, l := range locs[p] {
			if l != w.wantLoc(p) {
				ps = append(ps, fmt.Sprintf("misplaced:%+v", l))
			}
		}
	}
	sort.Strings(ps)
	fmt.Fprintf(&b, "|pools=%v", ps)
	var cs []string
	for _, c := range w.conns {
		if !c.open() {
			continue
		}
		st := "nopool"
		if c.pool != nil {
			st = c.pool.proto + "/R"
			if !w.reachable(locs, c.pool) {
				st = c.pool.proto + "/D:" + w.cause[c.pool] + fmt.Sprintf("/sd=%v", c.pool.shutdowns+c.pool.closes > 0)
			}
		}
		cs = append(cs, fmt.Sprintf("%s/%s/%s/req=%d", st, c.addr, c.tls, w.inflightOn(c)))
	}
	sort.Strings(cs)
	fmt.Fprintf(&b, "|conns=%v", cs)
	var off []string
	for k := range w.check() {
		if strings.HasPrefix(k, "mgr M5") {
			off = append(off, k)
		}
	}
	sort.Strings(off)
	if len(off) > 0 {
		now := append(w.counters(), w.info.ResourceManager().Requests().Cur())
		for i := range now {
			now[i] -= w.base[i]
		}
		fmt.Fprintf(&b, "|counters=%v", now)
	}
	return b.String()
}

// enabled lists the events applicable in the current state.
func (w *c09mWorld) enabled() []c09mOp {
	var ops []c09mOp
	n := len(w.members)
	if w.exists || w.c.Full {
		for _, p := range []string{"pp", "mx"} {
			k := n
			if k == 0 {
				k = 1
			}
			for i := 0; i < k; i++ {
				ops = append(ops, c09mOp{K: "cp", P: p, I: i})
			}
		}
	}
	for _, s := range w.inflight() {
		ops = append(ops, c09mOp{K: "reply", I: s.ord}, c09mOp{K: "lreset", I: s.ord})
	}
	for a := 0; a < w.c.U; a++ {
		ops = append(ops, c09mOp{K: "flip", I: a})
	}
	for i, l := range c09mLists {
		ok := true
		for _, s := range l {
			ok = ok && s.A < w.c.U
		}
		if !ok || (!w.c.Full && (i == 4 || i == 5)) || (i == 6 && w.c.U < 4) {
			continue
		}
		ops = append(ops, c09mOp{K: "upd", I: i})
	}
	for a := 0; a < w.c.U; a++ {
		ops = append(ops, c09mOp{K: "rem", I: a})
	}
	for a := 0; a < w.c.U; a++ {
		for _, p := range []string{"pp", "mx", ""} {
			if !w.c.Full && a > 0 && p != "" {
				continue // quick: the other addresses only with "every protocol"
			}
			ops = append(ops, c09mOp{K: "scp", P: p, I: a})
		}
	}
	for t := 0; t <= 2; t++ {
		ops = append(ops, c09mOp{K: "tls", I: t})
	}
	for a := 0; a < w.c.U; a++ {
		ops = append(ops, c09mOp{K: "cf", I: a})
	}
	if w.c.Full {
		for _, c := range w.conns {
			if c.open() {
				ops = append(ops, c09mOp{K: "rclose", I: c.idx})
			}
		}
		ops = append(ops, c09mOp{K: "cstls"}, c09mOp{K: "rpc"}, c09mOp{K: "cp", P: "zz", I: 0}, c09mOp{K: "scp", P: "zz", I: 0})
	}
	return ops
}

// ---------------------------------------------------------------------------

type c09mResult struct {
	w       *c09mWorld
	vs      []c09mFinding
	canon   string
	outcome string
}

// c09mRun replays hist on a fresh manager, then applies and judges last (nil: judges nothing).
func c09mRun(c c09mCase, hist []c09mOp, last *c09mOp) c09mResult {
	w := c09mNewWorld(c)
	r := c09mResult{w: w}
	if w.herr != "" {
		return r
	}
	for _, op := range hist {
		w.apply(op)
		if w.herr != "" {
			w.herr = fmt.Sprintf("prefix %v: %s", op, w.herr)
			return r
		}
	}
	if last == nil {
		for _, v := range w.check() {
			if !strings.HasPrefix(v.key, "observed: ") {
				w.harness("the state before any event violates the oracle: %v", v)
			}
		}
		r.canon = w.canon()
		return r
	}
	pre := w.check()
	r.outcome = w.apply(*last)
	if w.herr != "" {
		return r
	}
	post := w.check()
	r.vs = append(r.vs, w.lease...)
	var keys []string
	for k := range post {
		if _, standing := pre[k]; !standing {
			keys = append(keys, k)
		}
	}
	sort.Strings(keys)
	for _, k := range keys {
		if strings.HasPrefix(post[k].key, "observed: ") {
			w.notes = append(w.notes, post[k].key)
			continue
		}
		r.vs = append(r.vs, c09mFinding{post[k].key, post[k].detail})
	}
	for i := range r.vs {
		r.vs[i].key += " [after " + last.K + "]"
	}
	r.canon = w.canon()
	return r
}

func c09mBounds() []c09mCase {
	if vreport.Thorough() {
		return []c09mCase{
			{U: 2, TLS0: 1, Depth: 5},
			{U: 2, TLS0: 0, Depth: 5},
			{U: 2, TLS0: 1, ClusterPool: true, Depth: 4},
			{U: 2, TLS0: 1, MgrPool: true, Depth: 3},
			{U: 3, TLS0: 1, Full: true, Depth: 4},
			{U: 3, TLS0: 0, Full: true, ClusterPool: true, Depth: 3},
			{U: 4, TLS0: 1, Depth: 3},
		}
	}
	return []c09mCase{
		{U: 2, TLS0: 1, Depth: 4},
		{U: 2, TLS0: 0, Depth: 4},
		{U: 2, TLS0: 1, ClusterPool: true, Depth: 3},
	}
}

func TestVerifC09ManagerPools(t *testing.T) {
	p := vreport.Begin("C09", c09mPart, time.Duration(vreport.Pick(4, 40))*time.Minute)
	defer func() {
		if clusterManagerInstance.clusterManager != nil {
			clusterManagerInstance.Destroy()
		}
		EnableClientSideTLS()
	}()
	shardI, shardN := vreport.Shard()
	cut := false
	scans := 0

	gen := func(yield func(c09mCase) bool) {
		for i, c := range c09mBounds() {
			if i%shardN != shardI {
				continue
			}
			if !yield(c) {
				return
			}
		}
	}

	report := func(c c09mCase, hist []c09mOp, vs []c09mFinding) {
		cc := c
		cc.History = append([]c09mOp{}, hist...)
		for _, v := range vs {
			p.Violation(v.key, fmt.Sprintf("%s, history %v: %s", c.tag(), hist, v.detail), cc)
		}
	}

	check := func(p *vreport.Part, c c09mCase) {
		if c.U < 2 || c.U > c09mMaxU || c.Depth < 0 || c.Depth > 8 || c.TLS0 < 0 || c.TLS0 > 2 {
			return
		}
		if c.History != nil {
			if len(c.History) == 0 {
				return
			}
			last := c.History[len(c.History)-1]
			r := c09mRun(c, c.History[:len(c.History)-1], &last)
			if r.w.herr != "" {
				vreport.HarnessError("C09", c09mPart, fmt.Sprintf("replay of %v: %s", c.History, r.w.herr))
				return
			}
			report(c, c.History, r.vs)
			return
		}
		tag := c.tag()
		r0 := c09mRun(c, nil, nil)
		if r0.w.herr != "" {
			vreport.HarnessError("C09", c09mPart, fmt.Sprintf("%s: fresh manager: %s", tag, r0.w.herr))
			return
		}
		type node struct {
			hist []c09mOp
			ops  []c09mOp
		}
		seen := map[string]bool{r0.canon: true}
		frontier := []node{{nil, r0.w.enabled()}}
		states, transitions := 1, 0
		flush := func() {
			p.AddStates(states)
			p.AddTransitions(transitions)
			p.AddTraces(transitions)
			p.Note("states_"+tag, states)
		}
		for d := 0; d < c.Depth && len(frontier) > 0; d++ {
			var next []node
			for _, nd := range frontier {
				for i := range nd.ops {
					op := nd.ops[i]
					r := c09mRun(c, nd.hist, &op)
					scans += r.w.scans
					full := append(append(make([]c09mOp, 0, len(nd.hist)+1), nd.hist...), op)
					if r.w.herr != "" {
						vreport.HarnessError("C09", c09mPart, fmt.Sprintf("%s history %v: %s", tag, full, r.w.herr))
						flush()
						cut = true
						return
					}
					transitions++
					p.EvalN(1)
					p.Outcome(op.K + "|" + op.P + "|" + r.outcome)
					for _, n := range r.w.notes {
						p.Count(strings.ReplaceAll(n, " ", "_"), 1)
					}
					if len(r.vs) > 0 {
						report(c, full, r.vs)
					}
					if !seen[r.canon] {
						seen[r.canon] = true
						states++
						// determinism self-check: the same history must reproduce the same canonical state
						r2 := c09mRun(c, nd.hist, &op)
						if r2.w.herr != "" || r2.canon != r.canon {
							vreport.HarnessError("C09", c09mPart, fmt.Sprintf("%s history %v does not reproduce: %s\n first: %s\nsecond: %s", tag, full, r2.w.herr, r.canon, r2.canon))
							flush()
							cut = true
							return
						}
						next = append(next, node{full, r2.w.enabled()})
						p.Distinct(tag + "|" + r.canon)
						if p.WantSample() {
							p.Sample(map[string]interface{}{"case": tag, "history": fmt.Sprint(full), "state": r.canon})
						}
					}
					if transitions&127 == 0 && p.Expired() {
						flush()
						cut = true
						return
					}
				}
			}
			frontier = next
			p.Note(fmt.Sprintf("frontier_%s_depth%d", tag, d+1), len(next))
		}
		flush()
	}

	complete := vreport.Run(p, gen, check)
	p.Count("goroutine_dumps", scans)
	var bounds []string
	for _, c := range c09mBounds() {
		bounds = append(bounds, fmt.Sprintf("%s to depth %d", c.tag(), c.Depth))
	}
	p.End(complete && !cut,
		"real cluster manager singleton, one cluster (round robin, cluster-manager TLS context) whose initial members are a0, a1; real xprotocol pools (vboltpp = bolt codec in ping-pong mode -> poolPingPong, bolt -> poolMultiplex) registered through RegisterXProtocolAction / RegisterXProtocolCodec, fake connections with connect failures scripted per address; all histories over {ConnPoolForCluster(protocol, round-robin cursor) + NewStream + request | reply(s) | local reset(s) | health flip(a) | UpdateClusterHosts({a0,a1} | {a1} | {a0 tls_disable,a1} | {a0 other metadata,a1}; full alphabet: | {a0,a1,a2} | {}; 4 addresses: | {a0,a1,a2,a3}) | RemoveClusterHosts([a]) | ShutdownConnectionPool(vboltpp | bolt | every protocol, a) (quick: a0 with each, a1 with every protocol) | UpdateTLSManager(T0 disabled | T1 | T2) | connects to a fail / succeed; full alphabet: | peer closes connection c | Disable/EnableClientSideTLS | RemovePrimaryCluster | ConnPoolForCluster / ShutdownConnectionPool with an unregistered protocol}: "+strings.Join(bounds, "; "),
		"BFS with canonical-state de-duplication; state = history replayed on a fresh manager + one event, every new canonical state replayed twice (must reproduce); canonical state = (cluster exists, published list in order with tls_disable / metadata, health bits, TLS generation, client-side TLS switch, connect-fail bits, reachable pools with TLS class and the tls_disable of their host object, multiset of open connections with pool status / address / TLS class / requests in flight, counter deviations); reference model = intended membership, health, TLS generation, fail bits, per connection address + TLS class + creating pool, per request its connection; oracle M1-M5 before and after the last event, new violations keyed by the kind of that event. Not compared (counted as notes): idle connections in the pool of a host that left the cluster while the pool is still in the manager's map; the TLS state of the pool / connection a request is given versus its host's (TLS policy is no clause of C09); reuse of the old pool (old idle connection, outdated Host() object) for a host re-added with the same TLS state; which healthy host is chosen; error values")
}
