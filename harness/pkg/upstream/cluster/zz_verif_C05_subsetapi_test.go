//go:build verif

package cluster

// C05, unit consumers, part "subset-consumers": every API through which a host is
// OBTAINED OR COUNTED must agree with the statement, not only
// LoadBalancer.ChooseHost.
//
// The proxy does not call ChooseHost itself. It asks the cluster manager:
//
//	ConnPoolForCluster(ctx, snapshot, protocol)   sizes its attempts with snapshot.HostNum(criteria),
//	                                              returns no host when that is 0, otherwise loops
//	                                              min(HostNum, 3) times over ChooseHost and returns the
//	                                              first host whose pool answers CheckAndInit = true
//	TCPConnForCluster / UDPConnForCluster         one ChooseHost, then Host.Create(UDP)Connection
//
// and snapshot.HostNum / snapshot.IsExistsHosts are the counting side of the same
// balancer. "Returns no host only when none is healthy or the set is empty" is
// therefore judged at these observation points too (properties.jsonl C05,
// observe_at: "types.ClusterManager.ConnPoolForCluster host"): a count that says
// "no host" for a request for which the chooser of the same balancer has a
// healthy host makes the manager return no host.
//
// Everything is real: one cluster manager singleton (Destroy +
// NewClusterManagerSingleton), the clusters enter it through
// AddOrUpdateClusterAndHost(v2.Cluster with lb_subset_config, []v2.Host) in both
// subset build modes, the snapshot comes from GetClusterSnapshot, the pools from
// a pool factory registered the normal way (protocol.RegisterProtocol) that
// hands out recording pools (CheckAndInit answers a scripted "pool of address i
// is not ready" mask); Host.CreateConnection goes to a client-connection factory
// of this file that builds an inert connection object (nothing ever dials).
//
// Inputs: the configuration x criteria x health-pattern alphabets of the parts
// of unit subset (two-key scopes incl. criteria that name only a PREFIX of a
// multi-key selector and value combinations no single host carries; selectors of
// every size 1..8) plus clusters WITHOUT subset selectors (the plain policies),
// both builders x every inner policy x weight shapes, scripted randomness (one run
// per selection-draw value).
//
// Oracle (E = hosts eligible for the criteria per c15ref.Reference, incl. the
// fallback policy; a cluster without selectors: E = every member):
//
//	(a) a host obtained through ANY of the three manager calls is by identity a
//	    member of the published host set;
//	(b) if E has a healthy host: HostNum(criteria) > 0 and IsExistsHosts(criteria)
//	    hold, TCPConnForCluster / UDPConnForCluster yield a healthy host of E,
//	    ConnPoolForCluster yields a healthy host of E (together with a pool); it
//	    may yield none only if some healthy host of E has a pool that is not
//	    ready (then the first pick may be that one and the outcome depends on
//	    which hosts the retry loop draws: not compared);
//	(c) nothing panics while E has a healthy host.
//
// Not compared (statement silent): every result when E has no healthy host
// (membership (a) still is), the VALUE of HostNum beyond > 0, HostNum > 0 /
// IsExistsHosts = true when E is empty, a context without criteria on a subset
// balancer (membership only, as in the other parts), which pool object is
// returned and whether it was asked CheckAndInit (C09's).

import (
	"context"
	"fmt"
	"math/rand"
	"net"
	"sort"
	"sync"
	"time"

	"mosn.io/api"
	v2 "mosn.io/mosn/pkg/config/v2"
	"mosn.io/mosn/pkg/configmanager"
	"mosn.io/mosn/pkg/log"
	"mosn.io/mosn/pkg/network"
	"mosn.io/mosn/pkg/protocol"
	"mosn.io/mosn/pkg/types"
	"mosn.io/mosn/pkg/verifrt/c15ref"
	"mosn.io/mosn/pkg/verifrt/vreport"
)

// ---------------------------------------------------------------------------
// recording pool / inert connection

const c05aProto api.ProtocolName = "c05a-recording"

// c05aRec is the script and the record of the pool factory (single-threaded).
var c05aRec struct {
	notReady map[string]bool // address -> its pool answers CheckAndInit = false
	checks   int64
	created  int64
}

type c05aPool struct {
	types.ConnectionPool // nil: the manager calls only the methods below
	addr                 string
	host                 types.Host
	hash                 *types.HashValue
}

func (p *c05aPool) Protocol() api.ProtocolName { return c05aProto }
func (p *c05aPool) CheckAndInit(context.Context) bool {
	c05aRec.checks++
	return !c05aRec.notReady[p.addr]
}
func (p *c05aPool) TLSHashValue() *types.HashValue { return p.hash }
func (p *c05aPool) Shutdown()                      {}
func (p *c05aPool) Close()                         {}
func (p *c05aPool) Host() types.Host               { return p.host }

type c05aStreamFactory struct{ types.ProtocolStreamFactory }

// c05aConn is what Host.CreateConnection / CreateUDPConnection get from the
// client-connection factory while the part runs: nothing is ever dialled.
type c05aConn struct{ types.ClientConnection }

func (c *c05aConn) SetBufferLimit(uint32)                        {}
func (c *c05aConn) SetMark(uint32)                               {}
func (c *c05aConn) SetIdleTimeout(time.Duration, time.Duration) {}

var (
	c05aOnce    sync.Once
	c05aInitErr string
)

func c05aInit() string {
	c05aOnce.Do(func() {
		c05aRec.notReady = map[string]bool{}
		err := protocol.RegisterProtocol(c05aProto, func(ctx context.Context, h types.Host) types.ConnectionPool {
			c05aRec.created++
			return &c05aPool{addr: h.AddressString(), host: h, hash: h.TLSHashValue()}
		}, &c05aStreamFactory{}, nil)
		if err != nil {
			c05aInitErr = fmt.Sprintf("register protocol %s: %v", c05aProto, err)
		}
	})
	return c05aInitErr
}

func c05aAddrs(n int) []string {
	a := make([]string, n)
	for i := range a {
		a[i] = fmt.Sprintf("10.57.0.%d:80", i+1)
	}
	return a
}

// ---------------------------------------------------------------------------
// the oracle's words

const (
	c05aAPIPool = iota
	c05aAPITCP
	c05aAPIUDP
	c05aAPIN
)

var c05aAPINames = [c05aAPIN]string{"ClusterManager.ConnPoolForCluster", "ClusterManager.TCPConnForCluster", "ClusterManager.UDPConnForCluster"}

const (
	c05aKindHostNum = "snapshot.HostNum(criteria) reports no host while a healthy eligible host exists"
	c05aKindExists  = "snapshot.IsExistsHosts(criteria) reports no host while a healthy eligible host exists"
	c05aKindCountP  = "snapshot.HostNum / IsExistsHosts panicked while a healthy eligible host exists"
	c05aKindPanic   = "the call panicked while a healthy eligible host exists"
)

func c05aKind(apiIdx int, kind string) string { return c05aAPINames[apiIdx] + ": " + kind }

// ---------------------------------------------------------------------------

type c05aOKey struct {
	api           int
	policy, class string
	out           int
}

type c05aEnv struct {
	*c05sEnv
	cm       types.ClusterManager
	masks    func(n int) []uint32 // "pool of host i is not ready" masks run per (health pattern, criteria)
	allRuns  bool                 // every alternative under every selection-draw value / hash key (thorough)
	seenAPI  map[string]struct{} // counting side: class x outcome
	seenO    map[c05aOKey]struct{}
	counts   int64
	perAPI   [c05aAPIN]int64
	nilSkip  int64
	mismatch int64
}

// publish makes the cluster enter the manager: AddOrUpdateClusterAndHost builds a
// NEW cluster from the configuration and NEW host objects from the host
// configurations and publishes them (simpleCluster.UpdateHosts -> the subset
// builder of the selected build mode).
func (a *c05aEnv) publish(cc v2.Cluster, hcfgs []v2.Host, builder string, rnd *rand.Rand) (pan string, err error) {
	defer func() {
		if r := recover(); r != nil {
			pan = fmt.Sprint(r)
		}
	}()
	mode := SubsetPreIndexBuildMode
	if builder == "filter" {
		mode = SubsetFilterBuildMode
	}
	SetSubsetBuildMode(mode)
	defer SetSubsetBuildMode(SubsetPreIndexBuildMode)
	restore := c05SwapRRFactoryRand(rnd)
	defer restore()
	err = a.cm.AddOrUpdateClusterAndHost(cc, hcfgs)
	return "", err
}

func c05aCount(snap types.ClusterSnapshot, mmc api.MetadataMatchCriteria) (hn int, ex bool, pan interface{}) {
	defer func() {
		if r := recover(); r != nil {
			pan = r
		}
	}()
	return snap.HostNum(mmc), snap.IsExistsHosts(mmc), nil
}

// lookup asks the manager; the result is the host a proxy would send to (for
// ConnPoolForCluster: only together with a pool).
func (a *c05aEnv) lookup(apiIdx int, ctx types.LoadBalancerContext, snap types.ClusterSnapshot) (got types.Host, pan interface{}) {
	defer func() {
		if r := recover(); r != nil {
			got, pan = nil, r
		}
	}()
	switch apiIdx {
	case c05aAPIPool:
		pool, h := a.cm.ConnPoolForCluster(ctx, snap, c05aProto)
		if (pool == nil) != (h == nil) {
			a.mismatch++
			return nil, nil
		}
		return h, nil
	case c05aAPITCP:
		return a.cm.TCPConnForCluster(ctx, snap).Host, nil
	}
	return a.cm.UDPConnForCluster(ctx, snap).Host, nil
}

func (a *c05aEnv) variantFn(p *vreport.Part, c *c05sCase, v c05sVariant, collect func(c05sViol)) {
	e := a.c05sEnv
	n := len(c.Cfg.Hosts)
	if n > 8 || v.K < 0 || v.K > 15 {
		return
	}
	plain := len(c.Cfg.Selectors) == 0
	if plain != (v.Builder == "") {
		return
	}
	pol := types.LoadBalancerType(v.Policy)
	name := "c05a-" + v.Policy
	cc := c05sClusterConfig(name, pol, &c.Cfg)
	weights := c05Weights(v.Shape, n)
	wclass := c05WeightClass(weights)
	addrs := c05aAddrs(n)
	hcfgs := make([]v2.Host, n)
	for i := range hcfgs {
		var md api.Metadata
		if len(c.Cfg.Hosts[i]) > 0 {
			md = api.Metadata{}
			for _, kv := range c.Cfg.Hosts[i] {
				md[kv.K] = kv.V
			}
		}
		hcfgs[i] = v2.Host{HostConfig: v2.HostConfig{Address: addrs[i], Hostname: fmt.Sprintf("h%d", i), Weight: weights[i]}, MetaData: md}
	}
	src := &c05sSrc{constant: v.K}
	rnd := rand.New(src)
	buildPanic, err := a.publish(cc, hcfgs, v.Builder, rnd)
	e.builds++
	if err != nil {
		vreport.HarnessError("C05", e.part, fmt.Sprintf("AddOrUpdateClusterAndHost(%s): %v", name, err))
		return
	}
	snap := a.cm.GetClusterSnapshot(context.Background(), name)
	if snap == nil || snap.LoadBalancer() == nil || snap.HostSet() == nil {
		collect(c05sViol{v, wclass, "cluster snapshot", "no snapshot / load balancer after AddOrUpdateClusterAndHost", buildPanic})
		return
	}
	info := snap.ClusterInfo()
	if !plain && !info.LbSubsetInfo().IsEnabled() {
		vreport.HarnessError("C05", e.part, fmt.Sprintf("subset balancing is not enabled for selectors %v", c.Cfg.Selectors))
		return
	}
	note := ""
	if buildPanic != "" {
		note = " (AddOrUpdateClusterAndHost panicked: " + buildPanic + "; lookups go to the snapshot that is published)"
		p.Count("update_panics", 1)
	}
	hosts := c05HostsOf(snap.HostSet())
	same := len(hosts) == n
	for i := 0; same && i < n; i++ {
		same = hosts[i].AddressString() == addrs[i]
	}
	if !same {
		collect(c05sViol{v, wclass, "cluster snapshot", "published host set is not the configured host list",
			fmt.Sprintf("configured %v, snapshot holds %d hosts%s", addrs, len(hosts), note)})
		return
	}
	all := uint(1)<<uint(n) - 1
	c05SetHealth(hosts, all)
	c05SetCounters(hosts, c05sCounterMask)
	defer c05SetHealth(hosts, all)
	defer c05SetCounters(hosts, 0)
	defer func() {
		for k := range c05aRec.notReady {
			delete(c05aRec.notReady, k)
		}
	}()

	lb := snap.LoadBalancer()
	inners, serr := c05sScriptAll(lb, info, rnd)
	if serr != nil {
		vreport.HarnessError("C05", e.part, serr.Error())
		return
	}
	if _, isSubset := lb.(*subsetLoadBalancer); isSubset == plain && buildPanic == "" {
		vreport.HarnessError("C05", e.part, fmt.Sprintf("cluster with selectors %v publishes a %T", c.Cfg.Selectors, lb))
		return
	}
	for _, in := range inners {
		if got := c05ConcreteType(in.lb); got != v.Policy {
			vreport.HarnessError("C05", e.part, fmt.Sprintf("balancer %s of a %s cluster is a %s", in.path, v.Policy, got))
			return
		}
	}
	var keys []uint64
	if pol == types.Maglev {
		keys = c05sMaglevKeys(inners)
	}
	src.constant = -1
	calls := c05sCalls(pol, n, false)
	selAlphabet := n
	if selAlphabet < 1 {
		selAlphabet = 1
	}
	masks := a.masks(n)

	type probe struct {
		crit []c15ref.Pair
		mmc  api.MetadataMatchCriteria
		useE bool
		exp  c15ref.Expect
		ctx  *c05sCtx // policies that do not read the request context: one context per criteria
	}
	probes := make([]probe, 0, len(c.Crits)+1)
	for _, cr := range c.Crits {
		q := probe{crit: cr, mmc: e.mmc(cr), useE: true}
		if plain {
			q.exp = c15ref.Expect{Class: "no subset selectors", Reason: "-", Allowed: uint32(all)}
		} else {
			q.exp = c15ref.Reference(&c.Cfg, cr)
		}
		probes = append(probes, q)
	}
	if plain {
		probes = append(probes, probe{useE: true, exp: c15ref.Expect{Class: "no subset selectors, context without criteria", Reason: "-", Allowed: uint32(all)}})
	} else {
		probes = append(probes, probe{exp: c15ref.Expect{Class: "context without criteria", Reason: "-"}})
	}

	var lookups int64
	for hm := uint(0); hm <= all; hm++ {
		c05SetHealth(hosts, hm)
		healthy := uint32(hm)
		for pi := range probes {
			q := &probes[pi]
			E := q.exp.Allowed
			eh := E & healthy
			dk := c05sDKey{v.Builder, v.Policy, v.Shape, q.exp.Class, q.exp.Reason, n, c05sPop(E), c05sPop(eh), c05sPop(healthy)}
			if _, ok := e.seenD[dk]; !ok {
				e.seenD[dk] = struct{}{}
			}
			where := func() string {
				return fmt.Sprintf("%s, policy %s, hosts %v weights %v, selectors %v fallback policy %d default %v; healthy mask %0*b (bit i = host i), criteria %v (eligible set E = %s: %s, %s)",
					c05sLayer(v.Builder), v.Policy, c.Cfg.Hosts, weights, c.Cfg.Selectors, c.Cfg.Policy, c.Cfg.Default, n, hm, q.crit, c15ref.MaskString(E), q.exp.Class, q.exp.Reason)
			}
			// ---- the counting side
			hn, ex, cpan := c05aCount(snap, q.mmc)
			a.counts += 2
			lookups += 2
			cout := "not compared (no healthy eligible host / no criteria)"
			if q.useE && eh != 0 {
				cout = "count > 0 and exists"
				report := func(kind string) {
					cout = kind
					collect(c05sViol{v, wclass, q.exp.Class, kind,
						fmt.Sprintf("%s: HostNum = %d, IsExistsHosts = %v%s%s", where(), hn, ex, c05PanicText(cpan), note)})
				}
				switch {
				case cpan != nil:
					report(c05aKindCountP)
				default:
					if hn <= 0 {
						report(c05aKindHostNum)
					}
					if !ex {
						report(c05aKindExists)
					}
				}
			} else if cpan != nil {
				p.Count("panics_without_healthy_eligible_host_not_compared", 1)
			} else if q.useE && E == 0 && (hn > 0 || ex) {
				cout = "count > 0 or exists with an empty eligible set (statement silent: not compared)"
			}
			if ck := "snapshot.HostNum / IsExistsHosts|" + q.exp.Class + "|" + cout; true {
				if _, seen := a.seenAPI[ck]; !seen {
					a.seenAPI[ck] = struct{}{}
				}
			}

			// ---- the obtaining side
			run := func(apiIdx int, ctx *c05sCtx, ncalls int, notReady uint32, what func() string) {
				e.runs++
				for call := 0; call < ncalls; call++ {
					got, pan := a.lookup(apiIdx, ctx, snap)
					lookups++
					a.perAPI[apiIdx]++
					out, viol, idx := c05sJudge(hosts, healthy, E, q.useE, got)
					if pan != nil {
						out, viol = c05sOutPanic, c05OK
						if q.useE && eh != 0 {
							viol = c05aKindPanic
						} else {
							p.Count("panics_without_healthy_eligible_host_not_compared", 1)
						}
					} else if viol == c05sKindNil && eh&notReady != 0 {
						// a healthy eligible host whose pool is not ready: the retry loop may run dry
						out, viol = c05sOutNil, c05OK
						a.nilSkip++
					}
					ok := c05aOKey{apiIdx, v.Policy, q.exp.Class, out}
					if _, seen := a.seenO[ok]; !seen {
						a.seenO[ok] = struct{}{}
					}
					if viol != c05OK {
						collect(c05sViol{v, wclass, q.exp.Class, c05aKind(apiIdx, viol),
							fmt.Sprintf("%s, pools not ready mask %0*b, %s, call %d of the run: %s returned member index %d (%s); HostNum(criteria) = %d, IsExistsHosts = %v%s%s",
								where(), n, notReady, what(), call+1, c05aAPINames[apiIdx], idx, c05sOutNames[out], hn, ex, c05PanicText(pan), note)})
					}
				}
			}
			newCtx := func(hash uint64, init int) *c05sCtx {
				return &c05sCtx{c05LbCtx: c05NewCtx(info, hash, init), mmc: q.mmc}
			}
			if q.ctx == nil && !c05UsesContext(pol) {
				q.ctx = newCtx(0, -1)
			}
			for apiIdx := 0; apiIdx < c05aAPIN; apiIdx++ {
				ms := masks
				if apiIdx != c05aAPIPool {
					ms = masks[:1] // pools play no role
				}
				for mi, nr := range ms {
					for i, ad := range addrs {
						c05aRec.notReady[ad] = nr&(1<<uint(i)) != 0
					}
					nr := nr
					// every selection-draw value / hash key for ConnPoolForCluster with all pools
					// ready; the other alternatives (a pool not ready, TCP, UDP): one run (quick tier)
					oneRun := !a.allRuns && (apiIdx != c05aAPIPool || mi > 0)
					calls := calls
					if oneRun {
						calls = 1
					}
					switch {
					case c05UsesContext(pol):
						nk := 1
						if pol == types.Maglev {
							nk = len(keys)
						}
						for hk := 0; hk < nk; hk++ {
							hash := uint64(0)
							if pol == types.Maglev {
								hash = keys[hk]
							}
							run(apiIdx, newCtx(hash, -1), calls, nr, func() string { return fmt.Sprintf("hash key %d, new request context", hash) })
							if oneRun {
								break
							}
						}
					default:
						ctx := q.ctx
						for d := 0; d < selAlphabet; d++ {
							d := d
							src.constant, src.draws = 2*d, 0
							run(apiIdx, ctx, calls, nr, func() string { return fmt.Sprintf("every selection draw of the run answers a = %d", d) })
							if src.draws == 0 || oneRun {
								break // the run does not draw: one run
							}
						}
						src.constant = -1
					}
				}
			}
		}
	}
	e.lookups += lookups
	e.perPol[v.Policy] += lookups
	p.EvalN(int(lookups))
}

// ---------------------------------------------------------------------------
// bounds

type c05aBound struct {
	small c05sSmallBound
	wide  c05sWideBound
	// clusters without subset selectors
	plainMax   int
	plainCrits [][]c15ref.Pair
	allMasks   bool
	widePols   map[string]bool // nil: every inner policy
}

func c05aBoundFor() c05aBound {
	b := c05aBound{plainMax: 3, plainCrits: [][]c15ref.Pair{c05sP(), c05sP("a", "1"), c05sP("z", "1")}}
	// two-key scopes: the breadth alphabet of unit subset.s quick tier (criteria incl.
	// {a:v} under selector [a,b] = a prefix of a multi-key selector, and {a:1,b:2}
	// style combinations that only some host sets carry)
	b.small = c05sSmallBound{name: "consumers", shapes: c05sShapes5, maxHosts: 3,
		sels:  [][][]string{c05sSelA, c05sSelAB, c05sSelAAB, c05sSelA_B},
		fbs:   c05sFallbacks(c05sP(), c05sP("a", "1"), c05sP("b", "9")),
		crits: c05sCrits2(), maglevSel: c05sSelAB, maglevMaxHosts: 2}
	b.wide = c05sWideBound{sizes: []int{1, 2, 3, 4, 5, 6, 7, 8}, bases: []string{"prefix"}}
	b.widePols = map[string]bool{string(types.RoundRobin): true, string(types.Random): true, string(types.LeastActiveRequest): true, string(types.RequestRoundRobin): true}
	if vreport.Thorough() {
		b.plainMax = 4
		b.allMasks = true
		b.widePols = nil
		b.small.bigShapes = []int{1, 2, 3, 4}
		b.small.bigSels = [][][]string{c05sSelAB, c05sSelAAB}
		b.small.bigFB = c05sFallbacks(c05sP("a", "1"))
		b.small.sels = [][][]string{c05sSelA, c05sSelAB, {{"b", "a"}}, c05sSelAAB, c05sSelA_B, {{"b"}, {"a", "b"}}}
		b.small.allK = true
		b.small.maglevSel, b.small.maglevMaxHosts = c05sSelAB, 3
		b.wide = c05sWideBound{sizes: []int{1, 2, 3, 4, 5, 6, 7, 8}, bases: []string{"prefix", "suffix"}, dupHost: true, twoPos: true, allFB: true}
	}
	return b
}

// masks: which pools are scripted "not ready". Quick: all ready, and (n >= 2)
// the pool of host 0 not ready; thorough: every mask for n <= 4 hosts, for more
// hosts: none, every single host, all.
func (b c05aBound) masks(n int) []uint32 {
	if b.allMasks && n <= 4 {
		out := make([]uint32, 0, 1<<uint(n))
		for m := uint32(0); m < 1<<uint(n); m++ {
			out = append(out, m)
		}
		return out
	}
	if b.allMasks {
		out := []uint32{0}
		for i := 0; i < n; i++ {
			out = append(out, 1<<uint(i))
		}
		return append(out, 1<<uint(n)-1)
	}
	if n >= 2 {
		return []uint32{0, 1}
	}
	return []uint32{0}
}

func (b c05aBound) String() string {
	wp := "every inner policy"
	if b.widePols != nil {
		ps := []string{}
		for k := range b.widePols {
			ps = append(ps, k)
		}
		sort.Strings(ps)
		wp = fmt.Sprintf("inner policies %v", ps)
	}
	return fmt.Sprintf("real cluster manager singleton, clusters published through AddOrUpdateClusterAndHost, snapshot from GetClusterSnapshot, recording pools of a registered protocol. (1) two-key scopes: %s. (2) wide selectors (%s): %s. (3) clusters WITHOUT subset selectors: 0..%d hosts, all 8 policies x weights {equal; (1,2,3,..)}, criteria %v plus a context without criteria, EVERY health pattern. Per (configuration, builder, policy, weights, construction draw K) ONE publication, then every health pattern x every criteria: snapshot.HostNum + snapshot.IsExistsHosts, ConnPoolForCluster with all pools ready x one run per selection-draw value / maglev hash key (run = the calls of the policy, see (1)); ConnPoolForCluster under the other pool masks %s, TCPConnForCluster and UDPConnForCluster: %s",
		b.small.String(), wp, b.wide.String(), b.plainMax, b.plainCrits,
		map[bool]string{true: "(n<=4: EVERY subset of hosts whose pool is not ready; n>4: every single host, all hosts)", false: "((n>=2) the pool of host 0 not ready)"}[b.allMasks],
		map[bool]string{true: "one run per selection-draw value / hash key", false: "one call (draw value 0 / first hash key)"}[b.allMasks])
}

func (b c05aBound) gen(yield func(c05sCase) bool) {
	stopped := false
	y := func(c c05sCase) bool {
		c.Deep = false
		if !yield(c) {
			stopped = true
			return false
		}
		return true
	}
	b.small.gen(y)
	if stopped {
		return
	}
	b.wide.gen(func(c c05sCase) bool {
		if b.widePols != nil {
			var vs []c05sVariant
			for _, v := range c.Variants {
				if b.widePols[v.Policy] {
					vs = append(vs, v)
				}
			}
			c.Variants = vs
		}
		return y(c)
	})
	if stopped {
		return
	}
	// clusters without subset selectors: host i carries metadata shape i (the
	// plain policies never read it)
	si, sn := vreport.Shard()
	idx := 0
	for n := 0; n <= b.plainMax; n++ {
		hosts := [][]c15ref.Pair{}
		for i := 0; i < n; i++ {
			hosts = append(hosts, c05sShapes5[i%len(c05sShapes5)])
		}
		var vs []c05sVariant
		for _, v := range c05sVariants(n, b.small.allK) {
			if v.Builder == "pre-index" {
				v.Builder = ""
				vs = append(vs, v)
			}
		}
		idx++
		if idx%sn != si {
			continue
		}
		if !y(c05sCase{Cfg: c15ref.Config{Hosts: hosts}, Crits: b.plainCrits, Variants: vs}) {
			return
		}
	}
}

const c05aRule = "complete cartesian product configuration x builder x policy x weight shape x construction draw; per alternative ONE cluster published into a real cluster manager (AddOrUpdateClusterAndHost), then every health pattern x every criteria x {count, ConnPoolForCluster x pool mask x run, TCPConnForCluster x run, UDPConnForCluster x run}; one evaluation = one judged answer of snapshot.HostNum, snapshot.IsExistsHosts or of a manager call; E = eligible hosts per the independent reference (c15ref.Reference: subset hit, else fallback none / any-endpoint / default-subset; no selectors: every member): (a) a host obtained through the manager is a member of the published set by identity, (b) whenever E has a healthy host: HostNum > 0, IsExistsHosts, TCP/UDPConnForCluster give a healthy host of E, ConnPoolForCluster gives a healthy host of E with a pool (none is accepted only if a healthy host of E has a pool scripted not ready), (c) no panic; not compared: results when E has no healthy host (membership still is), the value of HostNum beyond > 0, counts > 0 for an empty E, a context without criteria on a subset balancer (membership only); distinct = (builder, policy, weights, expected class, fallback reason, n, |E|, |healthy E|, |healthy|); outcome = API x policy x expected class x result kind; a deviation seen under every policy run for a configuration is one finding (\"every inner policy\") whose replay case is the configuration with all alternatives of that builder"

func c05aRunConsumers(budget time.Duration) {
	const part = "subset-consumers"
	p := vreport.Begin("C05", part, budget)
	if msg := c05aInit(); msg != "" {
		vreport.HarnessError("C05", part, msg)
		p.End(false, "-", c05aRule)
		return
	}
	// the manager logs every lookup that ends without a host at ERROR: logging is not part of the property
	log.DefaultLogger.SetLogLevel(log.FATAL)
	defer log.DefaultLogger.SetLogLevel(log.ERROR)
	// virtual time: the waits between the polls of the manager's retry loop (all
	// tried pools not ready) are 0; no oracle depends on them
	oldTry := tryConnTimes
	tryConnTimes = [maxTryConnTimes]time.Duration{}
	defer func() { tryConnTimes = oldTry }()
	oldFactory := network.GetClientConnFactory()
	network.RegisterClientConnFactory(func(time.Duration, types.TLSClientContextManager, net.Addr, chan struct{}) types.ClientConnection {
		return &c05aConn{}
	})
	defer network.RegisterClientConnFactory(oldFactory)

	clusterManagerInstance.Destroy()
	configmanager.Reset()
	defer clusterManagerInstance.Destroy()
	b := c05aBoundFor()
	a := &c05aEnv{c05sEnv: c05sNewEnv(part), masks: b.masks, allRuns: b.allMasks, seenAPI: map[string]struct{}{}, seenO: map[c05aOKey]struct{}{}}
	a.cm = NewClusterManagerSingleton(nil, nil, nil)
	a.c05sEnv.variant = a.variantFn

	complete := vreport.Run(p, b.gen, func(p *vreport.Part, c c05sCase) {
		a.check(p, c)
		if p.WantSample() {
			s := c
			if len(s.Crits) > 1 {
				s.Crits = s.Crits[:1]
			}
			if len(s.Variants) > 1 {
				s.Variants = s.Variants[:1]
			}
			p.Sample(s)
		}
	})
	for k := range a.seenD {
		p.Distinct(fmt.Sprint(k))
	}
	for k := range a.seenAPI {
		p.Outcome(k)
	}
	for k := range a.seenO {
		p.Outcome(fmt.Sprintf("%s|%s|%s|%s", c05aAPINames[k.api], k.policy, k.class, c05sOutNames[k.out]))
	}
	p.Note("judged_answers", a.lookups)
	p.Note("count_answers_hostnum_isexistshosts", a.counts)
	for i, nm := range c05aAPINames {
		p.Note("lookups_"+nm, a.perAPI[i])
	}
	p.Note("clusters_published_through_the_manager", a.builds)
	p.Note("runs", a.runs)
	for k, v := range a.perPol {
		p.Note("answers_"+k, v)
	}
	p.Note("pools_created_by_the_recording_factory", c05aRec.created)
	p.Note("pool_checkandinit_calls", c05aRec.checks)
	p.Note("no_host_accepted_because_a_healthy_eligible_hosts_pool_was_not_ready", a.nilSkip)
	p.Note("connpoolforcluster_pool_xor_host_nil", a.mismatch)
	p.End(complete, b.String(), c05aRule)
}
