//go:build verif

package cluster

// C05 part 1 (inputs): every policy x host-set size x weight shape x EVERY
// health pattern x active counters x EVERY value of every random draw.

import (
	"fmt"
	"math/rand"
	"testing"
	"time"

	"mosn.io/mosn/pkg/types"
	"mosn.io/mosn/pkg/verifrt/vreport"
)

// TestVerifC05SelfCheck verifies the harness's own assumptions: the draw
// alphabet reaches every residue of both draw idioms with one Int63 per draw;
// every policy name is registered and yields its own implementation; the
// odometer enumerates a known space completely; the oracle rejects what it
// should.
func TestVerifC05SelfCheck(t *testing.T) {
	if vreport.Replaying() {
		return
	}
	c05Quiet()
	fail := func(format string, a ...interface{}) {
		vreport.HarnessError("C05", "self-check", fmt.Sprintf(format, a...))
		t.Errorf(format, a...)
	}
	// 1. alphabet
	for n := 1; n <= 4; n++ { // host-set size -> alphabet
		for m := 1; m <= n; m++ { // modulus of a draw
			seenIntn, seenU32 := map[int]bool{}, map[uint32]bool{}
			for k := 0; k < c05AlphabetFor(n); k++ {
				s := &c05Src{script: []int{k}}
				v := rand.New(s).Intn(m)
				if s.pos != 1 || len(s.script) != 1 {
					fail("Intn(%d) with alphabet value %d consumed %d draws", m, k, s.pos)
				}
				seenIntn[v] = true
				s = &c05Src{script: []int{k}}
				u := rand.New(s).Uint32() % uint32(m)
				if s.pos != 1 {
					fail("Uint32() with alphabet value %d consumed %d draws", k, s.pos)
				}
				seenU32[u] = true
			}
			if len(seenIntn) != m || len(seenU32) != m {
				fail("alphabet for %d hosts does not reach every residue mod %d: Intn %v, Uint32%%m %v", n, m, seenIntn, seenU32)
			}
		}
	}
	if c05AlphabetFor(0) != 2 || c05AlphabetFor(4) != 8 || c05AlphabetFor(9) != 8 {
		fail("alphabet sizes")
	}
	// 2. policies are registered under their names and are distinct implementations
	for _, pol := range c05Policies {
		if _, ok := lbFactories[pol]; !ok {
			fail("policy %s is not registered in lbFactories", pol)
			continue
		}
		info := c05Info("c05-self-"+string(pol), pol)
		hosts := c05MakeHosts(info, []string{"10.5.250.1:80", "10.5.250.2:80"}, []uint32{1, 2})
		lb := NewLoadBalancer(info, NewHostSet(hosts))
		if got := c05ConcreteType(lb); got != string(pol) {
			fail("NewLoadBalancer for %s returned %s", pol, got)
		}
	}
	// 3. odometer: a "run" that draws 2 values, and a third only if the first is 0
	count := 0
	seen := map[string]bool{}
	for script := []int{}; script != nil; {
		s := &c05Src{script: script}
		a := s.Int63()
		s.Int63()
		if a == 0 {
			s.Int63()
		}
		seen[fmt.Sprint(s.script)] = true
		count++
		script = c05NextScript(s.script, 8)
	}
	if want := 8*8 + 7*8; count != want || len(seen) != want {
		fail("odometer visited %d sequences (%d distinct), expected %d", count, len(seen), want)
	}
	// 4. oracle
	info := c05Info("c05-self-oracle", types.RoundRobin)
	hs := c05MakeHosts(info, []string{"10.5.251.1:80", "10.5.251.2:80"}, []uint32{1, 1})
	foreign := c05MakeHosts(info, []string{"10.5.251.1:80"}, []uint32{1})[0]
	type oc struct {
		healthy []bool
		got     types.Host
		want    string
	}
	for i, c := range []oc{
		{[]bool{true, false}, hs[0], c05OK},
		{[]bool{true, false}, hs[1], c05KindUnhealthy},
		{[]bool{true, false}, nil, c05KindNil},
		{[]bool{false, false}, nil, c05OK},
		{[]bool{false, false}, hs[1], c05OK},
		{[]bool{true, true}, foreign, c05KindNotMember}, // same address, other object
		{[]bool{false, false}, foreign, c05KindNotMember},
	} {
		if _, v := c05Judge(hs, c.healthy, c.got); v != c.want {
			fail("oracle self-test %d: got %q want %q", i, v, c.want)
		}
	}
	if _, v := c05Judge(nil, nil, nil); v != c05OK {
		fail("oracle self-test: nil on the empty set must be accepted")
	}
	// 5. counters are shared per (cluster, address): the histories / schedules parts set them
	// through one host object and rely on every later host object of that address seeing them
	twin := c05MakeHosts(info, []string{"10.5.251.2:80"}, []uint32{1})[0]
	c05SetCounters(hs, 0b10)
	if twin.HostStats().UpstreamRequestActive.Count() != 1 || twin.HostStats().UpstreamConnectionActive.Count() != 1 {
		fail("host counters are not shared between host objects of one cluster and address")
	}
	c05SetCounters(hs, 0)
	// ... and so is health
	c05SetHealth(hs, 0b01)
	if twin.Health() {
		fail("health is not shared between host objects of one address")
	}
	c05SetHealth(hs, 0b11)
}

// c05Case is one group of the sequential part; with Draws == nil the check
// enumerates every draw sequence, with Draws set (replay) it runs that one.
type c05Case struct {
	Policy  string `json:"policy"`
	N       int    `json:"n"`
	Shape   string `json:"shape"`
	Healthy uint   `json:"healthy_mask"` // bit i set: host i healthy
	Active  uint   `json:"active_mask"`  // bit i set: host i has 1 active request and 1 active connection
	Calls   int    `json:"calls"`        // consecutive ChooseHost calls on the same balancer (same context for maglev/request-RR)
	CtxKind string `json:"ctx"`          // "hash" | "no-route" (maglev without hash policy: enumerated, not compared)
	HashIdx int    `json:"hash_idx"`     // which key of c05MaglevKeys
	InitIdx int    `json:"init_idx"`     // retry index already in the context (-1: none)
	Draws   []int  `json:"draws"`        // alphabet indices, in consumption order
}

func c05Calls(pol types.LoadBalancerType, n int) int {
	switch pol {
	case types.Random:
		return vreport.Pick(2, 3)
	case types.RoundRobin, types.WeightedRoundRobin:
		return n + 2 // the cursor wraps
	case types.LeastActiveRequest, types.LeastActiveConnection, types.PeakEwma:
		// up to 3 draws per call (two picks and a fallback start): the draw space is
		// alphabet^(3*calls) per (health, counters) pattern, so the number of calls
		// shrinks as the set grows
		switch {
		case n <= 2:
			return 2
		case n == 3:
			return vreport.Pick(1, 2)
		}
		return 1
	}
	return 3 // maglev, request-RR: 3 entries on the same context (first try + 2 retries)
}

func TestVerifC05Policies(t *testing.T) {
	c05Quiet()
	p := vreport.Begin("C05", "policies", time.Duration(vreport.Pick(6, 40))*time.Minute)
	maxN := vreport.Pick(3, 4)
	shardI, shardN := vreport.Shard()

	// fixtures are built once per (policy, n, shape): hosts are immutable apart
	// from health words and counters, both reset by every run
	type fixture struct {
		info  types.ClusterInfo
		hosts []types.Host
		w     []uint32
		keys  []uint64
		// faithful: rebuilt schedulers were compared with the constructor's for these counter masks
		faithful map[uint]bool
	}
	fixtures := map[string]*fixture{}
	fix := func(pol string, n int, shape string) *fixture {
		k := fmt.Sprintf("%s/%d/%s", pol, n, shape)
		if f, ok := fixtures[k]; ok {
			return f
		}
		id := len(fixtures)
		f := &fixture{info: c05Info("c05-"+k, types.LoadBalancerType(pol)), w: c05Weights(shape, n), faithful: map[uint]bool{}}
		addrs := make([]string, n)
		for i := range addrs {
			addrs[i] = fmt.Sprintf("10.5.%d.%d:80", id, i+1)
		}
		f.hosts = c05MakeHosts(f.info, addrs, f.w)
		if types.LoadBalancerType(pol) == types.Maglev {
			f.keys = c05MaglevKeys(NewLoadBalancer(f.info, NewHostSet(f.hosts)), n)
		}
		fixtures[k] = f
		return f
	}

	gen := func(yield func(c05Case) bool) {
		gi := 0
		for _, pol := range c05Policies {
			for n := 0; n <= maxN; n++ {
				for _, shape := range c05Shapes {
					if n == 0 && shape != "equal" {
						continue
					}
					if n == 1 && shape == "inc" {
						continue // (1) is the equal shape
					}
					actives := uint(1)
					if c05ReadsCounters(pol) {
						actives = 1 << uint(n)
					}
					type cv struct {
						kind    string
						hashIdx int
						initIdx int
					}
					ctxs := []cv{{"hash", 0, -1}}
					if c05UsesContext(pol) {
						ctxs = nil
						nk := 1
						if pol == types.Maglev {
							nk = len(fix(string(pol), n, shape).keys)
						}
						for hk := 0; hk < nk; hk++ {
							// a retry index left by an earlier attempt: none, or 0..4 (4 >= any set size here:
							// written against an earlier, larger host set)
							for init := -1; init <= 4; init++ {
								ctxs = append(ctxs, cv{"hash", hk, init})
							}
						}
						if pol == types.Maglev {
							ctxs = append(ctxs, cv{"no-route", 0, -1})
						}
					}
					for healthy := uint(0); healthy < 1<<uint(n); healthy++ {
						for active := uint(0); active < actives; active++ {
							for _, cx := range ctxs {
								gi++
								if gi%shardN != shardI {
									continue
								}
								if !yield(c05Case{Policy: string(pol), N: n, Shape: shape, Healthy: healthy, Active: active,
									Calls: c05Calls(pol, n), CtxKind: cx.kind, HashIdx: cx.hashIdx, InitIdx: cx.initIdx}) {
									return
								}
							}
						}
					}
				}
			}
		}
	}

	check := func(p *vreport.Part, c c05Case) {
		if c.N < 0 || c.N > 4 || c.Calls < 1 || c.Calls > 8 {
			return
		}
		pol := types.LoadBalancerType(c.Policy)
		f := fix(c.Policy, c.N, c.Shape)
		wclass := c05WeightClass(f.w)
		healthy := make([]bool, c.N)
		for i := range healthy {
			healthy[i] = c.Healthy&(1<<uint(i)) != 0
		}
		c05SetHealth(f.hosts, c.Healthy)
		c05SetCounters(f.hosts, c.Active)
		defer c05SetHealth(f.hosts, 1<<uint(c.N)-1)
		defer c05SetCounters(f.hosts, 0)
		for i, h := range f.hosts {
			if h.Health() != healthy[i] {
				vreport.HarnessError("C05", "policies", fmt.Sprintf("host %d: Health()=%v after setting healthy=%v", i, h.Health(), healthy[i]))
				return
			}
		}
		// fidelity of the scripted rebuild of EDF schedulers (once per fixture and counter mask)
		if !f.faithful[c.Active] {
			f.faithful[c.Active] = true
			if msg := c05RebuildMatchesConstructor(f.info, NewHostSet(f.hosts)); msg != "" {
				vreport.HarnessError("C05", "policies", fmt.Sprintf("%s n=%d %s: scripted rebuild is not what the constructor builds: %s", c.Policy, c.N, c.Shape, msg))
				return
			}
		}

		run := func(script []int) (consumed []int) {
			src := &c05Src{script: script}
			r := rand.New(src)
			restore := c05SwapRRFactoryRand(r)
			defer restore()
			hs := NewHostSet(f.hosts)
			lb := NewLoadBalancer(f.info, hs)
			if got := c05ConcreteType(lb); got != c.Policy {
				vreport.HarnessError("C05", "policies", fmt.Sprintf("NewLoadBalancer for %s returned %s", c.Policy, got))
				return src.script
			}
			if err := c05Script(lb, f.info, r); err != nil {
				vreport.HarnessError("C05", "policies", err.Error())
				return src.script
			}
			members := c05HostsOf(hs)
			if len(members) != c.N {
				vreport.HarnessError("C05", "policies", fmt.Sprintf("host set has %d members, expected %d", len(members), c.N))
				return src.script
			}
			var ctx *c05LbCtx
			if c.CtxKind == "no-route" {
				ctx = c05NewCtx(f.info, 0, c.InitIdx)
				ctx.route = nil
			} else {
				hash := uint64(0)
				if c.HashIdx < len(f.keys) {
					hash = f.keys[c.HashIdx]
				}
				ctx = c05NewCtx(f.info, hash, c.InitIdx)
			}
			var trace [8]int8
			for call := 0; call < c.Calls; call++ {
				got, pan := c05Choose(lb, ctx)
				outcome, viol := c05Judge(members, healthy, got)
				if pan != nil {
					outcome, viol = "panic", c05OK
					if c.Healthy != 0 {
						viol = c05KindPanic
					} else {
						p.Count("panics_without_healthy_host_not_compared", 1)
					}
				}
				if c.CtxKind == "no-route" {
					// maglev without a route / hash policy has no key to hash: the statement
					// quantifies over hash keys, it is silent here. Enumerated, not compared
					// (membership still is).
					if viol == c05KindNil {
						viol = c05OK
						outcome = "nil: no hash policy (not compared)"
					}
				}
				idx := c05HostIndex(hs, got)
				trace[call] = int8(idx)
				p.Outcome(c.Policy + "|" + wclass + "|" + outcome)
				if viol != c05OK {
					cc := c
					cc.Draws = append([]int{}, src.script[:src.pos]...)
					cc.Calls = call + 1
					p.Violation(c05Key(pol, wclass, viol),
						fmt.Sprintf("policy %s, %d hosts, weights %v, healthy mask %0*b (bit i = host i), active-counter mask %0*b, ctx=%s hash#%d retry-index=%d, draws %v (alphabet index k -> Int63 (k>>1)<<32|(k&1)<<31): call %d returned member index %d (%s)%s",
							c.Policy, c.N, f.w, c.N, c.Healthy, c.N, c.Active, c.CtxKind, c.HashIdx, c.InitIdx, cc.Draws, call+1, idx, outcome, c05PanicText(pan)), cc)
				}
			}
			p.EvalN(c.Calls)
			p.Distinct(fmt.Sprintf("%s|%d|%s|%b|%b|%s|%d|%d|%v", c.Policy, c.N, c.Shape, c.Healthy, c.Active, c.CtxKind, c.HashIdx, c.InitIdx, trace[:c.Calls]))
			if p.WantSample() {
				p.Sample(map[string]interface{}{"policy": c.Policy, "weights": f.w, "healthy_mask": c.Healthy, "active_mask": c.Active,
					"ctx": c.CtxKind, "hash_idx": c.HashIdx, "init_idx": c.InitIdx, "draws": append([]int{}, src.script[:src.pos]...), "chosen_indices": fmt.Sprint(trace[:c.Calls])})
			}
			return src.script[:src.pos]
		}

		if c.Draws != nil { // replay of one recorded draw sequence
			run(c.Draws)
			return
		}
		runs := 0
		for script := []int{}; script != nil; {
			consumed := run(script)
			runs++
			if runs&1023 == 0 && p.Expired() {
				return
			}
			script = c05NextScript(consumed, c05AlphabetFor(c.N))
		}
		p.Count("runs", runs)
		p.Count("runs_"+c.Policy, runs)
	}

	complete := vreport.Run(p, gen, check)
	p.End(complete,
		fmt.Sprintf("policies %v; host sets of 0..%d hosts; weights equal / (1,2,..) / (128,1,..); all 2^n health patterns; active request+connection counters in {0,1} per host for least-request, least-connection, peak-EWMA; every value of every random draw (construction and selection) from the alphabet Int63=(a<<32)|(b<<31), a in 0..n-1 (n hosts), b in 0..1, which reaches every residue of Intn(m) and Uint32()%%m for every m<=n; calls per balancer: random %d, RR/WRR n+2, least-*/peak-EWMA 2 for n<=2, %d for n=3, 1 for n=4, maglev/request-RR 3 entries on one context x every table index as hash x retry index none/0..4",
			c05Policies, maxN, c05Calls(types.Random, 0), c05Calls(types.PeakEwma, 3)),
		"full cartesian product; per group every draw sequence by odometer; one evaluation = one judged ChooseHost result; distinct = (group, sequence of chosen member indices); outcome = policy x weight class x result kind. Not compared (statement silent): which host (nil or an unhealthy member) is returned when no member is healthy; maglev without a hash policy returning nil")
}

func c05PanicText(pan interface{}) string {
	if pan == nil {
		return ""
	}
	return fmt.Sprintf(" panic: %v", pan)
}
