//go:build verif

package healthcheck

import (
	"fmt"
	"os"
	"reflect"
	"strings"
	"testing"
	"time"

	gometrics "github.com/rcrowley/go-metrics"
	"mosn.io/api"
	v2 "mosn.io/mosn/pkg/config/v2"
	"mosn.io/mosn/pkg/log"
	"mosn.io/mosn/pkg/types"
	"mosn.io/mosn/pkg/verifrt/vreport"
	"mosn.io/mosn/pkg/verifrt/vrt"
	"mosn.io/mosn/pkg/verifrt/vsync"
)

// C16 (c): the REAL checking loop on the virtual clock.
//
// A real healthChecker (newHealthChecker) with a scripted session factory is
// started through the API the cluster uses (SetHealthCheckerHostSet, Start,
// Stop, all under one harness mutex that stands for the cluster mutex); every
// host gets a real sessionChecker whose Start loop, check timer, timeout timer,
// OnCheck / OnTimeout goroutines run as threads of the controlled scheduler
// (rewrite set "healthcheck": every lock/atomic/channel/timer operation of
// pkg/upstream/healthcheck is a scheduling point, timers are virtual).
//
// Script: the n-th CheckHealth() call of a host answers per letter
//
//	S F   success / failure at once
//	a b   success / failure after timeout/2 (slow, in time; b is not in the enumerated alphabets)
//	s f   success / failure after exactly the timeout (same deadline as the
//	      timeout timer: both orders are explored)
//	H h   hangs until Session.OnTimeout() is called (the loop has handled the
//	      timeout), then returns success / failure: a late result
//	N     success after timeout + interval/2 (late, between two checks)
//	M     success after timeout + interval (late, same instant as the start of
//	      the next check if this one timed out)
//	L     success after timeout + interval + timeout/4 (late, lands inside the
//	      next check when that one is slow)
//
// calls beyond the script answer S. The host is a harness fake with an atomic
// flag word and one scheduling point per operation (the real host word is the
// subject of unit "flags"; pkg/upstream/cluster imports this package).
//
// Oracles, evaluated on the event log of each execution:
//
//	(1) rounds: a check begins where OnCheck counts its attempt (the increment
//	    of the attempt counter precedes the arming of the timeout; CheckHealth is
//	    reached at the same instant unless the thread is delayed). Between the
//	    beginning of check n and the beginning of check n+1 exactly
//	    one outcome is counted for check n: either its result (a callback whose
//	    isHealthy equals what CheckHealth returned, after it returned) or a
//	    timeout (Session.OnTimeout then a failure callback, not before the
//	    timeout elapsed on the virtual clock). Where both are possible (same
//	    deadline, or a schedule that delays a thread) either is accepted, never
//	    both. In executions without any costly deviation (virtual time passes
//	    only when no thread can run) a result returned strictly before the
//	    deadline must be the counted outcome. The counted outcomes drive the
//	    reference automaton (u consecutive failed checks => unhealthy, h
//	    consecutive successes => healthy; timeout = failure): after every counted
//	    outcome the FAILED_ACTIVE_HC condition of the host must equal the
//	    automaton state.
//	(2) the checker never sets/clears another condition; the other bits of the
//	    word are what the environment thread wrote last.
//	(3) callbacks (AddHostCheckCompleteCb and a common callback from the
//	    registry): same number of invocations, changed=true exactly on automaton
//	    transitions with isHealthy = direction; stats counters attempt/success/
//	    failure/network_failure/active_failure move by exactly the numbers of
//	    checks started / outcomes counted. Not compared (statement silent):
//	    isHealthy of changed=false callbacks beyond "it is the counted outcome",
//	    the healthy gauge, the time between checks.
//	(4) sessions: one NewSession per host added, none for hosts already checked
//	    (also when Start is called after the host set was installed); after a
//	    host is removed at most the one check / one outcome that were in flight
//	    follow; after Stop() and quiescence no timer is armed, no check starts,
//	    nothing is counted.
//	(5) the loop never stalls (k rounds are reached unless stopped), no panic,
//	    no thread is left blocked after Stop and quiescence.

const (
	c16lUnit     = time.Millisecond
	c16lInitial  = 2 // initial delay, units
	c16lOther    = api.FAILED_OUTLIER_CHECK
	c16lPartName = "healthcheck-loop"
	c16lCommonCb = "verif-c16-loop"
)

type c16lEnvOp struct {
	Kind string `json:"kind"` // stop | add | remove | outlier
	At   int    `json:"at"`   // virtual time, units
	Host int    `json:"host"` // remove: which host; outlier: which host
	Len  int    `json:"len"`  // outlier: how long the other condition stays set (units)
}

type c16lCase struct {
	Layer         string      `json:"layer"`
	U             uint32      `json:"unhealthy_threshold"`
	H             uint32      `json:"healthy_threshold"`
	InitUnhealthy bool        `json:"init_unhealthy"`
	Timeout       int         `json:"timeout"`  // units
	Interval      int         `json:"interval"` // units
	Scripts       []string    `json:"scripts"`  // per host (host 1, if any, is added by an env op or at start)
	Hosts         int         `json:"hosts"`    // hosts in the set when checking starts (1 or 2)
	CallStart     bool        `json:"call_start"`
	Env           []c16lEnvOp `json:"env,omitempty"`
	Rounds        int         `json:"rounds"`
	Bound         int         `json:"bound"`
	Delay         bool        `json:"delay_bounding"`
	MaxExecs      int         `json:"max_execs"`
	Choices       []int       `json:"choices,omitempty"`
}

// ---------------------------------------------------------------------------
// environment: fake host, scripted session, event log

type c16lEv struct {
	K    byte // s check start, e check end, o Session.OnTimeout, c direct callback, k common callback, f flag op, n new session, r removed, x stop+quiescent marker, p hc.Stop called
	T    int64
	N    int
	B1   bool // e: result; c/k: changed; f: set
	B2   bool // c/k: isHealthy
	W    uint64
	Flag uint64
	Th   string
	Same bool  // c/k: host object identity
	From int   // s: index in the host's log at which the attempt of this check was counted (the check began there)
	TA   int64 // s: time of that attempt
}

// c16lAttempt wraps the attempt counter of the health checker: OnCheck counts the attempt right
// before it arms the timeout of the check, so the time of the Inc is a lower bound of the moment the
// timeout was armed (the check "begins" there, CheckHealth may be reached later if the thread is
// delayed).
type c16lAttempt struct {
	gometrics.Counter
	x *c16lExec
}

type c16lAttSnap struct {
	t    int64
	lens []int
}

func (a *c16lAttempt) Inc(n int64) {
	a.Counter.Inc(n)
	x := a.x
	if t := vrt.Cur(); t != nil {
		sn := c16lAttSnap{t: x.now()}
		for _, h := range x.hosts {
			sn.lens = append(sn.lens, len(h.ev))
		}
		x.att[t.ID] = sn
	}
}

type c16lHost struct {
	types.Host
	x    *c16lExec
	idx  int
	addr string
	word uint64
	ev   []c16lEv
}

func (h *c16lHost) AddressString() string { return h.addr }
func (h *c16lHost) Hostname() string      { return h.addr }
func (h *c16lHost) who() string {
	if t := vrt.Cur(); t != nil {
		return t.Name
	}
	return "?"
}
func (h *c16lHost) SetHealthFlag(f api.HealthFlag) {
	vrt.PointAtomic()
	h.word |= uint64(f)
	h.ev = append(h.ev, c16lEv{K: 'f', T: h.x.now(), B1: true, Flag: uint64(f), W: h.word, Th: h.who()})
}
func (h *c16lHost) ClearHealthFlag(f api.HealthFlag) {
	vrt.PointAtomic()
	h.word &^= uint64(f)
	h.ev = append(h.ev, c16lEv{K: 'f', T: h.x.now(), B1: false, Flag: uint64(f), W: h.word, Th: h.who()})
}
func (h *c16lHost) ContainHealthFlag(f api.HealthFlag) bool {
	vrt.PointAtomic()
	return h.word&uint64(f) != 0
}
func (h *c16lHost) HealthFlag() api.HealthFlag { return api.HealthFlag(h.word) }
func (h *c16lHost) Health() bool               { return h.word == 0 }

type c16lHostSet struct{ hosts []types.Host }

func (s *c16lHostSet) Size() int            { return len(s.hosts) }
func (s *c16lHostSet) Get(i int) types.Host { return s.hosts[i] }
func (s *c16lHostSet) Range(f func(types.Host) bool) {
	for _, h := range s.hosts {
		if !f(h) {
			return
		}
	}
}

type c16lSession struct {
	x        *c16lExec
	h        *c16lHost
	calls    int
	timeouts int
}

func (s *c16lSession) CheckHealth() bool {
	x := s.x
	n := s.calls
	s.calls++
	letter := byte('S')
	if sc := x.c.Scripts[s.h.idx]; n < len(sc) {
		letter = sc[n]
	}
	ev := c16lEv{K: 's', T: x.now(), N: n, W: s.h.word, From: len(s.h.ev), TA: x.now()}
	if t := vrt.Cur(); t != nil {
		if sn, ok := x.att[t.ID]; ok {
			ev.From, ev.TA = sn.lens[s.h.idx], sn.t
			delete(x.att, t.ID)
		}
	}
	s.h.ev = append(s.h.ev, ev)
	res, dur, hang := c16lLetter(letter, x.c.Timeout, x.c.Interval)
	if hang {
		rel := s.timeouts
		vrt.WaitUntil("scripted hang", func() bool { return s.timeouts > rel || x.releaseAll })
	} else if dur > 0 {
		vrt.Sleep(time.Duration(dur) * c16lUnit / 4)
	}
	s.h.ev = append(s.h.ev, c16lEv{K: 'e', T: x.now(), N: n, B1: res})
	return res
}

func (s *c16lSession) OnTimeout() {
	s.timeouts++
	s.h.ev = append(s.h.ev, c16lEv{K: 'o', T: s.x.now()})
}

// c16lLetter: result, duration in QUARTER units, hang
func c16lLetter(l byte, timeout, interval int) (bool, int, bool) {
	switch l {
	case 'S':
		return true, 0, false
	case 'F':
		return false, 0, false
	case 'a':
		return true, 2 * timeout, false
	case 'b':
		return false, 2 * timeout, false
	case 's':
		return true, 4 * timeout, false
	case 'f':
		return false, 4 * timeout, false
	case 'H':
		return true, 0, true
	case 'h':
		return false, 0, true
	case 'N':
		return true, 4*timeout + 2*interval, false
	case 'M':
		return true, 4*timeout + 4*interval, false
	case 'L':
		return true, 4*timeout + 4*interval + timeout, false
	}
	panic("C16 loop harness: bad script letter " + string(l))
}

type c16lFactory struct{ x *c16lExec }

func (f *c16lFactory) NewSession(cfg map[string]interface{}, host types.Host) types.HealthCheckSession {
	h, ok := host.(*c16lHost)
	if !ok {
		f.x.harnessErr = "NewSession called with a foreign host object"
		return nil
	}
	s := &c16lSession{x: f.x, h: h}
	h.ev = append(h.ev, c16lEv{K: 'n', T: f.x.now(), W: h.word})
	return s
}

type c16lExec struct {
	c          c16lCase
	hc         *healthChecker
	hosts      []*c16lHost
	inSet      []bool
	mu         vsync.Mutex // stands for the cluster mutex ("only called in cluster, lock in cluster")
	stopped    bool
	envDone    int
	releaseAll bool
	armedAfter int
	harnessErr string
	stats0     [5]int64
	stats1     [5]int64
	gauge      int64
	otherLast  []int // per host: -1 untouched, 0 cleared, 1 set (by the environment)
	att        map[int]c16lAttSnap
}

func (x *c16lExec) now() int64 { return int64(vrt.Now()) }

var c16lSink *c16lExec

// executions that ran into the step limit: after a few of them the remaining scenarios are skipped
// (each such execution costs thousands of steps; the finding is already recorded)
var c16lStepLimits int

func init() {
	RegisterCommonCallbacks(c16lCommonCb, types.HealthCheckCb(func(h types.Host, changed, isHealthy bool) {
		if x := c16lSink; x != nil {
			if fh, ok := h.(*c16lHost); ok && fh.x == x {
				fh.ev = append(fh.ev, c16lEv{K: 'k', T: x.now(), B1: changed, B2: isHealthy, W: fh.word, Same: true})
			} else {
				x.harnessErr = "common callback invoked with a foreign host object"
			}
		}
	}))
}

func (x *c16lExec) readStats() [5]int64 {
	s := x.hc.stats
	return [5]int64{s.attempt.Count(), s.success.Count(), s.failure.Count(), s.networkFailure.Count(), s.activeFailure.Count()}
}

func (x *c16lExec) counted(h *c16lHost) int {
	n := 0
	for i := range h.ev {
		if h.ev[i].K == 'c' {
			n++
		}
	}
	return n
}

func (x *c16lExec) installSet() {
	var hs []types.Host
	for i, h := range x.hosts {
		if x.inSet[i] {
			hs = append(hs, h)
		}
	}
	x.hc.SetHealthCheckerHostSet(&c16lHostSet{hosts: hs})
}

// body runs as thread 0 of one execution.
func (x *c16lExec) body() {
	c := x.c
	c16lSink = x
	cfg := v2.HealthCheck{}
	cfg.UnhealthyThreshold = c.U
	cfg.HealthyThreshold = c.H
	cfg.ServiceName = "verif-c16-loop"
	cfg.CommonCallbacks = []string{c16lCommonCb}
	cfg.Timeout = time.Duration(c.Timeout) * c16lUnit
	cfg.Interval = time.Duration(c.Interval) * c16lUnit
	cfg.IntervalJitter = 1 // Int63n(1) == 0: no jitter
	cfg.InitialDelaySeconds.Duration = c16lInitial * c16lUnit
	hc, ok := newHealthChecker(cfg, &c16lFactory{x: x}).(*healthChecker)
	if !ok {
		x.harnessErr = "newHealthChecker does not return *healthChecker"
		return
	}
	x.hc = hc
	x.att = map[int]c16lAttSnap{}
	hc.stats.attempt = &c16lAttempt{Counter: hc.stats.attempt, x: x}
	x.stats0 = x.readStats()
	for i := range c.Scripts {
		h := &c16lHost{x: x, idx: i, addr: fmt.Sprintf("127.0.0.1:%d", 11616+i)}
		if c.InitUnhealthy {
			h.word |= uint64(api.FAILED_ACTIVE_HC)
		}
		x.hosts = append(x.hosts, h)
		x.inSet = append(x.inSet, false)
		x.otherLast = append(x.otherLast, -1)
	}
	hc.AddHostCheckCompleteCb(func(h types.Host, changed, isHealthy bool) {
		fh, ok := h.(*c16lHost)
		if !ok || fh.x != x {
			x.harnessErr = "callback invoked with a foreign host object"
			return
		}
		fh.ev = append(fh.ev, c16lEv{K: 'c', T: x.now(), B1: changed, B2: isHealthy, W: fh.word, Same: true})
	})
	// the cluster installs the host set under its mutex; two hosts are installed one after the
	// other (findNewAndDeleteHost ranges over a map: the start order of two new hosts is random)
	x.mu.Lock()
	for i := 0; i < c.Hosts; i++ {
		x.inSet[i] = true
		x.installSet()
	}
	if c.CallStart {
		hc.Start()
	}
	x.mu.Unlock()
	for _, op := range c.Env {
		op := op
		vrt.GoNamed("env-"+op.Kind, func() {
			vrt.Sleep(time.Duration(op.At) * c16lUnit)
			switch op.Kind {
			case "stop":
				x.mu.Lock()
				hc.Stop()
				x.stopped = true
				for _, h := range x.hosts {
					h.ev = append(h.ev, c16lEv{K: 'p', T: x.now()})
				}
				x.mu.Unlock()
			case "add":
				x.mu.Lock()
				if !x.stopped {
					x.inSet[op.Host] = true
					x.installSet()
				}
				x.mu.Unlock()
			case "remove":
				x.mu.Lock()
				if !x.stopped && x.inSet[op.Host] {
					x.inSet[op.Host] = false
					x.installSet()
					h := x.hosts[op.Host]
					h.ev = append(h.ev, c16lEv{K: 'r', T: x.now()})
				}
				x.mu.Unlock()
			case "outlier":
				h := x.hosts[op.Host]
				h.SetHealthFlag(c16lOther)
				x.otherLast[op.Host] = 1
				vrt.Sleep(time.Duration(op.Len) * c16lUnit)
				h.ClearHealthFlag(c16lOther)
				x.otherLast[op.Host] = 0
			}
			x.envDone++
		})
	}
	// horizon: every host in the set has had its rounds counted (hosts added later: 2), or Stop
	vrt.WaitUntil("horizon", func() bool {
		if x.envDone < len(c.Env) {
			return false
		}
		if x.stopped {
			return true
		}
		for i, h := range x.hosts {
			if !x.inSet[i] {
				continue
			}
			need := c.Rounds
			if i >= c.Hosts {
				need = 2
			}
			if x.counted(h) < need {
				return false
			}
		}
		return true
	})
	x.mu.Lock()
	if !x.stopped {
		hc.Stop()
		x.stopped = true
		for _, h := range x.hosts {
			h.ev = append(h.ev, c16lEv{K: 'p', T: x.now()})
		}
	}
	x.mu.Unlock()
	vrt.QuiesceNoTimers()
	x.armedAfter = vrt.ArmedTimers()
	for _, h := range x.hosts {
		h.ev = append(h.ev, c16lEv{K: 'x', T: x.now()})
	}
	x.releaseAll = true
	vrt.Quiesce()
	x.stats1 = x.readStats()
	x.gauge = hc.stats.healthy.Value()
}

// ---------------------------------------------------------------------------
// judge

type c16lFinding struct{ key, detail string }

func (x *c16lExec) judge(r *vrt.Result, outcome *strings.Builder) []c16lFinding {
	var out []c16lFinding
	add := func(k, d string) { out = append(out, c16lFinding{k, d}) }
	c := x.c
	if x.harnessErr != "" {
		add("harness: "+x.harnessErr, "")
		return out
	}
	if r.StepLimit {
		c16lStepLimits++
		if x.stopped {
			add("after Stop: the sessions keep checking for ever (execution hits the step limit)", r.StepLimitStack)
		} else {
			add("loop: execution does not terminate (step limit)", r.StepLimitStack)
		}
		return out
	}
	if r.Diverged != "" {
		add("harness: replay divergence", r.Diverged)
		return out
	}
	for _, p := range r.Panics {
		add("loop: panic in a checker goroutine", p)
	}
	for _, p := range r.Recovered {
		add("loop: panic recovered in a checker goroutine", p)
	}
	if x.hc == nil {
		return out
	}
	tmo := int64(time.Duration(c.Timeout) * c16lUnit)
	strict := r.Cost == 0
	totalStarts, totalS, totalF, totalT := 0, 0, 0, 0
	for hi, h := range x.hosts {
		where := fmt.Sprintf("u=%d h=%d init_unhealthy=%v timeout=%d interval=%d script=%q host=%d env=%+v", c.U, c.H, c.InitUnhealthy, c.Timeout, c.Interval, c.Scripts[hi], hi, c.Env)
		// (4) sessions
		nNew := 0
		for _, e := range h.ev {
			if e.K == 'n' {
				nNew++
			}
		}
		wantNew := 0
		if hi < c.Hosts {
			wantNew = 1
		}
		for _, op := range c.Env {
			if op.Kind == "add" && op.Host == hi && hi >= c.Hosts {
				wantNew = 1 // unless Stop came first: then 0 or 1
			}
		}
		hasStop := false
		for _, op := range c.Env {
			if op.Kind == "stop" {
				hasStop = true
			}
		}
		if nNew > 1 {
			add("sessions: more than one health check session created for one host", fmt.Sprintf("%s: %d sessions", where, nNew))
		} else if nNew == 0 && wantNew == 1 && (hi < c.Hosts || !hasStop) {
			add("sessions: no health check session created for a host of the set", where)
		}
		// automaton
		unhealthy := c.InitUnhealthy
		var fs, ss uint32
		type seg struct {
			n          int
			start      int64
			hasEnd     bool
			end        int64
			res        bool
			pat        []c16lEv // o / c events
			closedNext bool     // a later check started
			counted    int      // outcomes counted for this check
			lastKind   byte
			pendingOT  bool // Session.OnTimeout seen, its failure not yet counted
		}
		var cur *seg
		bad := false
		nCommon, nDirect := 0, 0
		afterRemove, afterX := false, false
		startsAfterRemove, countedAfterRemove := 0, 0
		feed := func(kind byte, cb c16lEv, sg *seg) {
			// kind: S F T
			transition := ""
			if kind == 'S' {
				ss++
				fs = 0
				if unhealthy && ss == c.H {
					unhealthy = false
					transition = "healthy"
				}
			} else {
				fs++
				ss = 0
				if !unhealthy && fs == c.U {
					unhealthy = true
					transition = "unhealthy"
				}
			}
			kn := map[byte]string{'S': "success", 'F': "failure", 'T': "timeout"}[kind]
			at := fmt.Sprintf("%s check %d counted as %s (%d consecutive failed, %d consecutive successful)", where, sg.n+1, kn, fs, ss)
			got := cb.W&uint64(api.FAILED_ACTIVE_HC) != 0
			fmt.Fprintf(outcome, "%c%s", kind, map[string]string{"": "", "healthy": "^", "unhealthy": "v"}[transition])
			if got != unhealthy {
				var key string
				switch {
				case got && kind != 'S':
					key = "loop thresholds: host marked unhealthy on a " + kn + " that is not the unhealthy_threshold-th consecutive failed check"
				case got:
					key = "loop thresholds: host not marked healthy at the healthy_threshold-th consecutive success"
				case kind == 'S':
					key = "loop thresholds: host marked healthy on a success that is not the healthy_threshold-th consecutive one"
				default:
					key = "loop thresholds: host not marked unhealthy at the unhealthy_threshold-th consecutive failed check (" + kn + ")"
				}
				add(key, fmt.Sprintf("%s: reference says active-HC condition set=%v, host has set=%v", at, unhealthy, got))
				bad = true
				return
			}
			switch {
			case transition == "" && cb.B1:
				add("loop callback: changed=true reported without a transition (on "+kn+")", at)
				bad = true
			case transition != "" && !cb.B1:
				add("loop callback: transition to "+transition+" not reported as changed", at)
				bad = true
			case transition != "" && cb.B2 != (transition == "healthy"):
				add("loop callback: changed=true reported with isHealthy contradicting the transition to "+transition, at)
				bad = true
			}
		}
		segDesc := func(sg *seg) string {
			at := fmt.Sprintf("%s check %d (started t=%v, script %q", where, sg.n+1, time.Duration(sg.start), c16lScriptLetter(c.Scripts[hi], sg.n))
			if sg.hasEnd {
				at += fmt.Sprintf(", CheckHealth returned %v at t=%v", sg.res, time.Duration(sg.end))
			} else {
				at += ", CheckHealth has not returned"
			}
			return at + fmt.Sprintf(", timeout deadline t=%v; handled so far: %s)", time.Duration(sg.start+tmo), c16lPat(sg.pat))
		}
		// the key says whether the schedule needed a delayed thread (a costly deviation): the same
		// signature in a schedule without any delay is a different, more serious class
		sched := " [schedule with delayed threads]"
		if strict {
			sched = " [schedule without delays]"
		}
		anomaly := func(key string, sg *seg) {
			if !bad {
				add(key+sched, segDesc(sg))
				bad = true
			}
		}
		// the events of one check are judged in order; the first anomaly names the finding
		onTimeoutEv := func(sg *seg, e c16lEv) {
			sg.pat = append(sg.pat, e)
			switch {
			case bad:
			case sg.pendingOT:
				anomaly("loop rounds: timeout handled without counting a failed check", sg)
			case e.T < sg.start+tmo:
				anomaly("loop rounds: a timeout is counted against a check whose timeout has not elapsed", sg)
			case sg.counted > 0 && sg.lastKind != 'T':
				anomaly("loop rounds: one check counted twice (its result, then its timeout as a further failed check)", sg)
			case sg.counted > 0:
				anomaly("loop rounds: two timeouts counted for one check", sg)
			default:
				sg.pendingOT = true
			}
		}
		onCounted := func(sg *seg, cb c16lEv) {
			sg.pat = append(sg.pat, cb)
			if bad {
				return
			}
			if sg.pendingOT {
				sg.pendingOT = false
				if cb.B2 {
					anomaly("loop rounds: timeout counted as a success", sg)
					return
				}
				if strict && sg.hasEnd && sg.end < sg.start+tmo {
					anomaly("loop rounds: result returned before the timeout is dropped and the check counted as a timeout", sg)
					return
				}
				sg.counted++
				sg.lastKind = 'T'
				totalT++
				feed('T', cb, sg)
				return
			}
			if sg.counted > 0 {
				if sg.lastKind == 'T' {
					anomaly("loop rounds: one check counted twice (its timeout, then its late result)", sg)
				} else {
					anomaly("loop rounds: one check counted twice (two results)", sg)
				}
				return
			}
			if !sg.hasEnd || sg.end > cb.T {
				anomaly("loop rounds: a result is counted that CheckHealth had not returned", sg)
				return
			}
			if sg.res != cb.B2 {
				anomaly("loop rounds: counted result differs from what CheckHealth returned", sg)
				return
			}
			sg.counted++
			if cb.B2 {
				sg.lastKind = 'S'
				totalS++
				feed('S', cb, sg)
			} else {
				sg.lastKind = 'F'
				totalF++
				feed('F', cb, sg)
			}
		}
		closeSeg := func(sg *seg) {
			if sg == nil {
				return
			}
			if sg.counted == 0 && !bad {
				fmt.Fprintf(outcome, "_")
			}
			switch {
			case bad:
			case sg.pendingOT:
				anomaly("loop rounds: timeout handled without counting a failed check", sg)
			case sg.counted == 0 && sg.closedNext:
				anomaly("loop rounds: next check started although the previous check was never counted", sg)
			}
		}
		// a check begins where its attempt was counted (From), which may be before CheckHealth is reached
		begins := map[int]c16lEv{}
		for _, e := range h.ev {
			if e.K == 's' {
				begins[e.From] = e
			}
		}
		opened := -1
		for i, e := range h.ev {
			if b, ok := begins[i]; ok && b.N != opened {
				if cur != nil {
					cur.closedNext = true
				}
				closeSeg(cur)
				cur = &seg{n: b.N, start: b.TA}
				opened = b.N
			}
			switch e.K {
			case 's':
				totalStarts++
				if afterX {
					add("after Stop: a new check is started when everything had come to rest", where+fmt.Sprintf(" check %d at t=%v", e.N+1, time.Duration(e.T)))
				}
				if afterRemove {
					startsAfterRemove++
				}
			case 'e':
				if cur != nil && cur.n == e.N {
					cur.hasEnd, cur.end, cur.res = true, e.T, e.B1
				}
				// a result of an older check returned late: nothing to record
			case 'o':
				if cur != nil {
					onTimeoutEv(cur, e)
				} else if !bad {
					add("loop rounds: Session.OnTimeout before any check", where)
					bad = true
				}
			case 'c':
				nDirect++
				if afterX {
					add("after Stop: an outcome is counted when everything had come to rest", where)
				}
				if afterRemove {
					countedAfterRemove++
				}
				if cur != nil {
					onCounted(cur, e)
				} else if !bad {
					add("loop rounds: outcome counted before any check", where)
					bad = true
				}
			case 'k':
				nCommon++
			case 'f':
				if !strings.HasPrefix(e.Th, "env-") && e.Flag != uint64(api.FAILED_ACTIVE_HC) {
					add("loop flags: the checker sets or clears a condition other than FAILED_ACTIVE_HC", fmt.Sprintf("%s: thread %s set=%v flag %#x", where, e.Th, e.B1, e.Flag))
				}
			case 'r':
				afterRemove = true
			case 'x':
				afterX = true
			}
		}
		closeSeg(cur)
		fmt.Fprintf(outcome, "|")
		if nCommon != nDirect {
			add("loop callback: registered callbacks are not invoked the same number of times", fmt.Sprintf("%s: AddHostCheckCompleteCb %d, common callback %d", where, nDirect, nCommon))
		}
		if startsAfterRemove > 1 || countedAfterRemove > 1 {
			add("sessions: host removed from the set but its session keeps checking", fmt.Sprintf("%s: %d checks started and %d outcomes counted after the removal", where, startsAfterRemove, countedAfterRemove))
		}
		// (2) other conditions
		other := h.word&uint64(c16lOther) != 0
		wantOther := x.otherLast[hi] == 1
		if other != wantOther {
			add("loop flags: another condition of the word lost or invented", fmt.Sprintf("%s: outlier condition is set=%v, environment wrote set=%v last (word %#x)", where, other, wantOther, h.word))
		}
		if extra := h.word &^ uint64(api.FAILED_ACTIVE_HC|c16lOther); extra != 0 {
			add("loop flags: another condition of the word lost or invented", fmt.Sprintf("%s: unexpected bits %#x", where, extra))
		}
		// final state of the active condition = automaton state (if nothing went wrong before)
		if !bad && (h.word&uint64(api.FAILED_ACTIVE_HC) != 0) != unhealthy {
			add("loop thresholds: final FAILED_ACTIVE_HC condition differs from the automaton state", fmt.Sprintf("%s: word %#x, automaton unhealthy=%v", where, h.word, unhealthy))
		}
		if bad {
			fmt.Fprintf(outcome, "!")
		}
	}
	// (3) stats
	d := [5]int64{}
	for i := range d {
		d[i] = x.stats1[i] - x.stats0[i]
	}
	if len(out) == 0 {
		desc := fmt.Sprintf("u=%d h=%d timeout=%d interval=%d scripts=%q env=%+v: attempt +%d success +%d failure +%d network_failure +%d active_failure +%d; harness saw %d checks started, %d successes, %d failures, %d timeouts counted",
			c.U, c.H, c.Timeout, c.Interval, c.Scripts, c.Env, d[0], d[1], d[2], d[3], d[4], totalStarts, totalS, totalF, totalT)
		if d[0] != int64(totalStarts) {
			add("loop stats: attempt counter differs from the number of checks started", desc)
		}
		if d[1] != int64(totalS) {
			add("loop stats: success counter differs from the number of successes counted", desc)
		}
		if d[2] != int64(totalF+totalT) || d[3] != int64(totalT) || d[4] != int64(totalF) {
			add("loop stats: failure counters differ from the failures/timeouts counted", desc)
		}
	}
	// (4) after Stop
	sched := " [schedule with delayed threads]"
	if strict {
		sched = " [schedule without delays]"
	}
	if x.armedAfter != 0 {
		add("after Stop: a timer of a stopped session is still armed when everything has come to rest"+sched, fmt.Sprintf("u=%d h=%d timeout=%d interval=%d scripts=%q env=%+v: %d armed timer(s)", c.U, c.H, c.Timeout, c.Interval, c.Scripts, c.Env, x.armedAfter))
	}
	// (5) liveness
	if r.Deadlock {
		add("loop liveness: checking stalls before the rounds are done (no thread can run, no timer armed)", fmt.Sprintf("u=%d h=%d timeout=%d interval=%d scripts=%q env=%+v blocked=%v", c.U, c.H, c.Timeout, c.Interval, c.Scripts, c.Env, r.Blocked))
	} else if len(r.Blocked) > 0 {
		loop, timers, others := 0, 0, 0
		for _, b := range r.Blocked {
			switch {
			case strings.Contains(b, "(GoWithRecover)"):
				loop++
			case strings.Contains(b, "(timer:utils.timer)"):
				timers++
			default:
				others++
			}
		}
		desc := fmt.Sprintf("u=%d h=%d timeout=%d interval=%d scripts=%q env=%+v blocked=%v", c.U, c.H, c.Timeout, c.Interval, c.Scripts, c.Env, r.Blocked)
		if loop > 0 {
			add("after Stop: a session loop is still blocked in its select (never saw the stop)"+sched, desc)
		}
		if timers > 0 {
			add("after Stop: OnCheck/OnTimeout goroutine blocked forever sending to the loop that has exited (goroutine leak)"+sched, desc)
		}
		if others > 0 {
			add("harness: harness thread left blocked", desc)
		}
	}
	return out
}

func c16lScriptLetter(s string, n int) string {
	if n < len(s) {
		return s[n : n+1]
	}
	return "S"
}

func c16lPat(p []c16lEv) string {
	var s []string
	for _, e := range p {
		if e.K == 'o' {
			s = append(s, fmt.Sprintf("OnTimeout@%v", time.Duration(e.T)))
		} else {
			s = append(s, fmt.Sprintf("counted(isHealthy=%v,changed=%v)@%v", e.B2, e.B1, time.Duration(e.T)))
		}
	}
	if len(s) == 0 {
		return "nothing"
	}
	return strings.Join(s, ", ")
}

// ---------------------------------------------------------------------------
// driver

func c16lRun(p *vreport.Part, c c16lCase, replay bool) (complete bool, execs int) {
	opts := vrt.Options{Bound: c.Bound, Delay: c.Delay, MaxSteps: 6000, MaxExecs: c.MaxExecs}
	if c16lStepLimits >= 8 && !replay {
		return false, 0
	}
	if replay {
		opts.Replay = true
		opts.Prefix = c.Choices
		opts.Trace = os.Getenv("VERIF_DEBUG") != ""
	}
	var x *c16lExec
	st := vrt.Explore(opts, func() {
		x = &c16lExec{c: c}
		if c16lStepLimits >= 8 && !replay {
			return
		}
		x.body()
	}, func(r *vrt.Result) {
		if c16lStepLimits >= 8 && !replay {
			return
		}
		p.Eval()
		var oc strings.Builder
		fs := x.judge(r, &oc)
		if opts.Trace {
			for _, l := range r.Trace {
				fmt.Println(l)
			}
			for hi, h := range x.hosts {
				for _, e := range h.ev {
					fmt.Printf("host%d %c t=%v n=%d b1=%v b2=%v word=%#x flag=%#x th=%s\n", hi, e.K, time.Duration(e.T), e.N, e.B1, e.B2, e.W, e.Flag, e.Th)
				}
			}
		}
		c16lSink = nil
		p.Outcome(oc.String())
		p.Distinct(fmt.Sprintf("%d|%d|%v|%d|%d|%q|%+v|%s", c.U, c.H, c.InitUnhealthy, c.Timeout, c.Interval, c.Scripts, c.Env, oc.String()))
		cc := c
		cc.Choices = append([]int(nil), r.Choices...)
		for _, f := range fs {
			p.Violation(f.key, f.detail+fmt.Sprintf(" [schedule cost %d, %d choice points]", r.Cost, len(r.Choices)), cc)
		}
		if len(fs) == 0 && p.WantSample() {
			p.Sample(map[string]interface{}{"case": c, "schedule_len": len(r.Choices), "outcomes": oc.String()})
		}
	})
	if os.Getenv("VERIF_DEBUG") != "" {
		fmt.Printf("case %+v: execs=%d maxdepth=%d complete=%v\n", c, st.Executions, st.MaxDepth, st.Complete)
	}
	p.AddTraces(st.Executions)
	return st.Complete, st.Executions
}

func TestVerifLoopC16(t *testing.T) {
	log.DefaultLogger.SetLogLevel(log.FATAL)
	p := vreport.Begin("C16", c16lPartName, time.Duration(vreport.Pick(3, 25))*time.Minute)
	if vreport.Replaying() {
		var rc c16lCase
		if vreport.ReplayFor("C16", c16lPartName, &rc) {
			c16lRun(p, rc, true)
			p.End(true, "replay", "replay of one recorded schedule")
		}
		return
	}
	if !c16lInstrumented() {
		vreport.HarnessError("C16", c16lPartName, "pkg/upstream/healthcheck is not instrumented (unit needs \"instrument\": \"healthcheck\")")
		return
	}
	if msg := c16lProbe(); msg != "" {
		vreport.HarnessError("C16", c16lPartName, msg)
		return
	}
	cases := c16lCases()
	layerWall := map[string]float64{}
	complete := true
	total := 0
	capped := 0
	for _, c := range cases {
		if p.Expired() {
			complete = false
			break
		}
		t0 := time.Now()
		ok, n := c16lRun(p, c, false)
		total += n
		p.Count("executions_"+c.Layer, n)
		p.Count("scenarios_"+c.Layer, 1)
		layerWall[c.Layer] += time.Since(t0).Seconds()
		if !ok {
			capped++
		}
	}
	p.Note("scenarios", len(cases))
	if os.Getenv("VERIF_DEBUG") != "" {
		fmt.Printf("layer wall seconds: %v\n", layerWall)
	}
	p.Note("executions", total)
	p.Note("scenarios_cut_by_max_execs", capped)
	k := vreport.Pick(4, 6)
	p.End(complete && capped == 0,
		fmt.Sprintf("A1: 1 host, every script over {S,F,H,s}^%d x thresholds {1,2,3}^2 x initial state x (timeout,interval) in {(4,8),(4,4),(8,4)}, all schedules without preemption (both orders of equal-deadline timers); A2: every script over {S,F,a,H,h,s,f,N,M,L}^%d x thresholds {(1,1),(2,2),(2,3),(3,2)} x initial state x the 3 timings, same schedules; B1: %d scripts x timings, no environment thread, preemption bound %d; B2: Stop / outlier condition (thorough: both) at every %s instant of the first two rounds, preemption bound 1%s; B3: host added / removed (with Start() after the set was installed, outlier thread, thorough: +Stop, +second change) at every %s instant, delay bound 1%s; B layers capped per scenario by MaxExecs in deterministic DFS order (%d scenarios cut)",
			k, vreport.Pick(3, 4), len(c16lPool()), vreport.Pick(2, 3), map[bool]string{false: "2nd", true: ""}[vreport.Thorough()], map[bool]string{false: " (+4 scenarios at bound 2)", true: " complete-or-capped then bound 2 capped"}[vreport.Thorough()], map[bool]string{false: "4th", true: ""}[vreport.Thorough()], map[bool]string{false: "", true: " then 2 capped"}[vreport.Thorough()], capped),
		"one evaluation = one complete execution of the real loop under the scheduler (k rounds, Stop, quiescence); distinct = (scenario, sequence of counted outcomes and transitions per host); outcome = that sequence")
}

// c16lInstrumented: the rewrite set replaces utils.Timer by the virtual one; without it the
// loop would run on the wall clock.
func c16lInstrumented() bool {
	return strings.Contains(fmt.Sprint(reflect.TypeOf(sessionChecker{}.checkTimer)), "vutils.Timer")
}

// c16lProbe runs one execution with a hanging check. The Go spec evaluates the value of a send
// statement before the communication starts; a rewrite that evaluates CheckHealth() after the
// loop has been committed to `<-c.resp` can never deliver the timeout: the probe deadlocks.
func c16lProbe() string {
	c := c16lCase{U: 1, H: 1, Timeout: 4, Interval: 8, Scripts: []string{"H"}, Hosts: 1, Rounds: 1, Bound: 0, MaxExecs: 1}
	var x *c16lExec
	msg := ""
	vrt.Explore(vrt.Options{Bound: 0, MaxExecs: 1, MaxSteps: 20000}, func() {
		x = &c16lExec{c: c}
		x.body()
	}, func(r *vrt.Result) {
		c16lSink = nil
		if r.Deadlock && len(x.hosts) == 1 && x.counted(x.hosts[0]) == 0 {
			msg = fmt.Sprintf("probe (one hanging check) did not end by its timeout: deadlock=%v blocked=%v counted=%d — the rewrite evaluates the value of `c.resp <- checkResponse{..CheckHealth()}` after vrt.BeforeSend (engine/cmd/vrewrite must hoist send values that contain calls)", r.Deadlock, r.Blocked, x.counted(x.hosts[0]))
		}
	})
	return msg
}

// c16lCases enumerates the scenarios (complete products over the stated sets; sizes per tier).
func c16lCases() []c16lCase {
	var out []c16lCase
	thorough := vreport.Thorough()
	k := vreport.Pick(4, 6)
	cfgs := [][2]int{{4, 8}, {4, 4}, {8, 4}}
	words := func(alpha string, n int) []string {
		var ws []string
		var rec func(pre string)
		rec = func(pre string) {
			if len(pre) == n {
				ws = append(ws, pre)
				return
			}
			for i := 0; i < len(alpha); i++ {
				rec(pre + alpha[i:i+1])
			}
		}
		rec("")
		return ws
	}
	only := os.Getenv("C16L_LAYER")
	want := func(l string) bool { return only == "" || only == l }
	// layer A1: every script over {S,F,H,s} of k rounds x every threshold pair x initial state x timing;
	// all schedules without preemption (both orders of equal-deadline timers)
	if want("A1") {
		for _, sc := range words("SFHs", k) {
			for _, cf := range cfgs {
				for u := uint32(1); u <= 3; u++ {
					for h := uint32(1); h <= 3; h++ {
						for _, iu := range []bool{false, true} {
							out = append(out, c16lCase{Layer: "A1", U: u, H: h, InitUnhealthy: iu, Timeout: cf[0], Interval: cf[1], Scripts: []string{sc}, Hosts: 1, Rounds: k, Bound: 0, MaxExecs: 256})
						}
					}
				}
			}
		}
	}
	// layer A2: the full alphabet (slow, tie and late answers), 3 (thorough 4) rounds scripted, one more round answered S
	if want("A2") {
		n := vreport.Pick(3, 4)
		for _, sc := range words("SFaHhsfNML", n) {
			for _, cf := range cfgs {
				for _, th := range [][2]uint32{{1, 1}, {2, 2}, {2, 3}, {3, 2}} {
					for _, iu := range []bool{false, true} {
						out = append(out, c16lCase{Layer: "A2", U: th[0], H: th[1], InitUnhealthy: iu, Timeout: cf[0], Interval: cf[1], Scripts: []string{sc}, Hosts: 1, Rounds: n + 1, Bound: 0, MaxExecs: 256})
					}
				}
			}
		}
	}
	pool := c16lPool()
	// layer B1: one host, no environment thread, preemption-bounded
	if want("B1") {
		bcfgs := cfgs
		if !thorough {
			bcfgs = [][2]int{{4, 8}, {8, 4}}
		}
		for _, sc := range pool {
			for _, cf := range bcfgs {
				out = append(out, c16lCase{Layer: "B1", U: 2, H: 2, Timeout: cf[0], Interval: cf[1], Scripts: []string{sc}, Hosts: 1, Rounds: k, Bound: vreport.Pick(2, 3), MaxExecs: vreport.Pick(1500, 30000)})
			}
		}
	}
	// layer B2: one host; Stop at instant At, or the outlier condition set at At for 3 units, or both
	if want("B2") {
		step := vreport.Pick(2, 1)
		for _, sc := range pool[:vreport.Pick(2, 4)] {
			for _, cf := range [][2]int{{4, 8}, {8, 4}} {
				last := c16lInitial + 2*(cf[0]+cf[1])
				for at := c16lInitial; at <= last; at += step {
					envs := [][]c16lEnvOp{
						{{Kind: "stop", At: at}},
						{{Kind: "outlier", At: at, Len: 3}},
					}
					if thorough {
						envs = append(envs, []c16lEnvOp{{Kind: "outlier", At: c16lInitial, Len: at}, {Kind: "stop", At: at}})
					}
					for _, env := range envs {
						for _, iu := range []bool{false, true}[:vreport.Pick(1, 2)] {
							// complete (or nearly) at the lower bound first, then the capped deeper search
							out = append(out, c16lCase{Layer: "B2", U: 2, H: 1, InitUnhealthy: iu, Timeout: cf[0], Interval: cf[1], Scripts: []string{sc}, Hosts: 1, Rounds: k, Env: env, Bound: 1, MaxExecs: vreport.Pick(600, 3000)})
							if thorough {
								out = append(out, c16lCase{Layer: "B2", U: 2, H: 1, InitUnhealthy: iu, Timeout: cf[0], Interval: cf[1], Scripts: []string{sc}, Hosts: 1, Rounds: k, Env: env, Bound: 2, MaxExecs: 1200})
							}
						}
					}
				}
			}
		}
	}
	if want("B2") && !thorough {
		for _, at := range []int{c16lInitial, c16lInitial + 4} {
			out = append(out, c16lCase{Layer: "B2", U: 2, H: 1, Timeout: 4, Interval: 8, Scripts: []string{pool[1]}, Hosts: 1, Rounds: k, Env: []c16lEnvOp{{Kind: "stop", At: at}}, Bound: 2, MaxExecs: 1500})
			out = append(out, c16lCase{Layer: "B2", U: 2, H: 1, Timeout: 4, Interval: 8, Scripts: []string{pool[1]}, Hosts: 1, Rounds: k, Env: []c16lEnvOp{{Kind: "outlier", At: at, Len: 3}}, Bound: 2, MaxExecs: 1500})
		}
	}
	// layer B3: host set changes while checks run (delay-bounded: two sessions make the non-preemptive
	// choices alone explode); Start() called after the set was installed
	if want("B3") {
		step := vreport.Pick(4, 1)
		for _, sc := range pool[:2] {
			cf := [2]int{4, 8}
			last := c16lInitial + 2*(cf[0]+cf[1])
			for at := c16lInitial; at <= last; at += step {
				type v struct {
					hosts int
					env   []c16lEnvOp
				}
				vs := []v{
					{1, []c16lEnvOp{{Kind: "add", At: at, Host: 1}}},
					{2, []c16lEnvOp{{Kind: "remove", At: at, Host: 1}}},
					{2, []c16lEnvOp{{Kind: "remove", At: at, Host: 0}}},
					{1, []c16lEnvOp{{Kind: "add", At: at, Host: 1}, {Kind: "outlier", At: at, Host: 0, Len: 3}}},
				}
				if thorough {
					vs = append(vs, v{2, []c16lEnvOp{{Kind: "remove", At: at, Host: 1}, {Kind: "stop", At: at + 2}}},
						v{1, []c16lEnvOp{{Kind: "add", At: at, Host: 1}, {Kind: "remove", At: at + 6, Host: 0}}})
				}
				for _, x := range vs {
					out = append(out, c16lCase{Layer: "B3", U: 2, H: 2, Timeout: cf[0], Interval: cf[1], Scripts: []string{sc, "FSFS"}, Hosts: x.hosts, CallStart: true, Rounds: k, Env: x.env, Bound: 1, Delay: true, MaxExecs: vreport.Pick(400, 3000)})
					if thorough {
						out = append(out, c16lCase{Layer: "B3", U: 2, H: 2, Timeout: cf[0], Interval: cf[1], Scripts: []string{sc, "FSFS"}, Hosts: x.hosts, CallStart: true, Rounds: k, Env: x.env, Bound: 2, Delay: true, MaxExecs: 2200})
					}
				}
			}
		}
	}
	return out
}

func c16lPool() []string {
	if vreport.Thorough() {
		return []string{"SFSFSF", "HsaLaS", "FFSSFF", "sHfSHs", "SSSSSS", "hLaFSa"}
	}
	return []string{"SFSF", "HsaL", "FFSS", "sHfS"}
}
