//go:build verif

package healthcheck

import (
	"fmt"
	"testing"
	"time"

	"mosn.io/api"
	v2 "mosn.io/mosn/pkg/config/v2"
	"mosn.io/mosn/pkg/log"
	"mosn.io/mosn/pkg/types"
	"mosn.io/mosn/pkg/verifrt/vreport"
)

// C16 (b): thresholds of the active health checker are exact.
//
// For thresholds (u,h) in {1,2,3}^2, both initial states of the host's
// active-health-check condition (clear = healthy, the default of a new host;
// set = already failed, e.g. by an earlier checker of the same address), an
// unrelated condition (outlier ejection) clear or set, and EVERY result
// sequence over {success, failure, timeout} of length 1..L (quick 8, thorough
// 10; ascending length), the real sessionChecker of a real healthChecker (scripted session
// factory, two registered callbacks: one through AddHostCheckCompleteCb, one
// through the common-callback registry named in the config) is driven by
// calling its handlers directly — HandleSuccess, HandleFailure(FailureActive),
// and for a timeout what the Start loop does: Session.OnTimeout then
// HandleFailure(FailureNetwork). No goroutine or timer is started. Each
// sequence runs on fresh objects; the comparison is made after every step.
//
// Reference automaton, from the statement: the host becomes unhealthy exactly
// at the u-th consecutive failed check (failure or timeout), healthy again
// exactly at the h-th consecutive successful check; callbacks get changed=true
// on those transitions only, with isHealthy = the new state.
//
// First-check semantics: the implementation has no special first-check
// behaviour (a new host is healthy and needs u failures like any other), so
// nothing is excluded on that account. Not decided by the statement and
// therefore enumerated/recorded but NOT compared: the isHealthy argument of
// callbacks with changed=false (the implementation passes the result of the
// check, not the host state), whether a callback is invoked at all for a check
// without transition, the healthy-hosts gauge.
//
// The host is a harness fake with a plain flag word (pkg/upstream/cluster
// imports this package, its simpleHost cannot be used here); the flag-word
// semantics of the real host are the subject of part (a).

type c16tHost struct {
	types.Host
	addr string
	word api.HealthFlag
}

func (h *c16tHost) AddressString() string                   { return h.addr }
func (h *c16tHost) Hostname() string                        { return h.addr }
func (h *c16tHost) SetHealthFlag(f api.HealthFlag)          { h.word |= f }
func (h *c16tHost) ClearHealthFlag(f api.HealthFlag)        { h.word &^= f }
func (h *c16tHost) ContainHealthFlag(f api.HealthFlag) bool { return h.word&f != 0 }
func (h *c16tHost) HealthFlag() api.HealthFlag              { return h.word }
func (h *c16tHost) Health() bool                            { return h.word == 0 }

type c16tSession struct{ timeouts int }

func (s *c16tSession) CheckHealth() bool {
	panic("C16 harness: CheckHealth must not be reached, handlers are called directly")
}
func (s *c16tSession) OnTimeout() { s.timeouts++ }

type c16tFactory struct{ last *c16tSession }

func (f *c16tFactory) NewSession(cfg map[string]interface{}, host types.Host) types.HealthCheckSession {
	f.last = &c16tSession{}
	return f.last
}

type c16tCall struct {
	host      types.Host
	changed   bool
	isHealthy bool
}

// the common callback is registered once per process and forwards to the
// recorder of the case being run
var c16tCommonSink *[]c16tCall

const c16tCommonName = "verif-c16-thresholds"

func init() {
	RegisterCommonCallbacks(c16tCommonName, types.HealthCheckCb(func(h types.Host, changed, isHealthy bool) {
		if c16tCommonSink != nil {
			*c16tCommonSink = append(*c16tCommonSink, c16tCall{h, changed, isHealthy})
		}
	}))
}

type c16tCase struct {
	U             uint32 `json:"unhealthy_threshold"`
	H             uint32 `json:"healthy_threshold"`
	InitUnhealthy bool   `json:"init_unhealthy"`
	OtherFlag     bool   `json:"other_condition_set"`
	Seq           string `json:"seq"` // S success, F failure, T timeout
}

func TestVerifC16Thresholds(t *testing.T) {
	log.DefaultLogger.SetLogLevel(log.FATAL)
	p := vreport.Begin("C16", "healthcheck-thresholds", time.Duration(vreport.Pick(4, 15))*time.Minute)
	L := vreport.Pick(8, 10)
	alpha := []byte("SFT")
	complete := vreport.Run(p,
		func(yield func(c16tCase) bool) {
			// ascending length, so that the first counterexample is a shortest one
			for n := 1; n <= L; n++ {
				if !c16tGen(n, alpha, yield) {
					return
				}
			}
		},
		c16tCheck)
	p.End(complete,
		fmt.Sprintf("thresholds (u,h) in {1,2,3}^2 x initial active-HC condition {clear,set} x unrelated condition {clear,set} x every result sequence over {success,failure,timeout} of length 1..%d, compared after every step", L),
		"cartesian product; real healthChecker + sessionChecker driven through HandleSuccess/HandleFailure (timeout = Session.OnTimeout + HandleFailure(FailureNetwork)), no timers/goroutines; per step: host flag word and the changed/isHealthy arguments of both registered callbacks against the reference automaton; isHealthy of changed=false callbacks and the number of such callbacks are recorded, not compared; one evaluation = one (thresholds, initial state, sequence); distinct = (u,h,initial state, reference trace of transitions); outcome = (step result, transition, callback arguments)")
}

func c16tGen(L int, alpha []byte, yield func(c16tCase) bool) bool {
	seq := make([]byte, L)
	var rec func(i int) bool
	rec = func(i int) bool {
		if i == L {
			s := string(seq)
			for u := uint32(1); u <= 3; u++ {
				for h := uint32(1); h <= 3; h++ {
					for _, iu := range []bool{false, true} {
						for _, of := range []bool{false, true} {
							if !yield(c16tCase{U: u, H: h, InitUnhealthy: iu, OtherFlag: of, Seq: s}) {
								return false
							}
						}
					}
				}
			}
			return true
		}
		for _, a := range alpha {
			seq[i] = a
			if !rec(i + 1) {
				return false
			}
		}
		return true
	}
	return rec(0)
}

func c16tCheck(p *vreport.Part, c c16tCase) {
	if c.U == 0 || c.H == 0 || c.Seq == "" {
		return
	}
	f := &c16tFactory{}
	cfg := v2.HealthCheck{}
	cfg.UnhealthyThreshold = c.U
	cfg.HealthyThreshold = c.H
	cfg.ServiceName = "verif-c16"
	cfg.CommonCallbacks = []string{c16tCommonName}
	hc, ok := newHealthChecker(cfg, f).(*healthChecker)
	if !ok {
		p.Violation("harness: newHealthChecker does not return *healthChecker", "", c)
		return
	}
	var direct, common []c16tCall
	hc.AddHostCheckCompleteCb(func(h types.Host, changed, isHealthy bool) {
		direct = append(direct, c16tCall{h, changed, isHealthy})
	})
	c16tCommonSink = &common
	defer func() { c16tCommonSink = nil }()

	host := &c16tHost{addr: "127.0.0.1:11616"}
	if c.InitUnhealthy {
		host.word |= api.FAILED_ACTIVE_HC
	}
	if c.OtherFlag {
		host.word |= api.FAILED_OUTLIER_CHECK
	}
	s := f.NewSession(cfg.SessionConfig, host)
	chk := newChecker(s, host, hc)
	hc.checkers[host.AddressString()] = chk

	// reference automaton
	unhealthy := c.InitUnhealthy
	fs, ss := uint32(0), uint32(0)
	trace := ""
	for i := 0; i < len(c.Seq); i++ {
		r := c.Seq[i]
		direct, common = direct[:0], common[:0]
		pan := c16tStep(chk, s, r)
		if pan != "" {
			p.Violation("thresholds: handler panics", fmt.Sprintf("u=%d h=%d init_unhealthy=%v seq=%s step %d (%c): panic %s", c.U, c.H, c.InitUnhealthy, c.Seq, i+1, r, pan), c)
			return
		}
		c := c
		c.Seq = c.Seq[:i+1] // violations record the failing prefix only
		transition := ""
		kind := map[byte]string{'S': "success", 'F': "failure", 'T': "timeout"}[r]
		if r == 'S' {
			ss++
			fs = 0
			if unhealthy && ss == c.H {
				unhealthy = false
				transition = "healthy"
			}
		} else {
			fs++
			ss = 0
			if !unhealthy && fs == c.U {
				unhealthy = true
				transition = "unhealthy"
			}
		}
		where := fmt.Sprintf("u=%d h=%d init_unhealthy=%v other_condition=%v seq=%s step %d (%s; %d consecutive failures, %d consecutive successes)",
			c.U, c.H, c.InitUnhealthy, c.OtherFlag, c.Seq[:i+1], i+1, kind, fs, ss)
		switch transition {
		case "healthy":
			trace += fmt.Sprintf("h%d", i)
		case "unhealthy":
			trace += fmt.Sprintf("u%d", i)
		}

		// host state
		gotUnhealthy := host.ContainHealthFlag(api.FAILED_ACTIVE_HC)
		if gotUnhealthy != unhealthy {
			var key string
			switch {
			case gotUnhealthy && r != 'S':
				key = "thresholds: host marked unhealthy on a " + kind + " that is not the unhealthy_threshold-th consecutive failed check"
			case gotUnhealthy:
				key = "thresholds: host not marked healthy at the healthy_threshold-th consecutive success"
			case !gotUnhealthy && r == 'S':
				key = "thresholds: host marked healthy on a success that is not the healthy_threshold-th consecutive one"
			default:
				key = "thresholds: host not marked unhealthy at the unhealthy_threshold-th consecutive failed check (" + kind + ")"
			}
			p.Violation(key, fmt.Sprintf("%s: reference says active-HC condition set=%v, host has set=%v", where, unhealthy, gotUnhealthy), c)
			return // later steps would only repeat the divergence
		}
		if host.ContainHealthFlag(api.FAILED_OUTLIER_CHECK) != c.OtherFlag {
			p.Violation("thresholds: active health check lost or invented an unrelated health condition",
				fmt.Sprintf("%s: outlier condition was set=%v before, is set=%v now (word %#x)", where, c.OtherFlag, !c.OtherFlag, int(host.word)), c)
			return
		}
		// callbacks
		for ci, calls := range [][]c16tCall{direct, common} {
			cbName := [...]string{"AddHostCheckCompleteCb", "common-callback"}[ci]
			nChanged := 0
			for _, call := range calls {
				if call.host != types.Host(host) {
					p.Violation("callback: invoked with a different host object", where+" ("+cbName+")", c)
				}
				if call.changed {
					nChanged++
					if transition != "" && call.isHealthy != (transition == "healthy") {
						p.Violation("callback: changed=true reported with isHealthy contradicting the transition to "+transition,
							fmt.Sprintf("%s (%s): isHealthy=%v", where, cbName, call.isHealthy), c)
					}
				}
				p.Outcome(fmt.Sprintf("%s tr=%q changed=%v isHealthy=%v hostUnhealthy=%v", kind, transition, call.changed, call.isHealthy, unhealthy))
			}
			if len(calls) == 0 {
				p.Outcome(fmt.Sprintf("%s tr=%q no-callback", kind, transition))
			}
			switch {
			case transition == "" && nChanged > 0:
				p.Violation("callback: changed=true reported without a transition (on "+kind+")",
					fmt.Sprintf("%s (%s): host state did not change (unhealthy=%v) but %d callback invocation(s) had changed=true: %+v", where, cbName, unhealthy, nChanged, c16tFmt(calls)), c)
			case transition != "" && nChanged == 0:
				p.Violation("callback: transition to "+transition+" not reported as changed",
					fmt.Sprintf("%s (%s): host became %s, callback invocations: %+v", where, cbName, transition, c16tFmt(calls)), c)
			case transition != "" && nChanged > 1:
				p.Violation("callback: one transition reported as changed more than once",
					fmt.Sprintf("%s (%s): %+v", where, cbName, c16tFmt(calls)), c)
			}
		}
	}
	p.Distinct(fmt.Sprintf("%d|%d|%v|%s", c.U, c.H, c.InitUnhealthy, trace))
	if p.WantSample() {
		p.Sample(map[string]interface{}{"case": c, "reference_transitions": trace, "final_unhealthy": unhealthy})
	}
}

func c16tFmt(calls []c16tCall) []string {
	var out []string
	for _, c := range calls {
		out = append(out, fmt.Sprintf("(changed=%v,isHealthy=%v)", c.changed, c.isHealthy))
	}
	return out
}

// c16tStep feeds one check result to the real session checker.
func c16tStep(chk *sessionChecker, s types.HealthCheckSession, r byte) (panicked string) {
	defer func() {
		if x := recover(); x != nil {
			panicked = fmt.Sprint(x)
		}
	}()
	switch r {
	case 'S':
		chk.HandleSuccess()
	case 'F':
		chk.HandleFailure(types.FailureActive)
	case 'T':
		// what sessionChecker.Start does on <-c.timeout
		s.OnTimeout()
		chk.HandleFailure(types.FailureNetwork)
	default:
		panic("C16 harness: bad result letter")
	}
	return ""
}
