//go:build verif

package healthcheck

import (
	"fmt"
	"os"
	"strings"
	"testing"
	"time"

	"mosn.io/api"
	v2 "mosn.io/mosn/pkg/config/v2"
	"mosn.io/mosn/pkg/log"
	"mosn.io/mosn/pkg/types"
	"mosn.io/mosn/pkg/verifrt/vreport"
	"mosn.io/mosn/pkg/verifrt/vrt"
	"mosn.io/mosn/pkg/verifrt/vsync"
)

// C16 (d): the real checking loop while the HOST SET CHANGES, on the virtual
// clock (same engine and rewrite set as zz_verif_C16_loop_test.go, whose fake
// host set type is reused; everything else is local because one address can
// have several host objects and several sessions here).
//
// A real health checker is created the way the cluster creates it
// (CreateHealthCheck with a registered session factory, common callbacks by
// name) and driven through the API the cluster uses, under one harness mutex
// that stands for the cluster mutex: SetHealthCheckerHostSet(initial set),
// Start(), then an environment thread applies 1-2 operations at enumerated
// virtual instants while the sessions check:
//
//	set(members[,new objects])  SetHealthCheckerHostSet with the addresses listed;
//	                            "new objects": every member is a NEW host object
//	                            (what cluster.UpdateHosts does on every update:
//	                            the objects of one address share the flag word),
//	                            else surviving addresses keep their object; an
//	                            address that (re-)enters always gets a new object
//	restart                     Stop() then Start()
//
// Scripted sessions: the n-th CheckHealth() on an ADDRESS (over all its
// sessions) answers S / F at once, or H: hangs until Session.OnTimeout() (then
// returns success, late); calls beyond the script answer S.
//
// Oracles (per address, on the event log of each execution):
//
//	(1) sessions: NewSession is called exactly for the addresses that enter the
//	    set (absent -> present) and, on restart, for every member; never for a
//	    surviving address (whatever host object the new set carries for it).
//	    After an address left the set (or Stop) its session starts at most the
//	    one check and counts at most the one outcome that were in flight. In
//	    schedules without delayed threads a member address whose session had
//	    time for a whole round has counted at least one outcome.
//	(2) thresholds, per session: every counted outcome (callback) is attributed
//	    to the session whose check produced it (its returned result, or its
//	    Session.OnTimeout); the session's consecutive counters start at zero when
//	    it is created and SURVIVE host set updates; the FAILED_ACTIVE_HC condition
//	    changes exactly when the session's unhealthy_threshold-th consecutive
//	    failed check (failure or timeout) is counted on a healthy host / its
//	    healthy_threshold-th consecutive success on an unhealthy one; changed=true
//	    exactly then, with isHealthy = direction. If two sessions of one address
//	    could both own an outcome, or a dead session counts after a newer one
//	    did (possible only with delayed threads), the address is not judged
//	    further in that execution (the statement speaks of one checker).
//	(3) every registered callback (direct, common by name) sees the same
//	    (changed, isHealthy) sequence; a common callback name that is not
//	    registered is ignored; the second registration of a name is refused and
//	    never invoked.
//	(4) after the final Stop() and quiescence nothing starts and nothing is
//	    counted; no panic, no endless execution.
//
// Layer D (defaults): a checker created from an EMPTY health check config
// (thresholds, timeout, interval, jitter, initial delay unset) must behave as
// thresholds 1/1 (the documented defaults); the real default durations (1 s,
// 15 s, jitter < 5 ms from the checker's own random source, 1 s) run on the
// virtual clock and are not judged.
//
// Not judged (statement silent): which host object the callbacks receive after
// an update with new objects, the healthy gauge, the time between checks.

const (
	hsPart     = "healthcheck-hostset"
	hsProto    = "verif-c16-hostset"
	hsCommonCb = "verif-c16-hostset-cb"
	hsUnknown  = "verif-c16-hostset-not-registered"
	hsInitial  = 2
	hsTimeout  = 4
	hsInterval = 8
	hsAddrs    = 3
)

type hsOp struct {
	Kind    string `json:"kind"` // set | restart
	At      int    `json:"at"`   // virtual time, units
	Members string `json:"members,omitempty"`
	NewObj  bool   `json:"new_objects,omitempty"`
}

type hsCase struct {
	Layer         string   `json:"layer"`
	U             uint32   `json:"unhealthy_threshold"` // 0 with Defaults: unset
	H             uint32   `json:"healthy_threshold"`
	InitUnhealthy bool     `json:"init_unhealthy"`
	Defaults      bool     `json:"defaults"`
	Scripts       []string `json:"scripts"` // per address A, B, C
	Initial       string   `json:"initial"` // members when checking starts
	Env           []hsOp   `json:"env,omitempty"`
	Horizon       int      `json:"horizon"` // units
	Bound         int      `json:"bound"`
	Delay         bool     `json:"delay_bounding"`
	MaxExecs      int      `json:"max_execs"`
	Choices       []int    `json:"choices,omitempty"`
}

type hsEv struct {
	K       byte // n new session, s check start, e check end, o Session.OnTimeout, c direct callback, k common callback, f flag op, u operation begins, U operation done, x stopped and quiescent
	T       int64
	Sid     int
	N       int
	B1, B2  bool // e: result; c/k: changed, isHealthy; f: set
	W       uint64
	Flag    uint64
	Gen     int
	Op      string // u/U: kind
	Members string // u/U: members after the operation
}

type hsHost struct {
	types.Host
	x   *hsExec
	a   int
	gen int
}

func hsAddr(a int) string { return fmt.Sprintf("127.0.0.1:%d", 11716+a) }

func (h *hsHost) AddressString() string { return hsAddr(h.a) }
func (h *hsHost) Hostname() string      { return hsAddr(h.a) }
func (h *hsHost) SetHealthFlag(f api.HealthFlag) {
	vrt.PointAtomic()
	h.x.word[h.a] |= uint64(f)
	h.x.logEv(h.a, hsEv{K: 'f', B1: true, Flag: uint64(f)})
}
func (h *hsHost) ClearHealthFlag(f api.HealthFlag) {
	vrt.PointAtomic()
	h.x.word[h.a] &^= uint64(f)
	h.x.logEv(h.a, hsEv{K: 'f', B1: false, Flag: uint64(f)})
}
func (h *hsHost) ContainHealthFlag(f api.HealthFlag) bool {
	vrt.PointAtomic()
	return h.x.word[h.a]&uint64(f) != 0
}
func (h *hsHost) HealthFlag() api.HealthFlag { return api.HealthFlag(h.x.word[h.a]) }
func (h *hsHost) Health() bool               { return h.x.word[h.a] == 0 }

type hsSession struct {
	x        *hsExec
	a, id    int
	timeouts int
}

func (s *hsSession) CheckHealth() bool {
	x := s.x
	n := x.calls[s.a]
	x.calls[s.a]++
	letter := byte('S')
	if sc := x.c.Scripts[s.a]; n < len(sc) {
		letter = sc[n]
	}
	x.logEv(s.a, hsEv{K: 's', Sid: s.id, N: n})
	res := true
	switch letter {
	case 'S':
	case 'F':
		res = false
	case 'H':
		rel := s.timeouts
		vrt.WaitUntil("scripted hang", func() bool { return s.timeouts > rel || x.releaseAll })
	default:
		x.harnessErr = "bad script letter " + string(letter)
	}
	x.logEv(s.a, hsEv{K: 'e', Sid: s.id, N: n, B1: res})
	return res
}

func (s *hsSession) OnTimeout() {
	s.timeouts++
	s.x.logEv(s.a, hsEv{K: 'o', Sid: s.id})
}

// the session factory and the common callbacks are process-wide registries: they
// are registered once and forward to the execution that is running
type hsFactory struct{}

var hsSink *hsExec

func (hsFactory) NewSession(cfg map[string]interface{}, host types.Host) types.HealthCheckSession {
	x := hsSink
	if x == nil {
		return nil
	}
	h, ok := host.(*hsHost)
	if !ok || h.x != x {
		x.harnessErr = "NewSession called with a foreign host object"
		return nil
	}
	x.nextSid++
	s := &hsSession{x: x, a: h.a, id: x.nextSid}
	x.logEv(h.a, hsEv{K: 'n', Sid: s.id, Gen: h.gen})
	return s
}

var hsSecondRegistration, hsRefusedInvoked bool

func init() {
	RegisterSessionFactory(types.ProtocolName(hsProto), hsFactory{})
	RegisterCommonCallbacks(hsCommonCb, types.HealthCheckCb(func(h types.Host, changed, isHealthy bool) {
		if x := hsSink; x != nil {
			if fh, ok := h.(*hsHost); ok && fh.x == x {
				x.logEv(fh.a, hsEv{K: 'k', B1: changed, B2: isHealthy, Gen: fh.gen})
			} else {
				x.harnessErr = "common callback invoked with a foreign host object"
			}
		}
	}))
	// a name can be registered once: the second registration is refused and must never run
	hsSecondRegistration = RegisterCommonCallbacks(hsCommonCb, types.HealthCheckCb(func(h types.Host, changed, isHealthy bool) {
		hsRefusedInvoked = true
	}))
}

type hsExec struct {
	c          hsCase
	hc         types.HealthChecker
	mu         vsync.Mutex // stands for the cluster mutex
	word       [hsAddrs]uint64
	obj        [hsAddrs]*hsHost
	gen        [hsAddrs]int
	member     [hsAddrs]bool
	calls      [hsAddrs]int
	log        [hsAddrs][]hsEv
	nextSid    int
	envDone    int
	releaseAll bool
	harnessErr string
	unit       time.Duration
}

func (x *hsExec) now() int64 { return int64(vrt.Now()) }

func (x *hsExec) logEv(a int, e hsEv) {
	e.T = x.now()
	e.W = x.word[a]
	x.log[a] = append(x.log[a], e)
}

func (x *hsExec) mark(k byte, op, members string) {
	for a := 0; a < hsAddrs; a++ {
		x.logEv(a, hsEv{K: k, Op: op, Members: members})
	}
}

// install makes members the host set. Addresses that enter the set are added one call after the
// other (findNewAndDeleteHost ranges over a map: the start order of two new sessions would be random).
func (x *hsExec) install(members string, newObj bool) {
	var entering []int
	for a := 0; a < hsAddrs; a++ {
		in := strings.ContainsRune(members, rune('A'+a))
		if in && !x.member[a] {
			entering = append(entering, a)
			continue
		}
		if in && (x.obj[a] == nil || newObj) {
			x.gen[a]++
			x.obj[a] = &hsHost{x: x, a: a, gen: x.gen[a]}
		}
		x.member[a] = in
	}
	set := func() {
		var hs []types.Host
		for a := 0; a < hsAddrs; a++ {
			if x.member[a] {
				hs = append(hs, x.obj[a])
			}
		}
		x.hc.SetHealthCheckerHostSet(&c16lHostSet{hosts: hs})
	}
	if len(entering) == 0 {
		set()
	}
	for _, a := range entering {
		x.gen[a]++
		x.obj[a] = &hsHost{x: x, a: a, gen: x.gen[a]}
		x.member[a] = true
		set()
	}
}

func (x *hsExec) body() {
	c := x.c
	hsSink = x
	cfg := v2.HealthCheck{}
	cfg.Protocol = hsProto
	cfg.ServiceName = "verif-c16-hostset"
	cfg.CommonCallbacks = []string{hsUnknown, hsCommonCb}
	x.unit = time.Millisecond
	if !c.Defaults {
		cfg.UnhealthyThreshold = c.U
		cfg.HealthyThreshold = c.H
		cfg.Timeout = hsTimeout * x.unit
		cfg.Interval = hsInterval * x.unit
		cfg.IntervalJitter = 1 // Int63n(1) == 0: no jitter
		cfg.InitialDelaySeconds.Duration = hsInitial * x.unit
	}
	x.hc = CreateHealthCheck(cfg)
	if _, ok := x.hc.(*healthChecker); !ok {
		x.harnessErr = "CreateHealthCheck does not return *healthChecker"
		return
	}
	for a := 0; a < hsAddrs; a++ {
		if c.InitUnhealthy {
			x.word[a] |= uint64(api.FAILED_ACTIVE_HC)
		}
	}
	x.hc.AddHostCheckCompleteCb(func(h types.Host, changed, isHealthy bool) {
		fh, ok := h.(*hsHost)
		if !ok || fh.x != x {
			x.harnessErr = "callback invoked with a foreign host object"
			return
		}
		x.logEv(fh.a, hsEv{K: 'c', B1: changed, B2: isHealthy, Gen: fh.gen})
	})
	x.mu.Lock()
	x.mark('u', "init", c.Initial)
	x.install(c.Initial, false)
	x.hc.Start()
	x.mark('U', "init", c.Initial)
	x.mu.Unlock()
	if len(c.Env) > 0 {
		// one environment thread applies the operations in order
		vrt.GoNamed("env", func() {
			t := 0
			for _, op := range c.Env {
				if op.At > t {
					vrt.Sleep(time.Duration(op.At-t) * x.unit)
					t = op.At
				}
				x.mu.Lock()
				switch op.Kind {
				case "set":
					x.mark('u', "set", op.Members)
					x.install(op.Members, op.NewObj)
					x.mark('U', "set", op.Members)
				case "restart":
					ms := ""
					for a := 0; a < hsAddrs; a++ {
						if x.member[a] {
							ms += string(rune('A' + a))
						}
					}
					x.mark('u', "restart", ms)
					x.hc.Stop()
					x.hc.Start()
					x.mark('U', "restart", ms)
				default:
					x.harnessErr = "unknown operation " + op.Kind
				}
				x.mu.Unlock()
				x.envDone++
			}
		})
	}
	vrt.Sleep(time.Duration(c.Horizon) * x.unit)
	vrt.WaitUntil("environment done", func() bool { return x.envDone == len(c.Env) })
	x.mu.Lock()
	x.mark('u', "stop", "")
	x.hc.Stop()
	x.mark('U', "stop", "")
	x.mu.Unlock()
	vrt.QuiesceNoTimers()
	x.mark('x', "", "")
	x.releaseAll = true
	vrt.Quiesce()
}

// ---------------------------------------------------------------------------
// judge

type hsFinding struct{ key, detail string }

// vacuity counters of the oracle (reported as notes)
var hsJudged struct {
	outcomes, afterOps, transitions, transitionsAfterOps, ambiguous, sessions, reAdded int
}

type hsCheck struct {
	n       int
	ended   bool
	res     bool
	counted bool
	early   bool // its timeout was handled before CheckHealth was reached (OnCheck thread delayed after arming the timeout)
}

type hsSess struct {
	id           int
	dead         bool
	bornT        int64
	cur          *hsCheck
	pendingOT    bool
	fs, ss       uint32
	counted      int
	startsDead   int
	countedDead  int
	outcomes     strings.Builder
}

func (x *hsExec) judge(r *vrt.Result, outcome *strings.Builder) []hsFinding {
	var out []hsFinding
	add := func(k, d string) { out = append(out, hsFinding{k, d}) }
	c := x.c
	if x.harnessErr != "" {
		add("harness: "+x.harnessErr, "")
		return out
	}
	if r.StepLimit {
		hsStepLimits++
		add("host set: execution does not terminate (step limit)", r.StepLimitStack)
		return out
	}
	if r.Diverged != "" {
		add("harness: replay divergence", r.Diverged)
		return out
	}
	for _, p := range r.Panics {
		add("host set: panic in a checker goroutine", p)
	}
	for _, p := range r.Recovered {
		add("host set: panic recovered in a checker goroutine", p)
	}
	if hsSecondRegistration {
		add("common callbacks: a second registration of a name is accepted", hsCommonCb)
	}
	if hsRefusedInvoked {
		add("common callbacks: the refused second registration of a name is invoked", hsCommonCb)
	}
	U, H := c.U, c.H
	if c.Defaults {
		U, H = DefaultUnhealthyThreshold, DefaultHealthyThreshold
	}
	strict := r.Cost == 0
	unit := int64(x.unit)
	round := int64(hsInitial+hsTimeout+hsInterval+2) * unit
	if c.Defaults {
		round = int64(firstInterval + DefaultTimeout + DefaultInterval + DefaultIntervalJitter + time.Millisecond)
	}
	for a := 0; a < hsAddrs; a++ {
		where := fmt.Sprintf("u=%d h=%d init_unhealthy=%v defaults=%v scripts=%q initial=%s env=%+v address %c", c.U, c.H, c.InitUnhealthy, c.Defaults, c.Scripts, c.Initial, c.Env, 'A'+a)
		unhealthy := c.InitUnhealthy
		member := false
		var dying, liveAtStop *hsSess // session ended by the operation in progress; session alive when the final Stop began
		var stopT int64 = -1
		var sess []*hsSess
		byID := map[int]*hsSess{}
		live := func() *hsSess {
			if n := len(sess); n > 0 && !sess[n-1].dead && sess[n-1] != dying {
				return sess[n-1]
			}
			return nil
		}
		ambiguous, bad, afterX := false, false, false
		newInOp, wantNewInOp := 0, 0
		inOp := false
		var direct, common []string
		for i, e := range x.log[a] {
			switch e.K {
			case 'u':
				inOp, newInOp = true, 0
				in := strings.ContainsRune(e.Members, rune('A'+a))
				switch e.Op {
				case "init":
					wantNewInOp = 0
					if in {
						wantNewInOp = 1
					}
					member = in
				case "set":
					wantNewInOp = 0
					if in && !member {
						wantNewInOp = 1
					}
					if !in && member {
						dying = live()
					}
					member = in
				case "restart":
					wantNewInOp = 0
					dying = live()
					if member {
						wantNewInOp = 1
					}
				case "stop":
					wantNewInOp = 0
					dying, liveAtStop, stopT = live(), live(), e.T
				}
			case 'U':
				inOp = false
				// Stop() of the ended session has returned: from here on at most what was in flight
				if dying != nil {
					dying.dead = true
					dying = nil
				}
				if newInOp != wantNewInOp {
					key := "host set sessions: a health check session is created for an address that stays in the set"
					if newInOp < wantNewInOp {
						key = "host set sessions: no health check session is created for an address that enters the set"
						if e.Op == "restart" {
							key = "host set sessions: no health check session is created by Start() after Stop()"
						}
					} else if wantNewInOp == 1 {
						key = "host set sessions: more than one health check session created for one address"
					}
					add(key, fmt.Sprintf("%s: operation %s(%s) at t=%v created %d session(s), expected %d", where, e.Op, e.Members, time.Duration(e.T), newInOp, wantNewInOp))
					bad = true
				}
			case 'n':
				if !inOp {
					add("host set sessions: a health check session is created outside SetHealthCheckerHostSet / Start", where)
					bad = true
				}
				newInOp++
				s := &hsSess{id: e.Sid, bornT: e.T}
				sess = append(sess, s)
				byID[e.Sid] = s
			case 's':
				s := byID[e.Sid]
				if s == nil {
					add("harness: check of an unknown session", where)
					return out
				}
				if afterX {
					add("after Stop: a new check is started when everything had come to rest", fmt.Sprintf("%s check %d at t=%v", where, e.N+1, time.Duration(e.T)))
				}
				if s.dead {
					s.startsDead++
				}
				if s.cur != nil && !s.cur.counted && !s.dead && !bad && !ambiguous {
					add("host set rounds: next check started although the previous check was never counted", fmt.Sprintf("%s session %d check %d at t=%v", where, s.id, e.N+1, time.Duration(e.T)))
					bad = true
				}
				if s.cur != nil && s.cur.early && s.cur.counted {
					s.cur = &hsCheck{n: e.N, counted: true} // the check whose timeout was already counted
				} else {
					s.cur = &hsCheck{n: e.N}
				}
			case 'e':
				if s := byID[e.Sid]; s != nil && s.cur != nil && s.cur.n == e.N {
					s.cur.ended, s.cur.res = true, e.B1
				}
			case 'o':
				s := byID[e.Sid]
				if s != nil && (s.cur == nil || s.cur.counted) && !strict && !s.dead {
					// OnCheck arms the timeout, then calls CheckHealth: a delayed thread may reach
					// CheckHealth after the timeout was handled
					s.cur = &hsCheck{n: -1, early: true}
					s.pendingOT = true
					continue
				}
				if s == nil || s.cur == nil || s.cur.counted {
					if !bad && !ambiguous {
						add("host set rounds: a timeout is handled for a session without a check in flight", fmt.Sprintf("%s at t=%v", where, time.Duration(e.T)))
						bad = true
					}
					continue
				}
				s.pendingOT = true
			case 'f':
				if e.Flag == uint64(api.FAILED_ACTIVE_HC) {
					// the judged value is taken at the callback that follows
				} else {
					add("host set flags: the checker sets or clears a condition other than FAILED_ACTIVE_HC", fmt.Sprintf("%s: set=%v flag %#x", where, e.B1, e.Flag))
				}
			case 'k':
				common = append(common, fmt.Sprintf("changed=%v isHealthy=%v", e.B1, e.B2))
			case 'c':
				direct = append(direct, fmt.Sprintf("changed=%v isHealthy=%v", e.B1, e.B2))
				if afterX {
					add("after Stop: an outcome is counted when everything had come to rest", where)
				}
				if bad || ambiguous {
					continue
				}
				// attribute the outcome to the session that owns it
				var ot, done []*hsSess
				for _, s := range sess {
					if s.pendingOT {
						ot = append(ot, s)
					} else if s.cur != nil && s.cur.ended && !s.cur.counted {
						done = append(done, s)
					}
				}
				var s *hsSess
				kind := byte(0)
				switch {
				case len(ot) == 1 && len(done) == 0:
					s, kind = ot[0], 'T'
				case len(ot) == 0 && len(done) == 1:
					s = done[0]
					kind = 'F'
					if s.cur.res {
						kind = 'S'
					}
				case len(ot) == 0 && len(done) == 0:
					add("host set rounds: an outcome is counted although no check has finished or timed out", fmt.Sprintf("%s at t=%v (isHealthy=%v)", where, time.Duration(e.T), e.B2))
					bad = true
					continue
				default:
					ambiguous = true
					continue
				}
				if kind == 'T' && e.B2 {
					add("host set rounds: timeout counted as a success", fmt.Sprintf("%s session %d at t=%v", where, s.id, time.Duration(e.T)))
					bad = true
					continue
				}
				if kind != 'T' && e.B2 != s.cur.res {
					add("host set rounds: counted result differs from what CheckHealth returned", fmt.Sprintf("%s session %d check %d at t=%v", where, s.id, s.cur.n+1, time.Duration(e.T)))
					bad = true
					continue
				}
				s.pendingOT = false
				s.cur.counted = true
				s.counted++
				if s.dead {
					s.countedDead++
				}
				// a dead session that counts after a newer one did: two checkers on one word
				for _, o := range sess {
					if o != s && o.id > s.id && o.counted > 0 {
						ambiguous = true
					}
				}
				if ambiguous {
					continue
				}
				transition := ""
				if kind == 'S' {
					s.ss++
					s.fs = 0
					if unhealthy && s.ss == H {
						transition = "healthy"
					}
				} else {
					s.fs++
					s.ss = 0
					if !unhealthy && s.fs == U {
						transition = "unhealthy"
					}
				}
				if transition != "" {
					unhealthy = transition == "unhealthy"
				}
				hsJudged.outcomes++
				if nops := hsOpsBefore(x.log[a], i); nops > 0 && hsBornBeforeOps(x.log[a], s.id) {
					// a session that survived a host set operation
					hsJudged.afterOps++
					if transition != "" {
						hsJudged.transitionsAfterOps++
					}
				}
				if transition != "" {
					hsJudged.transitions++
				}
				fmt.Fprintf(&s.outcomes, "%c%s", kind, map[string]string{"": "", "healthy": "^", "unhealthy": "v"}[transition])
				kn := map[byte]string{'S': "success", 'F': "failure", 'T': "timeout"}[kind]
				at := fmt.Sprintf("%s session %d check %d counted as %s at t=%v (%d consecutive failed, %d consecutive successful checks of this session; %d host set operations so far)", where, s.id, s.cur.n+1, kn, time.Duration(e.T), s.fs, s.ss, hsOpsBefore(x.log[a], i))
				got := e.W&uint64(api.FAILED_ACTIVE_HC) != 0
				if got != unhealthy {
					var key string
					switch {
					case got && kind != 'S':
						key = "host set thresholds: host marked unhealthy on a " + kn + " that is not the unhealthy_threshold-th consecutive failed check"
					case got:
						key = "host set thresholds: host not marked healthy at the healthy_threshold-th consecutive success"
					case kind == 'S':
						key = "host set thresholds: host marked healthy on a success that is not the healthy_threshold-th consecutive one"
					default:
						key = "host set thresholds: host not marked unhealthy at the unhealthy_threshold-th consecutive failed check (" + kn + ")"
					}
					if c.Defaults {
						key = strings.Replace(key, "host set thresholds:", "default thresholds (unset = 1):", 1)
					}
					add(key, fmt.Sprintf("%s: reference says active-HC condition set=%v, host has set=%v", at, unhealthy, got))
					bad = true
					continue
				}
				switch {
				case transition == "" && e.B1:
					add("host set callback: changed=true reported without a transition (on "+kn+")", at)
					bad = true
				case transition != "" && !e.B1:
					add("host set callback: transition to "+transition+" not reported as changed", at)
					bad = true
				case transition != "" && e.B2 != (transition == "healthy"):
					add("host set callback: changed=true reported with isHealthy contradicting the transition to "+transition, at)
					bad = true
				}
			case 'x':
				afterX = true
			}
		}
		for _, s := range sess {
			fmt.Fprintf(outcome, "%s,", s.outcomes.String())
			if s.startsDead > 1 || s.countedDead > 1 {
				add("host set sessions: address removed from the set (or checker stopped) but its session keeps checking", fmt.Sprintf("%s session %d: %d checks started and %d outcomes counted afterwards", where, s.id, s.startsDead, s.countedDead))
			}
		}
		// a member address must have a session that checks it (schedules without delayed threads)
		if strict && !bad && !ambiguous && member && stopT >= 0 {
			switch {
			case liveAtStop == nil:
				add("host set sessions: an address of the set has no running health check session", where)
			case liveAtStop.counted == 0 && stopT-liveAtStop.bornT > round:
				add("host set sessions: the session of an address of the set never counts a check", fmt.Sprintf("%s session %d created at t=%v, checker stopped at t=%v", where, liveAtStop.id, time.Duration(liveAtStop.bornT), time.Duration(stopT)))
			}
		}
		if strings.Join(direct, ";") != strings.Join(common, ";") {
			add("host set callback: registered callbacks do not see the same sequence of (changed, isHealthy)", fmt.Sprintf("%s: AddHostCheckCompleteCb %v, common callback %v", where, direct, common))
		}
		hsJudged.sessions += len(sess)
		if len(sess) > 1 {
			hsJudged.reAdded++
		}
		if ambiguous {
			hsJudged.ambiguous++
			fmt.Fprintf(outcome, "~")
		}
		if bad {
			fmt.Fprintf(outcome, "!")
		}
		fmt.Fprintf(outcome, "|")
	}
	return out
}

// hsBornBeforeOps: the session was created by the initial installation (before any operation)
func hsBornBeforeOps(l []hsEv, sid int) bool {
	for _, e := range l {
		if e.K == 'U' && e.Op == "init" {
			return false
		}
		if e.K == 'n' && e.Sid == sid {
			return true
		}
	}
	return false
}

func hsOpsBefore(l []hsEv, i int) int {
	n := 0
	for _, e := range l[:i] {
		if e.K == 'U' && e.Op != "init" {
			n++
		}
	}
	return n
}

// ---------------------------------------------------------------------------
// driver

// executions that ran into the step limit: after a few of them the remaining scenarios are skipped
// (each costs thousands of steps; the finding is recorded)
var hsStepLimits int

func hsRun(p *vreport.Part, c hsCase, replay bool) (complete bool, execs int) {
	if hsStepLimits >= 8 && !replay {
		return false, 0
	}
	opts := vrt.Options{Bound: c.Bound, Delay: c.Delay, MaxSteps: 8000, MaxExecs: c.MaxExecs}
	if replay {
		opts.Replay = true
		opts.Prefix = c.Choices
		opts.Trace = os.Getenv("VERIF_DEBUG") != ""
	}
	var x *hsExec
	st := vrt.Explore(opts, func() {
		x = &hsExec{c: c}
		if hsStepLimits >= 8 && !replay {
			return
		}
		x.body()
	}, func(r *vrt.Result) {
		if hsStepLimits >= 8 && !replay {
			return
		}
		p.Eval()
		var oc strings.Builder
		fs := x.judge(r, &oc)
		hsSink = nil
		if opts.Trace {
			for _, l := range r.Trace {
				fmt.Println(l)
			}
			for a := 0; a < hsAddrs; a++ {
				for _, e := range x.log[a] {
					fmt.Printf("addr%c %c t=%v sid=%d n=%d b1=%v b2=%v word=%#x gen=%d op=%s members=%s\n", 'A'+a, e.K, time.Duration(e.T), e.Sid, e.N, e.B1, e.B2, e.W, e.Gen, e.Op, e.Members)
				}
			}
		}
		p.Outcome(oc.String())
		p.Distinct(fmt.Sprintf("%d|%d|%v|%v|%q|%s|%+v|%s", c.U, c.H, c.InitUnhealthy, c.Defaults, c.Scripts, c.Initial, c.Env, oc.String()))
		cc := c
		cc.Choices = append([]int(nil), r.Choices...)
		for _, f := range fs {
			p.Violation(f.key, f.detail+fmt.Sprintf(" [schedule cost %d, %d choice points]", r.Cost, len(r.Choices)), cc)
		}
		if len(fs) == 0 && p.WantSample() {
			p.Sample(map[string]interface{}{"case": c, "schedule_len": len(r.Choices), "outcomes": oc.String()})
		}
	})
	p.AddTraces(st.Executions)
	return st.Complete, st.Executions
}

func hsCases() []hsCase {
	var out []hsCase
	thorough := vreport.Thorough()
	only := os.Getenv("C16H_LAYER")
	want := func(l string) bool { return only == "" || only == l }
	type th struct {
		u, h uint32
		iu   bool
		a    string
	}
	// address A crosses a threshold in both directions around the operations; B and C are bystanders
	ths := []th{
		{3, 2, false, "FFFFSSSS"}, // unhealthy at the 3rd check, healthy again at the 6th
		{2, 3, true, "SSSSFFFF"},  // healthy at the 3rd, unhealthy at the 6th
		{3, 2, false, "FHFHSSHF"}, // the same with timeouts among the failed checks
	}
	if thorough {
		ths = append(ths, th{3, 3, true, "SSFSSSFFF"}, th{2, 2, false, "FSFFSSFF"})
	}
	ops := func(at int) [][]hsOp {
		return [][]hsOp{
			{{Kind: "set", At: at, Members: "AB"}},
			{{Kind: "set", At: at, Members: "AB", NewObj: true}},
			{{Kind: "set", At: at, Members: "A"}},
			{{Kind: "set", At: at, Members: "A", NewObj: true}},
			{{Kind: "set", At: at, Members: "B"}},
			{{Kind: "set", At: at, Members: ""}},
			{{Kind: "set", At: at, Members: "ABC", NewObj: true}},
			{{Kind: "restart", At: at}},
			{{Kind: "set", At: at, Members: "B"}, {Kind: "set", At: at + 1, Members: "AB", NewObj: true}},
			{{Kind: "set", At: at, Members: "B"}, {Kind: "set", At: at + hsInterval, Members: "AB", NewObj: true}},
			{{Kind: "set", At: at, Members: ""}, {Kind: "set", At: at + 4, Members: "AB"}},
			{{Kind: "set", At: at, Members: "AB", NewObj: true}, {Kind: "set", At: at + hsInterval, Members: "AB", NewObj: true}},
			{{Kind: "restart", At: at}, {Kind: "set", At: at + 3, Members: "AB", NewObj: true}},
		}
	}
	horizon := hsInitial + 9*(hsInterval+hsTimeout)
	// layer H0: every operation list at every instant of the first rounds, in the default schedule
	// (two sessions make the non-preemptive choices alone explode: the orders of operations and checks
	// that fall on the same instant are explored by layer H1)
	if want("H0") {
		last := hsInitial + 4*hsInterval
		for _, t := range ths {
			for at := 1; at <= last; at++ {
				for _, env := range ops(at) {
					out = append(out, hsCase{Layer: "H0", U: t.u, H: t.h, InitUnhealthy: t.iu, Scripts: []string{t.a, "FSFS", "SF"}, Initial: "AB", Env: env, Horizon: horizon, Bound: 0, Delay: true, MaxExecs: 512})
				}
			}
		}
		// an address that is added later ("A" alone first)
		for _, t := range ths[:2] {
			for at := 1; at <= last; at += 3 {
				out = append(out, hsCase{Layer: "H0", U: t.u, H: t.h, InitUnhealthy: t.iu, Scripts: []string{t.a, "FSFS", "SF"}, Initial: "A", Env: []hsOp{{Kind: "set", At: at, Members: "AB", NewObj: true}}, Horizon: horizon, Bound: 0, Delay: true, MaxExecs: 512})
				out = append(out, hsCase{Layer: "H0", U: t.u, H: t.h, InitUnhealthy: t.iu, Scripts: []string{t.a, "FSFS", "SF"}, Initial: "", Env: []hsOp{{Kind: "set", At: at, Members: "A"}}, Horizon: horizon, Bound: 0, Delay: true, MaxExecs: 512})
			}
		}
	}
	// layer H1: the operations at the instants of the checks (and one in between) with delay bound 1
	// (thorough 2, capped); thresholds 2/2 so that a counter is half way at every such instant; short horizon
	if want("H1") {
		ats := []int{hsInitial, hsInitial + hsInterval, hsInitial + hsInterval + 3, hsInitial + 2*hsInterval}
		if thorough {
			ats = append(ats, hsInitial+1, hsInitial+3*hsInterval)
		}
		for _, t := range []th{{2, 2, false, "FFSSFF"}, {2, 2, true, "SSFFSS"}} {
			for _, at := range ats {
				for _, env := range ops(at) {
					out = append(out, hsCase{Layer: "H1", U: t.u, H: t.h, InitUnhealthy: t.iu, Scripts: []string{t.a, "FSFS", "SF"}, Initial: "AB", Env: env, Horizon: hsInitial + 4*hsInterval, Bound: 1, Delay: true, MaxExecs: vreport.Pick(800, 3000)})
					if thorough {
						out = append(out, hsCase{Layer: "H1", U: t.u, H: t.h, InitUnhealthy: t.iu, Scripts: []string{t.a, "FSFS", "SF"}, Initial: "AB", Env: env, Horizon: hsInitial + 4*hsInterval, Bound: 2, Delay: true, MaxExecs: 2500})
					}
				}
			}
		}
	}
	// layer D: empty configuration = default thresholds 1/1 and default durations; every script over
	// {S,F,H}^k x initial state, one address, no environment
	if want("D") {
		k := vreport.Pick(4, 6)
		var rec func(pre string)
		rec = func(pre string) {
			if len(pre) == k {
				for _, iu := range []bool{false, true} {
					out = append(out, hsCase{Layer: "D", Defaults: true, InitUnhealthy: iu, Scripts: []string{pre, "", ""}, Initial: "A",
						Horizon: int((firstInterval + time.Duration(k+1)*(DefaultTimeout+DefaultInterval+DefaultIntervalJitter)) / time.Millisecond), Bound: 0, MaxExecs: 512})
				}
				return
			}
			for _, l := range "SFH" {
				rec(pre + string(l))
			}
		}
		rec("")
	}
	return out
}

func TestVerifLoopC16HostSet(t *testing.T) {
	log.DefaultLogger.SetLogLevel(log.FATAL)
	p := vreport.Begin("C16", hsPart, time.Duration(vreport.Pick(2, 15))*time.Minute)
	if vreport.Replaying() {
		var rc hsCase
		if vreport.ReplayFor("C16", hsPart, &rc) {
			hsRun(p, rc, true)
			p.End(true, "replay", "replay of one recorded schedule")
		}
		return
	}
	if !c16lInstrumented() {
		vreport.HarnessError("C16", hsPart, "pkg/upstream/healthcheck is not instrumented (unit needs \"instrument\": \"healthcheck\")")
		return
	}
	cases := hsCases()
	complete := true
	total, capped := 0, 0
	for _, c := range cases {
		if p.Expired() {
			complete = false
			break
		}
		ok, n := hsRun(p, c, false)
		total += n
		p.Count("executions_"+c.Layer, n)
		p.Count("scenarios_"+c.Layer, 1)
		if !ok {
			capped++
		}
	}
	p.Note("scenarios", len(cases))
	p.Note("executions", total)
	p.Note("scenarios_cut_by_max_execs", capped)
	p.Note("oracle_counts", map[string]int{"outcomes_judged": hsJudged.outcomes, "outcomes_judged_on_sessions_that_survived_an_operation": hsJudged.afterOps,
		"transitions_judged": hsJudged.transitions, "transitions_judged_on_sessions_that_survived_an_operation": hsJudged.transitionsAfterOps,
		"sessions": hsJudged.sessions, "addresses_with_more_than_one_session": hsJudged.reAdded, "addresses_not_judged_two_checkers": hsJudged.ambiguous})
	p.End(complete && capped == 0,
		fmt.Sprintf("H0: addresses A,B(,C), thresholds/scripts for A in %d settings x 13 operation lists (set with the same / new host objects for AB, A, B, none, ABC; Stop+Start; remove then re-add after 1 / one interval; empty then refill; two updates; restart then update) at every instant 1..%d of the first four rounds, plus late additions, default schedule; H1: the same lists with thresholds 2/2 at %d instants (check instants and one between), 4 rounds, delay bound %d, capped per scenario by MaxExecs in deterministic DFS order (%d scenarios cut); D: empty health check config (default thresholds 1/1, default durations and jitter), every script over {S,F,H}^%d x initial state",
			vreport.Pick(3, 5), hsInitial+4*hsInterval, vreport.Pick(4, 6), vreport.Pick(1, 2), capped, vreport.Pick(4, 6)),
		"one evaluation = one complete execution of the real loop under the scheduler (host set operations, horizon, Stop, quiescence); distinct = (scenario, per session sequence of counted outcomes and transitions); outcome = that sequence; oracles: sessions created exactly for entering addresses, removed sessions stop, per-session consecutive counters survive host set updates and thresholds are exact, all callbacks see the same changed/isHealthy")
}
