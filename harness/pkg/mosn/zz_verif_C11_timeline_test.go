//go:build verif

package mosn

// C11 unit "timeline": the configuration wiring of the hot-upgrade time line.
//
// For every configured graceful_timeout and every way a MOSN process can have been started (cold start; started by a
// hot upgrade with its own config file; started by a hot upgrade with the config inherited from the old MOSN) the REAL
// start-up of pkg/mosn runs in a FRESH child process (package-level variables have their real initial values):
// stagemanager.InitStageManager(nil, <config file>, NewMosn()) + the init stage InitDefaultPath + StageManager.Run(),
// i.e. configmanager.Load, Mosn.Init (inheritConfig -> server.IsReconfigure / inheritHandler -> server.GetInheritListeners /
// GetInheritConfig, initServer -> server.NewServer), Mosn.Start, Mosn.InheritConnections (TransferConnection ->
// transferConnectionHandler -> network.TransferServer). For an upgrade start the harness plays the OLD MOSN on the wire
// (reconfig.sock, listen.sock with one TCP listener fd, mosnconfig.sock, the notify/ack byte pair).
// When Run() has returned the child reports the effective network.TransferTimeout, server.GracefulTimeout and
// types.DefaultConnReadTimeout. No wall-clock waiting: the schedule is computed from the wired values.
//
// Judged (formulas transcribed from the code, see tlHandOver / tlOldLife / tlServerLife):
//  J1 (every process, as the future OLD process of an upgrade): every scheduled hand-over instant of an xprotocol
//     connection lies inside the old process's remaining life time.
//  J2 (pairs old process / new process of the same upgrade): the new process's transfer server is still listening at
//     every hand-over instant the old process lives to see.

import (
	"bytes"
	"context"
	"encoding/json"
	"fmt"
	"net"
	"os"
	"os/exec"
	"path/filepath"
	"strings"
	"sync"
	"syscall"
	"testing"
	"time"

	"mosn.io/mosn/pkg/network"
	"mosn.io/mosn/pkg/server"
	"mosn.io/mosn/pkg/stagemanager"
	"mosn.io/mosn/pkg/types"
	"mosn.io/mosn/pkg/verifrt/vreport"
)

const tlChildEnv = "VERIF_C11_TIMELINE_CHILD"

// ---------------------------------------------------------------------------------------------------------------------
// the child: one real MOSN start
// ---------------------------------------------------------------------------------------------------------------------

type tlChildSpec struct {
	Config string `json:"config"`
	Out    string `json:"out"`
}

type tlValues struct {
	TransferTimeout time.Duration `json:"transfer_timeout_ns"`
	GracefulTimeout time.Duration `json:"graceful_timeout_ns"`
	ConnReadTimeout time.Duration `json:"conn_read_timeout_ns"`
	FromUpgrade     bool          `json:"from_upgrade"`
	ConnSocket      string        `json:"conn_socket"`
}

func (v tlValues) String() string {
	return fmt.Sprintf("network.TransferTimeout=%v server.GracefulTimeout=%v types.DefaultConnReadTimeout=%v", v.TransferTimeout, v.GracefulTimeout, v.ConnReadTimeout)
}

// TestVerifC11TimelineChildProcess is not a check: it is the entry of the child process (a no-op without the variable).
func TestVerifC11TimelineChildProcess(t *testing.T) {
	raw := os.Getenv(tlChildEnv)
	if raw == "" {
		return
	}
	var spec tlChildSpec
	if err := json.Unmarshal([]byte(raw), &spec); err != nil {
		fmt.Fprintf(os.Stderr, "timeline child: bad spec: %v\n", err)
		os.Exit(3)
	}
	// what cmd/mosn/main does, without the extension stages: the stage manager drives the real Mosn
	m := NewMosn()
	stm := stagemanager.InitStageManager(nil, spec.Config, m)
	stm.AppendInitStage(InitDefaultPath)
	stm.Run() // params parsed (configmanager.Load), init (Mosn.Init), pre-start, start (Mosn.Start, Mosn.InheritConnections), after-start
	v := tlValues{
		TransferTimeout: network.TransferTimeout,
		GracefulTimeout: server.GracefulTimeout,
		ConnReadTimeout: types.DefaultConnReadTimeout,
		FromUpgrade:     m.IsFromUpgrade(),
		ConnSocket:      types.TransferConnDomainSocket,
	}
	b, _ := json.Marshal(v)
	if err := os.WriteFile(spec.Out+".tmp", b, 0644); err != nil {
		fmt.Fprintf(os.Stderr, "timeline child: %v\n", err)
		os.Exit(3)
	}
	os.Rename(spec.Out+".tmp", spec.Out)
	os.Exit(0)
}

// ---------------------------------------------------------------------------------------------------------------------
// cells
// ---------------------------------------------------------------------------------------------------------------------

const (
	tlCold            = "cold-start"
	tlUpgradeLocal    = "hot-upgrade-own-config"
	tlUpgradeInherits = "hot-upgrade-config-inherited-from-old-mosn"
)

// tlCell is one way a MOSN process came to run.
type tlCell struct {
	Start string `json:"start"`
	// Graceful is the graceful_timeout of the configuration that takes effect ("unset": the key is absent):
	// the process's own file (cold-start, hot-upgrade-own-config) or the old MOSN's configuration (inherited).
	Graceful string `json:"graceful_timeout"`
	// FileGraceful is what the process's own file says when the configuration is inherited (it must not matter).
	FileGraceful string `json:"file_graceful_timeout,omitempty"`
}

func (c tlCell) String() string {
	s := c.Start + " graceful_timeout=" + c.Graceful
	if c.Start == tlUpgradeInherits {
		s += " (own file: " + c.FileGraceful + ")"
	}
	return s
}

type tlCase struct {
	// Kind "old-process": J1 on Old. Kind "upgrade-pair": J2 on (Old, New).
	Kind string  `json:"kind"`
	Old  tlCell  `json:"old"`
	New  *tlCell `json:"new,omitempty"`
}

var tlGraceful = []string{"unset", "1s", "5s", "29s", "30s", "31s", "60s"}

func tlConfigJSON(uds string, graceful string, inherit bool) []byte {
	srv := map[string]interface{}{"default_log_path": "stdout", "default_log_level": "ERROR"}
	if graceful != "unset" {
		srv["graceful_timeout"] = graceful
	}
	cfg := map[string]interface{}{
		"uds_dir": uds,
		"servers": []interface{}{srv},
		"cluster_manager": map[string]interface{}{"clusters": []interface{}{
			map[string]interface{}{"name": "c11TimelineCluster", "type": "SIMPLE", "lb_type": "LB_RANDOM", "hosts": []interface{}{}},
		}},
	}
	if inherit {
		cfg["inherit_old_mosnconfig"] = true
	}
	b, _ := json.MarshalIndent(cfg, "", " ")
	return b
}

// ---------------------------------------------------------------------------------------------------------------------
// running one cell: child process + (for an upgrade start) the old MOSN played on the wire
// ---------------------------------------------------------------------------------------------------------------------

type tlRun struct {
	Values tlValues
	Steps  []string
}

var (
	tlMemoMu sync.Mutex
	tlMemo   = map[tlCell]*tlRun{}
	tlStarts int
)

func tlRunCell(c tlCell) (*tlRun, error) {
	tlMemoMu.Lock()
	defer tlMemoMu.Unlock()
	if r, ok := tlMemo[c]; ok {
		return r, nil
	}
	var last error
	for attempt := 0; attempt < 3; attempt++ {
		r, err := tlRunCellOnce(c)
		if err == nil {
			tlMemo[c] = r
			return r, nil
		}
		last = err
	}
	return nil, last
}

func tlRunCellOnce(c tlCell) (*tlRun, error) {
	tlStarts++
	dir, err := os.MkdirTemp("", "C11-timeline-")
	if err != nil {
		return nil, err
	}
	defer os.RemoveAll(dir)
	uds := filepath.Join(dir, "uds")
	conf := filepath.Join(dir, "conf")
	os.MkdirAll(uds, 0755)
	os.MkdirAll(conf, 0755)
	cfgPath := filepath.Join(conf, "mosn_config.json")
	outPath := filepath.Join(dir, "values.json")

	fileGraceful := c.Graceful
	if c.Start == tlUpgradeInherits {
		fileGraceful = c.FileGraceful
	}
	if err := os.WriteFile(cfgPath, tlConfigJSON(uds, fileGraceful, c.Start == tlUpgradeInherits), 0644); err != nil {
		return nil, err
	}

	run := &tlRun{}
	var stepMu sync.Mutex
	step := func(f string, a ...interface{}) {
		stepMu.Lock()
		run.Steps = append(run.Steps, fmt.Sprintf(f, a...))
		stepMu.Unlock()
	}

	ctx, cancel := context.WithTimeout(context.Background(), 90*time.Second)
	defer cancel()

	// the old MOSN's side of the wire
	var oldDone chan error
	var reconfigL net.Listener
	if c.Start != tlCold {
		reconfigL, err = net.Listen("unix", filepath.Join(uds, "reconfig.sock"))
		if err != nil {
			return nil, err
		}
		defer reconfigL.Close()
		oldDone = make(chan error, 1)
		go func() { oldDone <- tlPlayOldMosn(ctx, c, uds, reconfigL, step) }()
	}

	exe, err := os.Executable()
	if err != nil {
		return nil, err
	}
	spec, _ := json.Marshal(tlChildSpec{Config: cfgPath, Out: outPath})
	cmd := exec.CommandContext(ctx, exe, "-test.run", "^TestVerifC11TimelineChildProcess$", "-test.count=1")
	for _, e := range os.Environ() {
		if strings.HasPrefix(e, "VERIF_OUT=") || strings.HasPrefix(e, "VERIF_REPLAY=") || strings.HasPrefix(e, tlChildEnv+"=") {
			continue
		}
		cmd.Env = append(cmd.Env, e)
	}
	cmd.Env = append(cmd.Env, tlChildEnv+"="+string(spec))
	var out bytes.Buffer
	cmd.Stdout = &out
	cmd.Stderr = &out
	runErr := cmd.Run()
	cancel()
	if reconfigL != nil {
		reconfigL.Close()
	}
	var oldErr error
	if oldDone != nil {
		oldErr = <-oldDone
	}
	tail := out.String()
	if len(tail) > 1500 {
		tail = "..." + tail[len(tail)-1500:]
	}
	b, rerr := os.ReadFile(outPath)
	if rerr != nil {
		return nil, fmt.Errorf("cell %v: the child MOSN did not finish its start (exit: %v; old side: %v; steps: %v); output: %s", c, runErr, oldErr, run.Steps, tail)
	}
	if err := json.Unmarshal(b, &run.Values); err != nil {
		return nil, fmt.Errorf("cell %v: bad values file: %v", c, err)
	}
	if oldErr != nil {
		return nil, fmt.Errorf("cell %v: the old-MOSN side of the wire failed: %v (steps: %v); output: %s", c, oldErr, run.Steps, tail)
	}
	if run.Values.FromUpgrade != (c.Start != tlCold) {
		return nil, fmt.Errorf("cell %v: the child reports IsFromUpgrade=%v (steps: %v); output: %s", c, run.Values.FromUpgrade, run.Steps, tail)
	}
	if !strings.HasPrefix(run.Values.ConnSocket, uds) {
		return nil, fmt.Errorf("cell %v: the child's socket paths were not redirected: %s", c, run.Values.ConnSocket)
	}
	return run, nil
}

// tlDialRetry dials a unix socket the child is about to listen on (synchronisation only; bounded by ctx).
func tlDialRetry(ctx context.Context, path string) (*net.UnixConn, error) {
	for {
		conn, err := net.DialTimeout("unix", path, time.Second)
		if err == nil {
			return conn.(*net.UnixConn), nil
		}
		select {
		case <-ctx.Done():
			return nil, fmt.Errorf("dial %s: %v", filepath.Base(path), err)
		case <-time.After(2 * time.Millisecond):
		}
	}
}

// tlPlayOldMosn speaks the old MOSN's part of server.ReconfigureListener / server.ReconfigureHandler on the wire, without its
// waiting: reconfig.sock (one byte = "a MOSN is running"), listen.sock (one byte + the listener fds), mosnconfig.sock
// (the old configuration, if the new MOSN inherits it), the notify byte of the new MOSN and the ack byte.
func tlPlayOldMosn(ctx context.Context, c tlCell, uds string, reconfigL net.Listener, step func(string, ...interface{})) error {
	go func() { <-ctx.Done(); reconfigL.Close() }()
	rc, err := reconfigL.Accept()
	if err != nil {
		return fmt.Errorf("reconfig.sock: the new MOSN never asked whether a MOSN is running: %v", err)
	}
	rc.Write([]byte{0})
	rc.Close()
	step("reconfig.sock answered")

	// the old MOSN's listeners: one TCP listener
	tcp, err := net.Listen("tcp", "127.0.0.1:0")
	if err != nil {
		return err
	}
	defer tcp.Close()
	f, err := tcp.(*net.TCPListener).File()
	if err != nil {
		return err
	}
	defer f.Close()
	lc, err := tlDialRetry(ctx, filepath.Join(uds, "listen.sock"))
	if err != nil {
		return err
	}
	defer lc.Close()
	if _, _, err := lc.WriteMsgUnix([]byte{0}, syscall.UnixRights(int(f.Fd())), nil); err != nil {
		return fmt.Errorf("listen.sock: %v", err)
	}
	step("listener fd sent")

	if c.Start == tlUpgradeInherits {
		mc, err := tlDialRetry(ctx, filepath.Join(uds, "mosnconfig.sock"))
		if err != nil {
			return err
		}
		_, err = mc.Write(tlConfigJSON(uds, c.Graceful, true))
		mc.Close()
		if err != nil {
			return fmt.Errorf("mosnconfig.sock: %v", err)
		}
		step("old configuration sent")
	}

	// wait for the new MOSN to have parsed its configuration, ack
	if dl, ok := ctx.Deadline(); ok {
		lc.SetReadDeadline(dl)
	}
	var buf [1]byte
	if n, err := lc.Read(buf[:]); n != 1 {
		return fmt.Errorf("listen.sock: no notify byte from the new MOSN: %v", err)
	}
	step("notified")
	if _, err := lc.Write([]byte{0}); err != nil {
		return fmt.Errorf("listen.sock: ack: %v", err)
	}
	step("acked")
	// keep the connection until the child is gone
	lc.SetReadDeadline(time.Time{})
	go func() { <-ctx.Done(); lc.SetReadDeadline(time.Now()) }()
	lc.Read(buf[:])
	return nil
}

// ---------------------------------------------------------------------------------------------------------------------
// the time line (transcribed from the code)
// ---------------------------------------------------------------------------------------------------------------------

// tlDraw: one point of the old process's schedule for a connection that agrees to be handed over.
type tlDraw struct {
	NoticeLag time.Duration // pkg/network/connection.go startReadLoop: the loop sees the closed stopChan after its current read: 0..DefaultConnReadTimeout
	Rand      time.Duration // rand.Intn(TransferTimeout): 0..TransferTimeout-1ns
	CheckLag  time.Duration // the loop compares transferTime with now once per read: 0..DefaultConnReadTimeout
}

// tlDraws enumerates the extremes of every free quantity of the schedule.
func tlDraws(v tlValues) []tlDraw {
	rmax := v.TransferTimeout - 1
	if rmax < 0 {
		rmax = 0
	}
	var ds []tlDraw
	for _, l1 := range []time.Duration{0, v.ConnReadTimeout} {
		for _, r := range []time.Duration{0, rmax} {
			for _, l2 := range []time.Duration{0, v.ConnReadTimeout} {
				ds = append(ds, tlDraw{l1, r, l2})
			}
		}
	}
	return ds
}

// tlHandOver: instant of connection.transfer() after server.StopConnection():
// connection.go:451-452 transferTime = now + TransferTimeout + rand.Intn(TransferTimeout), looked at once per read (timeout DefaultConnReadTimeout).
func tlHandOver(v tlValues, d tlDraw) time.Duration {
	return d.NoticeLag + v.TransferTimeout + d.Rand + d.CheckLag
}

// tlOldLife: server.ReconfigureHandler -> WaitConnectionsDone(GracefulTimeout) (pkg/server/server.go:162): the timer starts
// right before StopConnection(); when it fires the handler returns and the stage manager stops and exits the old process.
func tlOldLife(v tlValues) time.Duration {
	return 2*v.GracefulTimeout + 2*v.ConnReadTimeout
}

// tlOldPause: server.ReconfigureHandler sleeps 3s between its ack and shutdownServers / WaitConnectionsDone (reconfigure.go:87).
const tlOldPause = 3 * time.Second

// tlServerLife: network.TransferServer (pkg/network/transfer.go:92) stops listening
// 2*TransferTimeout + 2*DefaultConnReadTimeout + 10s after it was started (started when the new MOSN has read the ack).
func tlServerLife(v tlValues) time.Duration {
	return 2*v.TransferTimeout + 2*v.ConnReadTimeout + 10*time.Second
}

func tlRelation(v tlValues) string {
	switch {
	case v.TransferTimeout == v.GracefulTimeout:
		return "transfer-timeout==graceful-timeout"
	case v.TransferTimeout > v.GracefulTimeout:
		return "transfer-timeout>graceful-timeout"
	}
	return "transfer-timeout<graceful-timeout"
}

// ---------------------------------------------------------------------------------------------------------------------
// the part
// ---------------------------------------------------------------------------------------------------------------------

func TestVerifC11Timeline(t *testing.T) {
	p := vreport.Begin("C11", "timeline", 8*time.Minute)
	thorough := vreport.Thorough()

	gen := func(yield func(tlCase) bool) {
		var olds []tlCell
		for _, g := range tlGraceful {
			olds = append(olds, tlCell{Start: tlCold, Graceful: g})
		}
		for _, g := range tlGraceful {
			olds = append(olds, tlCell{Start: tlUpgradeLocal, Graceful: g})
		}
		for i, g := range tlGraceful {
			if thorough {
				for _, fg := range tlGraceful {
					olds = append(olds, tlCell{Start: tlUpgradeInherits, Graceful: g, FileGraceful: fg})
				}
			} else {
				// quick: the own file says the next value of the alphabet (always another one)
				olds = append(olds, tlCell{Start: tlUpgradeInherits, Graceful: g, FileGraceful: tlGraceful[(i+1)%len(tlGraceful)]})
			}
		}
		// J1: every process as the old process of a later upgrade
		for _, o := range olds {
			if !yield(tlCase{Kind: "old-process", Old: o}) {
				return
			}
		}
		// J2: old process x the new process an upgrade with the same configuration starts
		// (own file with the same graceful_timeout; or the old MOSN's configuration inherited)
		for _, o := range olds {
			n1 := tlCell{Start: tlUpgradeLocal, Graceful: o.Graceful}
			if !yield(tlCase{Kind: "upgrade-pair", Old: o, New: &n1}) {
				return
			}
			fg := o.FileGraceful
			if fg == "" {
				fg = tlGraceful[(tlIndex(o.Graceful)+1)%len(tlGraceful)]
			}
			n2 := tlCell{Start: tlUpgradeInherits, Graceful: o.Graceful, FileGraceful: fg}
			if !yield(tlCase{Kind: "upgrade-pair", Old: o, New: &n2}) {
				return
			}
		}
	}

	harnessErrors := 0
	complete := vreport.Run(p, gen, func(p *vreport.Part, c tlCase) {
		old, err := tlRunCell(c.Old)
		if err != nil {
			harnessErrors++
			vreport.HarnessError("C11", "timeline", err.Error())
			t.Errorf("harness: %v", err)
			return
		}
		ov := old.Values
		draws := tlDraws(ov)
		switch c.Kind {
		case "old-process":
			p.EvalN(len(draws) - 1)
			p.Distinct("old-process " + c.Old.String())
			life := tlOldLife(ov)
			var late []string
			for _, d := range draws {
				if h := tlHandOver(ov, d); h > life {
					late = append(late, fmt.Sprintf("notice-lag=%v random-part=%v check-lag=%v: hand-over %v after the drain started", d.NoticeLag, d.Rand, d.CheckLag, h))
				}
			}
			p.Outcome(fmt.Sprintf("old-process %s %s late-points=%d/%d", c.Old.Start, tlRelation(ov), len(late), len(draws)))
			if p.WantSample() {
				p.Sample(map[string]interface{}{"case": c, "values": ov.String(), "old_life": life.String(), "latest_hand_over": tlHandOver(ov, draws[len(draws)-1]).String()})
			}
			if len(late) > 0 {
				p.Violation("hot-upgrade time line: an xprotocol connection's scheduled hand-over lies after the old process's exit (the connection and its requests die with the old process instead of being handed over): old process started by "+c.Old.Start,
					fmt.Sprintf("a MOSN started by %s with graceful_timeout=%s runs with %s: after SIGHUP it exits %v after the drain started (server.WaitConnectionsDone: 2*GracefulTimeout + 2*DefaultConnReadTimeout), "+
						"but its read loops schedule the hand-over of a connection at notice-lag + TransferTimeout + rand.Intn(TransferTimeout) + check-lag; %d of the %d extreme points of that schedule lie after the exit: %s",
						c.Old.Start, c.Old.Graceful, ov, life, len(late), len(draws), strings.Join(late, "; ")), c)
			}
		case "upgrade-pair":
			nw, err := tlRunCell(*c.New)
			if err != nil {
				harnessErrors++
				vreport.HarnessError("C11", "timeline", err.Error())
				t.Errorf("harness: %v", err)
				return
			}
			nv := nw.Values
			p.EvalN(len(draws) - 1)
			p.Distinct("upgrade-pair " + c.Old.String() + " -> " + c.New.String())
			life := tlOldLife(ov)
			srv := tlServerLife(nv)
			var missed []string
			lived := 0
			for _, d := range draws {
				h := tlHandOver(ov, d)
				if h > life {
					continue // the old process is gone before: J1's subject
				}
				lived++
				// the server was started no later than the old process's ack; the drain starts tlOldPause after the ack
				if tlOldPause+h > srv {
					missed = append(missed, fmt.Sprintf("notice-lag=%v random-part=%v check-lag=%v: hand-over %v after the ack", d.NoticeLag, d.Rand, d.CheckLag, tlOldPause+h))
				}
			}
			p.Outcome(fmt.Sprintf("upgrade-pair %s->%s old:%s new:%s missed-points=%d/%d", c.Old.Start, c.New.Start, tlRelation(ov), tlRelation(nv), len(missed), lived))
			if p.WantSample() {
				p.Sample(map[string]interface{}{"case": c, "old_values": ov.String(), "new_values": nv.String(), "transfer_server_life": srv.String()})
			}
			if len(missed) > 0 {
				p.Violation("hot-upgrade time line: the new process's transfer server has stopped listening before a hand-over the old process still lives to make: old process started by "+c.Old.Start+", new process "+c.New.Start,
					fmt.Sprintf("old MOSN (%s) runs with %s and exits %v after its drain started; the new MOSN (%s) runs with %s, its network.TransferServer listens for %v "+
						"(2*TransferTimeout + 2*DefaultConnReadTimeout + 10s) from the ack on, the old MOSN's drain starts %v after the ack; %d of the %d extreme hand-over points the old MOSN lives to make find no server: %s",
						c.Old, ov, life, *c.New, nv, srv, tlOldPause, len(missed), lived, strings.Join(missed, "; ")), c)
			}
		}
	})
	p.Note("mosn_starts_in_child_processes", tlStarts)
	eff := map[string]string{}
	for c, r := range tlMemo {
		eff[c.String()] = r.Values.String()
	}
	p.Note("effective_values_per_cell", eff)
	p.Note("distinct_process_cells", len(tlMemo))
	p.Note("schedule_points_per_case", 8)
	p.End(complete && harnessErrors == 0,
		fmt.Sprintf("graceful_timeout in %v x start kind {cold start; hot upgrade, own config file; hot upgrade, configuration inherited from the old MOSN (own file says another value: quick the next one of the alphabet, thorough every one)}: "+
			"each cell is a real MOSN start (stage manager Run with the real pkg/mosn Mosn) in a fresh child process, no listeners in the configuration; per cell the 8 extreme points {0,max}^3 of (read-loop notice lag in [0,DefaultConnReadTimeout], "+
			"rand.Intn(TransferTimeout) in [0,TransferTimeout), read-loop check lag in [0,DefaultConnReadTimeout]); pairs: every cell as the old process x {own-config, inherited-config} new process with the same effective graceful_timeout", tlGraceful),
		"J1: for every cell, every extreme point: notice-lag + TransferTimeout + random part + check-lag <= 2*GracefulTimeout + 2*DefaultConnReadTimeout (values read from the child after StageManager.Run returned). "+
			"J2: for every pair, every extreme point the old process lives to make: 3s + hand-over instant <= the new process's 2*TransferTimeout + 2*DefaultConnReadTimeout + 10s. "+
			"Whether the effective graceful timeout equals the configured one is recorded in the outcomes, not compared. distinct = cell / pair")
}

func tlIndex(g string) int {
	for i, x := range tlGraceful {
		if x == g {
			return i
		}
	}
	return 0
}
