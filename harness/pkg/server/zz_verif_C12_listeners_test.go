//go:build verif

package server

// C12, listener half: runtime listener updates through the REAL ListenerAdapter
// (pkg/server/adapter.go, the entry point of the admin API `update_config` and
// of xDS LDS) on a real server / connHandler that is never started.
//
//   world      = configmanager effective configuration (Reset + SetMosnConfig),
//                stream filter manager (emptied), listener adapter (ResetAdapter)
//                and one server.NewServer, exactly the objects NewMosn wires up
//   operations = adapter.AddOrUpdateListener("", cfg)  (cfg = JSON as the admin
//                API receives it, unmarshalled into a v2.Listener)
//                adapter.DeleteListener("", name)
//                invalid: a configuration with tls on and no certificate, a
//                configuration with two filter chains, an update with another
//                address (all three are documented rejections)
//                dumps are observations: after every history (every prefix is a
//                history of its own) and checked to be read-only on every new state
//   state      = canonical projection, per listener name, of: lookups (adapter
//                default / named server / handler / by address), stored listener
//                configuration, listener object getters, the filter chains the
//                accept path would build (network / listener / stream filter
//                factories instantiated with recording callbacks), tls manager,
//                live idle timeout, the entry in the effective configuration
//                (DumpJSON) and in the persisted dump (InheritMosnconfig), hidden
//                activeListener fields; plus the reference model's state
//   oracle     = (1) last update wins against a hand-written reference model,
//                (2) differential against a FRESH world with only the final
//                configurations, (3) deleted listeners are gone everywhere,
//                (4) a rejected operation changes nothing, (5) a fresh world
//                loaded from the persisted dump equals the live world.
//
// What AddOrUpdateListener's update branch applies (handler.go, "listener already
// exist, update the listener") and what it keeps from the first add:
//
//   updated : listener_filters, filter_chains[0].match / filters / tls,
//             stream_filters, inspector, use_original_dst (+ buffer limit and tag,
//             not varied here: they are not part of the JSON form)
//   kept    : name, address/network (a different address is REJECTED), type,
//             bind_port, default_read_buffer_size, access_logs,
//             connection_idle_timeout in the STORED configuration
//   mixed   : the LIVE idle timeout (activeListener.idleTimeout) follows the update
//             while the stored value does not: the model accepts either reading
//             (the add's value or the last update's) provided ONE reading explains
//             the stored, live, effective and dumped values together.
//
// Why merged states have the same futures: every operation reads only what the
// projection contains (stored configuration, address, factories, effective
// configuration entries, stream filter manager entry); the reference model's
// state is part of the key as well.
//
// The network listener is created through mosn's listener factory hook
// (network.RegisterListenerFactory) as the real network.NewListener object
// wrapped so that Start - which the adapter calls in a goroutine for a new
// listener and which would bind the address - only counts. Nothing is bound, no
// file is created.

import (
	"bytes"
	"context"
	"crypto/sha256"
	"encoding/json"
	"fmt"
	"net"
	"reflect"
	"sort"
	"strings"
	"sync"
	"sync/atomic"
	"testing"
	"time"
	"unsafe"

	"mosn.io/api"
	v2 "mosn.io/mosn/pkg/config/v2"
	"mosn.io/mosn/pkg/configmanager"
	"mosn.io/mosn/pkg/log"
	"mosn.io/mosn/pkg/network"
	"mosn.io/mosn/pkg/streamfilter"
	"mosn.io/mosn/pkg/types"
	"mosn.io/mosn/pkg/verifrt/vreport"
)

const (
	c12lServer   = "verif-c12-server"
	c12lNoServer = "verif-c12-no-such-server"
	c12lPartName = "listener-update-histories"
	c12lNetType  = "verif_c12_network"
	c12lLFType   = "verif_c12_listener_filter"
	c12lSFType   = "verif_c12_stream"
)

var c12lNames = []string{"verif-c12-L1", "verif-c12-L2"}

// two addresses per name, never shared between names (two listeners on one
// address cannot coexist in a running mosn); never bound
var c12lAddrs = map[string]map[string]string{
	"verif-c12-L1": {"A": "127.0.0.1:10001", "B": "127.0.0.1:10002"},
	"verif-c12-L2": {"A": "127.0.0.1:10011", "B": "127.0.0.1:10012"},
}

// ---------------------------------------------------------------------------
// registered filter types whose factories leave a recognisable trace when the
// chain is instantiated

type c12lReadFilter struct{ tag string }

func (f *c12lReadFilter) OnData(buffer api.IoBuffer) api.FilterStatus           { return api.Continue }
func (f *c12lReadFilter) OnNewConnection() api.FilterStatus                     { return api.Continue }
func (f *c12lReadFilter) InitializeReadFilterCallbacks(cb api.ReadFilterCallbacks) {}

type c12lNetFactory struct{ tag string }

func (f *c12lNetFactory) CreateFilterChain(ctx context.Context, cb api.NetWorkFilterChainFactoryCallbacks) {
	cb.AddReadFilter(&c12lReadFilter{tag: f.tag})
}

type c12lNetRecorder struct{ tags []string }

func (r *c12lNetRecorder) AddReadFilter(rf api.ReadFilter) {
	if f, ok := rf.(*c12lReadFilter); ok {
		r.tags = append(r.tags, f.tag)
	} else {
		r.tags = append(r.tags, fmt.Sprintf("%T", rf))
	}
}
func (r *c12lNetRecorder) AddWriteFilter(wf api.WriteFilter) {
	r.tags = append(r.tags, fmt.Sprintf("write:%T", wf))
}

type c12lLFFactory struct{ tag string }

func (f *c12lLFFactory) OnAccept(cb api.ListenerFilterChainFactoryCallbacks) api.FilterStatus {
	if r, ok := cb.(*c12lLFRecorder); ok {
		r.tags = append(r.tags, f.tag)
	}
	return api.Continue
}

// the recorder is only ever handed to c12lLFFactory.OnAccept, which type-asserts it
type c12lLFRecorder struct {
	api.ListenerFilterChainFactoryCallbacks
	tags []string
}

type c12lStreamFilter struct{ tag string }

func (f *c12lStreamFilter) OnDestroy() {}
func (f *c12lStreamFilter) OnReceive(ctx context.Context, headers api.HeaderMap, buf api.IoBuffer, trailers api.HeaderMap) api.StreamFilterStatus {
	return api.StreamFilterContinue
}
func (f *c12lStreamFilter) SetReceiveFilterHandler(handler api.StreamReceiverFilterHandler) {}

type c12lStreamFactory struct{ tag string }

func (f *c12lStreamFactory) CreateFilterChain(ctx context.Context, cb api.StreamFilterChainFactoryCallbacks) {
	cb.AddStreamReceiverFilter(&c12lStreamFilter{tag: f.tag}, api.BeforeRoute)
}

type c12lStreamRecorder struct{ tags []string }

func (r *c12lStreamRecorder) AddStreamSenderFilter(filter api.StreamSenderFilter, p api.SenderFilterPhase) {
	r.tags = append(r.tags, fmt.Sprintf("sender:%T", filter))
}
func (r *c12lStreamRecorder) AddStreamReceiverFilter(filter api.StreamReceiverFilter, p api.ReceiverFilterPhase) {
	if f, ok := filter.(*c12lStreamFilter); ok {
		r.tags = append(r.tags, f.tag)
	} else {
		r.tags = append(r.tags, fmt.Sprintf("%T", filter))
	}
}
func (r *c12lStreamRecorder) AddStreamAccessLog(accessLog api.AccessLog) {
	r.tags = append(r.tags, "accesslog")
}

func c12lVariant(conf map[string]interface{}) string {
	s, _ := conf["variant"].(string)
	if s == "" {
		s = "?"
	}
	return s
}

// the wrapped network listener: everything is the real object, Start only counts
type c12lListener struct{ types.Listener }

var c12lStarts int64

func (l *c12lListener) Start(lctx context.Context, restart bool) { atomic.AddInt64(&c12lStarts, 1) }

type c12lCMFilter struct{}

func (c12lCMFilter) OnCreated(cccb types.ClusterConfigFactoryCb, chcb types.ClusterHostFactoryCb) {}

var c12lOnce sync.Once

func c12lSetup() {
	c12lOnce.Do(func() {
		log.DefaultLogger.SetLogLevel(log.FATAL)
		log.StartLogger.SetLogLevel(log.FATAL)
		api.RegisterNetwork(c12lNetType, func(conf map[string]interface{}) (api.NetworkFilterChainFactory, error) {
			return &c12lNetFactory{tag: c12lVariant(conf)}, nil
		})
		api.RegisterListener(c12lLFType, func(conf map[string]interface{}) (api.ListenerFilterChainFactory, error) {
			return &c12lLFFactory{tag: c12lVariant(conf)}, nil
		})
		api.RegisterStream(c12lSFType, func(conf map[string]interface{}) (api.StreamFilterChainFactory, error) {
			return &c12lStreamFactory{tag: c12lVariant(conf)}, nil
		})
		network.RegisterListenerFactory(func(lc *v2.Listener) types.Listener {
			return &c12lListener{Listener: network.NewListener(lc)}
		})
	})
}

// ---------------------------------------------------------------------------
// operations and configurations

// c12lOp is one operation of a history.
//
//	set        AddOrUpdateListener(name, configuration(Addr, Net, Stream, Misc))
//	set-notls  the same with tls_context {status:true} and no certificate (rejected: no certificate configured)
//	set-2fc    the same with two filter chains (rejected: only one filter chain is supported)
//	delete     DeleteListener(name)
//	set-badserver / delete-badserver  the same calls with a server name the adapter does not know (rejected)
type c12lOp struct {
	Kind   string `json:"kind"`
	Name   string `json:"name"`
	Addr   string `json:"addr,omitempty"`   // "A" / "B"
	Net    int    `json:"net,omitempty"`    // network filter configuration P1 / P2
	Stream int    `json:"stream,omitempty"` // stream filters: 0 none, 1 [s1], 2 [s2, s1]
	Misc   int    `json:"misc,omitempty"`   // 0 / 1: two settings of all the other fields
}

func (o c12lOp) String() string {
	n := strings.TrimPrefix(o.Name, "verif-c12-")
	if strings.HasPrefix(o.Kind, "delete") {
		return o.Kind + "(" + n + ")"
	}
	return fmt.Sprintf("%s(%s,addr=%s,net=P%d,stream=%d,misc=%d)", o.Kind, n, o.Addr, o.Net, o.Stream, o.Misc)
}

type c12lCase struct {
	History []c12lOp `json:"history"`
}

func c12lHistoryString(h []c12lOp) string {
	var s []string
	for _, o := range h {
		s = append(s, o.String())
	}
	return "[" + strings.Join(s, " ; ") + "]"
}

func c12lAlphabet(wide bool) []c12lOp {
	var out []c12lOp
	streams := []int{0, 1}
	if wide {
		streams = []int{0, 1, 2}
	}
	for i, name := range c12lNames {
		if i > 0 && !wide {
			// quick: the second name only has to show that the two names do not
			// disturb each other
			out = append(out,
				c12lOp{Kind: "set", Name: name, Addr: "A", Net: 1, Stream: 0, Misc: 0},
				c12lOp{Kind: "set", Name: name, Addr: "A", Net: 2, Stream: 1, Misc: 1},
				c12lOp{Kind: "set", Name: name, Addr: "B", Net: 1, Stream: 0, Misc: 0},
				c12lOp{Kind: "delete", Name: name},
				c12lOp{Kind: "set-notls", Name: name, Addr: "A", Net: 2, Stream: 1, Misc: 1})
			continue
		}
		for _, addr := range []string{"A", "B"} {
			for net := 1; net <= 2; net++ {
				for _, st := range streams {
					for misc := 0; misc <= 1; misc++ {
						out = append(out, c12lOp{Kind: "set", Name: name, Addr: addr, Net: net, Stream: st, Misc: misc})
					}
				}
			}
		}
		out = append(out, c12lOp{Kind: "delete", Name: name})
		for _, addr := range []string{"A", "B"} {
			out = append(out, c12lOp{Kind: "set-notls", Name: name, Addr: addr, Net: 2, Stream: 1, Misc: 1})
			if wide {
				out = append(out, c12lOp{Kind: "set-notls", Name: name, Addr: addr, Net: 1, Stream: 0, Misc: 0})
			}
		}
		out = append(out, c12lOp{Kind: "set-2fc", Name: name, Addr: "A", Net: 2, Stream: 1, Misc: 1})
		if i == 0 || wide {
			out = append(out, c12lOp{Kind: "set-badserver", Name: name, Addr: "A", Net: 2, Stream: 1, Misc: 1},
				c12lOp{Kind: "delete-badserver", Name: name})
		}
	}
	return out
}

// the parameters of a listener configuration. fixed / upd split the "misc"
// setting into the fields the update branch keeps and the ones it applies.
type c12lParams struct {
	name, addr  string // addr: "A" / "B"
	net, stream int
	fixed, upd  int
	idle        int  // connection_idle_timeout: 0 none, 1 90s
	tls         bool // tls on without a certificate
	chains      int
}

var c12lJSONCache = map[c12lParams][]byte{}

func c12lStreamTags(stream int) []string {
	switch stream {
	case 1:
		return []string{"s1"}
	case 2:
		return []string{"s2", "s1"}
	}
	return nil
}

func c12lFilter(typ, variant string) map[string]interface{} {
	return map[string]interface{}{"type": typ, "config": map[string]interface{}{"variant": variant}}
}

func c12lJSON(p c12lParams) ([]byte, error) {
	if b, ok := c12lJSONCache[p]; ok {
		return b, nil
	}
	addr, ok := c12lAddrs[p.name][p.addr]
	if !ok {
		return nil, fmt.Errorf("unknown listener name/address %q/%q", p.name, p.addr)
	}
	chain := map[string]interface{}{
		"filters":     []interface{}{c12lFilter(c12lNetType, fmt.Sprintf("P%d", p.net))},
		"tls_context": map[string]interface{}{"status": p.tls},
	}
	if p.upd == 1 {
		chain["match"] = "verif-match-1"
	}
	chains := []interface{}{chain}
	for i := 1; i < p.chains; i++ {
		chains = append(chains, chain)
	}
	l := map[string]interface{}{
		"name":          p.name,
		"address":       addr,
		"filter_chains": chains,
	}
	if p.fixed == 1 {
		l["type"] = "ingress"
		l["bind_port"] = true
		l["default_read_buffer_size"] = 4096
	}
	if p.idle == 1 {
		l["connection_idle_timeout"] = "90s"
	}
	if p.upd == 1 {
		l["inspector"] = true
		l["use_original_dst"] = "redirect"
		l["listener_filters"] = []interface{}{c12lFilter(c12lLFType, "lf1")}
	}
	var sf []interface{}
	for _, t := range c12lStreamTags(p.stream) {
		sf = append(sf, c12lFilter(c12lSFType, t))
	}
	if sf != nil {
		l["stream_filters"] = sf
	}
	b, err := json.Marshal(l)
	if err != nil {
		return nil, err
	}
	c12lJSONCache[p] = b
	return b, nil
}

// c12lBuild returns a FRESH v2.Listener (the handler keeps the pointer and the
// slices of what it is given), built the way the admin API builds it.
func c12lBuild(p c12lParams) (*v2.Listener, error) {
	b, err := c12lJSON(p)
	if err != nil {
		return nil, err
	}
	lc := &v2.Listener{}
	if err := json.Unmarshal(b, lc); err != nil {
		return nil, err
	}
	return lc, nil
}

func c12lOpParams(o c12lOp) c12lParams {
	p := c12lParams{name: o.Name, addr: o.Addr, net: o.Net, stream: o.Stream, fixed: o.Misc, upd: o.Misc, idle: o.Misc, chains: 1}
	switch o.Kind {
	case "set-notls":
		p.tls = true
	case "set-2fc":
		p.chains = 2
	}
	return p
}

// ---------------------------------------------------------------------------
// the world

type c12lWorld struct {
	srv     Server
	adapter *ListenerAdapter
	handler *connHandler
}

func c12lResetStreamFilters() error {
	impl, ok := streamfilter.GetStreamFilterManager().(*streamfilter.StreamFilterManagerImpl)
	if !ok {
		return fmt.Errorf("stream filter manager is a %T", streamfilter.GetStreamFilterManager())
	}
	f := reflect.ValueOf(impl).Elem().FieldByName("streamFilterChainMap")
	if !f.IsValid() || f.Type() != reflect.TypeOf(sync.Map{}) {
		return fmt.Errorf("StreamFilterManagerImpl.streamFilterChainMap is not a sync.Map")
	}
	m := (*sync.Map)(unsafe.Pointer(f.UnsafeAddr()))
	m.Range(func(k, _ interface{}) bool { m.Delete(k); return true })
	return nil
}

// c12lFreshWorld resets every process-wide object a listener update touches and
// wires a new server the way NewMosn does (server.NewServer registers the
// server's handler in the listener adapter).
func c12lFreshWorld() (*c12lWorld, error) {
	c12lSetup()
	configmanager.Reset()
	configmanager.SetMosnConfig(&v2.MOSNConfig{Servers: []v2.ServerConfig{{ServerName: c12lServer}}})
	if err := c12lResetStreamFilters(); err != nil {
		return nil, err
	}
	ResetAdapter()
	servers = nil // NewServer appends to a package-level slice
	w := &c12lWorld{}
	w.srv = NewServer(&Config{ServerName: c12lServer}, c12lCMFilter{}, nil)
	w.adapter = GetListenerAdapterInstance()
	if w.adapter == nil {
		return nil, fmt.Errorf("NewServer did not initialise the listener adapter")
	}
	h, ok := w.srv.Handler().(*connHandler)
	if !ok {
		return nil, fmt.Errorf("server handler is a %T", w.srv.Handler())
	}
	w.handler = h
	return w, nil
}

// apply runs one operation through the adapter. A panic is returned as text.
func (w *c12lWorld) apply(o c12lOp) (err error, panicked string) {
	defer func() {
		if x := recover(); x != nil {
			panicked = fmt.Sprintf("%v", x)
		}
	}()
	switch o.Kind {
	case "delete":
		err = w.adapter.DeleteListener("", o.Name)
	case "delete-badserver":
		err = w.adapter.DeleteListener(c12lNoServer, o.Name)
	case "set", "set-notls", "set-2fc", "set-badserver":
		lc, berr := c12lBuild(c12lOpParams(o))
		if berr != nil {
			return nil, "harness: " + berr.Error()
		}
		server := ""
		if o.Kind == "set-badserver" {
			server = c12lNoServer
		}
		err = w.adapter.AddOrUpdateListener(server, lc)
	default:
		panicked = "harness: unknown operation kind " + o.Kind
	}
	return
}

// ---------------------------------------------------------------------------
// observation

type c12lField struct {
	name string
	get  func(o *c12lObs) string
}

// per listener name
type c12lObs struct {
	Present     bool
	Lookup      string // what the lookups find
	Stored      string // the stored listener configuration (JSON form + the fields outside it)
	Object      string // getters of the listener object
	ReadBuf     string // default read buffer size / access logs of the active listener
	Idle        string // live connection idle timeout
	NetChain    string
	LFChain     string
	StreamChain string
	TLS         string
	Effective   string // entry in the effective configuration (admin view of the listener section)
	Dumped      string // entry in the persisted dump (InheritMosnconfig servers[0].listeners)
	Hidden      string
}

var c12lFields = []c12lField{
	{"lookups (adapter default server / named server / handler by name / by address)", func(o *c12lObs) string { return o.Lookup }},
	{"stored listener configuration", func(o *c12lObs) string { return o.Stored }},
	{"listener object (name, address, bind, tag, buffer limit, original dst)", func(o *c12lObs) string { return o.Object }},
	{"active listener read buffer size / access logs", func(o *c12lObs) string { return o.ReadBuf }},
	{"live connection idle timeout", func(o *c12lObs) string { return o.Idle }},
	{"live network filter chain", func(o *c12lObs) string { return o.NetChain }},
	{"live listener filter chain", func(o *c12lObs) string { return o.LFChain }},
	{"live stream filter chain", func(o *c12lObs) string { return o.StreamChain }},
	{"tls manager", func(o *c12lObs) string { return o.TLS }},
	{"effective configuration entry", func(o *c12lObs) string { return o.Effective }},
	{"dumped configuration entry", func(o *c12lObs) string { return o.Dumped }},
}

type c12lWorldObs struct {
	Names  map[string]*c12lObs
	Extra  string // listeners under other names anywhere
	Dump   []byte // the persisted dump (InheritMosnconfig)
	Starts int64
}

func c12lCompact(raw []byte) string {
	var b bytes.Buffer
	if err := json.Compact(&b, raw); err != nil {
		return "uncompactable:" + string(raw)
	}
	return b.String()
}

func c12lListenerJSON(cfg *v2.Listener) string {
	b, err := json.Marshal(*cfg)
	if err != nil {
		return "unmarshalable: " + err.Error()
	}
	addr, netw := "nil", ""
	if cfg.Addr != nil {
		addr, netw = cfg.Addr.String(), cfg.Addr.Network()
	}
	return fmt.Sprintf("%s|addr=%s/%s|limit=%d|tag=%d", b, netw, addr, cfg.PerConnBufferLimitBytes, cfg.ListenerTag)
}

func c12lIdle(d *api.DurationConfig) string {
	if d == nil {
		return "default"
	}
	return d.Duration.String()
}

func c12lStreamChain(name string) string {
	f := streamfilter.GetStreamFilterManager().GetStreamFilterFactory(name)
	if f == nil {
		return "no-factory"
	}
	r := &c12lStreamRecorder{}
	f.CreateFilterChain(context.Background(), r)
	return "[" + strings.Join(r.tags, ",") + "]"
}

func (w *c12lWorld) observe() (*c12lWorldObs, error) {
	out := &c12lWorldObs{Names: map[string]*c12lObs{}, Starts: atomic.LoadInt64(&c12lStarts)}

	// effective configuration as the admin API shows it (config_dump?listener;
	// the whole-document form DumpJSON is compared with it on every new state)
	effL := map[string]string{}
	var effErr error
	configmanager.HandleMOSNConfig(configmanager.CfgTypeListener, func(v interface{}) {
		m, ok := v.(map[string]v2.Listener)
		if !ok {
			effErr = fmt.Errorf("listener section of the effective configuration is a %T", v)
			return
		}
		for n, l := range m {
			b, err := json.Marshal(l)
			if err != nil {
				effErr = err
				return
			}
			effL[n] = string(b)
		}
	})
	if effErr != nil {
		return nil, effErr
	}
	// the configuration that would be persisted / handed to a new mosn
	dj, err := configmanager.InheritMosnconfig()
	if err != nil {
		return nil, fmt.Errorf("InheritMosnconfig: %v", err)
	}
	out.Dump = dj
	var dumped struct {
		Servers []struct {
			Listeners []json.RawMessage `json:"listeners"`
		} `json:"servers"`
	}
	if err := json.Unmarshal(dj, &dumped); err != nil {
		return nil, fmt.Errorf("InheritMosnconfig output: %v", err)
	}
	dumpedBy := map[string][]string{}
	if len(dumped.Servers) != 1 {
		return nil, fmt.Errorf("dump has %d servers", len(dumped.Servers))
	}
	for _, raw := range dumped.Servers[0].Listeners {
		cj := c12lCompact(raw)
		name := ""
		for _, n := range c12lNames { // the JSON form starts with the name
			if strings.HasPrefix(cj, `{"name":"`+n+`",`) {
				name = n
			}
		}
		if name == "" {
			var n struct {
				Name string `json:"name"`
			}
			if err := json.Unmarshal(raw, &n); err != nil {
				return nil, fmt.Errorf("dumped listener: %v", err)
			}
			name = n.Name
		}
		dumpedBy[name] = append(dumpedBy[name], cj)
	}

	known := map[string]bool{}
	for _, name := range c12lNames {
		known[name] = true
		o := &c12lObs{}
		out.Names[name] = o
		byDefault := w.adapter.FindListenerByName("", name)
		byServer := w.adapter.FindListenerByName(c12lServer, name)
		byHandler := w.handler.FindListenerByName(name)
		al := w.handler.findActiveListenerByName(name)
		o.Present = al != nil
		found := func(l types.Listener) string {
			if l == nil || reflect.ValueOf(l).IsNil() {
				return "none"
			}
			if al != nil && l == al.listener {
				return "this"
			}
			return "other:" + l.Name()
		}
		o.Lookup = fmt.Sprintf("default=%s,server=%s,handler=%s", found(byDefault), found(byServer), found(byHandler))
		for _, k := range []string{"A", "B"} {
			a, _ := net.ResolveTCPAddr("tcp", c12lAddrs[name][k])
			o.Lookup += fmt.Sprintf(",addr%s=%s", k, found(w.handler.FindListenerByAddress(a)))
		}
		if e, ok := effL[name]; ok {
			o.Effective = e
		} else {
			o.Effective = "absent"
		}
		switch d := dumpedBy[name]; len(d) {
		case 0:
			o.Dumped = "absent"
		case 1:
			o.Dumped = d[0]
		default:
			o.Dumped = fmt.Sprintf("%d entries: %s", len(d), strings.Join(d, " "))
		}
		o.StreamChain = c12lStreamChain(name)
		if al == nil {
			continue
		}
		l := al.listener
		cfg := l.Config()
		if cfg == nil {
			o.Stored = "nil"
		} else {
			o.Stored = c12lListenerJSON(cfg)
		}
		o.Object = fmt.Sprintf("name=%s addr=%s/%s bind=%v tag=%d limit=%d origdst=%q/%v",
			l.Name(), l.Addr().Network(), l.Addr().String(), l.IsBindToPort(), l.ListenerTag(), l.PerConnBufferLimitBytes(), l.GetOriginalDstType(), l.IsOriginalDst())
		o.ReadBuf = fmt.Sprintf("readbuf=%d accesslogs=%d", al.defaultReadBufferSize, len(al.accessLogs))
		o.Idle = c12lIdle(al.idleTimeout)
		nr := &c12lNetRecorder{}
		for _, f := range al.networkFiltersFactories {
			f.CreateFilterChain(context.Background(), nr)
		}
		o.NetChain = "[" + strings.Join(nr.tags, ",") + "]"
		lr := &c12lLFRecorder{}
		for _, f := range al.listenerFiltersFactories {
			if _, ok := f.(*c12lLFFactory); ok {
				f.OnAccept(lr)
			} else {
				lr.tags = append(lr.tags, fmt.Sprintf("%T", f))
			}
		}
		o.LFChain = "[" + strings.Join(lr.tags, ",") + "]"
		if al.tlsMng == nil {
			o.TLS = "no-manager"
		} else {
			o.TLS = fmt.Sprintf("enabled=%v", al.tlsMng.Enabled())
		}
		o.Hidden = fmt.Sprintf("updated_label=%v conns=%d", al.updatedLabel, al.conns.Len())
	}
	var extra []string
	for _, al := range w.handler.listeners {
		if n := al.listener.Name(); !known[n] {
			extra = append(extra, "handler:"+n)
		}
	}
	for n := range effL {
		if !known[n] {
			extra = append(extra, "effective:"+n)
		}
	}
	for n := range dumpedBy {
		if !known[n] {
			extra = append(extra, "dumped:"+n)
		}
	}
	// the same name twice in the handler
	cnt := map[string]int{}
	for _, al := range w.handler.listeners {
		cnt[al.listener.Name()]++
	}
	for n, c := range cnt {
		if c > 1 {
			extra = append(extra, fmt.Sprintf("handler:%s x%d", n, c))
		}
	}
	sort.Strings(extra)
	out.Extra = strings.Join(extra, ",")
	return out, nil
}

func (o *c12lObs) key(withHidden bool) string {
	var s []string
	s = append(s, fmt.Sprintf("present=%v", o.Present))
	for _, f := range c12lFields {
		s = append(s, f.get(o))
	}
	if withHidden {
		s = append(s, o.Hidden)
	}
	return strings.Join(s, "\x1f")
}

func (wo *c12lWorldObs) key() string {
	var s []string
	for _, n := range c12lNames {
		s = append(s, wo.Names[n].key(true))
	}
	s = append(s, "extra="+wo.Extra)
	return strings.Join(s, "\x1e")
}

// ---------------------------------------------------------------------------
// the reference model

type c12lNameModel struct {
	present bool
	first   c12lOp // the accepted add
	last    c12lOp // the last accepted add/update
	updated bool   // at least one accepted update since the add
	tainted bool   // an update was rejected since the last accepted one (kept while the name stays deleted)
	deleted bool   // existed and was deleted (and not re-added)
}

type c12lModel map[string]*c12lNameModel

func c12lNewModel() c12lModel {
	m := c12lModel{}
	for _, n := range c12lNames {
		m[n] = &c12lNameModel{}
	}
	return m
}

// expect says whether the operation must be accepted; "" = accepted, else the
// documented reason of the rejection (in the order the code checks them)
func (m c12lModel) expect(o c12lOp) string {
	nm := m[o.Name]
	switch o.Kind {
	case "delete":
		return ""
	case "set-badserver", "delete-badserver":
		return "server name not found"
	case "set-2fc":
		return "filter chain count is not 1"
	}
	if nm.present && o.Addr != nm.first.Addr {
		return "address differs from the listener's address"
	}
	if o.Kind == "set-notls" {
		return "tls enabled without a certificate"
	}
	return ""
}

func (m c12lModel) step(o c12lOp, rejected bool) {
	nm := m[o.Name]
	switch {
	case o.Kind == "delete":
		if nm.present {
			*nm = c12lNameModel{deleted: true, tainted: nm.tainted}
		}
	case rejected:
		// (a call the adapter refuses for its server name never reaches the listener)
		if nm.present && !strings.HasSuffix(o.Kind, "-badserver") {
			nm.tainted = true
		}
	case !nm.present:
		*nm = c12lNameModel{present: true, first: o, last: o}
	default:
		nm.last = o
		nm.tainted = false
		nm.updated = true
	}
}

func (nm *c12lNameModel) key() string {
	return fmt.Sprintf("%v/%v/%v/%v/%v/%v", nm.present, nm.first, nm.last, nm.updated, nm.tainted, nm.deleted)
}

func (m c12lModel) key() string {
	var s []string
	for _, n := range c12lNames {
		s = append(s, m[n].key())
	}
	return strings.Join(s, "|")
}

// merged: the configurations the statement's "last update wins" allows for a
// listener: the last accepted configuration with the fields the update branch
// does not apply taken from the add. The idle timeout is the one field the code
// treats both ways (live value updated, stored value kept), so the model allows
// either reading - the add's or the last update's - as long as ONE of them
// explains everything observed.
func (nm *c12lNameModel) merged(name string) []c12lParams {
	p := c12lParams{name: name, addr: nm.first.Addr, net: nm.last.Net, stream: nm.last.Stream,
		fixed: nm.first.Misc, upd: nm.last.Misc, idle: nm.first.Misc, chains: 1}
	if nm.last.Misc == nm.first.Misc {
		return []c12lParams{p}
	}
	q := p
	q.idle = nm.last.Misc
	return []c12lParams{p, q}
}

var c12lExpectedCache = map[c12lParams]*c12lObs{}

// expected projection of a present listener, written down from the parameters
// (independent of the code under test except for v2.Listener's JSON form)
func c12lExpected(p c12lParams) (*c12lObs, error) {
	name := p.name
	if o, ok := c12lExpectedCache[p]; ok {
		return o, nil
	}
	cfg, err := c12lBuild(p)
	if err != nil {
		return nil, err
	}
	addr := c12lAddrs[name][p.addr]
	o := &c12lObs{Present: true}
	o.Lookup = "default=this,server=this,handler=this,addrA=this,addrB=none"
	if p.addr == "B" {
		o.Lookup = "default=this,server=this,handler=this,addrA=none,addrB=this"
	}
	o.Stored = c12lListenerJSON(cfg)
	origdst, isOrig := "", false
	if p.upd == 1 {
		origdst, isOrig = "redirect", true
	}
	o.Object = fmt.Sprintf("name=%s addr=tcp/%s bind=%v tag=0 limit=%d origdst=%q/%v", name, addr, p.fixed == 1, 1<<15, origdst, isOrig)
	rb := 0
	if p.fixed == 1 {
		rb = 4096
	}
	o.ReadBuf = fmt.Sprintf("readbuf=%d accesslogs=0", rb)
	o.Idle = "default"
	if p.idle == 1 {
		o.Idle = "1m30s"
	}
	o.NetChain = fmt.Sprintf("[P%d]", p.net)
	o.LFChain = "[]"
	if p.upd == 1 {
		o.LFChain = "[lf1]"
	}
	o.StreamChain = "[" + strings.Join(c12lStreamTags(p.stream), ",") + "]"
	o.TLS = "enabled=false"
	b, err := json.Marshal(*cfg)
	if err != nil {
		return nil, err
	}
	o.Effective = string(b)
	o.Dumped = string(b)
	c12lExpectedCache[p] = o
	return o, nil
}

// ---------------------------------------------------------------------------
// running a history

type c12lRun struct {
	world         *c12lWorld
	before, after *c12lWorldObs // before: only when the model rejects the last operation
	model         c12lModel
	beforeModel   string
	errs          []string
	lastExpect    string // model's verdict on the last operation
	lastErr       error
	stop          string // violation key that makes the rest of the case meaningless ("" = none)
	stopDetail    string
}

func c12lReplay(h []c12lOp) (*c12lRun, error) {
	w, err := c12lFreshWorld()
	if err != nil {
		return nil, err
	}
	r := &c12lRun{model: c12lNewModel(), world: w}
	for i, o := range h {
		last := i == len(h)-1
		want := r.model.expect(o)
		if last {
			r.beforeModel = r.model.key()
			if want != "" {
				if r.before, err = w.observe(); err != nil {
					return nil, err
				}
			}
		}
		opErr, panicked := w.apply(o)
		if strings.HasPrefix(panicked, "harness: ") {
			return nil, fmt.Errorf("%s", panicked)
		}
		if panicked != "" {
			r.stop = "listener " + o.Kind + " through the adapter panics"
			r.stopDetail = fmt.Sprintf("operation %d %v: panic: %s", i, o, panicked)
			return r, nil
		}
		if opErr != nil {
			r.errs = append(r.errs, opErr.Error())
		} else {
			r.errs = append(r.errs, "")
		}
		if (opErr != nil) != (want != "") {
			if opErr != nil {
				r.stop = "a valid listener " + map[bool]string{true: "update", false: "add"}[r.model[o.Name].present] + " is rejected"
				if o.Kind == "delete" {
					r.stop = "DeleteListener returns an error"
				}
				r.stopDetail = fmt.Sprintf("operation %d %v failed: %v", i, o, opErr)
			} else {
				r.stop = "an invalid listener configuration is accepted (" + want + ")"
				r.stopDetail = fmt.Sprintf("operation %d %v succeeded; the model rejects it: %s", i, o, want)
			}
			return r, nil
		}
		r.model.step(o, opErr != nil)
		if last {
			r.lastExpect, r.lastErr = want, opErr
		}
	}
	if r.after, err = w.observe(); err != nil {
		return nil, err
	}
	return r, nil
}

// c12lDiff lists the fields in which two projections of one name differ
func c12lDiff(a, b *c12lObs, skip map[string]bool) []string {
	var out []string
	if a.Present != b.Present {
		out = append(out, "presence")
	}
	for _, f := range c12lFields {
		if skip[f.name] {
			continue
		}
		if f.get(a) != f.get(b) {
			out = append(out, f.name)
		}
	}
	return out
}

func c12lShow(o *c12lObs, field string) string {
	if field == "presence" {
		return fmt.Sprintf("%v", o.Present)
	}
	for _, f := range c12lFields {
		if f.name == field {
			return f.get(o)
		}
	}
	return "?"
}

// fresh world with only the final configurations, in name order
func c12lFreshFromModel(m c12lModel, alt int) (*c12lWorldObs, error) {
	w, err := c12lFreshWorld()
	if err != nil {
		return nil, err
	}
	for _, n := range c12lNames {
		if !m[n].present {
			continue
		}
		ps := m[n].merged(n)
		lc, err := c12lBuild(ps[alt%len(ps)])
		if err != nil {
			return nil, err
		}
		if err := w.adapter.AddOrUpdateListener("", lc); err != nil {
			return nil, fmt.Errorf("a fresh world rejects the final configuration of %s: %v", n, err)
		}
	}
	return w.observe()
}

// fresh world loaded from the persisted dump the way NewMosn loads a
// configuration file: unmarshal, then per listener ParseListenerConfig +
// Server.AddListener. loadErr reports a listener the fresh server refuses.
func c12lFreshFromDump(dump []byte) (obs *c12lWorldObs, loadErr string, err error) {
	cfg := &v2.MOSNConfig{}
	if uerr := json.Unmarshal(dump, cfg); uerr != nil {
		return nil, "the dump cannot be parsed: " + uerr.Error(), nil
	}
	w, err := c12lFreshWorld()
	if err != nil {
		return nil, "", err
	}
	if len(cfg.Servers) != 1 {
		return nil, fmt.Sprintf("the dump has %d servers", len(cfg.Servers)), nil
	}
	ls := cfg.Servers[0].Listeners
	sort.SliceStable(ls, func(i, j int) bool { return ls[i].Name < ls[j].Name }) // the dump's order is a map iteration order
	for i := range ls {
		var aerr error
		func() {
			defer func() {
				if x := recover(); x != nil {
					aerr = fmt.Errorf("panic: %v", x)
				}
			}()
			lc := configmanager.ParseListenerConfig(&ls[i], nil, nil)
			_, aerr = w.srv.AddListener(lc)
		}()
		if aerr != nil {
			return nil, fmt.Sprintf("listener %s of the dump is refused: %v", ls[i].Name, aerr), nil
		}
	}
	obs, err = w.observe()
	return obs, "", err
}

// the listener section of the whole-document admin dump
func c12lDumpJSONListeners() (map[string]string, error) {
	ej, err := configmanager.DumpJSON()
	if err != nil {
		return nil, err
	}
	var eff struct {
		Listener map[string]json.RawMessage `json:"listener"`
	}
	if err := json.Unmarshal(ej, &eff); err != nil {
		return nil, err
	}
	out := map[string]string{}
	for n, raw := range eff.Listener {
		out[n] = c12lCompact(raw)
	}
	return out, nil
}

// ---------------------------------------------------------------------------

// the fields in which the two readings of the idle timeout differ
var c12lIdleRelated = map[string]bool{
	"live connection idle timeout":  true,
	"stored listener configuration": true,
	"effective configuration entry": true,
	"dumped configuration entry":    true,
}

const c12lTaintNote = " [after a rejected update of this listener]"

// quick:    the narrow alphabet to depth 3
// thorough: the narrow alphabet to depth 5 and the wide alphabet to depth 3
func TestVerifC12Listeners(t *testing.T) {
	c12lBFS(t, c12lPartName, false, vreport.Pick(3, 5))
	if vreport.Thorough() || vreport.Replaying() {
		c12lBFS(t, c12lPartName+"-wide", true, 3)
	}
}

func c12lStateKey(r *c12lRun) string {
	h := sha256.Sum256([]byte(r.after.key() + "\x1d" + r.model.key()))
	return string(h[:])
}

func c12lBFS(t *testing.T, part string, wide bool, depth int) {
	p := vreport.Begin("C12", part, time.Duration(vreport.Pick(3, 30))*time.Minute)
	c12lSetup()
	alphabet := c12lAlphabet(wide)

	seen := map[string]bool{}
	var stateOf string
	herrs := 0
	harness := func(c c12lCase, msg string) {
		herrs++
		stateOf = ""
		full := fmt.Sprintf("%s; history %s", msg, c12lHistoryString(c.History))
		vreport.HarnessError(p.Prop, p.Name, full)
		t.Errorf("harness: %s", full)
	}

	check := func(p *vreport.Part, c c12lCase) {
		stateOf = ""
		if len(c.History) == 0 {
			return
		}
		r, err := c12lReplay(c.History)
		if err != nil {
			harness(c, err.Error())
			return
		}
		hist := "history " + c12lHistoryString(c.History)
		if r.stop != "" {
			p.Violation(r.stop, hist+": "+r.stopDetail, c)
			return
		}
		last := c.History[len(c.History)-1]
		rejected := r.lastErr != nil
		outcome := "accepted"
		if rejected {
			outcome = "rejected: " + r.lastExpect
			p.Count("rejected_operations", 1)
		}
		p.Outcome(last.Kind + "/" + outcome)
		p.Distinct(fmt.Sprintf("%s|%s|%s", r.beforeModel, last, outcome))
		if p.WantSample() {
			p.Sample(map[string]interface{}{"history": c12lHistoryString(c.History), "errors": r.errs,
				"state": map[string]interface{}{c12lNames[0]: r.after.Names[c12lNames[0]], c12lNames[1]: r.after.Names[c12lNames[1]]}})
		}

		// (4) a rejected operation changes nothing. The stream filter manager
		// entry of a name that has no listener (before and after) is invisible to
		// the serving path: not compared.
		if rejected {
			if r.before == nil {
				harness(c, "no observation before a rejected operation")
				return
			}
			for _, n := range c12lNames {
				b, a := r.before.Names[n], r.after.Names[n]
				skip := map[string]bool{}
				if !b.Present && !a.Present {
					skip["live stream filter chain"] = true
				}
				what := "another listener"
				if n == last.Name {
					what = "the listener"
				}
				for _, f := range c12lDiff(b, a, skip) {
					p.Violation(fmt.Sprintf("rejected listener operation (%s) is not atomic: %s of %s changed", r.lastExpect, f, what),
						fmt.Sprintf("%s: the last operation failed (%s) but %s of %s changed\n  before: %s\n  after:  %s", hist, r.errs[len(r.errs)-1], f, n, c12lShow(b, f), c12lShow(a, f)), c)
				}
			}
			if r.before.Extra != r.after.Extra {
				p.Violation("rejected listener operation is not atomic: listeners under other names appear",
					fmt.Sprintf("%s: before %q after %q", hist, r.before.Extra, r.after.Extra), c)
			}
		}

		// (1) last update wins / (3) deleted is gone, against the reference model
		for _, n := range c12lNames {
			nm, o := r.model[n], r.after.Names[n]
			if !nm.present {
				why := "never added"
				if nm.deleted {
					why = "deleted"
				}
				if o.Present || !strings.HasPrefix(o.Lookup, "default=none,server=none,handler=none,addrA=none,addrB=none") {
					p.Violation("a listener that does not exist ("+why+") is found by the handler / adapter lookups",
						fmt.Sprintf("%s: %s: present=%v lookups %s", hist, n, o.Present, o.Lookup), c)
				}
				if o.Effective != "absent" {
					p.Violation("a listener that does not exist ("+why+") is in the effective configuration",
						fmt.Sprintf("%s: %s: effective configuration has %s", hist, n, o.Effective), c)
				}
				if o.Dumped != "absent" {
					p.Violation("a listener that does not exist ("+why+") is in the dumped configuration",
						fmt.Sprintf("%s: %s: dump has %s", hist, n, o.Dumped), c)
				}
				continue
			}
			// the reading of the idle timeout that explains most
			var want *c12lObs
			var diffs []string
			for i, mp := range nm.merged(n) {
				w, err := c12lExpected(mp)
				if err != nil {
					harness(c, err.Error())
					return
				}
				if d := c12lDiff(w, o, nil); i == 0 || len(d) < len(diffs) {
					want, diffs = w, d
				}
			}
			if alts := nm.merged(n); len(alts) == 2 && len(diffs) > 0 {
				// neither reading of the idle timeout explains the observation: if
				// that is all that is wrong, say so under its own key
				only := true
				for _, mp := range alts {
					w, _ := c12lExpected(mp)
					for _, f := range c12lDiff(w, o, nil) {
						if !c12lIdleRelated[f] {
							only = false
						}
					}
				}
				if only && !nm.tainted {
					p.Violation("listener after update history: the live idle timeout and the stored connection_idle_timeout disagree",
						fmt.Sprintf("%s: %s (add %v, last accepted %v):\n  live idle timeout: %s\n  stored: %s\n  effective: %s\n  dumped: %s", hist, n, nm.first, nm.last, o.Idle, o.Stored, o.Effective, o.Dumped), c)
					diffs = nil
				}
			}
			for _, f := range diffs {
				key := "listener after update history: " + f + " is not that of the last accepted update"
				if !nm.updated && !nm.tainted {
					key = "freshly added listener: " + f + " is not that of its configuration"
				}
				if nm.tainted {
					key = "listener after update history: state is not that of the last accepted update" + c12lTaintNote
				}
				p.Violation(key, fmt.Sprintf("%s: %s, %s:\n  expected (add %v, last accepted %v): %s\n  observed: %s", hist, n, f, nm.first, nm.last, c12lShow(want, f), c12lShow(o, f)), c)
			}
		}
		if r.after.Extra != "" {
			p.Violation("listeners appear under names nobody added", fmt.Sprintf("%s: %s", hist, r.after.Extra), c)
		}

		key := c12lStateKey(r)
		stateOf = key
		if seen[key] {
			return
		}

		// ---- new state: the expensive oracles. They are functions of the state
		// (projection + model), so once per state is enough.

		// dumps are read-only and the two admin views agree
		dl, err := c12lDumpJSONListeners()
		if err != nil {
			harness(c, "DumpJSON: "+err.Error())
			return
		}
		for _, n := range c12lNames {
			got, ok := dl[n]
			if !ok {
				got = "absent"
			}
			if got != r.after.Names[n].Effective {
				p.Violation("the listener section of DumpJSON differs from the config_dump view of the effective configuration",
					fmt.Sprintf("%s: %s: DumpJSON %s, HandleMOSNConfig %s", hist, n, got, r.after.Names[n].Effective), c)
			}
		}
		again, err := r.world.observe()
		if err != nil {
			harness(c, err.Error())
			return
		}
		if again.key() != r.after.key() {
			p.Violation("dumping the configuration changes the listener state", hist, c)
		}

		// reset self-check (states that will be expanded): the same history gives
		// the same state again
		if len(c.History) < depth || vreport.Replaying() {
			r2, err := c12lReplay(c.History)
			if err != nil {
				harness(c, err.Error())
				return
			}
			if r2.stop != "" || c12lStateKey(r2) != key {
				harness(c, "replaying the history twice gives two different states (world reset incomplete?)")
				return
			}
		}

		// (2) a fresh world with only the final configurations
		// (both readings of the idle timeout, see merged; per name the one that
		// explains most counts)
		var freshAlt [2]*c12lWorldObs
		for alt := 0; alt < 2; alt++ {
			if freshAlt[alt], err = c12lFreshFromModel(r.model, alt); err != nil {
				harness(c, err.Error())
				return
			}
		}
		for _, n := range c12lNames {
			nm := r.model[n]
			if !nm.present {
				continue // absent names: oracle (3) above
			}
			fresh := freshAlt[0]
			diffs := c12lDiff(freshAlt[0].Names[n], r.after.Names[n], nil)
			if d := c12lDiff(freshAlt[1].Names[n], r.after.Names[n], nil); len(d) < len(diffs) {
				fresh, diffs = freshAlt[1], d
			}
			for _, f := range diffs {
				key := "listener after update history differs from a fresh listener with the final configuration: " + f
				if nm.tainted {
					key = "listener after update history differs from a fresh listener with the final configuration" + c12lTaintNote
				}
				p.Violation(key, fmt.Sprintf("%s: %s, %s:\n  fresh (configuration %+v): %s\n  live:  %s", hist, n, f, nm.merged(n)[0], c12lShow(fresh.Names[n], f), c12lShow(r.after.Names[n], f)), c)
			}
		}

		// (5) a fresh world loaded from the persisted dump
		re, loadErr, err := c12lFreshFromDump(r.after.Dump)
		if err != nil {
			harness(c, err.Error())
			return
		}
		anyTaint := ""
		for _, n := range c12lNames {
			if r.model[n].tainted {
				anyTaint = " [after a rejected update]"
			}
		}
		if loadErr != "" {
			p.Violation("the dumped listener configuration cannot be loaded by a fresh server"+anyTaint, hist+": "+loadErr, c)
		} else {
			for _, n := range c12lNames {
				nm := r.model[n]
				live := r.after.Names[n]
				if !nm.present && !live.Present {
					// a name without listener: only its (re)appearance counts; the
					// stream filter manager entry of such a name serves nobody
					if re.Names[n].Present {
						why := "a listener that was never added"
						if nm.deleted {
							why = "a deleted listener"
						}
						p.Violation("a server reloaded from the dump has "+why,
							fmt.Sprintf("%s: %s:\n  reloaded: %s\n  live: no such listener", hist, n, re.Names[n].Stored), c)
					}
					continue
				}
				for _, f := range c12lDiff(re.Names[n], live, nil) {
					key := "server reloaded from the dump differs from the live one: " + f
					if nm.tainted {
						key = "server reloaded from the dump differs from the live one" + c12lTaintNote
					}
					p.Violation(key, fmt.Sprintf("%s: %s, %s:\n  reloaded: %s\n  live:     %s", hist, n, f, c12lShow(re.Names[n], f), c12lShow(live, f)), c)
				}
			}
			if re.Extra != r.after.Extra {
				p.Violation("server reloaded from the dump has other listener names than the live one", fmt.Sprintf("%s: reloaded %q live %q", hist, re.Extra, r.after.Extra), c)
			}
		}
	}

	states, transitions := 1, 0
	perDepth := []int{}
	gen := func(yield func(c12lCase) bool) {
		frontier := [][]c12lOp{{}}
		for d := 1; d <= depth; d++ {
			var next [][]c12lOp
			for _, h := range frontier {
				for _, op := range alphabet {
					nh := append(append([]c12lOp{}, h...), op)
					if !yield(c12lCase{History: nh}) {
						return
					}
					if herrs > 5 {
						return
					}
					transitions++
					if stateOf != "" && !seen[stateOf] {
						seen[stateOf] = true
						states++
						next = append(next, nh)
					}
				}
			}
			perDepth = append(perDepth, len(next))
			frontier = next
			if len(frontier) == 0 {
				break
			}
		}
	}
	// the initial (empty) state
	if !vreport.Replaying() {
		if r0, err := c12lReplay(nil); err == nil && r0.after != nil {
			seen[c12lStateKey(r0)] = true
		}
	}
	complete := vreport.Run(p, gen, check)
	if herrs > 0 {
		complete = false
	}
	if !vreport.Replaying() {
		p.AddStates(states)
		p.AddTransitions(transitions)
		p.AddTraces(transitions)
		p.Note("new_states_per_depth", perDepth)
		p.Note("alphabet_size", len(alphabet))
		p.Note("listener_starts_requested_by_the_adapter", atomic.LoadInt64(&c12lStarts))
	}
	second := "the full alphabet for both names"
	if !wide {
		second = "the second name reduced to 3 configurations (one with the other address), delete and tls-without-certificate"
	}
	p.End(complete,
		fmt.Sprintf("breadth-first search over histories of ListenerAdapter.AddOrUpdateListener / DeleteListener (default server, as the admin API and xDS call them) on a never-started server.NewServer, depth %d, alphabet of %d operations: per listener name {address A,B x network filter configuration P1,P2 x stream filters %v x 2 settings of the remaining fields (type, bind_port, read buffer size, idle timeout | inspector, original dst, match, listener filters); delete; tls on without certificate; two filter chains; add and delete under an unknown server name}, %s; dumps (config_dump view, InheritMosnconfig) after every history, DumpJSON on every new state",
			depth, len(alphabet), map[bool]string{false: "{none,[s1]}", true: "{none,[s1],[s2,s1]}"}[wide], second),
		"every successor = the history replayed on a fresh world (configmanager.Reset, stream filter manager emptied, ResetAdapter, server.NewServer) plus one operation; states merged on the per-name projection (lookups, stored configuration, listener object, instantiated network/listener/stream filter chains, tls manager, live idle timeout, effective-configuration entry, dumped entry, hidden activeListener fields) plus the reference model's state; compared on every transition: acceptance/rejection against the documented rules, (1) every field against the model 'last accepted configuration, non-updatable fields from the add', (3) absent names are absent from lookups, effective configuration and dump, (4) a rejected operation leaves every field of both names unchanged; on every NEW state (they are functions of the state): dumps are read-only and DumpJSON agrees with the config_dump view, (2) equality with a fresh world given only the final configurations, (5) equality with a fresh server loaded from InheritMosnconfig's output via ParseListenerConfig+AddListener, plus a replay-twice self-check of the reset (states that are expanded). The idle timeout is the one field the code treats both ways (live value follows the update, stored value stays): the model accepts the add's or the last update's value provided one of the two explains the stored, live, effective and dumped values together. Not compared: the stream filter manager entry of a name without listener, the number of Start calls (asynchronous), configmanager's write-only per-listener factory maps. Not in the alphabet: access logs, udp/unix listeners, unnamed listeners, valid tls contexts (C13), buffer limit / tag (not in the JSON form), several servers")
}
