//go:build verif

package server

import (
	"context"
	"encoding/json"
	"fmt"
	"net"
	"os"
	"path/filepath"
	"strings"
	"sync"
	"testing"
	"time"

	"mosn.io/api"
	v2 "mosn.io/mosn/pkg/config/v2"
	"mosn.io/mosn/pkg/configmanager"
	"mosn.io/mosn/pkg/log"
	"mosn.io/mosn/pkg/stagemanager"
	"mosn.io/mosn/pkg/types"
	"mosn.io/mosn/pkg/verifrt/vreport"
	"mosn.io/pkg/buffer"
	pkglog "mosn.io/pkg/log"
)

// C11, unit "reconfigure": the ORDER of the old MOSN's side of a hot upgrade -
// the real server.ReconfigureHandler (what Mosn.Start registers as the upgrade
// handler of the stage manager) against the real new-MOSN side of the listener
// hand-over (server.GetInheritListeners, then the ack exchange of
// Mosn.transferConnectionHandler, optionally server.GetInheritConfig), both in
// ONE process over the real unix sockets listen.sock / mosnconfig.sock in a
// per-run directory, with real started listeners on loopback TCP sockets.
//
// The package variable `servers` holds one server whose handler is the REAL
// connHandler (NewHandler, listeners added with AddOrUpdateListener and
// started with StartListeners) behind a decorator that records when
// ListListenersFile / GracefulStopListeners / StopConnection are entered and
// left and delegates to the real methods. The stage manager's state is set to
// Upgrading (what runUpgrade does before it calls the handler; listener.Shutdown
// branches on it).
//
// At fixed points of the protocol the harness dials every listener address:
//
//	p0 before the upgrade, p1 when the new side holds the inherited listeners
//	(the old one has not stopped accepting), p2 when the old side is told to stop
//	its connections (its listeners have stopped accepting), p3 after the handler
//	returned
//
// Oracle (success path): (1) the new side has received listeners for exactly
// the addresses of the old listeners and has sent its ack BEFORE the old side
// enters GracefulStopListeners; (2) GracefulStopListeners has returned BEFORE
// StopConnection is entered; (3) the handler returns nil, after StopConnection,
// and not earlier than 2*GracefulTimeout + 2*DefaultConnReadTimeout after it
// (the time handed-over connections have; a LOWER bound on a monotonic clock: it
// can not be violated by a slow machine); (4) every dial of p0..p3 succeeds, and
// every connection is accepted exactly once: by the old MOSN (its network
// filter factory sees it) or, when the harness finally accepts on the inherited
// listeners, by the new side; none dialled at p2/p3 is accepted by the old
// MOSN. Failure paths: the new side hangs up instead of acknowledging / the
// listener files can not be listed -> the handler returns an error (the stage
// manager then resumes), and nothing was stopped: no GracefulStopListeners, no
// StopConnection, the old listeners still accept.

const c11rPart = "reconfigure"
const c11rFilter = "verif_c11_reconf"

type c11rCase struct {
	Listeners     int    `json:"listeners"`
	InheritConfig bool   `json:"inherit_config"`
	NewSide       string `json:"new_side"` // ok | hangup (closes the connection instead of the ack) | nofiles (ListListenersFile fails)
}

type c11rWorld struct {
	mu       sync.Mutex
	ev       []string
	t        map[string]time.Time
	accepted map[string]int // old MOSN: local address -> connections seen by the network filter factory
	hooks    map[string]func()
}

var c11rW *c11rWorld

func (w *c11rWorld) rec(s string) {
	w.mu.Lock()
	w.ev = append(w.ev, s)
	w.t[s] = time.Now()
	h := w.hooks[s]
	w.mu.Unlock()
	if h != nil {
		h()
	}
}

func (w *c11rWorld) idx(s string) int {
	w.mu.Lock()
	defer w.mu.Unlock()
	for i, e := range w.ev {
		if e == s {
			return i
		}
	}
	return -1
}

// the network filter of the old MOSN's listeners: counts the connection, keeps it open
type c11rFactory struct{}
type c11rRead struct{ cb api.ReadFilterCallbacks }

func (c11rFactory) CreateFilterChain(ctx context.Context, callbacks api.NetWorkFilterChainFactoryCallbacks) {
	callbacks.AddReadFilter(&c11rRead{})
}
func (f *c11rRead) OnData(buffer.IoBuffer) api.FilterStatus { return api.Stop }
func (f *c11rRead) OnNewConnection() api.FilterStatus {
	if w := c11rW; w != nil && f.cb != nil {
		a := f.cb.Connection().LocalAddr().String()
		w.mu.Lock()
		w.accepted[a]++
		w.mu.Unlock()
	}
	return api.Continue
}
func (f *c11rRead) InitializeReadFilterCallbacks(cb api.ReadFilterCallbacks) { f.cb = cb }

func init() {
	api.RegisterNetwork(c11rFilter, func(conf map[string]interface{}) (api.NetworkFilterChainFactory, error) {
		return c11rFactory{}, nil
	})
}

type c11rCMFilter struct{}

func (c11rCMFilter) OnCreated(cccb types.ClusterConfigFactoryCb, chcb types.ClusterHostFactoryCb) {}

// the decorator around the real connection handler
type c11rHandler struct {
	types.ConnectionHandler
	w       *c11rWorld
	nofiles bool
}

func (h *c11rHandler) ListListenersFile(ctx context.Context) []*os.File {
	h.w.rec("old:ListListenersFile")
	if h.nofiles {
		return nil
	}
	return h.ConnectionHandler.ListListenersFile(ctx)
}
func (h *c11rHandler) GracefulStopListeners(ctx context.Context) error {
	h.w.rec("old:GracefulStopListeners-begin")
	err := h.ConnectionHandler.GracefulStopListeners(ctx)
	h.w.rec("old:GracefulStopListeners-end")
	return err
}
func (h *c11rHandler) StopConnection() {
	h.w.rec("old:StopConnection-begin")
	h.ConnectionHandler.StopConnection()
	h.w.rec("old:StopConnection-end")
}

func c11rDial(addrs []string) (conns []net.Conn, err error) {
	for _, a := range addrs {
		c, e := net.DialTimeout("tcp", a, 5*time.Second)
		if e != nil {
			return conns, fmt.Errorf("dial %s: %v", a, e)
		}
		conns = append(conns, c)
	}
	return conns, nil
}

func c11rRun(p *vreport.Part, c c11rCase, dir string) {
	fail := func(key, detail string) { p.Violation(key, detail, c) }
	w := &c11rWorld{t: map[string]time.Time{}, accepted: map[string]int{}, hooks: map[string]func(){}}
	c11rW = w
	defer func() { c11rW = nil }()

	// package state of the code under test, restored afterwards
	oldServers, oldGT, oldRT, oldInherit := servers, GracefulTimeout, types.DefaultConnReadTimeout, enableInheritOldMosnconfig
	oldL, oldC := types.TransferListenDomainSocket, types.TransferMosnconfigDomainSocket
	oldState := stagemanager.GetState()
	defer func() {
		servers, GracefulTimeout, types.DefaultConnReadTimeout, enableInheritOldMosnconfig = oldServers, oldGT, oldRT, oldInherit
		types.TransferListenDomainSocket, types.TransferMosnconfigDomainSocket = oldL, oldC
		stagemanager.SetState(oldState)
	}()
	GracefulTimeout = 150 * time.Millisecond
	types.DefaultConnReadTimeout = 100 * time.Millisecond
	wantWait := 2*GracefulTimeout + 2*types.DefaultConnReadTimeout
	enableInheritOldMosnconfig = c.InheritConfig
	types.TransferListenDomainSocket = filepath.Join(dir, "listen.sock")
	types.TransferMosnconfigDomainSocket = filepath.Join(dir, "mosnconfig.sock")
	os.Remove(types.TransferListenDomainSocket)
	os.Remove(types.TransferMosnconfigDomainSocket)

	// the old MOSN: a real handler with real, started listeners
	real := NewHandler(c11rCMFilter{}, nil)
	var addrs []string
	for i := 0; i < c.Listeners; i++ {
		ln, err := net.Listen("tcp", "127.0.0.1:0")
		if err != nil {
			vreport.HarnessError("C11", c11rPart, "listen: "+err.Error())
			return
		}
		addrs = append(addrs, ln.Addr().String())
		b, _ := json.Marshal(map[string]interface{}{
			"name": fmt.Sprintf("verif-c11-l%d", i), "address": ln.Addr().String(), "bind_port": true,
			"filter_chains": []interface{}{map[string]interface{}{"filters": []interface{}{map[string]interface{}{"type": c11rFilter, "config": map[string]interface{}{}}}}},
		})
		lc := &v2.Listener{}
		if err := json.Unmarshal(b, lc); err != nil {
			vreport.HarnessError("C11", c11rPart, "listener config: "+err.Error())
			return
		}
		lc.InheritListener = ln.(*net.TCPListener)
		if _, err := real.AddOrUpdateListener(lc); err != nil {
			vreport.HarnessError("C11", c11rPart, "AddOrUpdateListener: "+err.Error())
			return
		}
	}
	real.StartListeners(nil)
	defer real.CloseListeners()
	h := &c11rHandler{ConnectionHandler: real, w: w, nofiles: c.NewSide == "nofiles"}
	servers = []*server{{serverName: "verif-c11", stopChan: make(chan struct{}), handler: h}}
	stagemanager.SetState(stagemanager.Upgrading)

	var allConns []net.Conn
	defer func() {
		for _, x := range allConns {
			x.Close()
		}
	}()
	dialed := map[string]int{} // point -> connections
	var dialErr []string
	dial := func(point string) {
		cs, err := c11rDial(addrs)
		w.mu.Lock()
		allConns = append(allConns, cs...)
		dialed[point] = len(cs)
		if err != nil {
			dialErr = append(dialErr, point+": "+err.Error())
		}
		w.mu.Unlock()
	}
	oldAccepted := func() int {
		w.mu.Lock()
		defer w.mu.Unlock()
		// only the listeners of THIS case: the read filter finds its world through a package variable, so a
		// connection that the old MOSN of the previous case accepts late (its accept goroutine delayed on a
		// loaded machine) is booked here too - under the previous case's listener address
		n := 0
		for _, a := range addrs {
			n += w.accepted[a]
		}
		return n
	}
	waitOld := func(n int) bool { // the old MOSN's accept loops are asynchronous: wait until it has seen n connections
		for i := 0; i < 3000; i++ {
			if oldAccepted() >= n {
				return true
			}
			time.Sleep(2 * time.Millisecond)
		}
		return false
	}

	dial("p0")
	if !waitOld(len(addrs)) {
		fail("reconfigure: the old MOSN does not accept on its listeners before the upgrade (harness precondition)", fmt.Sprintf("accepted %d of %d", oldAccepted(), len(addrs)))
		return
	}

	// the new MOSN's side
	var inherited []net.Listener
	var newErr error
	var cfgData []byte
	newDone := make(chan struct{})
	if c.NewSide != "nofiles" {
		go func() {
			defer close(newDone)
			ls, _, uc, err := GetInheritListeners()
			if err != nil {
				newErr = err
				return
			}
			inherited = ls
			w.rec("new:got-listeners")
			dial("p1")
			if c.NewSide == "hangup" {
				uc.Close()
				w.rec("new:hangup")
				return
			}
			if c.InheritConfig {
				// Mosn.inheritHandler: after the listeners, the configuration
				cfgData, err = GetInheritConfig()
				if err != nil {
					newErr = err
					uc.Close()
					return
				}
				w.rec("new:got-config")
			}
			// Mosn.transferConnectionHandler: notify the old MOSN, wait for its ack
			w.rec("new:ack-sent")
			if _, err := uc.Write([]byte{0}); err != nil {
				newErr = err
				return
			}
			uc.SetReadDeadline(time.Now().Add(30 * time.Second))
			var b [1]byte
			if n, err := uc.Read(b[:]); n != 1 {
				newErr = fmt.Errorf("no ack from the old MOSN: %v", err)
				return
			}
			w.rec("new:ack-received")
			uc.Close()
		}()
	} else {
		close(newDone)
	}
	w.hooks["old:StopConnection-begin"] = func() { dial("p2") }

	// the old MOSN's side: the real handler
	var herr error
	func() {
		defer func() {
			if r := recover(); r != nil {
				herr = fmt.Errorf("panic: %v", r)
				fail("reconfigure: ReconfigureHandler panics", fmt.Sprint(r))
			}
		}()
		herr = ReconfigureHandler()
	}()
	w.rec("old:handler-returned")
	tRet := time.Now()
	<-newDone
	dial("p3")

	w.mu.Lock()
	events := strings.Join(w.ev, " ")
	w.mu.Unlock()
	detail := func(s string) string {
		return fmt.Sprintf("%s; events: %s; handler error: %v; new side error: %v", s, events, herr, newErr)
	}
	p.Outcome(fmt.Sprintf("%s|err=%v", events, herr != nil))
	p.Distinct(fmt.Sprintf("%+v", c))
	if p.WantSample() {
		p.Sample(map[string]interface{}{"case": c, "events": events, "handler_error": fmt.Sprint(herr)})
	}
	if len(dialErr) > 0 {
		fail("reconfigure: a new connection is refused during the hand-over", detail(strings.Join(dialErr, "; ")))
	}

	if c.NewSide == "ok" {
		if herr != nil || newErr != nil {
			fail("reconfigure: the hand-over of the listeners fails although the new MOSN plays its part", detail(""))
			return
		}
		// (1)
		gs := w.idx("old:GracefulStopListeners-begin")
		if g, a := w.idx("new:got-listeners"), w.idx("new:ack-sent"); gs < 0 || g < 0 || a < 0 || g > gs || a > gs {
			fail("reconfigure: the old listeners stop accepting before the new MOSN holds the listeners and has acknowledged", detail(""))
		}
		if c.InheritConfig {
			if len(cfgData) == 0 || !json.Valid(cfgData) {
				fail("reconfigure: the configuration handed to the new MOSN is not valid JSON", detail(fmt.Sprintf("%d bytes", len(cfgData))))
			}
		}
		got := map[string]bool{}
		for _, l := range inherited {
			got[l.Addr().String()] = true
		}
		for _, a := range addrs {
			if !got[a] {
				fail("reconfigure: a listener of the old MOSN is not among the inherited ones", detail(fmt.Sprintf("old %v inherited %v", addrs, got)))
			}
		}
		if len(inherited) != len(addrs) {
			fail("reconfigure: number of inherited listeners differs from the number of listeners", detail(fmt.Sprintf("old %v inherited %v", addrs, got)))
		}
		// (2)
		ge, sc := w.idx("old:GracefulStopListeners-end"), w.idx("old:StopConnection-begin")
		if ge < 0 || sc < 0 || sc < ge {
			fail("reconfigure: connections are stopped / handed over before the listeners have stopped accepting", detail(""))
		}
		// (3)
		if sce := w.idx("old:StopConnection-end"); sce < 0 || sce > w.idx("old:handler-returned") {
			fail("reconfigure: the handler returns before the connections were told to stop", detail(""))
		} else if waited := tRet.Sub(w.t["old:StopConnection-begin"]); waited < wantWait {
			fail("reconfigure: the handler returns (the old process goes on to exit) before the time handed-over connections are given has passed",
				detail(fmt.Sprintf("returned %v after StopConnection, 2*GracefulTimeout+2*DefaultConnReadTimeout = %v", waited, wantWait)))
		}
		// (4) who accepted what
		before := dialed["p0"] + dialed["p1"]
		// connections dialled at p2 / p3 must not show up at the old MOSN: give its (stopped) accept loops a moment, then count
		time.Sleep(50 * time.Millisecond)
		old := oldAccepted()
		if old > before {
			fail("reconfigure: the old MOSN accepts a connection after its listeners were told to stop accepting", detail(fmt.Sprintf("old accepted %d, dialled before the stop %d", old, before)))
		}
		total := dialed["p0"] + dialed["p1"] + dialed["p2"] + dialed["p3"]
		newAcc := 0
		for _, l := range inherited {
			tl := l.(*net.TCPListener)
			for {
				tl.SetDeadline(time.Now().Add(300 * time.Millisecond))
				x, err := tl.Accept()
				if err != nil {
					break
				}
				newAcc++
				x.Close()
			}
		}
		if old+newAcc != total {
			// a connection still in the old MOSN's accept path is counted late: look once more
			waitOld(total - newAcc)
			old = oldAccepted()
		}
		if old+newAcc != total {
			fail("reconfigure: a connection dialled during the hand-over is accepted by neither the old nor the new MOSN", detail(fmt.Sprintf("dialled %v = %d, old accepted %d, new accepted %d", dialed, total, old, newAcc)))
		}
		p.Count("connections_accepted_by_old", old)
		p.Count("connections_accepted_by_new", newAcc)
	} else {
		if herr == nil {
			fail("reconfigure: the handler reports success although the new MOSN did not take over ("+c.NewSide+")", detail(""))
		}
		if w.idx("old:GracefulStopListeners-begin") >= 0 || w.idx("old:StopConnection-begin") >= 0 {
			fail("reconfigure: the old MOSN stops its listeners / connections although the new MOSN did not take over ("+c.NewSide+")", detail(""))
		}
		// the old listeners still accept
		want := oldAccepted() + len(addrs)
		for _, l := range inherited { // the new side is gone: its copies of the sockets are closed
			l.Close()
		}
		dial("p4")
		if !waitOld(want) {
			fail("reconfigure: after a failed hand-over the old MOSN no longer accepts new connections ("+c.NewSide+")", detail(fmt.Sprintf("accepted %d, want %d", oldAccepted(), want)))
		}
	}
	for _, l := range inherited {
		l.Close()
	}
}

func TestVerifC11Reconfigure(t *testing.T) {
	p := vreport.Begin("C11", c11rPart, 3*time.Minute)
	log.DefaultLogger.SetLogLevel(pkglog.FATAL)
	log.StartLogger.SetLogLevel(pkglog.FATAL)
	pkglog.DefaultLogger.SetLogLevel(pkglog.FATAL)
	dir, err := os.MkdirTemp("", "vc11r")
	if err != nil {
		t.Fatal(err)
	}
	defer os.RemoveAll(dir)
	configmanager.RegisterConfigLoadFunc(func(string) *v2.MOSNConfig { return &v2.MOSNConfig{} })
	defer configmanager.RegisterConfigLoadFunc(configmanager.DefaultConfigLoad)
	configmanager.Load(filepath.Join(dir, "mosn_config.json"))

	complete := vreport.Run(p, func(yield func(c11rCase) bool) {
		cases := []c11rCase{
			{Listeners: 2, NewSide: "hangup"},
			{Listeners: 1, NewSide: "nofiles"},
			{Listeners: 1, NewSide: "ok"},
			{Listeners: 2, NewSide: "ok"},
			{Listeners: 1, InheritConfig: true, NewSide: "ok"},
		}
		if vreport.Thorough() {
			cases = append(cases, c11rCase{Listeners: 3, NewSide: "ok"}, c11rCase{Listeners: 3, InheritConfig: true, NewSide: "ok"},
				c11rCase{Listeners: 1, InheritConfig: true, NewSide: "hangup"}, c11rCase{Listeners: 3, NewSide: "nofiles"})
		}
		for _, c := range cases {
			if !yield(c) {
				return
			}
		}
	}, func(p *vreport.Part, c c11rCase) { c11rRun(p, c, dir) })
	p.End(complete, "old side = real ReconfigureHandler + real connHandler with 1-3 started loopback TCP listeners, new side = real GetInheritListeners / GetInheritConfig + the ack exchange; new side plays along / hangs up instead of acknowledging / listener files can not be listed; configuration inheritance off / on; connections dialled at 4 protocol points",
		"a fixed list of hand-over situations, each run once in real time (the handler sleeps 3s before it stops the listeners); compared: order of new-side and old-side steps, inherited addresses, who accepts the connections dialled at each point, a lower bound on the wait after StopConnection")
}
