//go:build verif

package server

// C13 (c): the TLS policy a LISTENER applies after a history of updates.
//
// The pkg/mtls units of C13 build TLS managers directly. A listener, however,
// gets its manager from connHandler.AddOrUpdateListener: built once when the
// listener is added and REBUILT by the update branch from the stored listener
// configuration after the new TLS contexts and the inspector flag were copied
// into it. This part drives the real AddOrUpdateListener through every history
// of configurations (explicit-state breadth-first search) and after every
// history observes what the accept path would do with a new connection:
// activeListener.OnAccept hands the accepted *net.TCPConn to al.tlsMng.Conn and
// the connection reads from what comes back - replicated here (accept -> the
// listener's CURRENT al.tlsMng -> Conn -> first Read), with Go's standard
// crypto/tls as the reference peer.
//
//   state      = canonical projection of (stored listener configuration,
//                observed behaviour, hidden activeListener fields, number of
//                updates so far capped at 2)
//   operations = AddOrUpdateListener(cfg), cfg from the alphabet
//                TLS x inspector x "misc" (the other fields the update branch copies);
//                plus two FILE events: one TLS form ("A+mtls@files") names its
//                ca_cert, cert_chain and private_key by file path, and the events
//                "ca-file=A" / "ca-file=B" rewrite the CA file. For a path the
//                configured CA is the content the file has when the listener is
//                added / updated (that is when the manager is rebuilt and the
//                file is read); rewriting the file changes nothing until the
//                next update.
//   oracle     = (1) reference rule: plaintext is served iff TLS is off or the
//                last update has inspector on; a TLS client is served iff TLS is
//                on, sees the certificate of the LAST update and is admitted
//                according to the LAST update's client authentication mode;
//                (2) differential: the behaviour equals that of a FRESH handler
//                on which only the last configuration was added;
//                (3) the stored configuration / listener object carry the last
//                update's values for the fields the update branch applies.
//
// Why merged states have the same futures: the update branch reads only the
// stored configuration (projected completely over everything the alphabet
// varies), the listener's address (constant) and overwrites every other
// activeListener field it touches; the hidden fields it does not overwrite
// (updatedLabel) and the update count (0, 1, >=2) are part of the state, so a
// defect that shows only on the first or only on a later update is not merged
// away below depth 3.
//
// serverContextManager.Conn passes anything that is not a *net.TCPConn through
// untouched, so an in-memory pipe cannot be used: the probes travel over ONE
// harness-owned loopback socket on an ephemeral port (127.0.0.1:0). The MOSN
// listener itself is never started and binds nothing. Every I/O has a 30 s
// deadline whose expiry is a harness error, never a violation.
//
// Files: only below t.TempDir() (created at run time, removed by the testing
// package); every history runs in its own fresh sub-directory, so a process-wide
// memo keyed by a path cannot leak from one history into another and a history
// replays alone exactly as it ran in the search.

import (
	"context"
	"crypto/ecdsa"
	"crypto/elliptic"
	"crypto/rand"
	gotls "crypto/tls"
	"crypto/x509"
	"crypto/x509/pkix"
	"encoding/json"
	"encoding/pem"
	"errors"
	"fmt"
	"io"
	"math/big"
	"net"
	"os"
	"path/filepath"
	"reflect"
	"sort"
	"strings"
	"sync"
	"testing"
	"time"

	"mosn.io/api"
	v2 "mosn.io/mosn/pkg/config/v2"
	"mosn.io/mosn/pkg/log"
	"mosn.io/mosn/pkg/mtls"
	"mosn.io/mosn/pkg/types"
	"mosn.io/mosn/pkg/verifrt/vreport"
)

const (
	c13luIO       = 30 * time.Second
	c13luName     = "verif-c13-listener"
	c13luAddr     = "127.0.0.1:1" // never bound: the listener is not started
	c13luFilter   = "verif_c13_network"
	c13luLFilter  = "verif_c13_listener_filter"
	c13luPlain    = "HELO\n"
	c13luPartName = "listener-update-history"
)

// ---------------------------------------------------------------------------
// certificates (ECDSA P-256, generated per process; only names, issuers and key
// ownership matter, so replays do not depend on the key bytes)

type c13luCert struct {
	Name    string
	DER     []byte
	X       *x509.Certificate
	Key     *ecdsa.PrivateKey
	CertPEM string
	KeyPEM  string
}

var c13luSerial int64 = 5000

func c13luMust(err error) {
	if err != nil {
		panic("C13 listener-update harness: " + err.Error())
	}
}

func c13luMake(name string, tmpl, parent *x509.Certificate, key, signer *ecdsa.PrivateKey) *c13luCert {
	der, err := x509.CreateCertificate(rand.Reader, tmpl, parent, &key.PublicKey, signer)
	c13luMust(err)
	x, err := x509.ParseCertificate(der)
	c13luMust(err)
	kb, err := x509.MarshalECPrivateKey(key)
	c13luMust(err)
	return &c13luCert{Name: name, DER: der, X: x, Key: key,
		CertPEM: string(pem.EncodeToMemory(&pem.Block{Type: "CERTIFICATE", Bytes: der})),
		KeyPEM:  string(pem.EncodeToMemory(&pem.Block{Type: "EC PRIVATE KEY", Bytes: kb}))}
}

func c13luKey() *ecdsa.PrivateKey {
	k, err := ecdsa.GenerateKey(elliptic.P256(), rand.Reader)
	c13luMust(err)
	return k
}

func c13luCA(cn string) *c13luCert {
	c13luSerial++
	now := time.Now()
	tmpl := &x509.Certificate{
		SerialNumber:          big.NewInt(c13luSerial),
		Subject:               pkix.Name{CommonName: cn, Organization: []string{"verif C13 listener"}},
		NotBefore:             now.Add(-24 * time.Hour),
		NotAfter:              now.Add(10 * 365 * 24 * time.Hour),
		IsCA:                  true,
		BasicConstraintsValid: true,
		KeyUsage:              x509.KeyUsageCertSign | x509.KeyUsageDigitalSignature,
	}
	k := c13luKey()
	return c13luMake(cn, tmpl, tmpl, k, k)
}

func c13luLeaf(name string, ca *c13luCert, cn string, sans []string) *c13luCert {
	c13luSerial++
	now := time.Now()
	tmpl := &x509.Certificate{
		SerialNumber: big.NewInt(c13luSerial),
		Subject:      pkix.Name{CommonName: cn, Organization: []string{"verif C13 listener leaf " + name}},
		NotBefore:    now.Add(-24 * time.Hour),
		NotAfter:     now.Add(5 * 365 * 24 * time.Hour),
		KeyUsage:     x509.KeyUsageDigitalSignature,
		ExtKeyUsage:  []x509.ExtKeyUsage{x509.ExtKeyUsageServerAuth, x509.ExtKeyUsageClientAuth},
		DNSNames:     sans,
	}
	return c13luMake(name, tmpl, ca.X, c13luKey(), ca.Key)
}

type c13luPKI struct {
	caA, caB    *c13luCert
	srvA, srvB  *c13luCert // listener certificates: both answer to "srv.test"; A also to "a.test", B to "b.test" and "*.b.test"
	cliRight    *c13luCert // client certificate from the configured CA (A)
	cliOther    *c13luCert // client certificate from another CA (B)
	byPEM       map[string]string
	byDER       map[string]string
	listen      *net.TCPListener
	conns       int
	listenError error
}

var (
	c13luOnce sync.Once
	c13luP    *c13luPKI
)

func c13luSetup() *c13luPKI {
	c13luOnce.Do(func() {
		log.DefaultLogger.SetLogLevel(log.FATAL)
		p := &c13luPKI{}
		p.caA = c13luCA("C13 listener CA A")
		p.caB = c13luCA("C13 listener CA B")
		p.srvA = c13luLeaf("A", p.caA, "srv-a", []string{"srv.test", "a.test"})
		p.srvB = c13luLeaf("B", p.caA, "srv-b", []string{"srv.test", "b.test", "*.b.test"})
		p.cliRight = c13luLeaf("client-right", p.caA, "client", nil)
		p.cliOther = c13luLeaf("client-other", p.caB, "client", nil)
		p.byPEM = map[string]string{p.srvA.CertPEM: "A", p.srvB.CertPEM: "B"}
		p.byDER = map[string]string{string(p.srvA.DER): "A", string(p.srvB.DER): "B"}
		ln, err := net.Listen("tcp", "127.0.0.1:0")
		if err != nil {
			p.listenError = err
		} else {
			p.listen = ln.(*net.TCPListener)
		}
		c13luP = p
	})
	return c13luP
}

// ---------------------------------------------------------------------------
// a registered no-op network / listener filter so that the filter factories the
// update branch rebuilds exist

type c13luNetFactory struct{ conf map[string]interface{} }

func (f *c13luNetFactory) CreateFilterChain(ctx context.Context, callbacks api.NetWorkFilterChainFactoryCallbacks) {
}

type c13luListenerFilterFactory struct{ conf map[string]interface{} }

func (f *c13luListenerFilterFactory) OnAccept(cb api.ListenerFilterChainFactoryCallbacks) api.FilterStatus {
	return api.Continue
}

func init() {
	api.RegisterNetwork(c13luFilter, func(conf map[string]interface{}) (api.NetworkFilterChainFactory, error) {
		return &c13luNetFactory{conf: conf}, nil
	})
	api.RegisterListener(c13luLFilter, func(conf map[string]interface{}) (api.ListenerFilterChainFactory, error) {
		return &c13luListenerFilterFactory{conf: conf}, nil
	})
}

type c13luCMFilter struct{}

func (c13luCMFilter) OnCreated(cccb types.ClusterConfigFactoryCb, chcb types.ClusterHostFactoryCb) {}

// ---------------------------------------------------------------------------
// the configuration alphabet

// TLS settings of a listener configuration.
//
//	off       tls_context {status:false}
//	A, B      one static context with certificate A / B, no client authentication
//	A+mtls    certificate A, verify_client + require_client_cert
//	B+mtls    certificate B, verify_client + require_client_cert       (thorough)
//	A+verify  certificate A, verify_client only                         (thorough)
//	A,B       tls_context_set [A, B]                                     (thorough)
//	B,A       tls_context_set [B, A]                                     (thorough)
//	broken    status:true with an unparsable certificate: the operation FAILS (thorough)
type c13luCfg struct {
	TLS       string `json:"tls"`
	Inspector bool   `json:"inspector"`
	Misc      int    `json:"misc"`            // 0/1: two settings of the non-TLS fields the update branch copies
	Event     string `json:"event,omitempty"` // "" = AddOrUpdateListener with the fields above; "ca-file=A" / "ca-file=B" = rewrite the CA file (no listener operation)
}

func (c c13luCfg) String() string {
	if c.Event != "" {
		return "{" + c.Event + "}"
	}
	return fmt.Sprintf("{tls=%s inspector=%v misc=%d}", c.TLS, c.Inspector, c.Misc)
}

const (
	c13luFilesForm = "A+mtls@files" // certificate A, verify_client + require_client_cert; ca_cert, cert_chain, private_key are file paths
	c13luEvCAA     = "ca-file=A"
	c13luEvCAB     = "ca-file=B"
)

// the root below which the directories of the histories are made (t.TempDir())
var c13luRoot string

func c13luWrite(path, content string) error {
	tmp := path + ".tmp"
	if err := os.WriteFile(tmp, []byte(content), 0600); err != nil {
		return err
	}
	return os.Rename(tmp, path)
}

func c13luWriteCA(dir, ca string) error {
	p := c13luSetup()
	pem := p.caA.CertPEM
	if ca == "B" {
		pem = p.caB.CertPEM
	}
	return c13luWrite(filepath.Join(dir, "ca.pem"), pem)
}

// c13luNewDir makes the directory of one history: CA file = CA A, certificate and key files = certificate A
func c13luNewDir() (string, error) {
	p := c13luSetup()
	if c13luRoot == "" {
		return "", errors.New("no root directory")
	}
	dir, err := os.MkdirTemp(c13luRoot, "history")
	if err != nil {
		return "", err
	}
	if err := c13luWriteCA(dir, "A"); err != nil {
		return "", err
	}
	if err := c13luWrite(filepath.Join(dir, "cert.pem"), p.srvA.CertPEM); err != nil {
		return "", err
	}
	return dir, c13luWrite(filepath.Join(dir, "key.pem"), p.srvA.KeyPEM)
}

type c13luCase struct {
	History []c13luCfg `json:"history"`
}

func c13luTLSAlphabet() []string {
	if vreport.Thorough() {
		return []string{"off", "A", "B", "A+mtls", c13luFilesForm, "B+mtls", "A+verify", "A,B", "B,A", "broken"}
	}
	return []string{"off", "A", "B", "A+mtls", c13luFilesForm}
}

func c13luAlphabet() []c13luCfg {
	var out []c13luCfg
	for _, t := range c13luTLSAlphabet() {
		for _, insp := range []bool{false, true} {
			for misc := 0; misc < 2; misc++ {
				out = append(out, c13luCfg{TLS: t, Inspector: insp, Misc: misc})
			}
		}
	}
	out = append(out, c13luCfg{Event: c13luEvCAA}, c13luCfg{Event: c13luEvCAB})
	return out
}

type c13luCtxSpec struct {
	cert            string // "A" / "B" / "broken"
	verify, require bool
	files           bool // ca_cert, cert_chain and private_key are paths into the history's directory
}

// the contexts a TLS setting stands for (nil = TLS off), in configured order
func c13luContexts(tlsName string) ([]c13luCtxSpec, error) {
	switch tlsName {
	case "off":
		return nil, nil
	case "A", "B":
		return []c13luCtxSpec{{cert: tlsName}}, nil
	case "A+mtls":
		return []c13luCtxSpec{{cert: "A", verify: true, require: true}}, nil
	case c13luFilesForm:
		return []c13luCtxSpec{{cert: "A", verify: true, require: true, files: true}}, nil
	case "B+mtls":
		return []c13luCtxSpec{{cert: "B", verify: true, require: true}}, nil
	case "A+verify":
		return []c13luCtxSpec{{cert: "A", verify: true}}, nil
	case "A,B":
		return []c13luCtxSpec{{cert: "A"}, {cert: "B"}}, nil
	case "B,A":
		return []c13luCtxSpec{{cert: "B"}, {cert: "A"}}, nil
	case "broken":
		return []c13luCtxSpec{{cert: "broken"}}, nil
	}
	return nil, fmt.Errorf("unknown tls setting %q", tlsName)
}

func c13luTLSJSON(p *c13luPKI, s c13luCtxSpec, dir string) map[string]interface{} {
	m := map[string]interface{}{"status": true, "ca_cert": p.caA.CertPEM}
	if s.files {
		m["ca_cert"] = filepath.Join(dir, "ca.pem")
	}
	switch s.cert {
	case "A":
		m["cert_chain"], m["private_key"] = p.srvA.CertPEM, p.srvA.KeyPEM
	case "B":
		m["cert_chain"], m["private_key"] = p.srvB.CertPEM, p.srvB.KeyPEM
	default:
		m["cert_chain"], m["private_key"] = "-----BEGIN CERTIFICATE-----\nbm90IGEgY2VydGlmaWNhdGU=\n-----END CERTIFICATE-----\n", p.srvA.KeyPEM
	}
	if s.files {
		m["cert_chain"], m["private_key"] = filepath.Join(dir, "cert.pem"), filepath.Join(dir, "key.pem")
	}
	if s.verify {
		m["verify_client"] = true
	}
	if s.require {
		m["require_client_cert"] = true
	}
	return m
}

// c13luBuild renders a configuration the way MOSN receives it: the JSON of a
// listener, unmarshalled into a v2.Listener (tls_context / tls_context_set are
// turned into TLSContexts by FilterChain.UnmarshalJSON). Every call returns a
// fresh object: the update branch stores slices of the configuration it is given.
func c13luBuild(c c13luCfg, dir string) (*v2.Listener, error) {
	p := c13luSetup()
	if c.Event != "" {
		return nil, fmt.Errorf("%v is not a listener configuration", c)
	}
	ctxs, err := c13luContexts(c.TLS)
	if err != nil {
		return nil, err
	}
	chain := map[string]interface{}{
		"filters": []interface{}{map[string]interface{}{"type": c13luFilter, "config": map[string]interface{}{"variant": c.Misc}}},
	}
	switch {
	case len(ctxs) == 0:
		chain["tls_context"] = map[string]interface{}{"status": false}
	case len(ctxs) == 1:
		chain["tls_context"] = c13luTLSJSON(p, ctxs[0], dir)
	default:
		var set []interface{}
		for _, s := range ctxs {
			set = append(set, c13luTLSJSON(p, s, dir))
		}
		chain["tls_context_set"] = set
	}
	if c.Misc == 1 {
		chain["match"] = "verif-match-1"
	}
	l := map[string]interface{}{
		"name":          c13luName,
		"address":       c13luAddr,
		"bind_port":     true,
		"inspector":     c.Inspector,
		"filter_chains": []interface{}{chain},
	}
	if c.Misc == 1 {
		l["connection_idle_timeout"] = "90s"
		l["listener_filters"] = []interface{}{map[string]interface{}{"type": c13luLFilter, "config": map[string]interface{}{"variant": 1}}}
		l["stream_filters"] = []interface{}{map[string]interface{}{"type": "verif_c13_stream_not_registered", "config": map[string]interface{}{"variant": 1}}}
	}
	b, err := json.Marshal(l)
	if err != nil {
		return nil, err
	}
	lc := &v2.Listener{}
	if err := json.Unmarshal(b, lc); err != nil {
		return nil, err
	}
	if c.Misc == 1 {
		lc.PerConnBufferLimitBytes = 1 << 16
		lc.ListenerTag = 7
	} else {
		lc.ListenerTag = 3
	}
	return lc, nil
}

// ---------------------------------------------------------------------------
// probes: what a new connection experiences

type c13luProbe struct {
	Name  string
	Plain bool
	SNI   string
	Peer  string // "none", "right-ca", "other-ca"
}

var c13luProbes = []c13luProbe{
	{Name: "plaintext", Plain: true},
	{Name: "tls/no-client-cert", SNI: "srv.test", Peer: "none"},
	{Name: "tls/right-client-cert", SNI: "srv.test", Peer: "right-ca"},
	{Name: "tls/other-ca-client-cert", SNI: "srv.test", Peer: "other-ca"},
	// selects certificate B by wildcard label, spelled with upper-case letters (DNS names are case-insensitive)
	{Name: "tls/sni=api.B.Test", SNI: "api.B.Test", Peer: "right-ca"},
}

func c13luTLS13() bool { return strings.Contains(os.Getenv("GODEBUG"), "tls13=1") }

func c13luIsTimeout(err error) bool {
	if err == nil {
		return false
	}
	var ne net.Error
	if errors.As(err, &ne) && ne.Timeout() {
		return true
	}
	return strings.Contains(err.Error(), "i/o timeout") || strings.Contains(err.Error(), "deadline exceeded")
}

type c13luSide struct {
	Err      string
	Timeout  bool
	GotApp   bool
	App      []byte
	TLS      bool
	PeerLeaf []byte
	ConnType string
}

func (s *c13luSide) fail(err error) {
	s.Err = err.Error()
	if c13luIsTimeout(err) {
		s.Timeout = true
	}
}

func c13luClient(addr string, pr c13luProbe) *c13luSide {
	p := c13luP
	r := &c13luSide{}
	raw, err := net.DialTimeout("tcp", addr, c13luIO)
	if err != nil {
		r.fail(err)
		r.Timeout = true // cannot connect to the harness socket: harness problem
		return r
	}
	defer raw.Close()
	raw.SetDeadline(time.Now().Add(c13luIO))
	var rw io.ReadWriter = raw
	msg := c13luPlain
	if !pr.Plain {
		ver := uint16(gotls.VersionTLS12)
		if c13luTLS13() {
			ver = gotls.VersionTLS13
		}
		cfg := &gotls.Config{
			ServerName:         pr.SNI,
			MinVersion:         ver,
			MaxVersion:         ver,
			InsecureSkipVerify: true, // the probe wants to SEE the certificate; the chain is checked below
			VerifyPeerCertificate: func(rawCerts [][]byte, _ [][]*x509.Certificate) error {
				if len(rawCerts) == 0 {
					return errors.New("server presented no certificate")
				}
				r.PeerLeaf = rawCerts[0]
				leaf, err := x509.ParseCertificate(rawCerts[0])
				if err != nil {
					return err
				}
				return leaf.CheckSignatureFrom(p.caA.X)
			},
			GetClientCertificate: func(*gotls.CertificateRequestInfo) (*gotls.Certificate, error) {
				switch pr.Peer {
				case "right-ca":
					return &gotls.Certificate{Certificate: [][]byte{p.cliRight.DER}, PrivateKey: p.cliRight.Key, Leaf: p.cliRight.X}, nil
				case "other-ca":
					return &gotls.Certificate{Certificate: [][]byte{p.cliOther.DER, p.caB.DER}, PrivateKey: p.cliOther.Key, Leaf: p.cliOther.X}, nil
				}
				return &gotls.Certificate{}, nil
			},
		}
		tc := gotls.Client(raw, cfg)
		if err := tc.Handshake(); err != nil {
			r.fail(err)
			return r
		}
		r.TLS = true
		rw = tc
		msg = "ping\n"
	}
	if _, err := rw.Write([]byte(msg)); err != nil {
		r.fail(err)
		return r
	}
	buf := make([]byte, 5)
	if _, err := io.ReadFull(rw, buf); err != nil {
		r.fail(err)
		return r
	}
	r.App = buf
	r.GotApp = string(buf) == "pong\n"
	return r
}

// c13luAccept is the MOSN side of one connection: the accepted *net.TCPConn is
// given to the manager the listener holds NOW (activeListener.OnAccept:
// `if al.tlsMng != nil && ch == nil { conn, err := al.tlsMng.Conn(rawc) ...`),
// then the first 5 bytes are read like the connection's read loop would.
func c13luAccept(ln *net.TCPListener, al *activeListener) *c13luSide {
	r := &c13luSide{}
	ln.SetDeadline(time.Now().Add(c13luIO))
	raw, err := ln.Accept()
	if err != nil {
		r.fail(err)
		r.Timeout = true
		return r
	}
	defer raw.Close()
	raw.SetDeadline(time.Now().Add(c13luIO))
	var conn net.Conn = raw
	if al.tlsMng != nil {
		func() {
			defer func() {
				if x := recover(); x != nil {
					err = fmt.Errorf("panic in Conn: %v", x)
				}
			}()
			conn, err = al.tlsMng.Conn(raw)
		}()
		if err != nil {
			r.fail(err)
			return r
		}
	}
	r.ConnType = fmt.Sprintf("%T", conn)
	conn.SetDeadline(time.Now().Add(c13luIO)) // Peek() clears the read deadline
	defer conn.Close()
	buf := make([]byte, 5)
	if _, err := io.ReadFull(conn, buf); err != nil {
		r.fail(err)
		return r
	}
	r.App = buf
	r.GotApp = true
	if tc, ok := conn.(*mtls.TLSConn); ok {
		r.TLS = tc.ConnectionState().HandshakeComplete
	}
	if _, err := conn.Write([]byte("pong\n")); err != nil {
		r.fail(err)
	}
	return r
}

// c13luObserve runs every probe against the listener and returns one outcome
// word per probe:
//
//	plain        the application behind the listener received the plaintext bytes
//	raw-hello    it received the bytes of a TLS ClientHello as if they were payload (TLS not applied)
//	tls:<cert>   it received the payload inside a completed TLS session in which the client saw <cert>
//	refused      it received nothing (handshake or first read failed)
func c13luObserve(al *activeListener) (out []string, detail []string, herr string) {
	p := c13luSetup()
	if p.listen != nil && p.conns >= 10000 {
		// a fresh ephemeral port now and then: closed connections linger in
		// TIME_WAIT per (address, port) pair
		p.listen.Close()
		p.listen, p.conns = nil, 0
		ln, err := net.Listen("tcp", "127.0.0.1:0")
		if err != nil {
			p.listenError = err
		} else {
			p.listen = ln.(*net.TCPListener)
		}
	}
	if p.listen == nil {
		return nil, nil, "cannot open the harness loopback socket: " + p.listenError.Error()
	}
	p.conns += len(c13luProbes)
	for _, pr := range c13luProbes {
		ch := make(chan *c13luSide, 1)
		pr := pr
		go func() { ch <- c13luClient(p.listen.Addr().String(), pr) }()
		srv := c13luAccept(p.listen, al)
		var cli *c13luSide
		select {
		case cli = <-ch:
		case <-time.After(3 * c13luIO):
			return nil, nil, "reference client did not finish (probe " + pr.Name + ")"
		}
		if srv.Timeout || cli.Timeout {
			return nil, nil, fmt.Sprintf("I/O deadline fired in probe %s (server side %q, client side %q)", pr.Name, srv.Err, cli.Err)
		}
		var o string
		switch {
		case srv.GotApp && srv.TLS:
			name, ok := p.byDER[string(cli.PeerLeaf)]
			if !ok {
				name = "unknown-certificate"
			}
			o = "tls:" + name
			if !cli.GotApp {
				o += "(client side failed)"
			}
		case srv.GotApp && string(srv.App) == c13luPlain:
			o = "plain"
		case srv.GotApp && len(srv.App) > 0 && srv.App[0] == 0x16:
			o = "raw-hello"
		case srv.GotApp:
			o = "unexpected-bytes"
		default:
			o = "refused"
		}
		out = append(out, o)
		detail = append(detail, fmt.Sprintf("%s -> %s [conn %s, server side: %q, client side: %q]", pr.Name, o, srv.ConnType, srv.Err, cli.Err))
	}
	return out, detail, ""
}

// c13luWant is the statement's rule for one probe under one configuration; ca is
// the content ("A"/"B") the CA file had when that configuration was applied
// (only read for the form whose ca_cert is a path).
func c13luWant(c c13luCfg, pr c13luProbe, ca string) string {
	ctxs, _ := c13luContexts(c.TLS)
	if len(ctxs) == 0 {
		// no TLS on this listener: every first byte is payload
		if pr.Plain {
			return "plain"
		}
		return "raw-hello"
	}
	if pr.Plain {
		// plaintext is served on a TLS listener only when inspector mode allows it
		if c.Inspector {
			return "plain"
		}
		return "refused"
	}
	// the first ready context whose certificate names match the SNI, else (no
	// ALPN in these probes) the first context
	sel := ctxs[0]
	for _, s := range ctxs {
		names := map[string][]string{"A": {"srv-a", "srv.test", "a.test"}, "B": {"srv-b", "srv.test", "b.test", "*.b.test"}}[s.cert]
		hit := false
		sni := strings.ToLower(pr.SNI)
		wild := sni
		if i := strings.Index(sni, "."); i >= 0 {
			wild = "*" + sni[i:]
		}
		for _, n := range names {
			if n == sni || n == wild {
				hit = true
			}
		}
		if hit {
			sel = s
			break
		}
	}
	admit := true
	switch {
	case sel.verify && sel.require && sel.files:
		// only a certificate chaining to the CONFIGURED CA = what the file held at the last update
		admit = (pr.Peer == "right-ca" && ca == "A") || (pr.Peer == "other-ca" && ca == "B")
	case sel.verify && sel.require:
		admit = pr.Peer == "right-ca"
	case sel.verify:
		admit = pr.Peer == "none" || pr.Peer == "right-ca"
	}
	if !admit {
		return "refused"
	}
	return "tls:" + sel.cert
}

// ---------------------------------------------------------------------------
// running a history on a fresh handler

type c13luRun struct {
	al       *activeListener
	errs     []string // per history element: "" or the error (file events: always "")
	lastOK   int      // index of the last listener operation that succeeded, -1 if none
	lastCfg  int      // index of the last listener operation, -1 if none
	updates  int      // successful or failed calls that hit the update branch
	panicked string
	dir      string   // the directory of this history
	fileCA   string   // content of the CA file now
	caAt     []string // per history element: content of the CA file at that moment
}

func c13luNewHandler() *connHandler {
	return NewHandler(c13luCMFilter{}, nil).(*connHandler)
}

func c13luApply(h []c13luCfg) (*c13luRun, error) {
	r := &c13luRun{lastOK: -1, lastCfg: -1, fileCA: "A"}
	dir, err := c13luNewDir()
	if err != nil {
		return nil, err
	}
	r.dir = dir
	ch := c13luNewHandler()
	for i, c := range h {
		if c.Event != "" {
			switch c.Event {
			case c13luEvCAA:
				r.fileCA = "A"
			case c13luEvCAB:
				r.fileCA = "B"
			default:
				return nil, fmt.Errorf("unknown event %q", c.Event)
			}
			if err := c13luWriteCA(dir, r.fileCA); err != nil {
				return nil, err
			}
			r.errs = append(r.errs, "")
			r.caAt = append(r.caAt, r.fileCA)
			continue
		}
		r.caAt = append(r.caAt, r.fileCA)
		r.lastCfg = i
		lc, err := c13luBuild(c, dir)
		if err != nil {
			return nil, err
		}
		existed := ch.findActiveListenerByName(c13luName) != nil
		func() {
			defer func() {
				if x := recover(); x != nil {
					r.panicked = fmt.Sprintf("operation %d %v: panic: %v", i, c, x)
				}
			}()
			_, err = ch.AddOrUpdateListener(lc)
		}()
		if r.panicked != "" {
			return r, nil
		}
		if existed {
			r.updates++
		}
		if err != nil {
			r.errs = append(r.errs, err.Error())
		} else {
			r.errs = append(r.errs, "")
			r.lastOK = i
		}
	}
	r.al = ch.findActiveListenerByName(c13luName)
	return r, nil
}

func c13luFilterSig(fs []v2.Filter) string {
	b, _ := json.Marshal(fs)
	return string(b)
}

func c13luTLSSig(p *c13luPKI, ts []v2.TLSConfig) string {
	var s []string
	for _, t := range ts {
		name, ok := p.byPEM[t.CertChain]
		if !ok {
			name = "other"
			if t.CertChain == "" {
				name = "-"
			} else if !strings.Contains(t.CertChain, "-----BEGIN") {
				// a path: the directory differs per history, the file name does not
				name = "file:" + filepath.Base(t.CertChain) + "+" + filepath.Base(t.PrivateKey)
			}
		}
		ca := "ca=inline"
		if t.CACert == "" {
			ca = "ca=-"
		} else if !strings.Contains(t.CACert, "-----BEGIN") {
			ca = "ca=file:" + filepath.Base(t.CACert)
		}
		s = append(s, fmt.Sprintf("%v/%s/%s/v%v/r%v", t.Status, name, ca, t.VerifyClient, t.RequireClientCert))
	}
	return "[" + strings.Join(s, " ") + "]"
}

// c13luStored projects the stored listener configuration and the hidden fields
// of the activeListener (everything the alphabet can make differ).
func c13luStored(al *activeListener) string {
	p := c13luSetup()
	cfg := al.listener.Config()
	var tlsPtr string
	fc := cfg.FilterChains[0]
	if fc.TLSConfig != nil {
		tlsPtr = c13luTLSSig(p, []v2.TLSConfig{*fc.TLSConfig})
	}
	idle := func(d *api.DurationConfig) string {
		if d == nil {
			return "nil"
		}
		return d.Duration.String()
	}
	parts := []string{
		"contexts=" + c13luTLSSig(p, fc.TLSContexts),
		"tls_context=" + tlsPtr,
		"tls_context_set=" + c13luTLSSig(p, fc.TLSConfigs),
		fmt.Sprintf("inspector=%v", cfg.Inspector),
		"match=" + fc.FilterChainMatch,
		"filters=" + c13luFilterSig(fc.Filters),
		"listener_filters=" + c13luFilterSig(cfg.ListenerFilters),
		"stream_filters=" + c13luFilterSig(cfg.StreamFilters),
		fmt.Sprintf("buffer_limit=%d/%d", cfg.PerConnBufferLimitBytes, al.listener.PerConnBufferLimitBytes()),
		fmt.Sprintf("tag=%d/%d", cfg.ListenerTag, al.listener.ListenerTag()),
		fmt.Sprintf("original_dst=%q/%q", cfg.OriginalDst, al.listener.GetOriginalDstType()),
		"idle=" + idle(cfg.ConnectionIdleTimeout) + "/" + idle(al.idleTimeout),
		fmt.Sprintf("factories=%d/%d", len(al.listenerFiltersFactories), len(al.networkFiltersFactories)),
		fmt.Sprintf("updated_label=%v", al.updatedLabel),
	}
	return strings.Join(parts, ";")
}

// fields of the stored configuration the update branch applies (handler.go,
// "listener already exist, update the listener"): compared with the last
// update (since d8c03ef7a the stored connection_idle_timeout is refreshed too).
func c13luStoredDiffs(al *activeListener, want *v2.Listener) []string {
	got := al.listener.Config()
	var bad []string
	cmp := func(field string, a, b interface{}) {
		if !reflect.DeepEqual(a, b) {
			bad = append(bad, field)
		}
	}
	g, w := got.FilterChains[0], want.FilterChains[0]
	cmp("filter_chains[0].tls contexts", g.TLSContexts, w.TLSContexts)
	cmp("filter_chains[0].tls_context", g.TLSConfig, w.TLSConfig)
	cmp("filter_chains[0].tls_context_set", g.TLSConfigs, w.TLSConfigs)
	cmp("inspector", got.Inspector, want.Inspector)
	cmp("filter_chains[0].match", g.FilterChainMatch, w.FilterChainMatch)
	cmp("filter_chains[0].filters", g.Filters, w.Filters)
	cmp("listener_filters", got.ListenerFilters, want.ListenerFilters)
	cmp("stream_filters", got.StreamFilters, want.StreamFilters)
	cmp("per-connection buffer limit (config)", got.PerConnBufferLimitBytes, want.PerConnBufferLimitBytes)
	cmp("per-connection buffer limit (listener)", al.listener.PerConnBufferLimitBytes(), want.PerConnBufferLimitBytes)
	cmp("listener tag (config)", got.ListenerTag, want.ListenerTag)
	cmp("listener tag (listener)", al.listener.ListenerTag(), want.ListenerTag)
	cmp("use_original_dst (config)", got.OriginalDst, want.OriginalDst)
	cmp("use_original_dst (listener)", al.listener.GetOriginalDstType(), want.OriginalDst)
	cmp("connection idle timeout (active listener)", al.idleTimeout, want.ConnectionIdleTimeout)
	cmp("connection idle timeout (config)", got.ConnectionIdleTimeout, want.ConnectionIdleTimeout)
	return bad
}

// behaviour of a FRESH handler on which only c was added, once per configuration
type c13luFreshKey struct {
	cfg c13luCfg
	ca  string
}

var c13luFreshCache = map[c13luFreshKey][]string{}

// ca = content of the CA file when the fresh listener is added (only matters
// for the form whose ca_cert is a path)
func c13luFresh(c c13luCfg, ca string) ([]string, string) {
	k := c13luFreshKey{c, ""}
	if c.TLS == c13luFilesForm {
		k.ca = ca
	}
	if o, ok := c13luFreshCache[k]; ok {
		return o, ""
	}
	r, err := c13luApply([]c13luCfg{{Event: "ca-file=" + ca}, c})
	if err != nil {
		return nil, err.Error()
	}
	if r.panicked != "" {
		return nil, r.panicked
	}
	if r.al == nil {
		return nil, "a fresh handler refused configuration " + c.String() + ": " + strings.Join(r.errs, "; ")
	}
	o, _, herr := c13luObserve(r.al)
	if herr != "" {
		return nil, herr
	}
	c13luFreshCache[k] = o
	return o, ""
}

// ---------------------------------------------------------------------------

func TestVerifC13ListenerUpdateHistory(t *testing.T) {
	p := vreport.Begin("C13", c13luPartName, time.Duration(vreport.Pick(4, 25))*time.Minute)
	c13luSetup()
	c13luRoot = t.TempDir()
	depth := vreport.Pick(3, 4)
	alphabet := c13luAlphabet()

	var stateOf string // canonical state reached by the case just checked ("" = not usable)
	herrs := 0
	harness := func(c c13luCase, msg string) {
		herrs++
		stateOf = ""
		full := fmt.Sprintf("%s; case %+v", msg, c)
		vreport.HarnessError(p.Prop, p.Name, full)
		t.Errorf("harness: %s", full)
	}

	check := func(p *vreport.Part, c c13luCase) {
		stateOf = ""
		if len(c.History) == 0 {
			return
		}
		r, err := c13luApply(c.History)
		if err != nil {
			harness(c, "cannot build configuration: "+err.Error())
			return
		}
		if r.panicked != "" {
			p.Violation("listener update: AddOrUpdateListener panics", r.panicked, c)
			return
		}
		if r.lastCfg < 0 {
			// only file events so far
			stateOf = "no-listener|ca-file=" + r.fileCA
			p.Outcome("no-listener")
			return
		}
		// the last LISTENER operation decides the policy; file events after it
		// rewrite the CA file but nothing is rebuilt, so nothing may change
		last := c.History[r.lastCfg]
		lastFailed := r.errs[r.lastCfg] != ""
		caInForce := r.caAt[r.lastCfg]
		if last.TLS != "broken" && lastFailed {
			p.Violation("listener update: a valid configuration is rejected",
				fmt.Sprintf("history %v: the last listener operation failed: %s", c.History, r.errs[r.lastCfg]), c)
			return
		}
		if last.TLS == "broken" && !lastFailed {
			p.Violation("listener update: a context with an unparsable certificate and no fall_back is accepted",
				fmt.Sprintf("history %v: the last listener operation succeeded", c.History), c)
			return
		}
		if r.al == nil {
			// nothing was ever added (the only operations so far failed)
			stateOf = "no-listener|ca-file=" + r.fileCA
			p.Outcome("no-listener")
			return
		}
		obs, detail, herr := c13luObserve(r.al)
		if herr != "" {
			harness(c, herr)
			return
		}
		upd := r.updates
		if upd > 2 {
			upd = 2
		}
		stored := c13luStored(r.al)
		stateOf = fmt.Sprintf("%s|behaviour=%s|updates=%d|ca-file=%s", stored, strings.Join(obs, ","), upd, r.fileCA)
		p.Outcome(strings.Join(obs, ","))
		p.Distinct(fmt.Sprintf("%v->%v/upd%d", func() interface{} {
			if len(c.History) > 1 {
				return c.History[len(c.History)-2]
			}
			return "none"
		}(), c.History[len(c.History)-1], upd))
		if p.WantSample() {
			p.Sample(map[string]interface{}{"history": c.History, "errors": r.errs, "behaviour": detail, "stored": stored, "ca_file_now": r.fileCA, "ca_file_at_last_listener_operation": caInForce})
		}

		if lastFailed {
			// a rejected update: the statement does not say what the listener
			// does next (the code keeps the old manager but has already stored
			// the new contexts). Recorded, not compared.
			p.Count("observed_after_rejected_update_not_compared", 1)
			return
		}
		hist := fmt.Sprintf("history %v", c.History)
		obsLines := "\n  " + strings.Join(detail, "\n  ")

		// (1) reference rule, per probe
		for i, pr := range c13luProbes {
			want, got := c13luWant(last, pr, caInForce), obs[i]
			if want == got {
				continue
			}
			var key string
			switch {
			case pr.Plain && got == "plain":
				key = "listener after update history: plaintext is served although the last update has TLS on and inspector off"
			case pr.Plain:
				key = "listener after update history: plaintext is refused although the last update allows it (TLS off or inspector on)"
			case want == "raw-hello":
				key = "listener after update history: TLS is still applied although the last update switched it off"
			case got == "raw-hello":
				key = "listener after update history: TLS is not applied although the last update enables it"
			case strings.HasPrefix(want, "tls:") && strings.HasPrefix(got, "tls:"):
				key = "listener after update history: the certificate presented is not the one of the last update"
			case last.TLS == c13luFilesForm && pr.Peer != "none":
				key = "listener after update history: client authentication does not follow the CA the ca_cert file held at the last update (" + pr.Peer + " " + map[bool]string{true: "refused", false: "admitted"}[got == "refused"] + ")"
			case want == "refused":
				key = "listener after update history: a client is admitted against the last update's client authentication mode (" + pr.Peer + ")"
			default:
				key = "listener after update history: a client is refused although the last update's client authentication mode admits it (" + pr.Peer + ")"
			}
			if r.lastCfg == 0 && len(c.History) == 1 {
				key = strings.Replace(key, "listener after update history", "freshly added listener", 1)
				key = strings.Replace(key, "the last update", "its configuration", -1)
			}
			p.Violation(key, fmt.Sprintf("%s, probe %s: expected %s by the configuration %v, observed %s; all probes:%s\nstored: %s",
				hist, pr.Name, want, last, got, obsLines, stored), c)
		}

		// (2) differential: a fresh handler with only the last configuration
		fresh, herr := c13luFresh(last, caInForce)
		if herr != "" {
			harness(c, "fresh reference: "+herr)
			return
		}
		if len(c.History) > 1 && !reflect.DeepEqual(fresh, obs) {
			var which []string
			for i := range obs {
				if obs[i] != fresh[i] {
					which = append(which, fmt.Sprintf("%s: %s, fresh listener: %s", c13luProbes[i].Name, obs[i], fresh[i]))
				}
			}
			p.Violation("listener after update history behaves differently from a fresh listener with the last configuration",
				fmt.Sprintf("%s: %s; all probes:%s\nstored: %s", hist, strings.Join(which, "; "), obsLines, stored), c)
		}

		// (3) stored configuration = last update, for what the update branch applies
		want, err := c13luBuild(last, r.dir)
		if err != nil {
			harness(c, "cannot build configuration: "+err.Error())
			return
		}
		bad := c13luStoredDiffs(r.al, want)
		sort.Strings(bad)
		for _, f := range bad {
			p.Violation("listener after update history: stored "+f+" is not the last update's",
				fmt.Sprintf("%s: %s differs from the last configuration %v; stored: %s", hist, f, last, stored), c)
		}
		if r.al.tlsMng == nil {
			p.Violation("listener after update history: no TLS context manager", hist, c)
		}
	}

	seen := map[string]bool{"no-listener|ca-file=A": true}
	states, transitions := 1, 0
	perDepth := []int{}
	gen := func(yield func(c13luCase) bool) {
		frontier := [][]c13luCfg{{}}
		for d := 1; d <= depth; d++ {
			var next [][]c13luCfg
			for _, h := range frontier {
				for _, op := range alphabet {
					nh := append(append([]c13luCfg{}, h...), op)
					if !yield(c13luCase{History: nh}) {
						return
					}
					if herrs > 5 {
						return
					}
					transitions++
					if stateOf != "" && !seen[stateOf] {
						seen[stateOf] = true
						states++
						next = append(next, nh)
					}
				}
			}
			perDepth = append(perDepth, len(next))
			frontier = next
			if len(frontier) == 0 {
				break
			}
		}
	}
	complete := vreport.Run(p, gen, check)
	if herrs > 0 {
		complete = false
	}
	if !vreport.Replaying() {
		p.AddStates(states)
		p.AddTransitions(transitions)
		p.AddTraces(transitions)
		p.Note("new_states_per_depth", perDepth)
		p.Note("alphabet_size", len(alphabet))
		p.Note("probes_per_state", len(c13luProbes))
	}
	var probeNames []string
	for _, pr := range c13luProbes {
		probeNames = append(probeNames, pr.Name)
	}
	p.End(complete,
		fmt.Sprintf("breadth-first search over histories of connHandler.AddOrUpdateListener on one listener name interleaved with rewrites of the CA file, depth %d (e.g. 1 add + %d updates), alphabet of %d operations = (TLS %v x inspector {f,t} x 2 settings of the other copied fields (network/listener/stream filters, match, buffer limit, tag, idle timeout)) + 2 file events {ca-file=A, ca-file=B} (the form A+mtls@files names ca_cert, cert_chain, private_key by path in a per-history directory below t.TempDir(); the CA file starts as CA A); after every history %d probes %v over a harness loopback socket against the listener's current TLS manager (reference peer: crypto/tls, %s)",
			depth, depth-1, len(alphabet), c13luTLSAlphabet(), len(c13luProbes), probeNames, map[bool]string{false: "tls1.2", true: "tls1.3"}[c13luTLS13()]),
		"every successor = the history replayed on a fresh connHandler in a fresh directory plus one operation; states merged on (stored configuration projection with paths reduced to file names, probe outcomes, hidden activeListener fields, update count capped at 2, content of the CA file); distinct = (previous operation, last operation, update count); compared: probe outcomes against the statement's rule for the LAST listener operation - for the path form the configured CA is the content the CA file had at that operation, a later rewrite without update changes nothing - and against a fresh listener that only got that configuration (with the CA file as it was then), stored fields the update branch applies against the last configuration; after a REJECTED update (thorough: unparsable certificate) outcomes are recorded, not compared; sds contexts are not part of the alphabet")
}
