//go:build verif

package keeper

import (
	"fmt"
	"os"
	"syscall"
	"testing"
	"time"

	"mosn.io/mosn/pkg/log"
	"mosn.io/mosn/pkg/stagemanager"
	"mosn.io/mosn/pkg/verifrt/vreport"
	pkglog "mosn.io/pkg/log"
)

// C11, unit "keeper-signals": which stop action the real signalHandler of
// pkg/server/keeper gives the stage manager for every signal it is registered
// for (and a few it is not). The stage manager is the real package-level one in
// state Nil (never run in this process): a notice there runs the before-stop
// callbacks with the action - through which the harness sees it - and has no
// further effect (Stop() returns at once in state Nil, a reload is ignored
// unless Running).
//
// Compared (the statement names these two): SIGTERM -> exactly one notice, with
// the graceful-stop action; SIGHUP -> exactly one notice, with the reload action
// (start a new server, which then asks for the upgrade). Enumerated, not
// compared (the statement is silent): SIGINT / SIGQUIT (stop at once), SIGUSR1
// (reopen logs), signals the keeper does not subscribe to.

type c11kCase struct {
	Signal int    `json:"signal"`
	Name   string `json:"name"`
}

func TestVerifC11KeeperSignals(t *testing.T) {
	p := vreport.Begin("C11", "keeper-signals", time.Minute)
	log.DefaultLogger.SetLogLevel(pkglog.FATAL)
	log.StartLogger.SetLogLevel(pkglog.FATAL)
	pkglog.DefaultLogger.SetLogLevel(pkglog.FATAL)
	var seen []stagemanager.StopAction
	stagemanager.OnBeforeStopStage(func(a stagemanager.StopAction, _ stagemanager.Application) error {
		seen = append(seen, a)
		return nil
	})
	names := map[stagemanager.StopAction]string{stagemanager.Stop: "Stop", stagemanager.GracefulStop: "GracefulStop", stagemanager.Reload: "Reload", stagemanager.Upgrade: "Upgrade"}
	complete := vreport.Run(p, func(yield func(c11kCase) bool) {
		for _, c := range []c11kCase{
			{int(syscall.SIGTERM), "SIGTERM"}, {int(syscall.SIGHUP), "SIGHUP"}, {int(syscall.SIGINT), "SIGINT"}, {int(syscall.SIGQUIT), "SIGQUIT"},
			{int(syscall.SIGUSR1), "SIGUSR1"}, {int(syscall.SIGUSR2), "SIGUSR2"}, {int(syscall.SIGPIPE), "SIGPIPE"}, {int(syscall.SIGCHLD), "SIGCHLD"},
		} {
			if !yield(c) {
				return
			}
		}
	}, func(p *vreport.Part, c c11kCase) {
		if stagemanager.GetState() != stagemanager.Nil {
			vreport.HarnessError("C11", "keeper-signals", "the stage manager is not in state Nil")
			return
		}
		seen = nil
		var sig os.Signal = syscall.Signal(c.Signal)
		func() {
			defer func() {
				if r := recover(); r != nil {
					p.Violation("keeper: signalHandler panics", fmt.Sprintf("%s: %v", c.Name, r), c)
				}
			}()
			signalHandler(sig)
		}()
		var got []string
		for _, a := range seen {
			got = append(got, names[a])
		}
		p.Distinct(c.Name)
		p.Outcome(fmt.Sprintf("%s->%v", c.Name, got))
		p.Sample(map[string]interface{}{"signal": c.Name, "notices": got})
		want := map[string]string{"SIGTERM": "GracefulStop", "SIGHUP": "Reload"}[c.Name]
		if want != "" && (len(got) != 1 || got[0] != want) {
			p.Violation("keeper: "+c.Name+" is not turned into exactly one "+want+" notice", fmt.Sprintf("notices %v", got), c)
		}
		if stagemanager.GetState() != stagemanager.Nil {
			vreport.HarnessError("C11", "keeper-signals", "a notice in state Nil changed the state")
		}
	})
	p.End(complete, "8 signals: the 5 the keeper subscribes to and 3 others", "every signal once through the real signalHandler; compared for SIGTERM and SIGHUP only")
}
