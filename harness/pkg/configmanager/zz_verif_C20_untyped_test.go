//go:build verif

package configmanager

// C20, untyped positions (in-package unit): private keys inside the raw /
// untyped sections of the configuration that code of the tree interprets as a
// TLS configuration — the xDS bootstrap in static_resources (clusters[] and
// listeners[] transport sockets, key given as inline_string, inline_bytes or
// filename, proto or lowerCamelCase field names) and the tunnel_agent
// extension config — see pkg/verifrt/c20/untyped.go for how the positions and
// forms were derived and for the oracle. The dump seam is the one of
// TestVerifC20Core (DumpJSON, HandleMOSNConfig for every section type); in
// addition the configuration file is really persisted (DumpConfig into a
// temporary directory, JSON and YAML) before and after every request.

import (
	"fmt"
	"os"
	"path/filepath"
	"testing"
	"time"

	"mosn.io/mosn/pkg/log"
	"mosn.io/mosn/pkg/verifrt/c20"
	"mosn.io/mosn/pkg/verifrt/vreport"
)

func TestVerifC20Untyped(t *testing.T) {
	log.DefaultLogger.SetLogLevel(log.FATAL)
	p := vreport.Begin("C20", "core-untyped", 6*time.Minute)
	dir := t.TempDir()
	oldPath := configPath
	defer func() { configPath = oldPath }()
	env := c20.UEnv{Env: c20CoreEnv()}
	env.Persist = func() ([]byte, error) {
		var out []byte
		for _, name := range []string{"mosn_config.json", "mosn_config.yaml"} {
			configPath = filepath.Join(dir, name)
			setDump()
			DumpLock()
			DumpConfig()
			DumpUnlock()
			b, err := os.ReadFile(configPath)
			if err != nil {
				return out, err
			}
			out = append(append(out, []byte("\n--- "+name+"\n")...), b...)
		}
		return out, nil
	}
	st := c20.NewUStats()
	depth := vreport.Pick(1, 2)
	cases := c20.UCases(depth)
	complete := vreport.Run(p,
		func(yield func(c20.UCase) bool) {
			for _, c := range cases {
				if !yield(c) {
					return
				}
			}
		},
		func(p *vreport.Part, c c20.UCase) { c20.RunUntypedCase(env, st, p, c) })
	st.UNotes(p)
	p.End(complete,
		fmt.Sprintf("%d untyped positions x key forms x key spellings (each alone, all together) x every history up to depth %d of {SetMosnConfig again, SetExtend again} = %d cases x {DumpJSON, HandleMOSNConfig(MOSN|Router|Cluster|Listener|Extend|unknown)}, each before any restart dump and with restart dump + persisted file (JSON and YAML) around the request", len(c20.USites()), depth, len(cases)),
		"positions = raw / untyped sections with a TLS consumer in the tree (static_resources clusters[] and listeners[] transport sockets: istio1106 xds convertTLS/parseDataSource; extends tunnel_agent tls_context), forms = inline_string / inline_bytes (base64) / filename (a path: control, not compared) for xDS, inline PEM for MOSN, spellings = proto names / lowerCamelCase (jsonpb) and lower / upper case (encoding/json); keys sit in the first and second element of every list on the path. Per request: no window of "+fmt.Sprint(c20.UWindow)+" bytes of the PEM body (with newlines, JSON-escaped, joined) or of the base64 of the PEM in the raw body, in any decoded JSON string, in strings that are JSON or base64 themselves; restart dump (canonical), persisted file, storage shared with the values handed to the setters and the effective configuration variable identical before/after and still holding every key. Positions without a consumer in the tree (static secrets, v2-API tls_context, dynamic_resources google_grpc credentials) are enumerated and observed, not compared. distinct = case|history")
}
