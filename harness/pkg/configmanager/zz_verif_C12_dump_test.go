//go:build verif

package configmanager

// C12, dump half: "MOSN serves exactly what a fresh MOSN started from the
// currently dumped configuration would serve ... the last update wins".
//
// The dump goroutine (DumpConfigHandler) ticks every 3 s:
// DumpLock(); DumpConfig(); DumpUnlock(). Every runtime update goes through one
// of the exported setters of this package (SetClusterConfig, SetRemoveClusterConfig,
// SetHosts, SetRouter, SetListenerConfig, SetExtend, SetClusterManagerTLS), which
// change the effective configuration under configLock and mark it dirty
// (tryDump -> setDump, feature gate auto_config). A tick consumes the dirty
// flag, snapshots the effective configuration (transferConfig) and writes the
// file (utils.WriteFileSafety).
//
// Under the E1 scheduler (pkg/configmanager instrumented, rewrite set
// "c12dump": every operation on configLock, the dump lock and the dirty flag is
// a scheduling point; the file is really written, to a private directory under
// VERIF_WORK) one execution is
//
//	thread 0:        Reset, base configuration through the real setters
//	                 (start "dirty": never dumped, flag set, no file;
//	                  start "clean": one tick before the threads start)
//	updater<i>:      1-2 real setter calls                      (1-2 threads)
//	dumper:          1-2 ticks (DumpLock, DumpConfig, DumpUnlock), reading the file after each
//	thread 0, after all threads finished: ONE more tick (what the periodic
//	                 loop does next), then the observations.
//
// and all interleavings up to the preemption bound are enumerated.
//
// Oracles
//
//	(quiescent) after the last tick the file parses as a v2.MOSNConfig and,
//	    with the listener / router / cluster lists sorted, equals a fresh
//	    transfer of the in-memory configuration; the sections shown by the
//	    admin getter (DumpJSON) are the same objects; the in-memory
//	    configuration is the result of SOME order of all the updates that
//	    respects each updater's program order (reference: the same setters run
//	    sequentially, outside the scheduler, in every such order).
//	(per tick)  the file after a tick is unchanged, or it is a configuration
//	    produced by some program-order-respecting order of a prefix of every
//	    updater's program that contains at least the calls that had RETURNED
//	    before the tick began and at most the calls that had been ENTERED when
//	    the tick ended (window recorded by the harness around the tick). A file
//	    that mixes a later update with the absence of an earlier one of the same
//	    updater is no member of that set.
//
// Not judged: whether a tick with nothing to do rewrites the file; the state of
// the dirty flag itself; write failures (the directory is always writable).

import (
	"encoding/json"
	"fmt"
	"os"
	"path/filepath"
	"sort"
	"strings"
	"testing"
	"time"

	v2 "mosn.io/mosn/pkg/config/v2"
	"mosn.io/mosn/pkg/log"
	"mosn.io/mosn/pkg/verifrt/vreport"
	"mosn.io/mosn/pkg/verifrt/vrt"
)

const c12dPart = "dump-vs-updates-schedules"

type c12dCase struct {
	Start    string     `json:"start"` // "dirty" | "clean"
	Progs    [][]string `json:"progs"` // per updater thread: operation names
	Ticks    int        `json:"ticks"` // ticks of the dumper thread (one more follows at quiescence)
	Bound    int        `json:"bound"`
	MaxExecs int        `json:"max_execs"`
	Choices  []int      `json:"choices,omitempty"`
}

func (c c12dCase) name() string {
	var ps []string
	for _, p := range c.Progs {
		ps = append(ps, strings.Join(p, ";"))
	}
	return fmt.Sprintf("%s|%s|ticks=%d", c.Start, strings.Join(ps, " || "), c.Ticks)
}

// ---------------------------------------------------------------------------
// the alphabet: real setter calls

func c12dHost(addr string, w uint32) v2.Host {
	return v2.Host{HostConfig: v2.HostConfig{Address: addr, Weight: w}}
}

func c12dRouter(version string, cluster string) v2.RouterConfiguration {
	return v2.RouterConfiguration{
		RouterConfigurationConfig: v2.RouterConfigurationConfig{RouterConfigName: "rA"},
		VirtualHosts: []v2.VirtualHost{{
			Name:    version,
			Domains: []string{"*"},
			Routers: []v2.Router{{RouterConfig: v2.RouterConfig{
				Match: v2.RouterMatch{Prefix: "/"},
				Route: v2.RouteAction{RouterActionConfig: v2.RouterActionConfig{ClusterName: cluster}},
			}}},
		}},
	}
}

func c12dListener(name, addr string) v2.Listener {
	return v2.Listener{ListenerConfig: v2.ListenerConfig{Name: name, AddrConfig: addr, BindToPort: true}}
}

type c12dOp struct {
	name string
	run  func()
}

var c12dOps = []c12dOp{
	{"SetClusterConfig(cA,lb=random)", func() {
		SetClusterConfig(v2.Cluster{Name: "cA", ClusterType: v2.SIMPLE_CLUSTER, LbType: v2.LB_RANDOM})
	}},
	{"SetRemoveClusterConfig(cA)", func() { SetRemoveClusterConfig("cA") }},
	{"SetHosts(cA,{h1,h2})", func() {
		SetHosts("cA", []v2.Host{c12dHost("127.0.0.1:13001", 1), c12dHost("127.0.0.1:13002", 2)})
	}},
	{"SetHosts(cA,{h3})", func() { SetHosts("cA", []v2.Host{c12dHost("127.0.0.1:13003", 3)}) }},
	{"SetRouter(rA,v2)", func() { SetRouter(c12dRouter("v2", "cA")) }},
	{"SetRouter(rA,v3)", func() { SetRouter(c12dRouter("v3", "cB")) }},
	{"SetListenerConfig(lB)", func() { SetListenerConfig(c12dListener("lB", "127.0.0.1:13081")) }},
	{"SetExtend(x)", func() { SetExtend("c12d_x", json.RawMessage(`{"k":"v2"}`)) }},
	{"SetClusterManagerTLS", func() { SetClusterManagerTLS(v2.TLSConfig{Status: true, ServerName: "c12d.example"}) }},
}

func c12dOpByName(n string) *c12dOp {
	for i := range c12dOps {
		if c12dOps[i].name == n {
			return &c12dOps[i]
		}
	}
	return nil
}

// base configuration of every execution, applied through the real setters
// (each of them marks the configuration dirty once auto_config is on)
func c12dBase() {
	Reset()
	dumping = 0
	SetMosnConfig(&v2.MOSNConfig{Servers: []v2.ServerConfig{{ServerName: "c12d", DefaultLogLevel: "ERROR"}}})
	SetListenerConfig(c12dListener("lA", "127.0.0.1:13080"))
	SetClusterConfig(v2.Cluster{Name: "cA", ClusterType: v2.SIMPLE_CLUSTER, LbType: v2.LB_ROUNDROBIN})
	SetHosts("cA", []v2.Host{c12dHost("127.0.0.1:13001", 1)})
	SetRouter(c12dRouter("v1", "cA"))
	SetExtend("c12d_x", json.RawMessage(`{"k":"v1"}`))
}

// ---------------------------------------------------------------------------
// canonical form of a dumped / transferred configuration

func c12dSortList(v interface{}) interface{} {
	arr, ok := v.([]interface{})
	if !ok {
		return v
	}
	type kv struct {
		k string
		v interface{}
	}
	l := make([]kv, len(arr))
	for i, e := range arr {
		b, _ := json.Marshal(e)
		l[i] = kv{string(b), e}
	}
	sort.Slice(l, func(i, j int) bool { return l[i].k < l[j].k })
	out := make([]interface{}, len(l))
	for i := range l {
		out[i] = l[i].v
	}
	return out
}

// c12dCanon parses MOSNConfig JSON generically and sorts the three lists whose
// order comes from map iteration in transferConfig.
func c12dCanon(b []byte) (string, error) {
	if r, ok := c12dCanonCache[string(b)]; ok {
		return r.canon, r.err
	}
	cs, err := c12dCanonUncached(b)
	c12dCanonCache[string(b)] = c12dCanonRes{cs, err}
	return cs, err
}

type c12dCanonRes struct {
	canon string
	err   error
}

// pure functions of the raw bytes, memoised (the same few documents recur in
// every execution)
var (
	c12dCanonCache  = map[string]c12dCanonRes{}
	c12dParseCache  = map[string]error{}
	c12dConfSecMemo = map[string]string{}
	c12dGetSecMemo  = map[string]c12dCanonRes{}
)

func c12dCanonUncached(b []byte) (string, error) {
	var root map[string]interface{}
	if err := json.Unmarshal(b, &root); err != nil {
		return "", err
	}
	if ss, ok := root["servers"].([]interface{}); ok {
		for _, s := range ss {
			if sm, ok := s.(map[string]interface{}); ok {
				sm["listeners"] = c12dSortList(sm["listeners"])
				sm["routers"] = c12dSortList(sm["routers"])
			}
		}
	}
	if cm, ok := root["cluster_manager"].(map[string]interface{}); ok {
		cm["clusters"] = c12dSortList(cm["clusters"])
	}
	out, err := json.Marshal(root)
	return string(out), err
}

// c12dSections extracts (listeners, routers, clusters, extends) as sorted JSON
// lists from a canonical MOSNConfig document.
func c12dSectionsOfConfig(canon string) string {
	if r, ok := c12dConfSecMemo[canon]; ok {
		return r
	}
	r := c12dSectionsOfConfigUncached(canon)
	c12dConfSecMemo[canon] = r
	return r
}

func c12dSectionsOfConfigUncached(canon string) string {
	var root map[string]interface{}
	_ = json.Unmarshal([]byte(canon), &root)
	var ls, rs, cs, es interface{} = []interface{}{}, []interface{}{}, []interface{}{}, []interface{}{}
	if ss, ok := root["servers"].([]interface{}); ok && len(ss) > 0 {
		if sm, ok := ss[0].(map[string]interface{}); ok {
			if v, ok := sm["listeners"]; ok && v != nil {
				ls = v
			}
			if v, ok := sm["routers"]; ok && v != nil {
				rs = v
			}
		}
	}
	if cm, ok := root["cluster_manager"].(map[string]interface{}); ok {
		if v, ok := cm["clusters"]; ok && v != nil {
			cs = v
		}
	}
	if v, ok := root["extends"]; ok && v != nil {
		es = v
	}
	b, _ := json.Marshal([]interface{}{c12dSortList(ls), c12dSortList(rs), c12dSortList(cs), es})
	return string(b)
}

// c12dBrief: the parts of a configuration that the alphabet changes, for details
func c12dBrief(canon string) string {
	var root map[string]interface{}
	if json.Unmarshal([]byte(canon), &root) != nil {
		return canon
	}
	str := func(v interface{}) string { b, _ := json.Marshal(v); return string(b) }
	var out []string
	if ss, ok := root["servers"].([]interface{}); ok && len(ss) > 0 {
		if sm, ok := ss[0].(map[string]interface{}); ok {
			if ls, ok := sm["listeners"].([]interface{}); ok {
				for _, l := range ls {
					if m, ok := l.(map[string]interface{}); ok {
						out = append(out, fmt.Sprintf("listener %v", m["name"]))
					}
				}
			}
			if rs, ok := sm["routers"].([]interface{}); ok {
				for _, r := range rs {
					if m, ok := r.(map[string]interface{}); ok {
						var vhs []string
						if l, ok := m["virtual_hosts"].([]interface{}); ok {
							for _, vh := range l {
								if vm, ok := vh.(map[string]interface{}); ok {
									vhs = append(vhs, fmt.Sprint(vm["name"]))
								}
							}
						}
						out = append(out, fmt.Sprintf("router %v%v", m["router_config_name"], vhs))
					}
				}
			}
		}
	}
	if cm, ok := root["cluster_manager"].(map[string]interface{}); ok {
		if cs, ok := cm["clusters"].([]interface{}); ok {
			for _, c := range cs {
				if m, ok := c.(map[string]interface{}); ok {
					out = append(out, fmt.Sprintf("cluster %v lb=%v hosts=%s", m["name"], m["lb_type"], str(m["hosts"])))
				}
			}
		}
		out = append(out, "cluster_manager.tls_context="+str(cm["tls_context"]))
	}
	out = append(out, "extends="+str(root["extends"]))
	return "{" + strings.Join(out, "; ") + "}"
}

// the same four sections from the admin view (DumpJSON: maps keyed by name)
func c12dSectionsOfGetter(dump []byte) (string, error) {
	if r, ok := c12dGetSecMemo[string(dump)]; ok {
		return r.canon, r.err
	}
	cs, err := c12dSectionsOfGetterUncached(dump)
	c12dGetSecMemo[string(dump)] = c12dCanonRes{cs, err}
	return cs, err
}

func c12dSectionsOfGetterUncached(dump []byte) (string, error) {
	var root map[string]interface{}
	if err := json.Unmarshal(dump, &root); err != nil {
		return "", err
	}
	vals := func(k string) interface{} {
		m, _ := root[k].(map[string]interface{})
		out := []interface{}{}
		for _, v := range m {
			out = append(out, v)
		}
		return c12dSortList(out)
	}
	var es interface{} = []interface{}{}
	if v, ok := root["extends"]; ok && v != nil {
		es = v
	}
	b, err := json.Marshal([]interface{}{vals("listener"), vals("routers"), vals("cluster"), es})
	return string(b), err
}

// ---------------------------------------------------------------------------
// reference: the configurations of the history, by the real setters run
// sequentially (outside the scheduler)

type c12dRef struct {
	dims  []int               // len of every program
	byVec map[string][]string // prefix vector "a,b" -> canonical configurations reachable with exactly these prefixes
	all   map[string]string   // canonical configuration -> first prefix vector producing it
}

func c12dVecKey(v []int) string {
	s := make([]string, len(v))
	for i, x := range v {
		s[i] = fmt.Sprint(x)
	}
	return strings.Join(s, ",")
}

func c12dBuildRef(c c12dCase) (*c12dRef, error) {
	ref := &c12dRef{byVec: map[string][]string{}, all: map[string]string{}}
	for _, p := range c.Progs {
		ref.dims = append(ref.dims, len(p))
	}
	n := len(c.Progs)
	vec := make([]int, n)
	var err error
	// every prefix vector
	var eachVec func(i int)
	eachVec = func(i int) {
		if i == n {
			seen := map[string]bool{}
			// every interleaving of the prefixes
			pos := make([]int, n)
			var order []string
			var lin func()
			lin = func() {
				done := true
				for t := 0; t < n; t++ {
					if pos[t] < vec[t] {
						done = false
						order = append(order, c.Progs[t][pos[t]])
						pos[t]++
						lin()
						pos[t]--
						order = order[:len(order)-1]
					}
				}
				if !done {
					return
				}
				c12dBase()
				for _, o := range order {
					c12dOpByName(o).run()
				}
				b, e := transferConfig()
				if e != nil {
					err = e
					return
				}
				cs, e := c12dCanon(b)
				if e != nil {
					err = e
					return
				}
				if !seen[cs] {
					seen[cs] = true
					k := c12dVecKey(vec)
					ref.byVec[k] = append(ref.byVec[k], cs)
					if _, ok := ref.all[cs]; !ok {
						ref.all[cs] = k
					}
				}
			}
			lin()
			return
		}
		for k := 0; k <= len(c.Progs[i]); k++ {
			vec[i] = k
			eachVec(i + 1)
		}
	}
	eachVec(0)
	return ref, err
}

// inWindow returns the first prefix vector lo <= k <= hi one of whose
// configurations is canon ("" if none).
func (r *c12dRef) inWindow(canon string, lo, hi []int) string {
	n := len(r.dims)
	vec := make([]int, n)
	found := ""
	var rec func(i int)
	rec = func(i int) {
		if found != "" {
			return
		}
		if i == n {
			k := c12dVecKey(vec)
			for _, cs := range r.byVec[k] {
				if cs == canon {
					found = k
					return
				}
			}
			return
		}
		for k := lo[i]; k <= hi[i]; k++ {
			vec[i] = k
			rec(i + 1)
		}
	}
	rec(0)
	return found
}

// ---------------------------------------------------------------------------
// one execution

type c12dTick struct {
	lo, hi  []int  // window: calls returned before the tick began / entered when it ended
	content string // raw file content after the tick ("" = no file)
}

type c12dState struct {
	started, finished []int
	done              int
	pre               string // file content before the threads start
	ticks             []c12dTick
	last              c12dTick // the quiescent tick
	effective         []byte   // fresh transfer after the quiescent tick
	effErr            error
	getter            []byte
	getErr            error
	flagEnd           int32
	panics            []string
	problem           string
}

var c12dPath string

func c12dReadFile() string {
	b, err := os.ReadFile(c12dPath)
	if err != nil {
		return ""
	}
	return string(b)
}

func c12dTickOnce() {
	// what DumpConfigHandler does once per period
	DumpLock()
	DumpConfig()
	DumpUnlock()
}

func c12dBody(c c12dCase, st *c12dState) {
	n := len(c.Progs)
	*st = c12dState{started: make([]int, n), finished: make([]int, n)}
	os.Remove(c12dPath)
	os.Remove(c12dPath + ".tmp")
	c12dBase()
	if dumping != 1 {
		st.problem = "the base configuration did not mark the configuration dirty (auto_config off?)"
		return
	}
	if c.Start == "clean" {
		c12dTickOnce()
		if dumping != 0 {
			st.problem = "clean start: dirty flag still set after the first tick"
			return
		}
	}
	st.pre = c12dReadFile()
	guard := func(who string) {
		if r := recover(); r != nil {
			st.panics = append(st.panics, fmt.Sprintf("%s: %v", who, r))
		}
		st.done++
	}
	for i := 0; i < n; i++ {
		i := i
		vrt.GoNamed(fmt.Sprintf("updater%d", i), func() {
			defer guard(fmt.Sprintf("updater%d", i))
			for _, name := range c.Progs[i] {
				op := c12dOpByName(name)
				st.started[i]++
				op.run()
				st.finished[i]++
			}
		})
	}
	vrt.GoNamed("dumper", func() {
		defer guard("dumper")
		for k := 0; k < c.Ticks; k++ {
			t := c12dTick{lo: append([]int(nil), st.finished...)}
			c12dTickOnce()
			t.hi = append([]int(nil), st.started...)
			t.content = c12dReadFile()
			st.ticks = append(st.ticks, t)
		}
	})
	vrt.WaitUntil("updaters and dumper done", func() bool { return st.done == n+1 })
	// quiescence: the next periodic tick
	st.last.lo = append([]int(nil), st.finished...)
	c12dTickOnce()
	st.last.hi = append([]int(nil), st.started...)
	st.last.content = c12dReadFile()
	st.effective, st.effErr = transferConfig()
	st.getter, st.getErr = DumpJSON()
	st.flagEnd = dumping
}

const (
	c12dKeyStale    = "config dump: after a quiescent tick the dumped file is an earlier configuration of the history, not the effective one (an update is never persisted)"
	c12dKeyForeign  = "config dump: after a quiescent tick the dumped file is neither the effective configuration nor any configuration of the history"
	c12dKeyNoFile   = "config dump: no file after a quiescent tick although the configuration was updated"
	c12dKeyParse    = "config dump: dumped file does not parse as a MOSN configuration"
	c12dKeyTorn     = "config dump: file written by a tick is not a configuration of the history (torn snapshot: mixes updates)"
	c12dKeyWindow   = "config dump: file written by a tick is a configuration that was not effective at any time during that tick"
	c12dKeyLastWins = "config updates: effective configuration after all updates is not the result of any order of the updates (last update does not win)"
	c12dKeyGetter   = "config updates: admin view (DumpJSON) and the transferred configuration disagree at quiescence"
	c12dKeyPanic    = "config dump vs updates: panic"
	c12dKeyDeadlock = "config dump vs updates: deadlock"
)

// c12dJudge returns the outcome summary and the violations (key, detail).
func c12dJudge(c c12dCase, ref *c12dRef, st *c12dState) (summary string, viols [][2]string) {
	add := func(k, d string) { viols = append(viols, [2]string{k, d}) }
	full := append([]int(nil), ref.dims...)
	// "unchanged" is decided on the canonical form: a rewrite of the same
	// configuration in another map order is not a change
	canonOrRaw := func(raw string) string {
		if raw == "" {
			return ""
		}
		if cs, err := c12dCanon([]byte(raw)); err == nil {
			return cs
		}
		return "raw:" + raw
	}
	prev := canonOrRaw(st.pre)
	judgeTick := func(label string, t c12dTick) string {
		cur := canonOrRaw(t.content)
		defer func() { prev = cur }()
		if cur == prev {
			return label + ":unchanged"
		}
		if t.content == "" {
			add(c12dKeyNoFile, label+": the file disappeared")
			return label + ":gone"
		}
		cs, err := c12dCanon([]byte(t.content))
		if err != nil {
			add(c12dKeyParse, fmt.Sprintf("%s: %v", label, err))
			return label + ":unparsable"
		}
		if k := ref.inWindow(cs, t.lo, t.hi); k != "" {
			return fmt.Sprintf("%s:wrote[%s]", label, k)
		}
		if k, ok := ref.all[cs]; ok {
			add(c12dKeyWindow, fmt.Sprintf("%s wrote the configuration after update prefixes [%s], but the calls returned before the tick were %v and the calls entered at its end %v", label, k, t.lo, t.hi))
			return fmt.Sprintf("%s:out-of-window[%s]", label, k)
		}
		add(c12dKeyTorn, fmt.Sprintf("%s (calls returned before it %v, entered at its end %v, programs %v) wrote %s", label, t.lo, t.hi, c.Progs, c12dBrief(cs)))
		return label + ":torn"
	}
	var parts []string
	for i, t := range st.ticks {
		parts = append(parts, judgeTick(fmt.Sprintf("tick%d", i+1), t))
	}
	parts = append(parts, judgeTick("quiescent-tick", st.last))

	// quiescent oracle
	if st.effErr != nil || st.getErr != nil {
		add(c12dKeyParse, fmt.Sprintf("transferConfig/DumpJSON failed: %v %v", st.effErr, st.getErr))
		return strings.Join(parts, " "), viols
	}
	eff, err := c12dCanon(st.effective)
	if err != nil {
		add(c12dKeyParse, "transferred configuration: "+err.Error())
		return strings.Join(parts, " "), viols
	}
	effVec := ref.inWindow(eff, full, full)
	if effVec == "" {
		add(c12dKeyLastWins, fmt.Sprintf("programs %v: effective configuration %s", c.Progs, c12dBrief(eff)))
	}
	if gs, err := c12dSectionsOfGetter(st.getter); err != nil || gs != c12dSectionsOfConfig(eff) {
		add(c12dKeyGetter, fmt.Sprintf("DumpJSON sections %s (err %v), transferred %s", gs, err, c12dSectionsOfConfig(eff)))
	}
	final := st.last.content
	switch {
	case final == "":
		add(c12dKeyNoFile, "no file at "+filepath.Base(c12dPath))
		parts = append(parts, "final:nofile")
	default:
		if err := c12dParses(final); err != nil {
			add(c12dKeyParse, "final file: "+err.Error())
			parts = append(parts, "final:unparsable")
			break
		}
		fc, err := c12dCanon([]byte(final))
		if err != nil {
			add(c12dKeyParse, "final file: "+err.Error())
			parts = append(parts, "final:unparsable")
			break
		}
		if fc == eff {
			parts = append(parts, "final:effective")
			break
		}
		if k, ok := ref.all[fc]; ok {
			add(c12dKeyStale, fmt.Sprintf("file holds the configuration after update prefixes [%s] of %v, the effective configuration is the one after all updates; dirty flag at the end = %d", k, c.Progs, st.flagEnd))
			parts = append(parts, "final:stale["+k+"]")
		} else {
			add(c12dKeyForeign, fmt.Sprintf("file %s, effective %s", c12dBrief(fc), c12dBrief(eff)))
			parts = append(parts, "final:foreign")
		}
	}
	return strings.Join(parts, " "), viols
}

// c12dParses: the file loads the way DefaultConfigLoad loads it
func c12dParses(raw string) error {
	if err, ok := c12dParseCache[raw]; ok {
		return err
	}
	var parsed v2.MOSNConfig
	err := json.Unmarshal([]byte(raw), &parsed)
	c12dParseCache[raw] = err
	return err
}

func c12dRun(p *vreport.Part, c c12dCase, replay bool) bool {
	for _, prog := range c.Progs {
		for _, o := range prog {
			if c12dOpByName(o) == nil {
				vreport.HarnessError("C12", c12dPart, "unknown operation "+o)
				return false
			}
		}
	}
	ref, err := c12dBuildRef(c)
	if err != nil {
		vreport.HarnessError("C12", c12dPart, "reference run failed: "+err.Error())
		return false
	}
	var st c12dState
	opts := vrt.Options{Bound: c.Bound, MaxSteps: 20000, MaxExecs: c.MaxExecs}
	if replay {
		opts.Replay = true
		opts.Prefix = c.Choices
	} else {
		// determinism pre-check: the default schedule, twice
		var sa, sb c12dState
		ra := vrt.RunOnce(nil, vrt.Options{MaxSteps: 20000}, func() { c12dBody(c, &sa) })
		oa, _ := c12dJudge(c, ref, &sa)
		rb := vrt.RunOnce(nil, vrt.Options{MaxSteps: 20000}, func() { c12dBody(c, &sb) })
		ob, _ := c12dJudge(c, ref, &sb)
		if sa.problem != "" || oa != ob || fmt.Sprint(ra.Choices) != fmt.Sprint(rb.Choices) {
			vreport.HarnessError("C12", c12dPart, fmt.Sprintf("%s: default schedule is not deterministic or did not run: %q/%v vs %q/%v %s", c.name(), oa, ra.Choices, ob, rb.Choices, sa.problem))
			return false
		}
	}
	stats := vrt.Explore(opts, func() { c12dBody(c, &st) }, func(r *vrt.Result) {
		p.Eval()
		cc := c
		cc.Choices = r.Choices
		if r.StepLimit || r.Diverged != "" || st.problem != "" {
			vreport.HarnessError("C12", c12dPart, fmt.Sprintf("execution did not complete: %s %s (case %+v)", r.String(), st.problem, cc))
			return
		}
		if r.Deadlock {
			p.Violation(c12dKeyDeadlock, fmt.Sprintf("%s, schedule %v: blocked %v", c.name(), r.Choices, r.Blocked), cc)
			return
		}
		if len(r.Panics) > 0 || len(st.panics) > 0 {
			p.Violation(c12dKeyPanic, fmt.Sprintf("%s, schedule %v: %v %v", c.name(), r.Choices, r.Panics, st.panics), cc)
			return
		}
		summary, viols := c12dJudge(c, ref, &st)
		p.Distinct(c.name() + "|" + summary)
		p.Outcome(summary)
		if p.WantSample() {
			p.Sample(map[string]interface{}{"case": c.name(), "schedule": r.Choices, "observed": summary})
		}
		for _, v := range viols {
			p.Violation(v[0], fmt.Sprintf("%s, schedule %v: %s [%s]", c.name(), r.Choices, v[1], summary), cc)
		}
	})
	p.AddTraces(stats.Executions)
	p.Count("executions", stats.Executions)
	p.Count(fmt.Sprintf("executions_%dx%d", len(c.Progs), len(c.Progs[0])), stats.Executions)
	if !stats.Complete {
		p.Count("scenarios_cut_by_max_execs", 1)
	}
	if stats.MaxDepth > c12dMaxDepth {
		c12dMaxDepth = stats.MaxDepth
		p.Note("max_scheduling_points", stats.MaxDepth)
	}
	return stats.Complete
}

var c12dMaxDepth int

func c12dNames(idx ...int) []string {
	var s []string
	for _, i := range idx {
		s = append(s, c12dOps[i].name)
	}
	return s
}

// c12dCases: complete products over the stated alphabets, in a fixed order.
func c12dCases() (cases []c12dCase, bound string) {
	th := vreport.Thorough()
	b := vreport.Pick(2, 3)
	capA := vreport.Pick(4000, 60000) // never reached in the quick tier
	cap22 := vreport.Pick(4000, 80000)
	b22 := vreport.Pick(1, 3)
	all := make([]int, len(c12dOps))
	for i := range all {
		all[i] = i
	}
	starts := []string{"dirty", "clean"}
	// shape 1x1: every setter, both starts
	for _, start := range starts {
		for _, i := range all {
			cases = append(cases, c12dCase{Start: start, Progs: [][]string{c12dNames(i)}, Ticks: 2, Bound: b, MaxExecs: capA})
		}
	}
	// shape 1x2: every ordered pair over the cluster / hosts / router operations
	seq := []int{0, 1, 2, 3, 4}
	for _, i := range seq {
		for _, j := range seq {
			cases = append(cases, c12dCase{Start: "dirty", Progs: [][]string{c12dNames(i, j)}, Ticks: 2, Bound: b, MaxExecs: capA})
		}
	}
	// shape 2x1: every unordered pair (with repetition) of the operations.
	// quick: all pairs with one preemption (dirty start) and the pairs over the
	// conflicting operations with two; thorough: all pairs, both starts.
	conflict := map[int]bool{1: true, 2: true, 3: true, 4: true}
	for _, start := range starts {
		if start == "clean" && !th {
			continue
		}
		for _, i := range all {
			for _, j := range all {
				if j < i {
					continue
				}
				pb := b
				if !th && !(conflict[i] && conflict[j]) {
					pb = 1
				}
				cases = append(cases, c12dCase{Start: start, Progs: [][]string{c12dNames(i), c12dNames(j)}, Ticks: 2, Bound: pb, MaxExecs: capA})
			}
		}
	}
	// shape 2x2: unordered pairs of 2-operation programs over a reduced alphabet
	red := vreport.Pick(2, 3)
	redOps := []int{2, 4, 3}[:red] // SetHosts(cA,{h1,h2}), SetRouter(rA,v2), SetHosts(cA,{h3})
	var progs [][]string
	for _, i := range redOps {
		for _, j := range redOps {
			progs = append(progs, c12dNames(i, j))
		}
	}
	for i := range progs {
		for j := i; j < len(progs); j++ {
			cases = append(cases, c12dCase{Start: "dirty", Progs: [][]string{progs[i], progs[j]}, Ticks: 2, Bound: b22, MaxExecs: cap22})
		}
	}
	if th {
		bound = fmt.Sprintf("updaters x calls: 1x1 (%d setters, dirty+clean start), 1x2 (ordered pairs over %d cluster/hosts/router operations), 2x1 (all unordered pairs of the %d setters calls, dirty+clean start), 2x2 (unordered pairs of 2-call programs over %d operations, <= %d preemptions); dumper thread 2 ticks + one quiescent tick; <= %d preemptions for the other shapes; execution cap per scenario %d (2x2: %d), DFS order",
			len(all), len(seq), len(all), red, b22, b, capA, cap22)
	} else {
		bound = fmt.Sprintf("updaters x calls: 1x1 (%d setters, dirty+clean start, <= %d preemptions), 1x2 (ordered pairs over %d cluster/hosts/router operations, <= %d), 2x1 (all unordered pairs of the %d setter calls, dirty start, <= 1 preemption; pairs over the 4 conflicting cluster/hosts/router operations <= %d), 2x2 (unordered pairs of 2-call programs over %d operations, <= %d preemption); dumper thread 2 ticks + one quiescent tick; safety cap %d executions per scenario (not reached)",
			len(all), b, len(seq), b, len(all), b, red, b22, cap22)
	}
	return
}

func TestVerifC12Dump(t *testing.T) {
	log.DefaultLogger.SetLogLevel(log.ERROR)
	log.StartLogger.SetLogLevel(log.ERROR)
	// the file goes through the real write path (temp file + rename). On ext4
	// every rename over an existing file flushes it (auto_da_alloc), which makes
	// an execution ~5x slower than on tmpfs; the content does not depend on the
	// directory, so a memory file system is preferred when there is one.
	work := os.Getenv("VERIF_WORK")
	if work == "" {
		work = os.TempDir()
	}
	dir, err := os.MkdirTemp("/dev/shm", "verif-C12-dump-")
	if err != nil {
		dir, err = os.MkdirTemp(work, "c12dump-")
	}
	if err != nil {
		vreport.HarnessError("C12", c12dPart, "cannot create the dump directory: "+err.Error())
		return
	}
	defer os.RemoveAll(dir)
	c12dPath = filepath.Join(dir, "mosn.json")
	oldPath, oldAuto := configPath, enableAutoWrite
	configPath = c12dPath
	RegisterTransferExtension(nil)
	feature.InitFunc() // what the feature gate auto_config=true runs
	defer func() {
		configPath, enableAutoWrite = oldPath, oldAuto
		Reset()
		dumping = 0
	}()
	if !enableAutoWrite {
		vreport.HarnessError("C12", c12dPart, "auto_config InitFunc did not enable auto write")
		return
	}

	p := vreport.Begin("C12", c12dPart, time.Duration(vreport.Pick(5, 40))*time.Minute)
	if vreport.Replaying() {
		var rc c12dCase
		if vreport.ReplayFor("C12", c12dPart, &rc) {
			c12dRun(p, rc, true)
			p.End(true, "replay", "replay of one recorded schedule")
		}
		return
	}
	cases, bound := c12dCases()
	complete := true
	si, sn := vreport.Shard()
	for idx, c := range cases {
		if sn > 1 && idx%sn != si {
			continue
		}
		if p.Expired() {
			complete = false
			break
		}
		p.Count("scenarios", 1)
		if !c12dRun(p, c, false) {
			complete = false
		}
	}
	p.End(complete, bound,
		"stateless DFS over thread interleavings (preemption bounded) of real setter calls and real DumpConfig ticks writing a real file; one evaluation = one complete execution; distinct = (scenario, per tick: unchanged / which update prefixes the written file holds, final: effective / stale); judged: per tick the written file is a configuration of the history inside the tick's window, at quiescence file == fresh transfer == admin view and the effective configuration is some serialisation of all updates; scenarios cut by the execution cap make the part non-exhaustive")
}
