//go:build verif

package configmanager

// C19, persistence under concurrency: "a restart or hot upgrade from the
// persisted file reproduces the running proxy".
//
// The other C19 units persist a configuration that does not change while it is
// written. With the feature gate auto_config the running proxy rewrites its
// configuration file from a periodic goroutine (DumpConfigHandler: every 3 s
// DumpLock(); DumpConfig(); DumpUnlock()) while runtime updates (xDS, admin API)
// go through the setters of this package (SetClusterConfig, SetHosts, SetRouter,
// SetListenerConfig, SetExtend, SetClusterManagerTLS), each of which changes
// the effective configuration under configLock and then requests a dump
// (tryDump -> setDump). DumpConfig is a no-op when no dump is requested. So the
// file reproduces the running proxy only if NO interleaving of an update with a
// dump in progress loses the request: the file must EVENTUALLY equal the
// effective configuration once the updates stop.
//
// Under the E1 scheduler (rewrite set c12dump: every operation on configLock,
// the dump lock and the dump-request flag is a scheduling point; the file is
// really written through utils.WriteFileSafety to a private directory) one
// execution is
//
//	thread 0:     Reset + base configuration through the real setters
//	              (start "dirty": never dumped, request pending;
//	               start "clean": one tick before the threads start)
//	updater<i>:   1-2 real setter calls, each ADDING or REPLACING an object of
//	              its own (no two calls of a scenario touch the same object, so
//	              every update of the history must be visible at the end)
//	dumper:       1-2 ticks (DumpLock, DumpConfig, DumpUnlock); in write mode
//	              "fail1" the first tick's write fails (the configuration path
//	              points into a missing directory during that tick)
//	thread 0, after all threads are done: observation Q (file, fresh transfer,
//	              request flag), then ONE more tick - what the periodic loop does
//	              unconditionally at its next period -, then observation E.
//
// and every interleaving up to the preemption bound is enumerated.
//
// Oracles (all at quiescence, nothing is demanded of intermediate files except
// that they load)
//
//	(pending)  at Q: if the file is not the effective configuration, a dump
//	           must be requested (flag set). Otherwise nothing will ever bring
//	           the file up to date.
//	(eventual) at E: the file exists, loads through the real loader
//	           (DefaultConfigLoad, JSON or YAML by extension) and, with the
//	           name-keyed lists sorted, equals a fresh transfer of the effective
//	           configuration.
//	(history)  at E: the loaded file contains the object of every update of the
//	           history (checked on the loaded v2.MOSNConfig, independent of the
//	           transfer code).
//	(loadable) every file content observed after any tick loads.
//
// Not judged: which intermediate configuration a tick wrote (that is C12's
// dump unit), whether an idle tick rewrites the file, the flag after E.

import (
	"encoding/json"
	"fmt"
	"os"
	"path/filepath"
	"strings"
	"testing"
	"time"

	"github.com/ghodss/yaml"
	v2 "mosn.io/mosn/pkg/config/v2"
	"mosn.io/mosn/pkg/log"
	"mosn.io/mosn/pkg/verifrt/vreport"
	"mosn.io/mosn/pkg/verifrt/vrt"
)

const c19dPart = "dump-vs-updates-persistence"

type c19dCase struct {
	Start    string     `json:"start"`  // "dirty" | "clean"
	Format   string     `json:"format"` // "json" | "yaml"
	Write    string     `json:"write"`  // "ok" | "fail1" (the first tick of the dumper cannot write)
	Progs    [][]string `json:"progs"`  // per updater thread: operation names
	Ticks    int        `json:"ticks"`  // ticks of the dumper thread (one more follows at quiescence)
	Bound    int        `json:"bound"`
	MaxExecs int        `json:"max_execs"`
	Choices  []int      `json:"choices,omitempty"`
}

func (c c19dCase) name() string {
	var ps []string
	for _, p := range c.Progs {
		ps = append(ps, strings.Join(p, ";"))
	}
	return fmt.Sprintf("%s|%s|write=%s|%s|ticks=%d", c.Start, c.Format, c.Write, strings.Join(ps, " || "), c.Ticks)
}

// ---------------------------------------------------------------------------
// the alphabet: real setter calls, each on an object of its own, with the
// marker that a loaded configuration must show once the update is persisted

type c19dOp struct {
	name string
	kind string
	run  func()
	in   func(cfg *v2.MOSNConfig) bool
}

func c19dRouter(name, vh, cluster string) v2.RouterConfiguration {
	return v2.RouterConfiguration{
		RouterConfigurationConfig: v2.RouterConfigurationConfig{RouterConfigName: name},
		VirtualHosts: []v2.VirtualHost{{
			Name:    vh,
			Domains: []string{"*"},
			Routers: []v2.Router{{RouterConfig: v2.RouterConfig{
				Match: v2.RouterMatch{Prefix: "/"},
				Route: v2.RouteAction{RouterActionConfig: v2.RouterActionConfig{ClusterName: cluster}},
			}}},
		}},
	}
}

func c19dCluster(cfg *v2.MOSNConfig, name string) *v2.Cluster {
	for i := range cfg.ClusterManager.Clusters {
		if cfg.ClusterManager.Clusters[i].Name == name {
			return &cfg.ClusterManager.Clusters[i]
		}
	}
	return nil
}

func c19dRouterVH(cfg *v2.MOSNConfig, name, vh string) bool {
	if len(cfg.Servers) == 0 {
		return false
	}
	for _, r := range cfg.Servers[0].Routers {
		if r != nil && r.RouterConfigName == name {
			for _, v := range r.VirtualHosts {
				if v.Name == vh {
					return true
				}
			}
		}
	}
	return false
}

var c19dOps = []c19dOp{
	{"SetClusterConfig(+cB)", "cluster added", func() {
		SetClusterConfig(v2.Cluster{Name: "cB", ClusterType: v2.SIMPLE_CLUSTER, LbType: v2.LB_RANDOM,
			Hosts: []v2.Host{c12dHost("127.0.0.1:19011", 1)}})
	}, func(cfg *v2.MOSNConfig) bool {
		c := c19dCluster(cfg, "cB")
		return c != nil && c.LbType == v2.LB_RANDOM && len(c.Hosts) == 1
	}},
	{"SetClusterConfig(cA,lb=random)", "cluster replaced", func() {
		SetClusterConfig(v2.Cluster{Name: "cA", ClusterType: v2.SIMPLE_CLUSTER, LbType: v2.LB_RANDOM})
	}, func(cfg *v2.MOSNConfig) bool {
		c := c19dCluster(cfg, "cA")
		return c != nil && c.LbType == v2.LB_RANDOM
	}},
	{"SetHosts(cH,{h8,h9})", "hosts", func() {
		SetHosts("cH", []v2.Host{c12dHost("127.0.0.1:19008", 1), c12dHost("127.0.0.1:19009", 2)})
	}, func(cfg *v2.MOSNConfig) bool {
		c := c19dCluster(cfg, "cH")
		return c != nil && len(c.Hosts) == 2 && c.Hosts[1].Address == "127.0.0.1:19009"
	}},
	{"SetRouter(+rB)", "router added", func() { SetRouter(c19dRouter("rB", "b1", "cB")) },
		func(cfg *v2.MOSNConfig) bool { return c19dRouterVH(cfg, "rB", "b1") }},
	{"SetRouter(rA,v2)", "router replaced", func() { SetRouter(c19dRouter("rA", "v2", "cA")) },
		func(cfg *v2.MOSNConfig) bool { return c19dRouterVH(cfg, "rA", "v2") }},
	{"SetListenerConfig(+lB)", "listener added", func() { SetListenerConfig(c12dListener("lB", "127.0.0.1:19081")) },
		func(cfg *v2.MOSNConfig) bool {
			if len(cfg.Servers) == 0 {
				return false
			}
			for _, l := range cfg.Servers[0].Listeners {
				if l.Name == "lB" {
					return true
				}
			}
			return false
		}},
	{"SetExtend(+y)", "extend added", func() { SetExtend("c19d_y", json.RawMessage(`{"k":"y1"}`)) },
		func(cfg *v2.MOSNConfig) bool {
			for _, e := range cfg.Extends {
				if e.Type == "c19d_y" && strings.Contains(string(e.Config), "y1") {
					return true
				}
			}
			return false
		}},
	{"SetExtend(x,v2)", "extend replaced", func() { SetExtend("c19d_x", json.RawMessage(`{"k":"x2"}`)) },
		func(cfg *v2.MOSNConfig) bool {
			for _, e := range cfg.Extends {
				if e.Type == "c19d_x" && strings.Contains(string(e.Config), "x2") {
					return true
				}
			}
			return false
		}},
	{"SetClusterManagerTLS", "cluster manager tls", func() {
		SetClusterManagerTLS(v2.TLSConfig{Status: true, ServerName: "c19d.example"})
	}, func(cfg *v2.MOSNConfig) bool {
		return cfg.ClusterManager.TLSContext.Status && cfg.ClusterManager.TLSContext.ServerName == "c19d.example"
	}},
}

func c19dOpByName(n string) *c19dOp {
	for i := range c19dOps {
		if c19dOps[i].name == n {
			return &c19dOps[i]
		}
	}
	return nil
}

func c19dBase() {
	Reset()
	dumping = 0
	SetMosnConfig(&v2.MOSNConfig{Servers: []v2.ServerConfig{{ServerName: "c19d", DefaultLogLevel: "ERROR"}}})
	SetListenerConfig(c12dListener("lA", "127.0.0.1:19080"))
	SetClusterConfig(v2.Cluster{Name: "cA", ClusterType: v2.SIMPLE_CLUSTER, LbType: v2.LB_ROUNDROBIN,
		Hosts: []v2.Host{c12dHost("127.0.0.1:19001", 1)}})
	SetClusterConfig(v2.Cluster{Name: "cH", ClusterType: v2.SIMPLE_CLUSTER, LbType: v2.LB_ROUNDROBIN,
		Hosts: []v2.Host{c12dHost("127.0.0.1:19002", 1)}})
	SetRouter(c19dRouter("rA", "v1", "cA"))
	SetExtend("c19d_x", json.RawMessage(`{"k":"x1"}`))
}

// ---------------------------------------------------------------------------
// files

var (
	c19dDir     string
	c19dPath    string // the configuration path of the running scenario
	c19dBadPath string // a path whose directory does not exist: writes fail
)

func c19dReadFile() string {
	b, err := os.ReadFile(c19dPath)
	if err != nil {
		return ""
	}
	return string(b)
}

type c19dLoaded struct {
	cfg   *v2.MOSNConfig
	canon string
	err   error
}

var c19dLoadMemo = map[string]*c19dLoaded{}

// c19dLoad: the content as a restart would load it. The parse is tried here
// first (DefaultConfigLoad ends the process on a file it cannot read); when
// onDisk is set the file at the configuration path holds exactly raw and the
// real loader is used.
func c19dLoad(format, raw string, onDisk bool) *c19dLoaded {
	k := format + "\x00" + fmt.Sprint(onDisk) + "\x00" + raw
	if r, ok := c19dLoadMemo[k]; ok {
		return r
	}
	r := &c19dLoaded{}
	c19dLoadMemo[k] = r
	js := []byte(raw)
	if format == "yaml" {
		js, r.err = yaml.YAMLToJSON([]byte(raw))
		if r.err != nil {
			return r
		}
	}
	cfg := &v2.MOSNConfig{}
	if r.err = json.Unmarshal(js, cfg); r.err != nil {
		return r
	}
	if onDisk {
		cfg = DefaultConfigLoad(c19dPath)
		if cfg == nil {
			r.err = fmt.Errorf("DefaultConfigLoad returned nil")
			return r
		}
	}
	r.cfg = cfg
	r.canon, r.err = c12dCanon(js)
	return r
}

// ---------------------------------------------------------------------------
// one execution

type c19dState struct {
	done     int
	pre      string
	ticks    []string // file content after every tick of the dumper
	fileQ    string
	effQ     []byte
	effQErr  error
	flagQ    int32
	fileE    string
	effE     []byte
	effEErr  error
	flagE    int32
	panics   []string
	problem  string
	leftover bool // a write left its temporary file behind
}

func c19dTickOnce() {
	// the body of the DumpConfigHandler loop
	DumpLock()
	DumpConfig()
	DumpUnlock()
}

func c19dBody(c c19dCase, st *c19dState) {
	n := len(c.Progs)
	*st = c19dState{}
	os.Remove(c19dPath)
	os.Remove(c19dPath + ".tmp")
	configPath = c19dPath
	c19dBase()
	if dumping != 1 {
		st.problem = "the base configuration did not request a dump (auto_config off?)"
		return
	}
	if c.Start == "clean" {
		c19dTickOnce()
		if dumping != 0 {
			st.problem = "clean start: dump still requested after the first tick"
			return
		}
	}
	st.pre = c19dReadFile()
	guard := func(who string) {
		if r := recover(); r != nil {
			st.panics = append(st.panics, fmt.Sprintf("%s: %v", who, r))
		}
		st.done++
	}
	for i := 0; i < n; i++ {
		i := i
		vrt.GoNamed(fmt.Sprintf("updater%d", i), func() {
			defer guard(fmt.Sprintf("updater%d", i))
			for _, name := range c.Progs[i] {
				c19dOpByName(name).run()
			}
		})
	}
	vrt.GoNamed("dumper", func() {
		defer guard("dumper")
		for k := 0; k < c.Ticks; k++ {
			if k == 0 && c.Write == "fail1" {
				// only DumpConfig reads the path; the updaters never do
				configPath = c19dBadPath
			}
			c19dTickOnce()
			configPath = c19dPath
			st.ticks = append(st.ticks, c19dReadFile())
		}
	})
	vrt.WaitUntil("updaters and dumper done", func() bool { return st.done == n+1 })
	// Q: everything has returned, the loop is between two periods
	st.fileQ = c19dReadFile()
	st.effQ, st.effQErr = transferConfig()
	st.flagQ = dumping
	// the next period
	c19dTickOnce()
	st.fileE = c19dReadFile()
	st.effE, st.effEErr = transferConfig()
	st.flagE = dumping
}

const (
	c19dKeyLostRequest = "persisted config under concurrent updates: all updates returned, the file is behind the effective configuration and no dump is requested (dump request lost)"
	c19dKeyStale       = "persisted config under concurrent updates: after the next periodic dump the file still is not the effective configuration (an update is never persisted; restart / hot upgrade from the file does not reproduce the running proxy)"
	c19dKeyNoFile      = "persisted config under concurrent updates: no file after the next periodic dump"
	c19dKeyLoad        = "persisted config under concurrent updates: a written file does not load"
	c19dKeyHistory     = "persisted config under concurrent updates: file equals the transferred configuration but lacks an update of the history: "
	c19dKeyPanic       = "persisted config under concurrent updates: panic"
	c19dKeyDeadlock    = "persisted config under concurrent updates: deadlock"
)

func c19dJudge(c c19dCase, st *c19dState) (summary string, viols [][2]string) {
	add := func(k, d string) { viols = append(viols, [2]string{k, d}) }
	var parts []string
	canonOf := func(raw string) string {
		if raw == "" {
			return ""
		}
		l := c19dLoad(c.Format, raw, false)
		if l.err != nil {
			return "unloadable:" + raw
		}
		return l.canon
	}
	// (loadable)
	prev := canonOf(st.pre)
	for i, raw := range st.ticks {
		label := fmt.Sprintf("tick%d", i+1)
		cur := canonOf(raw)
		switch {
		case raw != "" && c19dLoad(c.Format, raw, false).err != nil:
			add(c19dKeyLoad, fmt.Sprintf("%s: %v", label, c19dLoad(c.Format, raw, false).err))
			parts = append(parts, label+":unloadable")
		case cur == prev:
			parts = append(parts, label+":unchanged")
		default:
			parts = append(parts, label+":wrote")
		}
		prev = cur
	}
	if st.effQErr != nil || st.effEErr != nil {
		add(c19dKeyLoad, fmt.Sprintf("transferConfig failed: %v %v", st.effQErr, st.effEErr))
		return strings.Join(parts, " "), viols
	}
	effQ, err1 := c12dCanon(st.effQ)
	effE, err2 := c12dCanon(st.effE)
	if err1 != nil || err2 != nil {
		add(c19dKeyLoad, fmt.Sprintf("transferred configuration is no JSON: %v %v", err1, err2))
		return strings.Join(parts, " "), viols
	}
	// (pending)
	switch {
	case canonOf(st.fileQ) == effQ:
		parts = append(parts, fmt.Sprintf("Q:current,requested=%d", st.flagQ))
	case st.flagQ == 1:
		parts = append(parts, "Q:behind,requested")
	default:
		parts = append(parts, "Q:behind,NOT-requested")
		add(c19dKeyLostRequest, fmt.Sprintf("history %v: file %s, effective %s, flag %d", c.Progs, c19dBriefOr(canonOf(st.fileQ)), c12dBrief(effQ), st.flagQ))
	}
	// (eventual) + (history)
	if st.fileE == "" {
		add(c19dKeyNoFile, "no file at "+filepath.Base(c19dPath))
		parts = append(parts, "E:nofile")
		return strings.Join(parts, " "), viols
	}
	l := c19dLoad(c.Format, st.fileE, true)
	if l.err != nil {
		add(c19dKeyLoad, "final file: "+l.err.Error())
		parts = append(parts, "E:unloadable")
		return strings.Join(parts, " "), viols
	}
	if l.canon != effE {
		add(c19dKeyStale, fmt.Sprintf("history %v: file %s, effective %s, dump requested at the end = %d", c.Progs, c12dBrief(l.canon), c12dBrief(effE), st.flagE))
		parts = append(parts, "E:stale")
		return strings.Join(parts, " "), viols
	}
	parts = append(parts, "E:effective")
	for _, prog := range c.Progs {
		for _, name := range prog {
			op := c19dOpByName(name)
			if !op.in(l.cfg) {
				add(c19dKeyHistory+op.kind, fmt.Sprintf("history %v: %s not in the loaded file %s", c.Progs, name, c12dBrief(l.canon)))
				parts = append(parts, "E:lacks "+op.kind)
			}
		}
	}
	return strings.Join(parts, " "), viols
}

func c19dBriefOr(canon string) string {
	if canon == "" {
		return "(no file)"
	}
	return c12dBrief(canon)
}

func c19dRun(p *vreport.Part, c c19dCase, replay bool) bool {
	for _, prog := range c.Progs {
		for _, o := range prog {
			if c19dOpByName(o) == nil {
				vreport.HarnessError("C19", c19dPart, "unknown operation "+o)
				return false
			}
		}
	}
	ext := ".json"
	if c.Format == "yaml" {
		ext = ".yaml"
	}
	c19dPath = filepath.Join(c19dDir, "mosn"+ext)
	c19dBadPath = filepath.Join(c19dDir, "missing", "mosn"+ext)
	var st c19dState
	opts := vrt.Options{Bound: c.Bound, MaxSteps: 20000, MaxExecs: c.MaxExecs}
	if replay {
		opts.Replay = true
		opts.Prefix = c.Choices
	} else {
		// determinism pre-check: the default schedule, twice
		var sa, sb c19dState
		ra := vrt.RunOnce(nil, vrt.Options{MaxSteps: 20000}, func() { c19dBody(c, &sa) })
		oa, _ := c19dJudge(c, &sa)
		rb := vrt.RunOnce(nil, vrt.Options{MaxSteps: 20000}, func() { c19dBody(c, &sb) })
		ob, _ := c19dJudge(c, &sb)
		if sa.problem != "" || oa != ob || fmt.Sprint(ra.Choices) != fmt.Sprint(rb.Choices) {
			vreport.HarnessError("C19", c19dPart, fmt.Sprintf("%s: default schedule is not deterministic or did not run: %q/%v vs %q/%v %s", c.name(), oa, ra.Choices, ob, rb.Choices, sa.problem))
			return false
		}
	}
	stats := vrt.Explore(opts, func() { c19dBody(c, &st) }, func(r *vrt.Result) {
		p.Eval()
		cc := c
		cc.Choices = r.Choices
		if r.StepLimit || r.Diverged != "" || st.problem != "" {
			vreport.HarnessError("C19", c19dPart, fmt.Sprintf("execution did not complete: %s %s (case %+v)", r.String(), st.problem, cc))
			return
		}
		if r.Deadlock {
			p.Violation(c19dKeyDeadlock, fmt.Sprintf("%s, schedule %v: blocked %v", c.name(), r.Choices, r.Blocked), cc)
			return
		}
		if len(r.Panics) > 0 || len(st.panics) > 0 {
			p.Violation(c19dKeyPanic, fmt.Sprintf("%s, schedule %v: %v %v", c.name(), r.Choices, r.Panics, st.panics), cc)
			return
		}
		summary, viols := c19dJudge(c, &st)
		p.Distinct(c.name() + "|" + summary)
		p.Outcome(summary)
		if p.WantSample() {
			p.Sample(map[string]interface{}{"case": c.name(), "schedule": r.Choices, "observed": summary})
		}
		for _, v := range viols {
			p.Violation(v[0], fmt.Sprintf("%s, schedule %v: %s [%s]", c.name(), r.Choices, v[1], summary), cc)
		}
	})
	p.AddTraces(stats.Executions)
	p.Count("executions", stats.Executions)
	p.Count(fmt.Sprintf("executions_%dx%d", len(c.Progs), len(c.Progs[0])), stats.Executions)
	if !stats.Complete {
		p.Count("scenarios_cut_by_max_execs", 1)
	}
	if stats.MaxDepth > c19dMaxDepth {
		c19dMaxDepth = stats.MaxDepth
		p.Note("max_scheduling_points", stats.MaxDepth)
	}
	return stats.Complete
}

var c19dMaxDepth int

func c19dNames(idx ...int) []string {
	var s []string
	for _, i := range idx {
		s = append(s, c19dOps[i].name)
	}
	return s
}

// c19dCases: complete products over the stated alphabets, in a fixed order.
func c19dCases() (cases []c19dCase, bound string) {
	th := vreport.Thorough()
	b := vreport.Pick(2, 3)
	capN := vreport.Pick(6000, 80000)
	all := make([]int, len(c19dOps))
	for i := range all {
		all[i] = i
	}
	starts := []string{"dirty", "clean"}
	writes := []string{"ok", "fail1"}
	formats := []string{"json", "yaml"}
	// 1x1: every setter x start x ticks {1,2} x write mode x format
	// (quick: yaml only with 2 ticks and working writes)
	for _, f := range formats {
		for _, start := range starts {
			for _, w := range writes {
				for _, ticks := range []int{1, 2} {
					if !th && f == "yaml" && (w != "ok" || ticks != 2) {
						continue
					}
					for _, i := range all {
						cases = append(cases, c19dCase{Start: start, Format: f, Write: w, Progs: [][]string{c19dNames(i)}, Ticks: ticks, Bound: b, MaxExecs: capN})
					}
				}
			}
		}
	}
	// 1x2: every ordered pair of different setters (quick: over 5 of them, clean start)
	seq := all
	if !th {
		seq = []int{0, 2, 3, 5, 6}
	}
	for _, start := range starts {
		if !th && start == "dirty" {
			continue
		}
		for _, w := range writes {
			for _, i := range seq {
				for _, j := range seq {
					if i == j {
						continue
					}
					cases = append(cases, c19dCase{Start: start, Format: "json", Write: w, Progs: [][]string{c19dNames(i, j)}, Ticks: 2, Bound: b, MaxExecs: capN})
				}
			}
		}
	}
	// 2x1: every unordered pair of different setters in two threads
	// (quick: working writes; one preemption, two for the pairs over four
	// setters of different kinds with a clean start)
	deep := map[int]bool{0: true, 3: true, 5: true, 6: true}
	for _, start := range starts {
		for _, w := range writes {
			if !th && w == "fail1" {
				continue
			}
			for _, i := range all {
				for _, j := range all {
					if j <= i {
						continue
					}
					pb := b
					if !th && !(start == "clean" && deep[i] && deep[j]) {
						pb = 1
					}
					cases = append(cases, c19dCase{Start: start, Format: "json", Write: w, Progs: [][]string{c19dNames(i), c19dNames(j)}, Ticks: 2, Bound: pb, MaxExecs: capN})
				}
			}
		}
	}
	// 2x2 (thorough): two threads with two setters each over four operations
	if th {
		quad := [][2][]int{{{0, 3}, {2, 5}}, {{0, 2}, {6, 8}}, {{4, 7}, {1, 5}}, {{3, 6}, {0, 8}}}
		for _, q := range quad {
			for _, start := range starts {
				cases = append(cases, c19dCase{Start: start, Format: "json", Write: "ok", Progs: [][]string{c19dNames(q[0]...), c19dNames(q[1]...)}, Ticks: 2, Bound: 2, MaxExecs: capN})
			}
		}
	}
	if th {
		bound = fmt.Sprintf("updaters x calls: 1x1 (%d setters x dirty/clean start x write ok/first-write-fails x 1-2 dumper ticks x json/yaml file), 1x2 (all ordered pairs of different setters, both starts, both write modes), 2x1 (all unordered pairs, both starts, both write modes), 2x2 (4 scenarios x both starts, <= 2 preemptions); dumper thread + one quiescent tick; <= %d preemptions; execution cap per scenario %d (DFS order)", len(all), b, capN)
	} else {
		bound = fmt.Sprintf("updaters x calls: 1x1 (%d setters x dirty/clean start x write ok/first-write-fails x 1-2 dumper ticks, json file; yaml file: 2 ticks, working writes), 1x2 (ordered pairs of different setters over %d of them, clean start, both write modes), 2x1 (all unordered pairs of the %d setters, both starts, working writes, <= 1 preemption; the 6 pairs over 4 setters of different kinds, clean start, <= %d); dumper thread + one quiescent tick; <= %d preemptions for 1x1 and 1x2; safety cap %d executions per scenario (not reached)", len(all), len(seq), len(all), b, b, capN)
	}
	return
}

func TestVerifC19DumpSchedules(t *testing.T) {
	log.DefaultLogger.SetLogLevel(log.FATAL)
	log.StartLogger.SetLogLevel(log.ERROR)
	work := os.Getenv("VERIF_WORK")
	if work == "" {
		work = os.TempDir()
	}
	// real write path (temp file + rename); a memory file system when there is
	// one (the content does not depend on the directory)
	dir, err := os.MkdirTemp("/dev/shm", "verif-C19-dump-")
	if err != nil {
		dir, err = os.MkdirTemp(work, "c19dump-")
	}
	if err != nil {
		vreport.HarnessError("C19", c19dPart, "cannot create the dump directory: "+err.Error())
		return
	}
	defer os.RemoveAll(dir)
	c19dDir = dir
	oldPath, oldAuto := configPath, enableAutoWrite
	RegisterTransferExtension(nil)
	feature.InitFunc() // what the feature gate auto_config=true runs
	defer func() {
		configPath, enableAutoWrite = oldPath, oldAuto
		Reset()
		dumping = 0
	}()
	if !enableAutoWrite {
		vreport.HarnessError("C19", c19dPart, "auto_config InitFunc did not enable auto write")
		return
	}

	p := vreport.Begin("C19", c19dPart, time.Duration(vreport.Pick(5, 40))*time.Minute)
	if vreport.Replaying() {
		var rc c19dCase
		if vreport.ReplayFor("C19", c19dPart, &rc) {
			c19dRun(p, rc, true)
			p.End(true, "replay", "replay of one recorded schedule")
		}
		return
	}
	cases, bound := c19dCases()
	complete := true
	si, sn := vreport.Shard()
	for idx, c := range cases {
		if sn > 1 && idx%sn != si {
			continue
		}
		if p.Expired() {
			complete = false
			break
		}
		p.Count("scenarios", 1)
		if !c19dRun(p, c, false) {
			complete = false
		}
	}
	p.End(complete, bound,
		"stateless DFS over thread interleavings (preemption bounded) of real configmanager setter calls and real DumpConfig ticks writing a real file; one evaluation = one complete execution; distinct = (scenario, per tick wrote / unchanged, at quiescence file current / behind + dump requested or not, after the next tick file effective / stale); judged at quiescence only: file behind => dump requested; after the next periodic tick the file loads through DefaultConfigLoad, equals a fresh transfer of the effective configuration and holds the object of every update of the history; every intermediate file loads; scenarios cut by the execution cap make the part non-exhaustive")
}
