//go:build verif

package configmanager

// C20, in-package unit: the same position sets and histories as the HTTP unit
// (pkg/admin/server), but (1) the effective configuration `conf` itself is
// deep-snapshotted (reflection over every field, exported or not) before and
// after every dump, which only an in-package test can do, (2) the dump seam is
// the exported API the admin handler is built on — DumpJSON and
// HandleMOSNConfig for every section type including those the HTTP handler
// does not route (Extend, unknown) — and (3) the type graph is computed from
// the real root, reflect.TypeOf(conf), and compared with the roots the harness
// knows how to fill. Nothing here writes, renames or removes files.

import (
	"encoding/json"
	"fmt"
	"reflect"
	"sort"
	"strings"
	"testing"
	"time"

	"mosn.io/mosn/pkg/log"
	"mosn.io/mosn/pkg/verifrt/c20"
	"mosn.io/mosn/pkg/verifrt/vreport"
)

const c20UnknownType = "c20-unknown-type"

func c20CoreEnv() c20.Env {
	return c20.Env{
		Reset:         Reset,
		SetMosnConfig: SetMosnConfig,
		SetListener:   SetListenerConfig,
		SetCluster:    SetClusterConfig,
		RemoveCluster: SetRemoveClusterConfig,
		SetHosts:      SetHosts,
		SetRouter:     SetRouter,
		SetExtend:     SetExtend,
		SetCMTLS:      SetClusterManagerTLS,
		Restart:       InheritMosnconfig,
		Live: func() []byte {
			configLock.RLock()
			defer configLock.RUnlock()
			if conf.clusterConfigPath != "" {
				panic("c20: cluster config path set: " + conf.clusterConfigPath)
			}
			for _, rp := range conf.routerConfigPath {
				if rp != "" {
					panic("c20: router config path set: " + rp)
				}
			}
			return c20.DeepBytes(&conf)
		},
		Endpoints: func(c20.Names) []c20.Endpoint {
			eps := []c20.Endpoint{{Form: "DumpJSON"}}
			for _, typ := range []string{CfgTypeMOSN, CfgTypeRouter, CfgTypeCluster, CfgTypeListener, CfgTypeExtend, c20UnknownType} {
				form := "HandleMOSNConfig(" + typ + ")"
				if typ == c20UnknownType {
					form = "HandleMOSNConfig(<unknown>)"
				}
				eps = append(eps, c20.Endpoint{Form: form, Typ: typ})
			}
			return eps
		},
		Do: func(e c20.Endpoint) (status int, body []byte, panicked string) {
			defer func() {
				if r := recover(); r != nil {
					panicked = fmt.Sprint(r)
				}
			}()
			if strings.HasPrefix(e.Form, "DumpJSON") {
				b, err := DumpJSON()
				if err != nil {
					return 500, b, ""
				}
				return 200, b, ""
			}
			status = 0 // callback not called
			HandleMOSNConfig(e.Typ, func(v interface{}) {
				if v == nil {
					status = 500
					return
				}
				// what the admin handler does with the value (it uses the
				// jsoniter std-compatible codec; encoding/json here)
				b, err := json.MarshalIndent(v, "", " ")
				if err != nil {
					status = 500
					return
				}
				status, body = 200, b
			})
			return status, body, ""
		},
	}
}

// c20RootFields maps the fields of effectiveConfig to the harness root that
// fills them.
var c20RootFields = map[string]string{
	"MosnConfig":    "mosn",
	"Listener":      "listener",
	"Cluster":       "cluster",
	"Routers":       "router",
	"ExtendConfigs": "extend",
}

// c20TypeGraph walks the real effective-config type and reports positions the
// harness roots do not cover.
func c20TypeGraph(p *vreport.Part) {
	rootType := map[string]reflect.Type{}
	for _, r := range c20.Roots() {
		rootType[r.Name] = r.Type
	}
	var unplaced, graph []string
	t := reflect.TypeOf(conf)
	for i := 0; i < t.NumField(); i++ {
		f := t.Field(i)
		w := c20.Walk(c20.Root{Name: "effectiveConfig." + f.Name, Type: f.Type})
		n := 0
		for _, pos := range w.Positions {
			if pos.Kind == c20.KindTLS {
				n++
				graph = append(graph, pos.Key())
			}
		}
		unplaced = append(unplaced, w.Skipped...)
		root, known := c20RootFields[f.Name]
		if !known {
			if len(w.Positions) > 0 {
				unplaced = append(unplaced, fmt.Sprintf("effectiveConfig.%s (%s): %d TLS / %d untyped positions below a field no harness root fills", f.Name, f.Type, n, len(w.Positions)-n))
			}
			continue
		}
		// the field must hold exactly what the root builds
		et := f.Type
		for et != rootType[root] && (et.Kind() == reflect.Map || et.Kind() == reflect.Slice) {
			et = et.Elem()
		}
		switch {
		case root == "extend":
			if et.Kind() != reflect.Struct {
				unplaced = append(unplaced, fmt.Sprintf("effectiveConfig.%s: element %s is not a struct with Config json.RawMessage", f.Name, et))
			} else if cf, ok := et.FieldByName("Config"); !ok || cf.Type != rootType["extend"] {
				unplaced = append(unplaced, fmt.Sprintf("effectiveConfig.%s: element %s is not {Type, Config json.RawMessage}", f.Name, et))
			}
		case et != rootType[root]:
			unplaced = append(unplaced, fmt.Sprintf("effectiveConfig.%s: element type %s differs from the harness root %s (%s)", f.Name, et, root, rootType[root]))
		}
	}
	sort.Strings(graph)
	p.Note("effective_config_tls_positions", graph)
	if len(unplaced) > 0 {
		p.Note("UNPLACED-TLS-POSITION (effective config type graph)", unplaced)
	}
}

func TestVerifC20Core(t *testing.T) {
	log.DefaultLogger.SetLogLevel(log.FATAL)
	p := vreport.Begin("C20", "core-dump", 12*time.Minute)
	plan := c20.MakePlan()
	p.Note("compared_positions", plan.Notes["compared_positions"])
	for k, v := range plan.Notes {
		if strings.HasPrefix(k, "UNPLACED") {
			p.Note(k, v)
		}
	}
	c20TypeGraph(p)
	eng := c20.NewEngine(c20CoreEnv(), plan.Sets)
	depths := map[string]int{}
	complete := vreport.Run(p,
		func(yield func(c20.Case) bool) {
			for _, set := range plan.Sets {
				d := c20.Depth(set, vreport.Thorough())
				depths[set.Name] = d
				if !c20.Histories(c20.Alphabet(set), d, func(h []string) bool { return yield(c20.Case{Set: set.Name, History: h}) }) {
					return
				}
			}
		},
		eng.RunCase)
	eng.Notes(p)
	p.Note("history_depth_per_set", depths)
	p.End(complete,
		fmt.Sprintf("%d compared positions (each alone, the unmarshalled-listener form, all together, all together with %d untyped sites) x every history over the set's update alphabet up to the depth in notes.history_depth_per_set x {DumpJSON, HandleMOSNConfig(MOSN|Router|Cluster|Listener|Extend|unknown)}", len(plan.Compared), len(plan.Untyped)),
		"same cases and oracle as part http-dump (see there); in addition the effective configuration variable `conf` is rendered by reflection (every field, exported or not, through pointers/slices/maps) before and after every dump call and must be identical; the section value handed to the HandleMOSNConfig callback is marshalled the way the admin handler does. The effective-config type graph (reflect.TypeOf(conf)) is compared with the harness roots: a field with TLS/untyped positions that no root fills is a note UNPLACED-TLS-POSITION.")
}
