//go:build verif

package configmanager

// C20, part core-interleaved: update histories INTERLEAVED WITH DUMPS at the
// exported API below the admin handler (DumpJSON, HandleMOSNConfig for every
// section type incl. Extend, which the HTTP handler does not route), with the
// effective configuration variable deep-snapshotted around every call. See
// pkg/verifrt/c20/interleave.go for the alphabet and the oracle.

import (
	"fmt"
	"testing"
	"time"

	"mosn.io/mosn/pkg/log"
	"mosn.io/mosn/pkg/verifrt/c20"
	"mosn.io/mosn/pkg/verifrt/vreport"
)

func TestVerifC20CoreInterleaved(t *testing.T) {
	log.DefaultLogger.SetLogLevel(log.FATAL)
	p := vreport.Begin("C20", "core-interleaved", time.Duration(vreport.Pick(6, 25))*time.Minute)
	plan := c20.MakePlan()
	eng := c20.NewEngine(c20CoreEnv(), plan.Sets)
	b := c20.IBound(vreport.Thorough())
	cases := 0
	complete := vreport.Run(p,
		func(yield func(c20.ICase) bool) {
			c20.ICases(plan.Sets, vreport.Thorough(), func(c c20.ICase) bool { cases++; return yield(c) })
		},
		eng.RunInterleaved)
	eng.INotes(p)
	p.Note("bound", b)
	p.End(complete,
		fmt.Sprintf("%d compared positions (each alone, the unmarshalled-listener form, all together, all together with %d untyped sites) x initial state of the positions %v x every history of length <= %d (combined sets: %d) over {update operations of the set x state of the installed positions %v, observations %v} that has an observation before an update and ends in an update (%d cases); thorough also length-1 shorter histories with states %v; D = final observation = {DumpJSON, HandleMOSNConfig(MOSN|Router|Cluster|Listener|Extend|unknown)}",
			len(plan.Compared), len(plan.Untyped), b.States, b.Single, b.Combined, b.States, b.Observations, cases, b.ShortStates),
		"same cases and oracle as part http-interleaved (see there): dumps are operations of the history, positions change between no TLS context / TLS context without key / TLS context with key by run-time updates; in addition the effective configuration variable `conf` is rendered by reflection before and after every dump call and must be identical. distinct = set|initial state|history.")
}
