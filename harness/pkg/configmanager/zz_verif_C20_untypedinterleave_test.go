//go:build verif

package configmanager

// C20, part core-untyped-interleaved: the interleaved histories for the untyped
// positions at the exported API below the admin handler (DumpJSON,
// HandleMOSNConfig for every section type incl. Extend). See
// pkg/verifrt/c20/untyped_interleave.go.

import (
	"fmt"
	"testing"
	"time"

	"mosn.io/mosn/pkg/log"
	"mosn.io/mosn/pkg/verifrt/c20"
	"mosn.io/mosn/pkg/verifrt/vreport"
)

func TestVerifC20UntypedCoreInterleaved(t *testing.T) {
	log.DefaultLogger.SetLogLevel(log.FATAL)
	p := vreport.Begin("C20", "core-untyped-interleaved", time.Duration(vreport.Pick(4, 15))*time.Minute)
	env := c20.UEnv{Env: c20CoreEnv()}
	st := c20.NewUStats()
	depth, depthAll := vreport.Pick(3, 4), vreport.Pick(2, 3)
	obs := []string{c20.StepDump}
	if vreport.Thorough() {
		obs = append(obs, c20.StepRestart)
	}
	cases := c20.UICases(depth, depthAll, obs)
	complete := vreport.Run(p,
		func(yield func(c20.UICase) bool) {
			for _, c := range cases {
				if !yield(c) {
					return
				}
			}
		},
		func(p *vreport.Part, c c20.UICase) { c20.RunUntypedInterleaved(env, st, p, c) })
	st.UNotes(p)
	p.End(complete,
		fmt.Sprintf("%d untyped positions x key forms x key spellings (each alone: histories of length <= %d; all together: <= %d) x initial state {K keyed, N no key material} x every history over {SetMosnConfig / SetExtend again x {K, N}, observations %v} that has an observation before an update and ends in an update = %d cases; D = final observation = {DumpJSON, HandleMOSNConfig(MOSN|Router|Cluster|Listener|Extend|unknown)}",
			len(c20.USites()), depth, depthAll, obs, len(cases)),
		"same cases and oracle as part http-untyped-interleaved (see there); in addition the effective configuration variable is rendered by reflection before and after every dump call and must be identical. distinct = case|initial state|history")
}
