//go:build verif

package router

import (
	"fmt"
	"net"
	"net/url"
	"reflect"
	"testing"
	"time"

	"mosn.io/api"
	"mosn.io/mosn/pkg/types"
	"mosn.io/mosn/pkg/verifrt/vreport"
	"mosn.io/pkg/variable"
)

// C17 router seam, part 3: redirect and direct-response rules, and part 4:
// the timeout / retry-policy values the proxy reads from the matched route.

// c17Reply is what downStream.chooseHost would answer locally for the route,
// reading the route only through the exported accessors it uses.
type c17Reply struct {
	Kind     string // "direct" | "redirect" | "forward" | "error"
	Status   int
	Body     string
	Location string
}

// c17LocalReply follows pkg/proxy/downstream.go chooseHost: a direct response
// rule wins; else a redirect rule produces a reply with status RedirectCode()
// and a location assembled from RedirectScheme/Host/Path over the current
// scheme (protocol resource SCHEME), host, path and query variables; else the
// request is forwarded. The URL assembly is the proxy's, copied (it is not
// reachable from this package); what is under test here are the rule objects
// the router builds from the configuration.
func c17LocalReply(route api.Route, d *c17Downstream) (rep c17Reply, panicked string) {
	defer func() {
		if x := recover(); x != nil {
			panicked = fmt.Sprint(x)
		}
	}()
	if resp := route.DirectResponseRule(); !(resp == nil || reflect.ValueOf(resp).IsNil()) {
		return c17Reply{Kind: "direct", Status: resp.StatusCode(), Body: resp.Body()}, ""
	}
	if rule := route.RedirectRule(); rule != nil {
		currentScheme, err := variable.GetProtocolResource(d.ctx, api.SCHEME)
		if err != nil {
			return c17Reply{Kind: "error", Status: 500}, ""
		}
		get := func(key string) string {
			val, err := variable.GetString(d.ctx, key)
			if err != nil {
				return ""
			}
			return val
		}
		or := func(a, b string) string {
			if a != "" {
				return a
			}
			return b
		}
		u := url.URL{
			Scheme:   or(rule.RedirectScheme(), currentScheme),
			Host:     or(rule.RedirectHost(), get(types.VarHost)),
			Path:     or(rule.RedirectPath(), get(types.VarPath)),
			RawQuery: get(types.VarQueryString),
		}
		if u.Scheme != currentScheme {
			host, port, err := net.SplitHostPort(u.Host)
			if err == nil {
				if (u.Scheme == "http" && port == "443") || (u.Scheme == "https" && port == "80") {
					u.Host = host
				}
			}
		}
		return c17Reply{Kind: "redirect", Status: rule.RedirectCode(), Location: u.String()}, ""
	}
	if rule := route.RouteRule(); rule == nil || reflect.ValueOf(rule).IsNil() {
		return c17Reply{Kind: "error", Status: 404}, ""
	}
	return c17Reply{Kind: "forward"}, ""
}

type c17LocalCase struct {
	Conf c17Conf `json:"conf"`
	Req  c17Req  `json:"req"`
}

var c17LocalKinds = []string{"prefix:/", "path:/a", "regex:^/a.*$", "variable", "rpc-headers", "dsl"}

func TestVerifC17LocalReplies(t *testing.T) {
	c17Quiet()
	p := vreport.Begin("C17", "router-redirect-direct", 3*time.Minute)
	schemes := []string{"", "https"}
	hosts := []string{"", "r.org", "r.org:443"}
	paths := []string{"", "/p"}
	codes := []int{0, 301, 302, 307, 308}
	reqHosts := []string{"a.com", "a.com:8080", "a.com:80"}
	complete := vreport.Run(p,
		func(yield func(c17LocalCase) bool) {
			for _, kind := range c17LocalKinds {
				for _, rh := range reqHosts {
					for _, qs := range c17Queries {
						q := c17Req{Carrier: "http1", Host: rh, Path: "/a", Query: qs}
						// plain route: must be forwarded
						if !yield(c17LocalCase{Conf: c17Conf{Kind: kind}, Req: q}) {
							return
						}
						for _, s := range schemes {
							for _, h := range hosts {
								for _, pa := range paths {
									for _, code := range codes {
										if s == "" && h == "" && pa == "" && code == 0 {
											continue // an empty redirect object: nothing configured to compare
										}
										rd := &c17Redirect{Scheme: s, Host: h, Path: pa, Code: code}
										if !yield(c17LocalCase{Conf: c17Conf{Kind: kind, Redirect: rd}, Req: q}) {
											return
										}
									}
								}
							}
						}
						for _, st := range []int{200, 503} {
							for _, body := range []string{"", "x"} {
								dr := &c17Direct{Status: st, Body: body}
								if !yield(c17LocalCase{Conf: c17Conf{Kind: kind, Direct: dr}, Req: q}) {
									return
								}
								// both configured: enumerated, not compared
								if !yield(c17LocalCase{Conf: c17Conf{Kind: kind, Direct: dr, Redirect: &c17Redirect{Host: "r.org", Code: 302}}, Req: q}) {
									return
								}
							}
						}
					}
				}
			}
		},
		c17CheckLocal)
	p.End(complete,
		fmt.Sprintf("route kinds %v x request host %v x query %q x { plain route | redirect: scheme %q x host %q x path %q x code %v (minus the empty object) | direct response: status [200 503] x body [\"\" \"x\"] | direct response + redirect }", c17LocalKinds, reqHosts, c17Queries, schemes, hosts, paths, codes),
		"cartesian product. Real: json -> NewRouters -> MatchRoute -> DirectResponseRule()/RedirectRule()/RouteRule() read in the order and through the accessors of downStream.chooseHost (the location URL assembly is the proxy's, copied into the harness; current scheme through the real HTTP/1 protocol resource). Compared: plain route -> forwarded; direct response -> status and body as configured; redirect -> status as configured (code 0 = unset: any 3xx), location = <scheme or current>://<host or current><path or current>[?query]. NOT compared (statement silent): a route with both direct response and redirect; the location when the scheme changes and the unconfigured request host carries :80/:443. distinct = (kind, action, request); outcome = (reply kind, status, body, location)")
}

func c17CheckLocal(p *vreport.Part, c c17LocalCase) {
	text := c17ConfigJSON(c.Conf)
	rs, err, pan := c17Build(text)
	cls := "plain"
	switch {
	case c.Conf.Direct != nil && c.Conf.Redirect != nil:
		cls = "direct+redirect"
	case c.Conf.Direct != nil:
		cls = "direct"
	case c.Conf.Redirect != nil:
		cls = "redirect"
	}
	if pan != "" || err != nil {
		p.Violation("config: valid "+cls+" route rejected ("+c17KindClass(c.Conf.Kind)+")", fmt.Sprintf("config %s: error %v panic %s", text, err, pan), c)
		return
	}
	d, err := c17Receive(c.Req)
	if err != nil {
		vreport.HarnessError("C17", "router-redirect-direct", "cannot parse harness request: "+err.Error())
		return
	}
	route, pan := c17Route(rs, d)
	if pan != "" || route == nil {
		p.Violation("setup: request not matched by its route ("+c17KindClass(c.Conf.Kind)+")", fmt.Sprintf("config %s request %s: route %v panic %s", text, c.Req, route, pan), c)
		return
	}
	rep, pan := c17LocalReply(route, d)
	if pan != "" {
		p.Violation("local-reply: rule accessors panic ("+cls+", "+c17KindClass(c.Conf.Kind)+")", fmt.Sprintf("config %s: %s", text, pan), c)
		return
	}
	p.Distinct(text + "|" + c.Req.String())
	p.Outcome(fmt.Sprintf("%s|%d|%s|%s", rep.Kind, rep.Status, rep.Body, rep.Location))
	if p.WantSample() {
		p.Sample(map[string]interface{}{"config": text, "request": c.Req.String(), "reply": fmt.Sprintf("%+v", rep)})
	}
	kc := c17KindClass(c.Conf.Kind)
	detail := func(exp string) string {
		return fmt.Sprintf("config %s request %s: expected %s, got %+v", text, c.Req, exp, rep)
	}
	switch cls {
	case "plain":
		if rep.Kind != "forward" {
			p.Violation("local-reply: route without redirect/direct response is answered locally ("+kc+", got "+rep.Kind+")", detail("the request to be forwarded"), c)
		}
	case "direct":
		switch {
		case rep.Kind != "direct":
			p.Violation("direct-response: configured direct response not produced ("+kc+", got "+rep.Kind+")", detail("a direct response"), c)
		case rep.Status != c.Conf.Direct.Status:
			p.Violation("direct-response: status differs from configuration ("+kc+")", detail(fmt.Sprintf("status %d", c.Conf.Direct.Status)), c)
		case rep.Body != c.Conf.Direct.Body:
			p.Violation("direct-response: body differs from configuration ("+kc+")", detail(fmt.Sprintf("body %q", c.Conf.Direct.Body)), c)
		}
	case "redirect":
		if rep.Kind != "redirect" {
			p.Violation("redirect: configured redirect not produced ("+kc+", got "+rep.Kind+")", detail("a redirect"), c)
			return
		}
		rd := c.Conf.Redirect
		if rd.Code != 0 && rep.Status != rd.Code {
			p.Violation("redirect: status differs from configured response_code ("+kc+")", detail(fmt.Sprintf("status %d", rd.Code)), c)
		}
		if rd.Code == 0 && (rep.Status < 300 || rep.Status > 399) {
			p.Violation("redirect: status without configured response_code is not a 3xx ("+kc+")", detail("a 3xx status"), c)
		}
		curScheme, _ := variable.GetProtocolResource(d.ctx, api.SCHEME)
		want, decided := c17RefLocation(*rd, curScheme, c.Req)
		if !decided {
			p.Count("location_not_decided_by_statement", 1)
		} else if rep.Location != want {
			part := "location"
			switch {
			case rd.Scheme != "" && len(rep.Location) >= len(rd.Scheme)+3 && rep.Location[:len(rd.Scheme)+3] != rd.Scheme+"://":
				part = "scheme"
			}
			p.Violation("redirect: "+part+" differs from configuration ("+kc+")", detail(fmt.Sprintf("location %q", want)), c)
		}
	default:
		p.Count("direct+redirect_not_compared", 1)
	}
}

// ---------------------------------------------------------------------------
// timeouts and retry policy as the proxy reads them

type c17PolicyCase struct {
	Conf c17Conf `json:"conf"`
}

// c17Dur: the durations of the alphabet, by hand.
func c17Dur(s string) time.Duration {
	switch s {
	case "":
		return 0
	case "500ms":
		return 500 * time.Millisecond
	case "1s":
		return time.Second
	case "1500ms":
		return 1500 * time.Millisecond
	case "2s":
		return 2 * time.Second
	}
	panic("c17Dur: " + s)
}

func TestVerifC17Policies(t *testing.T) {
	c17Quiet()
	p := vreport.Begin("C17", "router-timeout-retry-policy", 3*time.Minute)
	timeouts := []string{"", "1s", "1500ms"}
	tryTimeouts := []string{"", "500ms", "2s"}
	nums := []uint32{0, 1, 2, 4}
	codes := [][]uint32{nil, {503}, {500, 503}}
	complete := vreport.Run(p,
		func(yield func(c17PolicyCase) bool) {
			for _, kind := range c17Kinds {
				for _, to := range timeouts {
					if !yield(c17PolicyCase{Conf: c17Conf{Kind: kind, Timeout: to}}) {
						return
					}
					for _, on := range []bool{false, true} {
						for _, tt := range tryTimeouts {
							for _, n := range nums {
								for _, cs := range codes {
									rp := &c17Retry{RetryOn: on, Timeout: tt, NumRetries: n, Codes: cs}
									if !yield(c17PolicyCase{Conf: c17Conf{Kind: kind, Timeout: to, Retry: rp}}) {
										return
									}
								}
							}
						}
					}
				}
			}
		},
		c17CheckPolicy)
	p.End(complete,
		fmt.Sprintf("route kinds %v x route timeout %q x { no retry_policy | retry_on {false,true} x retry_timeout %q x num_retries %v x status_codes %v }", c17Kinds, timeouts, tryTimeouts, nums, codes),
		"cartesian product. Real: json -> NewRouters -> MatchRoute -> the accessors pkg/proxy reads (parseProxyTimeout: RouteRule().GlobalTimeout(), Policy().RetryPolicy().TryTimeout(); newRetryState: RetryOn(), NumRetries(), RetryableStatusCodes()). Compared with the configured values (absent = zero / false / empty). How the proxy combines them with header- and codec-supplied timeouts and spends the retry budget is the pkg/proxy unit of C17. distinct = configuration; outcome = the five values read")
}

func c17CheckPolicy(p *vreport.Part, c c17PolicyCase) {
	text := c17ConfigJSON(c.Conf)
	rs, err, pan := c17Build(text)
	kc := c17KindClass(c.Conf.Kind)
	if pan != "" || err != nil {
		p.Violation("config: valid timeout/retry configuration rejected ("+kc+")", fmt.Sprintf("config %s: error %v panic %s", text, err, pan), c)
		return
	}
	d, err := c17Receive(c17Req{Carrier: "http1", Host: "a.com", Path: "/a"})
	if err != nil {
		vreport.HarnessError("C17", "router-timeout-retry-policy", "cannot parse harness request: "+err.Error())
		return
	}
	route, pan := c17Route(rs, d)
	if pan != "" || route == nil {
		p.Violation("setup: request not matched by its route ("+kc+")", fmt.Sprintf("config %s: route %v panic %s", text, route, pan), c)
		return
	}
	var global, try time.Duration
	var on bool
	var num uint32
	var codes []uint32
	pan = func() (panicked string) {
		defer func() {
			if x := recover(); x != nil {
				panicked = fmt.Sprint(x)
			}
		}()
		global = route.RouteRule().GlobalTimeout()
		rp := route.RouteRule().Policy().RetryPolicy()
		try, on, num, codes = rp.TryTimeout(), rp.RetryOn(), rp.NumRetries(), rp.RetryableStatusCodes()
		return ""
	}()
	if pan != "" {
		p.Violation("policy: timeout/retry accessors panic ("+kc+")", fmt.Sprintf("config %s: %s", text, pan), c)
		return
	}
	p.Distinct(text)
	p.Outcome(fmt.Sprintf("%v|%v|%v|%d|%v", global, try, on, num, codes))
	if p.WantSample() {
		p.Sample(map[string]interface{}{"config": text, "global_timeout": global.String(), "try_timeout": try.String(), "retry_on": on, "num_retries": num, "status_codes": codes})
	}
	wantGlobal := c17Dur(c.Conf.Timeout)
	var wantTry time.Duration
	var wantOn bool
	var wantNum uint32
	var wantCodes []uint32
	if c.Conf.Retry != nil {
		wantTry, wantOn, wantNum, wantCodes = c17Dur(c.Conf.Retry.Timeout), c.Conf.Retry.RetryOn, c.Conf.Retry.NumRetries, c.Conf.Retry.Codes
	}
	if global != wantGlobal {
		p.Violation("policy: route timeout differs from configuration ("+kc+")", fmt.Sprintf("config %s: expected GlobalTimeout %v, got %v", text, wantGlobal, global), c)
	}
	if try != wantTry {
		p.Violation("policy: per-try timeout differs from configuration ("+kc+")", fmt.Sprintf("config %s: expected TryTimeout %v, got %v", text, wantTry, try), c)
	}
	if on != wantOn {
		p.Violation("policy: retry_on differs from configuration ("+kc+")", fmt.Sprintf("config %s: expected RetryOn %v, got %v", text, wantOn, on), c)
	}
	if num != wantNum {
		p.Violation("policy: num_retries differs from configuration ("+kc+")", fmt.Sprintf("config %s: expected NumRetries %d, got %d", text, wantNum, num), c)
	}
	same := len(codes) == len(wantCodes)
	for i := 0; same && i < len(codes); i++ {
		same = codes[i] == wantCodes[i]
	}
	if !same {
		p.Violation("policy: retriable status codes differ from configuration ("+kc+")", fmt.Sprintf("config %s: expected %v, got %v", text, wantCodes, codes), c)
	}
}
