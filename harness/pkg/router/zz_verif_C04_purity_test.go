//go:build verif

package router

import (
	"fmt"
	"testing"
	"time"

	v2 "mosn.io/mosn/pkg/config/v2"
	"mosn.io/mosn/pkg/types"
	"mosn.io/mosn/pkg/verifrt/vreport"
)

// C04 part 3: the result is a pure function of (current configuration, request).
//
// For every accepted virtual-host set of part 1 (single-domain virtual hosts)
// with >=2 virtual hosts and every target virtual host T of it, on ONE live
// router:
//
//   phase 0  initial configuration      (vh<i>: prefix /p -> vh<i>)
//   phase 1  after AddRoute(T, prefix / -> add)   (appended: /p still goes to vh<T>, /q to add)
//   phase 2  after RemoveAllRoutes(T)
//   phase 3  after AddRoute(T, prefix / -> add) again
//
// In every phase every (Host, path in {/p,/q}) lookup is made twice and both
// results must equal the reference result for the configuration of that phase:
// lookups that select another virtual host than T are therefore required to be
// unaffected by the updates, lookups that select T to see exactly the current
// route list. The virtual host an update applies to is taken from the index
// AddRoute/RemoveAllRoutes return (how a domain string is resolved to a virtual
// host for updates is outside the statement). A lookup whose phase-0 result
// already differs from the reference is a precedence defect (part 1 reports
// it) and is not compared in later phases.
//
// A second sub-part does the same through the router manager: two named router
// configurations A and B; B is updated and replaced, lookups on A must not move.

type c04PurityCase struct {
	VHosts [][]string `json:"vhosts"`
	Target int        `json:"target"`
}

func c04PurityRoutes(i int) []v2.Router {
	return []v2.Router{c04Router(c04Rule{Kind: "prefix", Pattern: "/p"}, fmt.Sprintf("vh%d", i))}
}

// model of the current configuration: route list (rule, cluster) per virtual host
type c04ModelRoute struct {
	rule    c04Rule
	cluster string
}

// c04ModelLookup: admissible results, and the virtual host the reference selects
// (-1 none, -2 not decided: empty/invalid Host).
func c04ModelLookup(vhosts [][]string, routes [][]c04ModelRoute, q c04Req) (adm []string, vh int) {
	host, port, ok := c04ParseHost(q.Host)
	var cand []int
	if !ok {
		vh = -2
		cand = []int{-1}
		if d := c04RefDefault(vhosts); d >= 0 {
			cand = append(cand, d)
		}
	} else {
		vh, _, _ = c04RefVHost(vhosts, host, port)
		cand = []int{vh}
	}
	for _, vi := range cand {
		if vi < 0 {
			adm = append(adm, "")
			continue
		}
		var rules []c04Rule
		for _, r := range routes[vi] {
			rules = append(rules, r.rule)
		}
		a, _ := c04RefRoute(rules, q)
		for _, k := range a {
			if k < 0 {
				adm = append(adm, "")
			} else {
				adm = append(adm, routes[vi][k].cluster)
			}
		}
	}
	return
}

func c04StrIn(xs []string, x string) bool {
	for _, y := range xs {
		if x == y {
			return true
		}
	}
	return false
}

func TestVerifC04Purity(t *testing.T) {
	c04Quiet()
	p := vreport.Begin("C04", "purity-updates", time.Duration(vreport.Pick(3, 10))*time.Minute)
	opts := c04VHostOptions(false)
	complete := vreport.Run(p,
		func(yield func(c04PurityCase) bool) {
			c04GenVHostSets(opts, 3, func(vh [][]string) bool {
				if len(vh) < 2 || c04RefDuplicate(vh) {
					return true
				}
				for tgt := range vh {
					if !yield(c04PurityCase{VHosts: vh, Target: tgt}) {
						return false
					}
				}
				return true
			})
		},
		c04CheckPurity)
	p.End(complete,
		fmt.Sprintf("every accepted ordered list of 2..3 single-domain virtual hosts over %d domains x every target virtual host x phases [initial, AddRoute, RemoveAllRoutes, AddRoute] x %d Host values x paths [/p /q] x 2 repeated lookups", len(c04Domains), len(c04Hosts)),
		"cartesian product on one live router per (set, target); every lookup of every phase must equal the reference result for the configuration current in that phase (so updates of one virtual host never move lookups that select another, and repeated lookups agree); distinct = (domain set, target, phase, Host, path); outcome = (phase, selected)")
}

func c04CheckPurity(p *vreport.Part, c c04PurityCase) {
	if c.Target < 0 || c.Target >= len(c.VHosts) {
		return
	}
	cfg := c04VHostConfig(c.VHosts, c04PurityRoutes)
	rs, err, pan := c04NewRouters(cfg)
	if err != nil || pan != "" {
		// decided by part 1 (vhost-precedence); nothing to do here
		return
	}
	model := make([][]c04ModelRoute, len(c.VHosts))
	for i := range c.VHosts {
		model[i] = []c04ModelRoute{{c04Rule{Kind: "prefix", Pattern: "/p"}, fmt.Sprintf("vh%d", i)}}
	}
	// the added rule overlaps the existing one (prefix / covers /p): configuration order
	// decides, so an update that does not append at the END of the list is visible
	addRule := c04Rule{Kind: "prefix", Pattern: "/"}
	dom := c.VHosts[c.Target][0]
	phases := []string{"initial", "AddRoute", "RemoveAllRoutes", "AddRoute following RemoveAllRoutes"}
	badInitially := map[string]bool{}
	n := 0
	for ph, phName := range phases {
		idx := -1
		switch ph {
		case 1, 3:
			r := c04Router(addRule, "add")
			idx = rs.AddRoute(dom, &r)
			if idx >= 0 && idx < len(model) {
				model[idx] = append(model[idx], c04ModelRoute{addRule, "add"})
			}
		case 2:
			idx = rs.RemoveAllRoutes(dom)
			if idx >= 0 && idx < len(model) {
				model[idx] = nil
			}
		}
		if ph > 0 && idx != c.Target {
			p.Count("updates_resolved_to_another_vhost_or_none", 1)
		}
		for _, hv := range c04Hosts {
			for _, path := range []string{"/p", "/q"} {
				q := c04Req{Host: hv, Path: path, Method: "GET"}
				adm, refVH := c04ModelLookup(c.VHosts, model, q)
				var first string
				for rep := 0; rep < 2; rep++ {
					n++
					got, all, pan := c04Lookup(rs, q)
					where := fmt.Sprintf("domains %v target vh%d (%q), phase %q, Host %q path %s", c.VHosts, c.Target, dom, phName, hv, path)
					if pan != "" {
						p.Violation("purity: lookup panics", where+": panic "+pan, c)
						continue
					}
					if rep == 0 {
						first = got
						sel := "other"
						if got == fmt.Sprintf("vh%d", c.Target) || got == "add" {
							sel = "target"
						} else if got == "" {
							sel = "none"
						}
						p.Distinct(fmt.Sprintf("%s|%d|%d|%s|%s", c04DomainSetKey(c.VHosts), c.Target, ph, hv, path))
						p.Outcome(fmt.Sprintf("%s selected=%s", phName, sel))
					} else if got != first {
						p.Violation("purity: repeated lookup gives a different result",
							fmt.Sprintf("%s: first %q then %q", where, first, got), c)
					}
					if c04StrIn(adm, got) {
						// MatchAllRoutes: exactly the rules of the selected virtual host that hold, in
						// configuration order (the rules of this part have no undecided verdicts)
						if refVH != -2 && !badInitially[hv] {
							var wantAll []string
							if refVH >= 0 {
								for _, mr := range model[refVH] {
									if c04RefRule(mr.rule, q) == c04Yes {
										wantAll = append(wantAll, mr.cluster)
									}
								}
							}
							if fmt.Sprint(all) != fmt.Sprint(wantAll) {
								p.Violation("purity: MatchAllRoutes differs from the reference for the current configuration (phase "+phName+")",
									fmt.Sprintf("%s: expected %v, got %v (MatchRoute %q)", where, wantAll, all, got), c)
							}
						}
						continue
					}
					if ph == 0 {
						// precedence defect, reported by part 1 (with /p every virtual host answers
						// with its own cluster, so a wrongly selected virtual host always shows here)
						badInitially[hv] = true
						continue
					}
					if badInitially[hv] {
						continue
					}
					which := "a lookup that selects ANOTHER virtual host"
					if refVH == idx {
						which = "a lookup that selects the updated virtual host"
					} else if refVH == -2 {
						which = "a lookup with empty/invalid Host"
					}
					p.Violation(fmt.Sprintf("purity: after %s, %s differs from the reference for the current configuration", phName, which),
						fmt.Sprintf("%s: update applied to vh%d; current configuration admits %q, router returned %q (MatchAllRoutes %v)", where, idx, adm, got, all), c)
				}
			}
		}
	}
	p.EvalN(n - 1)
	if p.WantSample() {
		p.Sample(map[string]interface{}{"vhosts": c.VHosts, "target": c.Target, "lookups": n})
	}
}

// ---------------------------------------------------------------------------
// replacing / updating a DIFFERENT named router through the router manager

type c04MgrCase struct {
	A [][]string `json:"a"`
	B [][]string `json:"b"`
}

func TestVerifC04PurityOtherRouter(t *testing.T) {
	c04Quiet()
	p := vreport.Begin("C04", "purity-other-router", 3*time.Minute)
	opts := c04VHostOptions(false)
	maxLen := vreport.Pick(2, 3)
	// B: a few fixed configurations sharing domains with A
	bs := [][][]string{{{"*"}}, {{"a.com"}, {"*.com"}}, {{"*.a.com"}, {"a.com:80"}, {"*"}}}
	complete := vreport.Run(p,
		func(yield func(c04MgrCase) bool) {
			c04GenVHostSets(opts, maxLen, func(vh [][]string) bool {
				if c04RefDuplicate(vh) {
					return true
				}
				for _, b := range bs {
					if !yield(c04MgrCase{A: vh, B: b}) {
						return false
					}
				}
				return true
			})
		},
		func(p *vreport.Part, c c04MgrCase) {
			if len(c.A) == 0 || len(c.B) == 0 || len(c.B[0]) == 0 {
				return
			}
			rm := NewRouterManager()
			cfgA := c04VHostConfig(c.A, c04PurityRoutes)
			cfgA.RouterConfigName = "verif_c04_A"
			cfgB := c04VHostConfig(c.B, func(i int) []v2.Router {
				return []v2.Router{c04Router(c04Rule{Kind: "prefix", Pattern: "/p"}, fmt.Sprintf("B%d", i))}
			})
			cfgB.RouterConfigName = "verif_c04_B"
			if err := rm.AddOrUpdateRouters(cfgA); err != nil {
				return
			}
			if err := rm.AddOrUpdateRouters(cfgB); err != nil {
				return
			}
			model := make([][]c04ModelRoute, len(c.A))
			for i := range c.A {
				model[i] = []c04ModelRoute{{c04Rule{Kind: "prefix", Pattern: "/p"}, fmt.Sprintf("vh%d", i)}}
			}
			steps := []struct {
				name string
				do   func()
			}{
				{"initial", func() {}},
				{"AddRoute on router B", func() {
					r := c04Router(c04Rule{Kind: "prefix", Pattern: "/"}, "Badd")
					rm.AddRoute("verif_c04_B", c.B[0][0], &r)
				}},
				{"RemoveAllRoutes on router B", func() { rm.RemoveAllRoutes("verif_c04_B", c.B[0][0]) }},
				{"replacing router B", func() {
					nb := c04VHostConfig(c.A, func(i int) []v2.Router {
						return []v2.Router{c04Router(c04Rule{Kind: "prefix", Pattern: "/"}, fmt.Sprintf("B2_%d", i))}
					})
					nb.RouterConfigName = "verif_c04_B"
					rm.AddOrUpdateRouters(nb)
				}},
			}
			badInitially := map[string]bool{}
			n := 0
			for si, st := range steps {
				st.do()
				w := rm.GetRouterWrapperByName("verif_c04_A")
				if w == nil || w.GetRouters() == nil {
					p.Violation("purity: router A disappears when router B is updated", fmt.Sprintf("A %v B %v after %s", c.A, c.B, st.name), c)
					return
				}
				var rs types.Routers = w.GetRouters()
				for _, hv := range c04Hosts {
					for _, path := range []string{"/p", "/q"} {
						n++
						q := c04Req{Host: hv, Path: path, Method: "GET"}
						adm, _ := c04ModelLookup(c.A, model, q)
						got, _, pan := c04Lookup(rs, q)
						p.Distinct(fmt.Sprintf("%s|%v|%d|%s|%s", c04DomainSetKey(c.A), c.B, si, hv, path))
						p.Outcome(fmt.Sprintf("%d %v", si, got != ""))
						if pan == "" && c04StrIn(adm, got) {
							continue
						}
						if si == 0 {
							badInitially[hv] = true // precedence defect, reported by part 1
							continue
						}
						if badInitially[hv] {
							continue
						}
						p.Violation("purity: lookup on router A after "+st.name+" differs from the reference for A's configuration",
							fmt.Sprintf("A %v B %v Host %q path %s: A's configuration admits %q, got %q panic %q", c.A, c.B, hv, path, adm, got, pan), c)
					}
				}
			}
			p.EvalN(n - 1)
		})
	p.End(complete,
		fmt.Sprintf("every accepted ordered list of <=%d single-domain virtual hosts as router A x 3 configurations of router B x steps [initial, AddRoute on B, RemoveAllRoutes on B, replace B] x %d Host values x paths [/p /q]", maxLen, len(c04Hosts)),
		"cartesian product through the process-wide router manager (two named configurations); every lookup on A must equal the reference for A's unchanged configuration; distinct = (A's domain set, B, step, Host, path)")
}
