//go:build verif

package router

import "strings"

// C17 reference functions, written from the property statement only:
//
//   "For the matched route MOSN applies exactly the configured actions:
//    prefix/regex path rewrite (and host rewrite towards HTTP/1.1 upstreams),
//    request and response header additions (append or overwrite) and removals
//    at route, virtual-host and router level in that order, and redirects or
//    direct responses with the configured status, location and body instead
//    of forwarding."
//
// Nothing here calls into pkg/router.

// c17RefRegex: the two rewrite rules of the alphabet, written by hand (no
// regexp engine): `^/a(.*)$` -> `/b$1` rewrites a path that starts with "/a"
// to "/b" + rest and leaves every other path alone; `b` -> `c` replaces the
// letter (the alphabet's paths contain it at most once, so "all matches" and
// "first match" readings coincide).
func c17RefRegex(pattern, subst, path string) (string, bool) {
	switch {
	case pattern == `^/a(.*)$` && subst == `/b$1`:
		if strings.HasPrefix(path, "/a") {
			return "/b" + path[2:], true
		}
		return path, true
	case pattern == `b` && subst == `c`:
		if strings.Count(path, "b") > 1 {
			return "", false
		}
		return strings.Replace(path, "b", "c", 1), true
	}
	return "", false
}

// c17RefPath returns the path an upstream attempt must carry, and whether
// the statement decides it.
//
// Decided: no rewrite configured -> unchanged; regex rewrite alone -> the
// substitution, whatever the way the route was matched; prefix rewrite alone
// on a route matched by prefix P -> the rewrite + path[len(P):] (the prefix is
// replaced once, at the front); prefix rewrite alone on a route matched by
// exact path P, for a path equal to P -> the rewrite.
//
// Not decided (enumerated, not compared): prefix and regex rewrite together;
// prefix rewrite on a route that is not matched by a path prefix or an exact
// path (regex / variable / header / dsl matches name no prefix to replace);
// a path that equals an exact-path rule only ignoring letter case.
func c17RefPath(c c17Conf, path string) (string, bool) {
	hasPrefix, hasRegex := c.PrefixRewrite != "", c.RegexPattern != ""
	switch {
	case !hasPrefix && !hasRegex:
		return path, true
	case hasPrefix && hasRegex:
		return "", false
	case hasRegex:
		return c17RefRegex(c.RegexPattern, c.RegexSubst, path)
	}
	switch {
	case strings.HasPrefix(c.Kind, "prefix:"):
		p := c.Kind[len("prefix:"):]
		if !strings.HasPrefix(path, p) {
			return "", false
		}
		return c.PrefixRewrite + path[len(p):], true
	case strings.HasPrefix(c.Kind, "path:"):
		if path == c.Kind[len("path:"):] {
			return c.PrefixRewrite, true
		}
		return "", false
	}
	return "", false
}

// c17RefHost returns the Host an HTTP/1.1 upstream attempt must carry.
// Decided: host_rewrite alone -> that value; auto_host_rewrite_header alone ->
// the value of that request header if the request has it, else the original
// host; neither -> the original host. Both together: not decided.
func c17RefHost(c c17Conf, q c17Req) (string, bool) {
	switch {
	case c.HostRewrite != "" && c.HostHeader != "":
		return "", false
	case c.HostRewrite != "":
		return c.HostRewrite, true
	case c.HostHeader != "":
		for _, kv := range q.Headers {
			if strings.EqualFold(kv[0], c.HostHeader) {
				return kv[1], true
			}
		}
	}
	return q.Host, true
}

// c17RefHeader applies the three levels, in the order route, virtual host,
// router, to the list of values the message carries for the key: an addition
// with append=true adds the value after the existing ones, an addition with
// append=false replaces them all, a removal deletes them all.
func c17RefHeader(initial []string, muts [3]c17Mut) []string {
	vals := append([]string(nil), initial...)
	for _, m := range muts {
		switch m.Op {
		case "append":
			vals = append(vals, m.Value)
		case "overwrite":
			vals = []string{m.Value}
		case "remove":
			vals = nil
		}
	}
	return vals
}

// c17RefLocation: the redirect target is the request's own URL with the
// configured parts replaced. Decided unless the scheme changes while the
// host that ends up in the location is not configured and carries the
// default port of either scheme (whether ":80"/":443" is then dropped is not
// in the statement).
func c17RefLocation(rd c17Redirect, curScheme string, q c17Req) (string, bool) {
	scheme, host, path := curScheme, q.Host, q.Path
	if rd.Scheme != "" {
		scheme = rd.Scheme
	}
	if rd.Host != "" {
		host = rd.Host
	}
	if rd.Path != "" {
		path = rd.Path
	}
	if scheme != curScheme && rd.Host == "" && (strings.HasSuffix(host, ":80") || strings.HasSuffix(host, ":443")) {
		return "", false
	}
	loc := scheme + "://" + host + path
	if q.Query != "" {
		loc += "?" + q.Query
	}
	return loc, true
}
