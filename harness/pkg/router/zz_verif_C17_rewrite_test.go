//go:build verif

package router

import (
	"fmt"
	"strings"
	"testing"
	"time"

	"mosn.io/mosn/pkg/types"
	"mosn.io/mosn/pkg/verifrt/vreport"
)

// C17 router seam, part 1: path and host rewrite.
//
// One default virtual host with one route; the route is matched in each of
// the seven ways NewRouteBase knows, carries every combination of
// prefix_rewrite x regex_rewrite x host_rewrite x auto_host_rewrite_header,
// and is probed with every HTTP/1 request of paths x query x "request has the
// auto-host header". After MatchRoute the harness does what
// downStream.receiveHeaders does (RouteRule().FinalizeRequestHeaders) and what
// the HTTP/1 client stream does before serialising
// (FillRequestHeadersFromCtxVar), and compares request URI and Host of the
// upstream request with the reference.

type c17RewriteCase struct {
	Conf c17Conf `json:"conf"`
	Req  c17Req  `json:"req"`
}

var (
	c17PrefixRewrites = []string{"", "/x", "/"}
	c17RegexRewrites  = [][2]string{{"", ""}, {`^/a(.*)$`, `/b$1`}, {`b`, `c`}}
	// the four paths of the DESIGN entry, plus a path that equals the exact-path
	// rule only ignoring case and a path in which the matched prefix occurs twice
	c17Paths        = []string{"/a", "/a/b", "/ab", "/c", "/A", "/a/a"}
	c17Queries      = []string{"", "q=1"}
	c17HostRewrites = []string{"", "h.new"}
	c17HostHeaders  = []string{"", "x-host"}
)

func c17KindClass(kind string) string {
	if i := strings.Index(kind, ":"); i >= 0 {
		return kind[:i]
	}
	return kind
}

func c17RewriteClass(c c17Conf) string {
	var s []string
	if c.PrefixRewrite != "" {
		s = append(s, "prefix_rewrite")
	}
	switch c.RegexPattern {
	case "":
	case "b":
		s = append(s, "regex_rewrite(one-character pattern)")
	default:
		s = append(s, "regex_rewrite")
	}
	if len(s) == 0 {
		return "none"
	}
	return strings.Join(s, "+")
}

func c17HostClass(c c17Conf) string {
	var s []string
	if c.HostRewrite != "" {
		s = append(s, "host_rewrite")
	}
	if c.HostHeader != "" {
		s = append(s, "auto_host_rewrite_header")
	}
	if len(s) == 0 {
		return "none"
	}
	return strings.Join(s, "+")
}

// c17MutVectors: the request header mutation vectors a rewrite is combined
// with: all 4^3-1 non-empty ones in the thorough tier; in the quick tier the
// seven with one operation kind on a non-empty subset of levels, for each of
// append / overwrite, plus two mixed ones.
func c17MutVectors(all bool) [][3]c17Mut {
	mk := func(ops [3]string) [3]c17Mut {
		var m [3]c17Mut
		for l, op := range ops {
			if op != "" {
				m[l] = c17Mut{Op: op, Key: "x-k"}
				if op != "remove" {
					m[l].Value = c17LevelValues[l]
				}
			}
		}
		return m
	}
	var out [][3]c17Mut
	if all {
		for _, a := range c17Ops {
			for _, b := range c17Ops {
				for _, c := range c17Ops {
					if a+b+c != "" {
						out = append(out, mk([3]string{a, b, c}))
					}
				}
			}
		}
		return out
	}
	for _, op := range []string{"append", "overwrite"} {
		for mask := 1; mask < 8; mask++ {
			var ops [3]string
			for l := 0; l < 3; l++ {
				if mask&(1<<l) != 0 {
					ops[l] = op
				}
			}
			out = append(out, mk(ops))
		}
	}
	out = append(out, mk([3]string{"overwrite", "remove", "append"}), mk([3]string{"remove", "append", "overwrite"}))
	return out
}

func TestVerifC17Rewrites(t *testing.T) {
	c17Quiet()
	p := vreport.Begin("C17", "router-rewrites", 3*time.Minute)
	mutVectors := c17MutVectors(vreport.Thorough())
	complete := vreport.Run(p,
		func(yield func(c17RewriteCase) bool) {
			for _, kind := range c17Kinds {
				for _, pr := range c17PrefixRewrites {
					for _, rr := range c17RegexRewrites {
						for _, hr := range c17HostRewrites {
							for _, hh := range c17HostHeaders {
								conf := c17Conf{Kind: kind, PrefixRewrite: pr, RegexPattern: rr[0], RegexSubst: rr[1], HostRewrite: hr, HostHeader: hh}
								for _, path := range c17Paths {
									for _, qs := range c17Queries {
										for _, hasHostHdr := range []bool{false, true} {
											if hasHostHdr && hh == "" {
												continue
											}
											q := c17Req{Carrier: "http1", Host: "a.com", Path: path, Query: qs}
											if hasHostHdr {
												q.Headers = [][2]string{{"x-host", "h.hdr"}}
											}
											if !yield(c17RewriteCase{Conf: conf, Req: q}) {
												return
											}
											// the same rewrite together with header mutations of the three levels
											// (the request then carries x-k once)
											q.Headers = append(append([][2]string(nil), q.Headers...), [2]string{"x-k", "0"})
											for _, mv := range mutVectors {
												cm := conf
												cm.Req = mv
												if !yield(c17RewriteCase{Conf: cm, Req: q}) {
													return
												}
											}
										}
									}
								}
							}
						}
					}
				}
			}
		},
		c17CheckRewrite)
	p.End(complete,
		fmt.Sprintf("route kinds %v x prefix_rewrite %q x regex_rewrite %q x host_rewrite %q x auto_host_rewrite_header %q x paths %v x query %q x request carries the auto-host header or not x { no header mutation | request carries x-k once and (route, virtual host, router) request header mutations from %d vectors (thorough: all 4^3-1; quick: append or overwrite on every non-empty subset of levels + 2 mixed) }; HTTP/1 request header object + variables as the HTTP/1 server stream provides them", c17Kinds, c17PrefixRewrites, c17RegexRewrites, c17HostRewrites, c17HostHeaders, c17Paths, c17Queries, len(mutVectors)),
		"cartesian product. Real: json -> v2.RouterConfiguration -> NewRouters -> MatchRoute -> RouteRule().FinalizeRequestHeaders (as downStream.receiveHeaders) -> stream/http.FillRequestHeadersFromCtxVar (as clientStream.AppendHeaders). Compared: the upstream request URI must be <reference path>[?<query>] and the upstream Host the reference host. Reference path: no rewrite -> unchanged; regex_rewrite alone -> hand-written substitution, for every route kind; prefix_rewrite alone on a prefix-matched route -> rewrite + rest (prefix replaced once at the front), on an exact-path route -> the rewrite. Reference host: host_rewrite; else value of the auto_host_rewrite_header header if the request has it; else unchanged. Where header mutations are combined, the x-k values must equal the reference of the request-headers part. Enumerated but NOT compared (statement silent): prefix_rewrite together with regex_rewrite; prefix_rewrite on routes matched by regex / variable / headers / dsl (no prefix named); a path equal to the exact-path rule only ignoring case; host_rewrite together with auto_host_rewrite_header; whether and where the original path is recorded (x-mosn-original-path is only part of the outcome key); auto_host_rewrite=true (needs a live STRICT_DNS cluster, not built here). Requests the route does not match are counted and skipped (matching is C04). distinct = (route kind, rewrite config, path, query, host config, reference path/host); outcome = (upstream URI, Host, original-path header)")
}

func c17CheckRewrite(p *vreport.Part, c c17RewriteCase) {
	text := c17ConfigJSON(c.Conf)
	rs, err, pan := c17Build(text)
	if pan != "" || err != nil {
		p.Violation("config: valid rewrite configuration rejected ("+c17KindClass(c.Conf.Kind)+", "+c17RewriteClass(c.Conf)+")", fmt.Sprintf("config %s: error %v panic %s", text, err, pan), c)
		return
	}
	d, err := c17Receive(c.Req)
	if err != nil {
		vreport.HarnessError("C17", "router-rewrites", "cannot parse harness request: "+err.Error())
		return
	}
	route, pan := c17Route(rs, d)
	if pan != "" {
		p.Violation("route lookup panics", fmt.Sprintf("config %s request %s: %s", text, c.Req, pan), c)
		return
	}
	if route == nil {
		p.Count("requests_not_matched_by_the_route(skipped)", 1)
		if c17KindMatches(c.Conf.Kind, c.Req.Path) {
			p.Violation("setup: request not matched by its route ("+c17KindClass(c.Conf.Kind)+")", fmt.Sprintf("config %s request %s: MatchRoute returned nil", text, c.Req), c)
		}
		return
	}
	if pan := c17FinalizeRequest(route, d); pan != "" {
		p.Violation("FinalizeRequestHeaders panics ("+c17KindClass(c.Conf.Kind)+", "+c17RewriteClass(c.Conf)+", "+c17HostClass(c.Conf)+")", fmt.Sprintf("config %s request %s: %s", text, c.Req, pan), c)
		return
	}
	up := c17Send(d)
	orig := strings.Join(up.Headers[strings.ToLower(types.HeaderOriginalPath)], ",")

	wantPath, pathDecided := c17RefPath(c.Conf, c.Req.Path)
	wantHost, hostDecided := c17RefHost(c.Conf, c.Req)
	p.Distinct(fmt.Sprintf("%s|%s|%s|%s|%s|%s|%s|%v|%s|%v|%s|%v", c17MutsString(c.Conf.Req), c.Conf.Kind, c.Conf.PrefixRewrite, c.Conf.RegexPattern, c.Req.Path, c.Req.Query, c.Conf.HostRewrite, c.Conf.HostHeader, wantPath, pathDecided, wantHost, len(c.Req.Headers)))
	p.Outcome(up.URI + "|" + up.Host + "|" + orig + "|" + strings.Join(up.Headers["x-k"], ","))
	if !pathDecided {
		p.Count("path_not_decided_by_statement", 1)
	}
	if !hostDecided {
		p.Count("host_not_decided_by_statement", 1)
	}
	if p.WantSample() {
		p.Sample(map[string]interface{}{"config": text, "request": c.Req.String(), "upstream_uri": up.URI, "upstream_host": up.Host, "original_path_header": orig,
			"reference_path": wantPath, "path_decided": pathDecided, "reference_host": wantHost, "host_decided": hostDecided})
	}
	if c.Conf.Req != ([3]c17Mut{}) {
		var initial []string
		for _, kv := range c.Req.Headers {
			if kv[0] == "x-k" {
				initial = append(initial, kv[1])
			}
		}
		hc := c17HeaderCase{Dir: "request", Kind: c.Conf.Kind, Carrier: "http1", KeyCase: "lower", Muts: c.Conf.Req, Initial: initial}
		want := c17RefHeader(initial, c.Conf.Req)
		gotFlat, _ := c17Flat(up.Headers["x-k"])
		wantFlat, _ := c17Flat(want)
		if gotFlat != wantFlat || (len(want) == 0) != (len(up.Headers["x-k"]) == 0) {
			p.Violation(fmt.Sprintf("request-headers: route kind %s, http1: %s", c17KindClass(c.Conf.Kind), c17Diagnose(hc, up.Headers["x-k"])),
				fmt.Sprintf("(combined with rewrites) config %s request %s; mutations %s: expected x-k values %v, got %v", text, c.Req, c17MutsString(c.Conf.Req), want, up.Headers["x-k"]), c)
		}
	}
	if pathDecided {
		wantURI := wantPath
		if c.Req.Query != "" {
			wantURI += "?" + c.Req.Query
		}
		origURI := c.Req.Path
		if c.Req.Query != "" {
			origURI += "?" + c.Req.Query
		}
		if up.URI != wantURI {
			what := "upstream path differs from the configured rewrite"
			switch {
			case c17RewriteClass(c.Conf) == "none":
				what = "path changed although no rewrite is configured"
			case up.URI == origURI:
				what = "configured rewrite not applied (path forwarded unchanged)"
			case up.Path == wantPath:
				what = "path rewritten but query string lost or changed"
			}
			p.Violation(fmt.Sprintf("path-rewrite: route kind %s, %s: %s", c17KindClass(c.Conf.Kind), c17RewriteClass(c.Conf), what),
				fmt.Sprintf("config %s request %s: expected upstream request URI %q, got %q (path variable %q, %s=%q)", text, c.Req, wantURI, up.URI, up.Path, types.HeaderOriginalPath, orig), c)
		}
	}
	if hostDecided && up.Host != wantHost {
		what := "upstream Host differs from the configured rewrite"
		switch {
		case c17HostClass(c.Conf) == "none":
			what = "Host changed although no host rewrite is configured"
		case up.Host == c.Req.Host:
			what = "configured host rewrite not applied (Host forwarded unchanged)"
		}
		p.Violation(fmt.Sprintf("host-rewrite: route kind %s, %s: %s", c17KindClass(c.Conf.Kind), c17HostClass(c.Conf), what),
			fmt.Sprintf("config %s request %s: expected upstream Host %q, got %q", text, c.Req, wantHost, up.Host), c)
	}
}
